"""C14 — sets and maps behave like sorted dictionaries under any update history.

A history is run instruction by instruction in one real Interpreter session (EMPTY_SET / EMPTY_MAP, UPDATE,
GET_AND_UPDATE, GET, MEM, SIZE, ITER { CONS }, MAP { ... }, PUSH of literals); after every instruction the whole
collection on the stack and the instruction's own result are read back.
(A) the same script is evaluated by Michelson/Collections.v [set_script] / [map_script] (keys compared with the
    model of pytezos' == and <) inside coqc and compared step by step;
(B) a Python reference dictionary ordered by the independent transcription of the Tezos order (c03_vals.spec_cmp)
    says what every collection and observation must be: strictly sorted, no duplicates, MEM/GET/SIZE/iteration order
    equal to the reference, literals accepted iff strictly increasing."""
from __future__ import annotations

import json

import lib
from lib import cbool, clist, cnat, cZ
import c03_vals as V
from c03 import fresh_interpreter

PROP = 'C14'
IMPORTS = 'From PV Require Import Michelson.Compare Michelson.Collections.'

KEY_TYPES = [('int',), ('string',), ('pair', ('int',), ('string',)), ('or', ('int',), ('string',)), ('option', ('int',)),
             ('address',), ('pair', ('address',), ('option', ('nat',))), ('pair', ('or', ('bool',), ('bytes',)), ('pair', ('int',), ('int',))),
             ('key_hash',), ('bytes',), ('key',), ('signature',), ('address',), ('key',), ('chain_id',), ('option', ('pair', ('string',), ('unit',))), ('or', ('unit',), ('pair', ('nat',), ('nat',)))]


def J(m):
    return json.dumps(m, sort_keys=True)


def opt_src(z):
    return 'None' if z is None else f'(Some {z})'


class Session:
    """One collection on top of a real interpreter stack; a pending observation below is dropped lazily."""

    def __init__(self, t, is_map, pool, vt=V.VT_INT):
        self.t, self.is_map, self.vt = t, is_map, vt
        self.consumed = None
        self.ts = V.type_src(t)
        self.it = fresh_interpreter()
        self.universe = {}
        for v in pool:
            self.universe.setdefault(J(V.value_micheline(v)), v)
        self.pending = False
        r = self.it.execute(f'EMPTY_MAP {self.ts} {vt.src}' if is_map else f'EMPTY_SET {self.ts}')
        assert r.error is None, r.error

    def key_of(self, x):
        return self.universe.get(J(lib.canon_micheline(V.norm_out(self.t, x.to_micheline_value(mode='readable')))),
                                 ('str', '<<foreign key>>'))

    def run(self, code, observes):
        """Execute; returns (failed, observation object or None). The collection stays on the stack."""
        pre = 'DROP; ' if self.pending else ''
        ok, r = lib.call(self.it.execute, pre + code)
        if not ok or r.error is not None:
            # the failing cell is rolled back, including the DROP of the previous observation
            return True, (str(r if not ok else r.error))[:160]
        self.pending = observes
        return False, (self.it.stack.items[0] if observes else None)

    def collection(self):
        if self.consumed is not None:
            return self.consumed            # a consuming MEM took the (non-duplicable) map off the stack
        coll = self.it.stack.items[1 if self.pending else 0]
        if self.is_map:
            return [(self.key_of(k), self.vt.decode(v)) for k, v in coll.items]
        return [self.key_of(x) for x in coll.items]


def shrink_ints(v):
    """keep integers below 2^160 in histories (the same key is rendered hundreds of times)"""
    if v[0] == 'int':
        return ('int', v[1] if abs(v[1]) < 2 ** 160 else (v[1] % 2 ** 160) * (1 if v[1] > 0 else -1))
    if v[0] == 'pair':
        return ('pair', shrink_ints(v[1]), shrink_ints(v[2]))
    if v[0] in ('some', 'left', 'right'):
        return (v[0], shrink_ints(v[1]))
    return v


def gen_pool(rng, t, k):
    return [shrink_ints(v) for v in gen_pool0(rng, t, k)]


def mixed_kinds(rng, t, k):
    """address / key / key_hash / signature pools that mix kinds, curves and notations in ONE collection: their base58
    TEXT order (KT1 < sr1 < tz1; edpk < p2pk < sppk; edsig / sig / spsig) differs from the Michelson order."""
    h = lambda n: bytes(rng.randrange(256) for _ in range(n))  # noqa: E731
    out = []
    if t[0] == 'address':
        kinds = ['tz1', 'tz2', 'tz3', 'tz4', 'KT1', 'sr1']
        rng.shuffle(kinds)
        shared = h(20)
        for kind in kinds[:max(2, k - 2)]:
            out.append(('addr', kind, shared if rng.random() < 0.4 else h(20), rng.choice([None, None, 'a', 'z'])))
        # the same contract without entrypoint (= %default) and with names on both sides of "default"
        base = rng.choice(out)
        out.append(('addr', base[1], base[2], None))
        out.append(('addr', base[1], base[2], rng.choice(['a', 'Z', '0', 'burn', 'defaul'])))
        if rng.random() < 0.5:
            out.append(('addr', base[1], base[2], rng.choice(['e', 'transfer', 'default0', 'z'])))
    elif t[0] == 'key':
        curves = ['Ed', 'Secp', 'P256', 'Bls', 'Secp', 'P256']
        rng.shuffle(curves)
        for c in curves[:k]:
            p = h(V.KEY_LEN[c])
            if c in ('Secp', 'P256'):
                p = bytes([rng.choice([2, 3])]) + p[1:]
            out.append(('key', c, p))
    elif t[0] == 'key_hash':
        curves = ['Ed', 'Secp', 'P256', 'Bls', 'Ed', 'P256']
        rng.shuffle(curves)
        for c in curves[:k]:
            out.append(('kh', c, h(20)))
    elif t[0] == 'signature':
        notes = ['sig', 'edsig', 'spsig1', 'p2sig', 'sig', 'edsig']
        rng.shuffle(notes)
        for n in notes[:k]:
            out.append(('sig', h(64), n))
        if rng.random() < 0.5:
            out.append(('sig', h(96), 'BLsig'))
    return out


def gen_pool0(rng, t, k):
    if t[0] in ('address', 'key', 'key_hash', 'signature') and rng.random() < 0.7:
        pool = mixed_kinds(rng, t, min(k, 6))
        while len(pool) < k:
            pool.append(V.mutate(rng, t, rng.choice(pool)))
        return pool
    pool = [V.gen_value(rng, t)]
    while len(pool) < k:
        pool.append(V.mutate(rng, t, rng.choice(pool)) if rng.random() < 0.8 else V.gen_value(rng, t))
    return pool


def gen_literal_keys(rng, t, pool):
    distinct = []
    for v in rng.sample(pool, rng.randrange(0, len(pool) + 1)):
        if V.canon(v) not in [V.canon(x) for x in distinct]:
            distinct.append(v)
    lit = sorted(distinct, key=V.spec_key(t))
    k = rng.random()
    if k < 0.2 and len(lit) >= 2:
        i = rng.randrange(len(lit) - 1)
        lit[i], lit[i + 1] = lit[i + 1], lit[i]
    elif k < 0.33 and lit:
        i = rng.randrange(len(lit))
        lit.insert(i + rng.choice([0, 1]), lit[i])
    elif k < 0.4:
        rng.shuffle(lit)
    return lit


def gen_literal_entries(rng, t, pool, vt):
    """Map literal entries. Besides the key patterns of gen_literal_keys, a repeated key gets values that are
    ascending / equal / descending (a check that compares whole entries instead of keys would accept the first)."""
    keys = gen_literal_keys(rng, t, pool)
    ents = [(k, vt.gen(rng)) for k in keys]
    if ents and rng.random() < 0.45:
        i = rng.randrange(len(ents))
        k = ents[i][0]
        if vt.is_int:
            lo = rng.randrange(-5, 5)
            hi = lo + rng.randrange(1, 4)
        else:
            n = 4 if vt.ticket else len(vt.lits)
            lo = rng.randrange(0, n - 1)
            hi = rng.randrange(lo + 1, n)
        a, b = rng.choice([(lo, hi), (lo, hi), (lo, lo), (hi, lo)])
        ents[i:i + 1] = [(k, a), (k, b)]
    return ents


def gen_literal_script(rng, t, pool, n, is_map, vt):
    """a history made of literal pushes (and a few observers)"""
    out = []
    for _ in range(n):
        k = rng.random()
        if k < 0.75:
            out.append(('push', gen_literal_entries(rng, t, pool, vt) if is_map else gen_literal_keys(rng, t, pool)))
        elif k < 0.85:
            out.append(('size',))
        elif k < 0.95:
            out.append(('iter',))
        else:
            out.append(('update', rng.choice(pool), vt.gen(rng)) if is_map else ('update', rng.choice(pool), True))
    return out


def gen_set_script(rng, t, pool, n):
    out = []
    for _ in range(n):
        k = rng.random()
        if k < 0.55:
            out.append(('update', rng.choice(pool), rng.random() < 0.65))
        elif k < 0.7:
            out.append(('mem', rng.choice(pool)))
        elif k < 0.78:
            out.append(('size',))
        elif k < 0.86:
            out.append(('iter',))
        else:
            out.append(('push', gen_literal_keys(rng, t, pool)))
    return out


def gen_map_script(rng, t, pool, n, vt=V.VT_INT):
    out = []
    z = lambda: vt.gen(rng)  # noqa: E731
    if vt.ticket:
        # non-duplicable values: no DUP-based observers; updates, GET_AND_UPDATE, then one consuming MEM
        for _ in range(n):
            op = 'update' if rng.random() < 0.6 else 'gau'
            out.append((op, rng.choice(pool), z() if rng.random() < 0.7 else None))
        out.append(('memc', rng.choice(pool)))
        return out
    for _ in range(n):
        k = rng.random()
        if not vt.is_int and 0.84 <= k < 0.89:
            k = 0.9            # MAP { ...; ADD } needs int values
        if k < 0.4:
            out.append(('update', rng.choice(pool), z() if rng.random() < 0.65 else None))
        elif k < 0.55:
            out.append(('gau', rng.choice(pool), z() if rng.random() < 0.6 else None))
        elif k < 0.65:
            out.append(('get', rng.choice(pool)))
        elif k < 0.72:
            out.append(('mem', rng.choice(pool)))
        elif k < 0.77:
            out.append(('size',))
        elif k < 0.84:
            out.append(('iter',))
        elif k < 0.89:
            out.append(('mapadd', z()))
        elif k < 0.92:
            out.append(('mapconst', z()))
        else:
            out.append(('push', gen_literal_entries(rng, t, pool, vt)))
    return out


# ------------------------------------------------------------------------------------ implementation

def run_set_impl(t, pool, script):
    s = Session(t, False, pool)
    ts = s.ts
    trace = []
    for ins in script:
        op = ins[0]
        if op == 'update':
            failed, o = s.run(f'PUSH bool {"True" if ins[2] else "False"}; PUSH {ts} {V.value_src(ins[1])}; UPDATE', False)
            ob = ('fail', o) if failed else ('none',)
        elif op == 'mem':
            failed, o = s.run(f'DUP; PUSH {ts} {V.value_src(ins[1])}; MEM', True)
            ob = ('fail', o) if failed else ('bool', bool(o))
        elif op == 'size':
            failed, o = s.run('DUP; SIZE', True)
            ob = ('fail', o) if failed else ('nat', int(o))
        elif op == 'iter':
            failed, o = s.run(f'DUP; NIL {ts}; SWAP; ITER {{ CONS }}', True)
            ob = ('fail', o) if failed else ('keys', [s.key_of(x) for x in reversed(list(o.items))])
        else:
            failed, o = s.run(f'DROP; PUSH (set {ts}) {{ ' + ' ; '.join(V.literal_elt_srcs(t, ins[1])) + ' }', False)
            ob = ('fail', o) if failed else ('none',)
        trace.append((s.collection(), ob))
    return trace


def run_map_impl(t, pool, script, vt=V.VT_INT):
    s = Session(t, True, pool, vt)
    ts = s.ts
    trace = []

    def opt(o):
        return None if o.is_none() else vt.decode(o.get_some())

    for ins in script:
        op = ins[0]
        if op == 'update':
            failed, o = s.run(f'{vt.push_opt(ins[2])}; PUSH {ts} {V.value_src(ins[1])}; UPDATE', False)
            ob = ('fail', o) if failed else ('none',)
        elif op == 'gau':
            failed, o = s.run(f'{vt.push_opt(ins[2])}; PUSH {ts} {V.value_src(ins[1])}; GET_AND_UPDATE', True)
            ob = ('fail', o) if failed else ('opt', opt(o))
        elif op == 'get':
            failed, o = s.run(f'DUP; PUSH {ts} {V.value_src(ins[1])}; GET', True)
            ob = ('fail', o) if failed else ('opt', opt(o))
        elif op == 'mem':
            failed, o = s.run(f'DUP; PUSH {ts} {V.value_src(ins[1])}; MEM', True)
            ob = ('fail', o) if failed else ('bool', bool(o))
        elif op == 'memc':
            before = s.collection()
            failed, o = s.run(f'PUSH {ts} {V.value_src(ins[1])}; MEM', False)
            s.consumed = before
            ob = ('fail', o) if failed else ('bool', bool(s.it.stack.items[0]))
        elif op == 'size':
            failed, o = s.run('DUP; SIZE', True)
            ob = ('fail', o) if failed else ('nat', int(o))
        elif op == 'iter':
            failed, o = s.run(f'DUP; NIL (pair {ts} {vt.src}); SWAP; ITER {{ CONS }}', True)
            ob = ('fail', o) if failed else ('elts', [(s.key_of(x.items[0]), vt.decode(x.items[1])) for x in reversed(list(o.items))])
        elif op == 'mapadd':
            failed, o = s.run(f'MAP {{ CDR; PUSH int {ins[1]}; ADD }}', False)
            ob = ('fail', o) if failed else ('none',)
        elif op == 'mapconst':
            failed, o = s.run(f'MAP {{ DROP; {vt.push_val(ins[1])} }}', False)
            ob = ('fail', o) if failed else ('none',)
        else:
            failed, o = s.run(f'DROP; PUSH (map {ts} {vt.src}) {{ ' + ' ; '.join(f'Elt {V.micheline_src(m)} {vt.lit(z)}' for m, (k, z) in zip(V.literal_michelines(t, [k for k, _ in ins[1]]), ins[1])) + ' }', False)
            ob = ('fail', o) if failed else ('none',)
        trace.append((s.collection(), ob))
    return trace


# ------------------------------------------------------------------------------------ the reference (B)

def strictly_increasing(t, ks):
    return all(V.spec_cmp(t, ks[i], ks[i + 1]) < 0 for i in range(len(ks) - 1))


def ref_set(t, script):
    cur = {}
    out = []
    for ins in script:
        op = ins[0]
        ob = ('none',)
        if op == 'update':
            c = V.canon(ins[1])
            if ins[2]:
                cur.setdefault(c, ins[1])
            else:
                cur.pop(c, None)
        elif op == 'mem':
            ob = ('bool', V.canon(ins[1]) in cur)
        elif op == 'size':
            ob = ('nat', len(cur))
        elif op == 'iter':
            ob = ('keys', sorted(cur.values(), key=V.spec_key(t)))
        else:
            if strictly_increasing(t, ins[1]):
                cur = {V.canon(v): v for v in ins[1]}
            else:
                ob = ('fail', None)
        out.append((sorted(cur.values(), key=V.spec_key(t)), ob))
    return out


def ref_map(t, script):
    cur = {}
    out = []
    lst = lambda: sorted(cur.values(), key=lambda kv: V.spec_key(t)(kv[0]))  # noqa: E731
    for ins in script:
        op = ins[0]
        ob = ('none',)
        if op in ('update', 'gau'):
            c = V.canon(ins[1])
            if op == 'gau':
                ob = ('opt', cur[c][1] if c in cur else None)
            if ins[2] is None:
                cur.pop(c, None)
            else:
                cur[c] = (cur[c][0] if c in cur else ins[1], ins[2])
        elif op == 'get':
            c = V.canon(ins[1])
            ob = ('opt', cur[c][1] if c in cur else None)
        elif op in ('mem', 'memc'):
            ob = ('bool', V.canon(ins[1]) in cur)
        elif op == 'size':
            ob = ('nat', len(cur))
        elif op == 'iter':
            ob = ('elts', lst())
        elif op == 'mapadd':
            cur = {c: (k, v + ins[1]) for c, (k, v) in cur.items()}
        elif op == 'mapconst':
            cur = {c: (k, ins[1]) for c, (k, v) in cur.items()}
        else:
            if strictly_increasing(t, [k for k, _ in ins[1]]):
                cur = {V.canon(k): (k, z) for k, z in ins[1]}
            else:
                ob = ('fail', None)
        out.append((lst(), ob))
    return out


def canon_trace(trace, is_map):
    out = []
    for coll, ob in trace:
        c = [(V.canon(k), z) for k, z in coll] if is_map else [V.canon(k) for k in coll]
        if ob[0] == 'keys':
            ob = ('keys', [V.canon(k) for k in ob[1]])
        elif ob[0] == 'elts':
            ob = ('elts', [(V.canon(k), z) for k, z in ob[1]])
        elif ob[0] == 'fail':
            ob = ('fail',)
        out.append((c, ob))
    return out


# ------------------------------------------------------------------------------------ Coq rendering

def coq_obs(ob):
    k = ob[0]
    if k == 'none':
        return 'ONone'
    if k == 'fail':
        return 'OFail'
    if k == 'bool':
        return f'(OBool {cbool(ob[1])})'
    if k == 'nat':
        return f'(ONat {cnat(ob[1])})'
    if k == 'opt':
        return f'(OOpt {lib.copt(None if ob[1] is None else cZ(ob[1]))})'
    if k == 'keys':
        return f'(OKeys {clist(V.value_coq(v) for v in ob[1])})'
    return f'(OElts {clist(f"({V.value_coq(v)}, {cZ(z)})" for v, z in ob[1])})'


def coq_set_instr(ins):
    op = ins[0]
    if op == 'update':
        return f'(SIUpdate {V.value_coq(ins[1])} {cbool(ins[2])})'
    if op == 'mem':
        return f'(SIMem {V.value_coq(ins[1])})'
    if op == 'size':
        return 'SISize'
    if op == 'iter':
        return 'SIIter'
    return f'(SIPush {clist(V.value_coq(v) for v in ins[1])})'


def coq_map_instr(ins):
    op = ins[0]
    o = lambda z: lib.copt(None if z is None else cZ(z))  # noqa: E731
    if op == 'update':
        return f'(MIUpdate {V.value_coq(ins[1])} {o(ins[2])})'
    if op == 'gau':
        return f'(MIGetAndUpdate {V.value_coq(ins[1])} {o(ins[2])})'
    if op == 'get':
        return f'(MIGet {V.value_coq(ins[1])})'
    if op in ('mem', 'memc'):
        return f'(MIMem {V.value_coq(ins[1])})'
    if op == 'size':
        return 'MISize'
    if op == 'iter':
        return 'MIIter'
    if op == 'mapadd':
        return f'(MIMapAdd {cZ(ins[1])})'
    if op == 'mapconst':
        return f'(MIMapConst {cZ(ins[1])})'
    return f'(MIPush {clist(f"({V.value_coq(k)}, {cZ(z)})" for k, z in ins[1])})'


def src_of(ins, is_map):
    """human-readable instruction for replay files"""
    def v(x):
        return V.value_src(x)
    op = ins[0]
    if op == 'update':
        return f'UPDATE {v(ins[1])} := {opt_src(ins[2]) if is_map else ins[2]}'
    if op == 'gau':
        return f'GET_AND_UPDATE {v(ins[1])} := {opt_src(ins[2])}'
    if op in ('get', 'mem', 'memc'):
        return f'{op.upper()} {v(ins[1])}'
    if op == 'push':
        return 'PUSH literal { ' + ' ; '.join((f'Elt {v(k[0])} {k[1]}' if is_map else v(k)) for k in ins[1]) + ' }'
    return op.upper() + (f' {ins[1]}' if len(ins) > 1 else '')


# ------------------------------------------------------------------------------------ run

def run(ctx: lib.Ctx) -> None:
    rng = ctx.rng
    V.install_sorted_check()
    ctx.rule = ('histories of up to 30 (quick) / 300 (thorough) instructions on one set or one map (values int) whose key type is '
                'int, string, pair, or, option, address, key_hash, bytes, key or a nested combination; keys come from a pool of 3-8 '
                'values built by single-leaf mutation (equal first pair components, same hash under another address kind, ...); '
                'instructions: UPDATE (add/remove, four map branches), GET_AND_UPDATE, GET, MEM, SIZE, ITER {CONS}, MAP {..}, '
                'PUSH of literals (sorted, adjacent swap, duplicate, shuffled); the whole collection is read after every instruction. '
                'Map values: int, or bool/string/bytes/list/set/map/option/pair with the pytezos-falsy literal (False, "", 0x, {}) drawn 45 % of the time, '
                'or non-duplicable option (ticket string) values (updates, GET_AND_UPDATE, then a consuming MEM). '
                'Every 4th history is a literal stream (pushes only; 45 % of map literals repeat a key with ascending / equal / descending values). '
                'non-trivial = some key is touched by at least two updating instructions, or a pushed literal repeats a key.')
    n_hist = ctx.n(56, 360)
    max_len = ctx.n(30, 300)
    set_cases, map_cases, meta = [], [], []
    # corpus: the histories of repaired defects run first (#11 MAP over composite keys, #4 pair order, #35 unit keys)
    P = lambda a, b: ('pair', a, b)  # noqa: E731
    tp = ('pair', ('int',), ('int',))
    kp = [P(('int', 1), ('int', 5)), P(('int', 2), ('int', 3)), P(('int', 1), ('int', 2))]
    tu = ('pair', ('unit',), ('option', ('unit',)))
    ku = [P(('unit',), ('none',)), P(('unit',), ('some', ('unit',)))]
    corpus = [
        (True, tp, kp, [('update', kp[1], 3), ('update', kp[0], 1), ('update', kp[2], 2), ('iter',), ('mapadd', 10), ('iter',), ('get', kp[0]), ('mapconst', 0), ('size',)]),
        (False, tp, kp, [('update', kp[1], True), ('update', kp[0], True), ('update', kp[2], True), ('iter',), ('push', [kp[2], kp[0], kp[1]]), ('push', [kp[0], kp[1]])]),
        (False, tu, ku, [('push', ku), ('update', ku[1], True), ('update', ku[0], True), ('mem', ku[0]), ('update', ku[1], False), ('iter',)]),
        (True, tu, ku, [('push', [(ku[0], 1), (ku[1], 2)]), ('gau', ku[0], None), ('mapadd', 1), ('iter',)]),
    ]
    H = bytes(range(1, 21))
    ka = [('addr', 'tz3', H, None), ('addr', 'KT1', H, None), ('addr', 'tz1', H, 'z'), ('addr', 'sr1', H, None), ('addr', 'tz2', bytes(20), None),
          ('addr', 'KT1', H, 'a'), ('addr', 'KT1', H, 'e'), ('addr', 'tz3', H, 'Z')]
    kk = [('key', 'P256', bytes([2]) + bytes(range(32))), ('key', 'Secp', bytes([3]) + bytes(range(32))), ('key', 'Ed', bytes(range(32))),
          ('key', 'Bls', bytes(48))]
    ks = [('sig', bytes(range(64)), 'spsig1'), ('sig', bytes([1]) + bytes(63), 'edsig'), ('sig', bytes([255]) + bytes(63), 'sig'), ('sig', bytes(96), 'BLsig')]
    for tt, kv in ((('address',), ka), (('key',), kk), (('signature',), ks)):
        corpus.append((False, tt, kv, [('update', v, True) for v in kv] + [('iter',), ('update', kv[0], False), ('update', kv[0], True), ('iter',)]))
        corpus.append((True, tt, kv, [('update', v, i) for i, v in enumerate(kv)] + [('iter',), ('gau', kv[1], None), ('update', kv[1], 9), ('iter',)]))
    for tt, vv in V.notation_duplicates(rng):
        corpus.append((False, tt, [vv[0]], [('push', list(vv)), ('size',), ('update', vv[0], True), ('push', [vv[0]]), ('iter',)]))
        corpus.append((True, tt, [vv[0]], [('push', [(vv[0], 1), (vv[1], 2)]), ('size',), ('push', [(vv[0], 5)]), ('iter',)]))
    ctx.corpus_cases = len(corpus)
    for h in range(-len(corpus), n_hist):
        vt = V.VT_INT
        if h < 0:
            is_map, t, pool, script = corpus[h]
        else:
            is_map = h % 2 == 1
            t = rng.choice(KEY_TYPES) if rng.random() < 0.8 else V.gen_type(rng, 2, allow_never=False)
            pool = gen_pool(rng, t, rng.randrange(3, 9))
            n = rng.randrange(max_len // 3, max_len + 1) if rng.random() < 0.7 else rng.randrange(1, 8)
            if is_map:
                # value type: int (arithmetic MAP bodies) 35 %, a type with a FALSY first literal 50 %, tickets (not duplicable) 15 %
                k = rng.random()
                vt = V.VT_INT if k < 0.35 else (V.VT_TICKET if k > 0.85 else rng.choice(V.VALUE_TYPES[1:]))
                if h % 8 == 3:                   # literal stream (tickets cannot be pushed)
                    if vt.ticket:
                        vt = rng.choice(V.VALUE_TYPES[:6])
                    script = gen_literal_script(rng, t, pool, min(n, 14), True, vt)
                elif vt.ticket:
                    n = min(n, 12)
                    script = gen_map_script(rng, t, pool, n, vt)
                else:
                    script = gen_map_script(rng, t, pool, n, vt)
            elif h % 8 == 6:
                script = gen_literal_script(rng, t, pool, min(n, 14), False, vt)
            else:
                script = gen_set_script(rng, t, pool, n)
        ok, trace = lib.call(run_map_impl, t, pool, script, vt) if is_map else lib.call(run_set_impl, t, pool, script)
        if not ok:
            raise lib.InternalError(f'harness failure while running a history: {trace!r}')
        want = (ref_map if is_map else ref_set)(t, script)
        touched = {}
        for ins in script:
            if ins[0] in ('update', 'gau'):
                touched[V.canon(ins[1])] = touched.get(V.canon(ins[1]), 0) + 1
        dup_lit = any(ins[0] == 'push' and len({V.canon(e[0] if is_map else e) for e in ins[1]}) < len(ins[1]) for ins in script)
        ctx.case((t, is_map, tuple(map(repr, script))), nontrivial=dup_lit or any(c >= 2 for c in touched.values()),
                 kind=f'{"map" if is_map else "set"}:{t[0]}:len{min(len(script) // 10 * 10, 300)}',
                 sample={'key_type': V.type_src(t), 'kind': 'map' if is_map else 'set', 'value_type': vt.src if is_map else None, 'instructions': [src_of(i, is_map) for i in script][:12],
                         'final_size': len(trace[-1][0])})
        for ins in script:
            ctx.dist['op:' + ins[0]] += 1
        if is_map:
            ctx.dist['values:' + vt.src] += 1
        tb = V.tables_coq(pool)
        if is_map:
            inp = f'({tb}, {clist(coq_map_instr(i) for i in script)})'
            outp = clist('(' + clist(f'({V.value_coq(k)}, {cZ(z)})' for k, z in coll) + ', ' + coq_obs(ob) + ')' for coll, ob in trace)
            map_cases.append((inp, outp))
            meta.append(('map', len(map_cases) - 1, t, pool, script, trace, want, vt))
        else:
            inp = f'({tb}, {clist(coq_set_instr(i) for i in script)})'
            outp = clist('(' + clist(V.value_coq(k) for k in coll) + ', ' + coq_obs(ob) + ')' for coll, ob in trace)
            set_cases.append((inp, outp))
            meta.append(('set', len(set_cases) - 1, t, pool, script, trace, want, vt))
    shard = 8 if ctx.thorough else 10
    sbad = set(V.par_mismatches(ctx, 'setscript', IMPORTS, 'set_script_case', 'set_script_eqb',
                                'text_tables * list (set_instr val)', 'list (list val * obs val)', set_cases, shard=shard))
    mbad = set(V.par_mismatches(ctx, 'mapscript', IMPORTS, 'map_script_case', 'map_script_eqb',
                                'text_tables * list (map_instr val)', 'list (list (val * Z) * obs val)', map_cases, shard=shard))

    reported = 0
    corr = []
    for kind, idx, t, pool, script, trace, want, vt in meta:
        is_map = kind == 'map'
        got_c, want_c = canon_trace(trace, is_map), canon_trace(want, is_map)
        if got_c != want_c:
            step = next(i for i in range(len(script)) if got_c[i] != want_c[i])
            if reported < 3:
                reported += 1
                show = lambda tr: {'collection': [(V.value_src(k[0]), k[1]) if is_map else V.value_src(k) for k in tr[0]], 'result': repr(tr[1])[:300]}  # noqa: E731
                ctx.violation(f'{kind} differs from the reference sorted dictionary after instruction {step} ({src_of(script[step], is_map)})',
                              {'key_type': V.type_src(t), 'kind': kind, 'value_type': vt.src + ' (values shown as codes: index into ' + repr([x[0] for x in (vt.lits or [])]) + ', ticket amount, or the int itself)' if is_map else None, 'instructions': [src_of(i, is_map) for i in script[:step + 1]],
                               'observed': show(trace[step]), 'expected': show(want[step]),
                               'repro': f'harness/c14.py run_{kind}_impl(type, pool, script) — EMPTY_{kind.upper()} then the listed instructions through pytezos.michelson.repl.Interpreter'})
        elif idx in (mbad if is_map else sbad):
            corr.append((kind, idx, t, script, trace))
    if corr and reported == 0:
        kind, idx, t, script, trace = corr[0]
        is_map = kind == 'map'
        cases = map_cases if is_map else set_cases
        ctx.violation('implementation no longer corresponds to the model the theorems are about',
                      {'correspondence': f'C14/{"MapType" if is_map else "SetType"} instructions vs Michelson.Collections.{kind}_script',
                       'key_type': V.type_src(t), 'instructions': [src_of(i, is_map) for i in script],
                       'model': ctx.coq_eval(IMPORTS, f'{kind}_script_case {cases[idx][0]}')[:3000], 'disagreements': len(corr)}, found=False)
    ctx.extra['histories'] = {'set': len(set_cases), 'map': len(map_cases)}
    ctx.extra['instructions_executed'] = sum(len(m[4]) for m in meta)
    V.report_sorted_check(ctx)
