"""C21 — BLS12-381 operations respect group and field laws.

(A) correspondence: programs `PUSH operands ; OP` (ADD, MUL, NEG, INT, PAIRING_CHECK on bls12_381_fr /
    g1 / g2) executed by the real pytezos Interpreter vs Michelson/Bls.v `texec`, the model instantiated
    with points given by their discrete logarithms (every point is k*G for a known k) and with the
    coordinate tables k -> affine coordinates computed by py_ecc; plus the Fr byte codec.
(B) the property's own oracle on the interpreter's outputs: identity, inverse, commutativity,
    associativity, scalar distributivity, Fr field laws, point encoding round trips through the real
    to_point/from_point, pairing-check samples (bilinearity, infinity).  Partial by nature: the group
    and pairing arithmetic itself is py_ecc's.
"""
import time

import lib
from lib import clist, cnat


def cZ(n):
    """hexadecimal literals: Coq parses them much faster than long decimal ones"""
    return f'(-0x{-n:x})%Z' if n < 0 else f'(0x{n:x})%Z'


PROP = 'C21'
IMPORTS = 'From PV Require Import Michelson.Arith Michelson.Bls.'
R = 0x73EDA753299D7D483339D80809A1D80553BDA402FFFE5BFEFFFFFFFF00000001
INF1 = bytes([0x40]) + bytes(95)
INF2 = bytes([0x40]) + bytes(191)

_INTERP = None


def interpreter():
    global _INTERP
    if _INTERP is None:
        from pytezos.michelson.repl import Interpreter
        _INTERP = Interpreter()
    _INTERP.reset()
    return _INTERP


class Curve:
    """py_ecc side: k -> point, encodings through the real pytezos classes"""

    def __init__(self):
        from py_ecc import optimized_bls12_381 as b
        from pytezos.michelson.types import BLS12_381_G1Type, BLS12_381_G2Type
        self.b, self.T1, self.T2 = b, BLS12_381_G1Type, BLS12_381_G2Type
        self.cache1, self.cache2 = {}, {}

    def p1(self, k):
        k %= R
        if k not in self.cache1:
            self.cache1[k] = self.b.multiply(self.b.G1, k)
        return self.cache1[k]

    def p2(self, k):
        k %= R
        if k not in self.cache2:
            self.cache2[k] = self.b.multiply(self.b.G2, k)
        return self.cache2[k]

    def aff1(self, k):
        x, y = self.b.normalize(self.p1(k))
        return (x.n, y.n)

    def aff2(self, k):
        x, y = self.b.normalize(self.p2(k))
        (x_re, x_im), (y_re, y_im) = x.coeffs, y.coeffs
        return (int(x_re), int(x_im), int(y_re), int(y_im))

    def enc1(self, k):
        """independent of pytezos' from_point: big-endian x || y, infinity = 0x40 00.."""
        if k % R == 0:
            return INF1
        x, y = self.aff1(k)
        return x.to_bytes(48, 'big') + y.to_bytes(48, 'big')

    def enc2(self, k):
        if k % R == 0:
            return INF2
        x_re, x_im, y_re, y_im = self.aff2(k)
        return b''.join(v.to_bytes(48, 'big') for v in (x_im, x_re, y_im, y_re))


# --------------------------------------------------------------------------------------------
# operands: ('fr_int', z) ('fr_bytes', b) ('g1', k, bytes) ('g2', k, bytes) ('int', z) ('nat', z)
#           ('pairs', [((k1, b1), (k2, b2))...])
# --------------------------------------------------------------------------------------------

def lit(o):
    t = o[0]
    if t == 'fr_int':
        return f'PUSH bls12_381_fr {o[1]}'
    if t == 'fr_bytes':
        return f'PUSH bls12_381_fr 0x{o[1].hex()}'
    if t in ('g1', 'g2'):
        return f'PUSH bls12_381_{t} 0x{o[2].hex()}'
    if t in ('int', 'nat'):
        return f'PUSH {t} {o[1]}'
    if t == 'pairs':
        items = ' ; '.join(f'Pair 0x{a[1].hex()} 0x{b[1].hex()}' for a, b in o[1])
        return f'PUSH (list (pair bls12_381_g1 bls12_381_g2)) {{ {items} }}'
    raise lib.InternalError(o)


def program(op, args):
    return ' ; '.join([lit(o) for o in reversed(args)] + [op])


def run_text(text):
    """-> ('ok', (prim, payload)) | ('fail',) | ('other', why)"""
    interp = interpreter()
    ok, res = lib.call(interp.execute, text)
    if not ok or res.error is not None:
        return ('fail',)
    items = list(interp.stack.items)
    if len(items) != 1:
        return ('other', f'{len(items)} items on the stack')
    x = items[0]
    p = x.prim
    if p == 'bls12_381_fr':
        # an odd (e.g. non-canonical) element must become an observation that mismatches, never a harness exception
        ok1, v = lib.call(lambda: int(x.to_micheline_value(mode='readable')['int']))
        if not ok1:
            ok1, v = lib.call(lambda: int(x.value))
            if not ok1:
                return ('other', f'Fr element cannot be read: {v!r}')
        ok2, b = lib.call(lambda: bytes.fromhex(x.to_micheline_value(mode='optimized')['bytes']))
        return ('ok', ('fr', v, b if ok2 else None))
    ok3, out = lib.call(lambda: ((p[-2:], bytes(x.value)) if p in ('bls12_381_g1', 'bls12_381_g2') else
                                 (p, int(x)) if p in ('int', 'nat') else ('bool', bool(x)) if p == 'bool' else None))
    if ok3 and out is not None:
        return ('ok', out)
    return ('other', f'unexpected result {p}: {out!r}')


def cB(b):
    """bytes as (B len number): number literals elaborate much faster than long string literals"""
    return f'(B {cnat(len(b))} {cZ(int.from_bytes(b, "big"))})'


def coq_operand(o):
    t = o[0]
    if t == 'g1':
        return f'(BG1 {cB(o[2])})'
    if t == 'g2':
        return f'(BG2 {cB(o[2])})'
    if t == 'int':
        return f'(BInt {cZ(o[1])})'
    if t == 'nat':
        return f'(BNat {cZ(o[1])})'
    if t == 'pairs':
        return '(BPairs ' + clist(f'({cB(a[1])}, {cB(b[1])})' for a, b in o[1]) + ')'
    raise lib.InternalError(o)


def coq_out(obs):
    if obs[0] != 'ok':
        return 'Reject'
    v = obs[1]
    if v[0] == 'fr':
        return f'(Ok (BFr {cZ(v[1])}))'
    if v[0] == 'g1':
        return f'(Ok (BG1 {cB(v[1])}))'
    if v[0] == 'g2':
        return f'(Ok (BG2 {cB(v[1])}))'
    if v[0] == 'int':
        return f'(Ok (BInt {cZ(v[1])}))'
    if v[0] == 'nat':
        return f'(Ok (BNat {cZ(v[1])}))'
    if v[0] == 'bool':
        return f'(Ok (BBool {"true" if v[1] else "false"}))'
    raise lib.InternalError(v)


OPC = {'ADD': 'BADD', 'MUL': 'BMUL', 'NEG': 'BNEG', 'INT': 'BINT', 'PAIRING_CHECK': 'BPAIRING_CHECK'}


def fr_spec(o):
    """value of an Fr literal per the Michelson reference as pytezos documents it: reduce modulo r;
    byte strings are little-endian, at most 32 bytes"""
    if o[0] == 'fr_int':
        return o[1] % R
    if len(o[1]) > 32:
        return None
    return int.from_bytes(o[1], 'little') % R


# --------------------------------------------------------------------------------------------

def scalars(rng, n):
    base = [0, 1, 2, 3, 5, 7, R - 1, R - 2, R - 3, (R - 1) // 2, (R + 1) // 2, 1 << 64, (1 << 254) + 5]
    return base + [rng.randrange(R) for _ in range(n)]


def fr_literal(rng, z=None):
    k = rng.random()
    if z is None:
        z = rng.choice([0, 1, 2, R - 1, R, R + 1, 2 * R - 1, 2 * R + 3, -1, -R, -R - 5, 1 << 255, (1 << 256) - 1, 1 << 300,
                        rng.randrange(R), rng.randrange(R), -rng.randrange(1 << 270)])
    if k < 0.5 or z < 0 or z >= 1 << 256:
        return ('fr_int', z)
    n = max(1, (z.bit_length() + 7) // 8)
    width = rng.choice([n, 32, 32, min(32, n + 1)]) if n <= 32 else 32
    return ('fr_bytes', z.to_bytes(max(width, n), 'little'))


def run(ctx: lib.Ctx) -> None:
    rng = ctx.rng
    cv = Curve()
    ctx.rule = ('PUSH operands ; OP through the pytezos Interpreter. Fr: int literals (negative, >= r, up to 2^300) and little-endian byte '
                'literals of 0..33 bytes, all MUL rows with nat/int in both orders; G1/G2: points k*G for k in {0 (infinity), 1, 2, 3, 5, 7, '
                'r-1, r-2, (r+-1)/2, 2^64, random}, non-canonical infinity encodings (flag 0x40 with other bits/bytes set), ADD/NEG/MUL '
                'including sums that hit infinity and doubling; PAIRING_CHECK on lists of 0..3 pairs with products equal and unequal to one '
                'and infinity members before / between / after the pairs that decide the verdict. non-trivial = a group/field operation on operands other than the neutral elements 0/1/infinity')
    ctx.assumptions.append('C21 (partial by nature): the curve groups, scalar multiplication, normalisation and the pairing are py_ecc code, represented in the '
                           'theorems as Section variables with the group/bilinearity laws as hypotheses; the correspondence instantiates them with '
                           'discrete logarithms modulo r and coordinate tables computed by py_ecc; that py_ecc satisfies the hypotheses is only sampled '
                           'by the oracle (identity, inverse, associativity, distributivity, bilinearity); subgroup/on-curve validation of pushed points '
                           'and rejection of Fr byte strings >= r are not performed by pytezos and not claimed')
    t0 = time.time()
    ks = scalars(rng, ctx.n(4, 40))
    cases = []  # (kind, op, args, expected discrete log or None)

    def g1(k, enc=None):
        return ('g1', k % R, enc if enc is not None else cv.enc1(k))

    def g2(k, enc=None):
        return ('g2', k % R, enc if enc is not None else cv.enc2(k))

    # ---- Fr
    for _ in range(ctx.n(60, 1500)):
        a, b = fr_literal(rng), fr_literal(rng)
        op = rng.choice(['ADD', 'MUL', 'MUL'])
        cases.append(('fr', op, [a, b]))
    for _ in range(ctx.n(30, 600)):
        a = fr_literal(rng)
        cases.append(('fr', rng.choice(['NEG', 'INT']), [a]))
    for _ in range(ctx.n(30, 600)):
        a = fr_literal(rng)
        z = lib.boundary_ints(rng) if rng.random() < 0.7 else rng.choice([0, 1, -1, R, -R, R - 1])
        t = 'nat' if z >= 0 and rng.random() < 0.5 else 'int'
        cases.append(('fr', 'MUL', [a, (t, z)] if rng.random() < 0.5 else [(t, z), a]))
    # products and literals far below zero: results must be reduced into 0 <= x < r whatever the magnitude
    big_fr = [1, 2, R - 1, R - 2, (R + 1) // 2, rng.randrange(R)]
    neg_ints = [-1, -2, -3, -(R - 1), -R, -(R + 1), -(R + 7), -(2 * R - 1), -2 * R, -(2 * R + 1), -(3 * R - 1), -3 * R - 5, -(1 << 256), -(1 << 300) - 1]
    for a in big_fr:
        for z in (neg_ints if ctx.thorough else rng.sample(neg_ints, 6) + [-(R + 7), -2]):
            o = [('fr_int', a), ('int', z)]
            cases.append(('fr', 'MUL', o if rng.random() < 0.5 else o[::-1]))
    for z in (-R - 1, -R - 7, -2 * R + 1, -2 * R - 1, -3 * R + 1, -3 * R - 1, -(1 << 256) - 3):
        cases.append(('fr', 'INT', [('fr_int', z)]))
        cases.append(('fr', 'NEG', [('fr_int', z)]))
        cases.append(('fr', 'ADD', [('fr_int', z), ('fr_int', 1)]))
    for n in (0, 1, 31, 32, 33, 40):
        body = bytes(rng.getrandbits(8) for _ in range(n))
        cases.append(('fr', 'INT', [('fr_bytes', body)]))
        cases.append(('fr', 'INT', [('fr_bytes', b'\xff' * n)]))
    # ill-typed
    cases += [('ill', 'ADD', [('fr_int', 1), ('int', 1)]), ('ill', 'ADD', [('int', 1), ('fr_int', 1)]), ('ill', 'NEG', [('fr_bytes', b'\x01' * 33)]),
              ('ill', 'MUL', [('fr_int', 2), g1(1)]), ('ill', 'ADD', [g1(1), g2(1)]), ('ill', 'MUL', [g1(1), ('nat', 2)]),
              ('ill', 'MUL', [g1(1), ('int', 2)]), ('ill', 'INT', [g1(1)]), ('ill', 'PAIRING_CHECK', [g1(1)]), ('ill', 'ADD', [g1(1)])]
    # ---- G1 / G2
    odd_inf1 = [INF1, bytes([0x40]) + b'\xff' * 95, bytes([0xC0]) + bytes(95), bytes([0x60]) + bytes(47) + b'\x01' + bytes(47), bytes([0x7f]) + b'\x11' * 95]
    odd_inf2 = [INF2, bytes([0x40]) + b'\xff' * 191, bytes([0xC0]) + bytes(191), bytes([0x41]) + b'\x22' * 191]
    npts = ctx.n(10, 60)
    for mk, odd, tag in ((g1, odd_inf1, 'g1'), (g2, odd_inf2, 'g2')):
        reps = npts if tag == 'g1' else max(4, npts // 2)
        for _ in range(reps):
            a, b = rng.choice(ks), rng.choice(ks)
            cases.append((tag, 'ADD', [mk(a), mk(b)]))
        for a in rng.sample(ks, min(len(ks), ctx.n(4, 12))):
            cases.append((tag, 'ADD', [mk(a), mk(-a)]))      # -> infinity
            cases.append((tag, 'ADD', [mk(a), mk(a)]))       # doubling
            cases.append((tag, 'ADD', [mk(0), mk(a)]))
            cases.append((tag, 'ADD', [mk(a), mk(0)]))
            cases.append((tag, 'NEG', [mk(a)]))
        for _ in range(reps):
            a = rng.choice(ks)
            s = fr_literal(rng, rng.choice([None, 0, 1, 2, R - 1, R, R + 1]))
            cases.append((tag, 'MUL', [mk(a), s]))
        for e in odd:
            cases.append((tag, 'NEG', [mk(0, e)]))
            cases.append((tag, 'ADD', [mk(0, e), mk(rng.choice(ks))]))
            cases.append((tag, 'MUL', [mk(0, e), ('fr_int', 5)]))
        cases.append((tag, 'NEG', [mk(0, b'')]))             # IndexError on value[0]
    # ---- PAIRING_CHECK
    # (a, b) stands for (a*G1, b*G2); 0 = infinity.  Infinity pairs are placed BEFORE, BETWEEN and AFTER pairs that decide the verdict
    quick_pcs = [[], [(0, 1)], [(1, 1)], [(2, 3), (R - 6, 1)], [(2, 3), (2, -3)],
                 [(0, 5), (1, 1)], [(1, 0), (2, 3)], [(0, 5), (2, 3), (R - 6, 1)], [(1, 1), (0, 5)]]
    more_pcs = [[(1, 0)], [(2, 3), (-2, 3)], [(2, 3), (3, 2)], [(1, 1), (0, 5), (R - 1, 1)], [(2, 3), (0, 5), (R - 5, 1)],
                [(0, 7), (3, 1)], [(3, 1), (0, 7)], [(2, 0), (1, 1)], [(0, 0), (1, 1)], [(0, 1), (0, 2), (1, 1), (R - 1, 1)],
                [(0, 1), (1, 0), (2, 1)], [(1, 1), (R - 1, 1), (0, 3), (1, 2)]]
    pcs = quick_pcs + (more_pcs if ctx.thorough else [])
    if ctx.thorough:
        for _ in range(20):
            a, b = rng.randrange(1, R), rng.randrange(1, R)
            inf = rng.choice([(0, rng.randrange(1, R)), (rng.randrange(1, R), 0)])
            pcs += [[(a, b), (-a * b, 1)], [(a, b), (a, b)], [(a, b), (1, -a * b + rng.choice([0, 1]))],
                    [inf, (a, b), (-a * b + rng.choice([0, 1]), 1)]]
    for pc in pcs:
        cases.append(('pairing', 'PAIRING_CHECK', [('pairs', [((a % R, cv.enc1(a)), (b % R, cv.enc2(b))) for a, b in pc])]))

    # ---- run the implementation
    coq_cases, meta, direct_bad, lenient_cases = [], [], [], []
    need1, need2 = set(), set()
    reported = 0

    def violate(what, rep):
        nonlocal reported
        if reported < 3:
            reported += 1
            ctx.violation(what, rep)

    def repro(text):
        return f"from pytezos.michelson.repl import Interpreter; i=Interpreter(); print(i.execute({text!r}).error, i.stack.items)"

    for kind, op, args in cases:
        text = program(op, args)
        obs = run_text(text)
        triv = all((o[0] in ('g1', 'g2') and o[1] == 0) or (o[0] in ('fr_int', 'int', 'nat') and o[1] in (0, 1)) for o in args)
        ctx.case((op, repr(args)), nontrivial=kind in ('fr', 'g1', 'g2', 'pairing') and not triv and bool(args and args[0] != ('pairs', [])),
                 kind=f'{kind}:{op}:{obs[0]}', sample={'program': text[:300], 'result': repr(obs)[:300]})
        if obs[0] == 'other':
            direct_bad.append((text, obs))
            continue
        # model operands: Fr literals are pushed by the model too (push_fr), points by bytes
        frs = [o for o in args if o[0] in ('fr_int', 'fr_bytes')]
        ops = []
        for o in args:
            if o[0] == 'fr_int':
                ops.append(f'(inl (FrInt {cZ(o[1])}))')
            elif o[0] == 'fr_bytes':
                ops.append(f'(inl (FrBytes {cB(o[1])}))')
            else:
                ops.append(f'(inr {coq_operand(o)})')
            if o[0] == 'g1':
                need1.add(o[1])
            if o[0] == 'g2':
                need2.add(o[1])
            if o[0] == 'pairs':
                for a, b in o[1]:
                    need1.add(a[0])
                    need2.add(b[0])
        if op == 'INT' and args and args[0][0] in ('g1', 'g2'):
            # INT on a point is accepted only because G1/G2Type subclass BytesType: outside the property, compared for the record
            lenient_cases.append((f'({OPC[op]}, {clist(ops)})', coq_out(obs)))
            continue
        coq_cases.append((f'({OPC[op]}, {clist(ops)})', coq_out(obs)))
        meta.append((kind, op, args, text, obs))
        # ---- (B) expected result from the discrete logs / field arithmetic
        want = None
        vals = [fr_spec(o) if o[0] in ('fr_int', 'fr_bytes') else o for o in args]
        if any(v is None for v in vals):
            want = ('fail',)
        elif kind == 'fr':
            nums = [v if isinstance(v, int) else v[1] for v in vals]
            if op == 'ADD':
                want = ('fr', (nums[0] + nums[1]) % R)
            elif op == 'MUL':
                want = ('fr', (nums[0] * nums[1]) % R)
            elif op == 'NEG':
                want = ('fr', (-nums[0]) % R)
            elif op == 'INT':
                want = ('int', nums[0])
        elif kind in ('g1', 'g2') and all(isinstance(v, int) or len(v[2]) in (96, 192) for v in vals):
            enc = cv.enc1 if kind == 'g1' else cv.enc2
            if op == 'ADD':
                k = vals[0][1] + vals[1][1]
            elif op == 'NEG':
                k = -vals[0][1]
            else:
                k = vals[0][1] * vals[1]
            (need1 if kind == 'g1' else need2).add(k % R)
            want = (kind, enc(k))
        elif kind == 'pairing':
            tot = sum(a[0] * b[0] for a, b in args[0][1]) % R
            want = ('bool', tot == 0)
        if want is not None:
            got = ('fail',) if obs[0] == 'fail' else (obs[1][:2] if obs[1][0] == 'fr' else obs[1])
            if got != want:
                violate(f'{op} on {kind}: result is not the group/field operation',
                        {'program': text, 'observed': repr(got)[:500], 'expected': repr(want)[:500], 'repro': repro(text)})
            if obs[0] == 'ok' and obs[1][0] == 'fr' and (obs[1][2] is None or not 0 <= obs[1][1] < R or obs[1][2] != obs[1][1].to_bytes(32, 'little')):
                violate('optimized form of an Fr value is not its 32-byte little-endian encoding',
                        {'program': text, 'observed': obs[1][2].hex() if obs[1][2] is not None else f'no 32-byte form (value {obs[1][1]})', 'repro': repro(text)})

    # ---- (B) laws on the interpreter's own outputs
    def ev(text):
        return run_text(text)

    def pt(tag, k):
        return f'PUSH bls12_381_{tag} 0x{(cv.enc1(k) if tag == "g1" else cv.enc2(k)).hex()}'

    nlaw = 0
    for tag, reps in (('g1', ctx.n(5, 40)), ('g2', ctx.n(2, 15))):
        inf = INF1 if tag == 'g1' else INF2
        T = cv.T1 if tag == 'g1' else cv.T2
        for _ in range(reps):
            a, b, c = (rng.choice(ks[1:]) for _ in range(3))
            s, t = rng.randrange(R), rng.randrange(R)
            checks = [
                ('identity', f'{pt(tag, 0)} ; {pt(tag, a)} ; ADD', f'{pt(tag, a)}'),
                ('identity', f'{pt(tag, a)} ; {pt(tag, 0)} ; ADD', f'{pt(tag, a)}'),
                ('inverse', f'{pt(tag, a)} ; DUP ; NEG ; ADD', f'PUSH bls12_381_{tag} 0x{inf.hex()}'),
                ('commutativity', f'{pt(tag, a)} ; {pt(tag, b)} ; ADD', f'{pt(tag, b)} ; {pt(tag, a)} ; ADD'),
                ('associativity', f'{pt(tag, a)} ; {pt(tag, b)} ; ADD ; {pt(tag, c)} ; ADD', f'{pt(tag, b)} ; {pt(tag, c)} ; ADD ; {pt(tag, a)} ; ADD'),
                ('scalar distributivity', f'PUSH bls12_381_fr {s} ; PUSH bls12_381_fr {t} ; ADD ; {pt(tag, a)} ; MUL',
                 f'PUSH bls12_381_fr {s} ; {pt(tag, a)} ; MUL ; PUSH bls12_381_fr {t} ; {pt(tag, a)} ; MUL ; ADD'),
                ('point distributivity', f'PUSH bls12_381_fr {s} ; {pt(tag, a)} ; {pt(tag, b)} ; ADD ; MUL',
                 f'PUSH bls12_381_fr {s} ; {pt(tag, a)} ; MUL ; PUSH bls12_381_fr {s} ; {pt(tag, b)} ; MUL ; ADD'),
                ('double negation', f'{pt(tag, a)} ; NEG ; NEG', f'{pt(tag, a)}'),
            ]
            for name, lhs, rhs in checks:
                l, r = ev(lhs), ev(rhs)
                nlaw += 1
                ctx.case(('law', name, tag, a, b, c, s, t), nontrivial=True, kind=f'law:{tag}:{name}')
                if l != r or l[0] != 'ok':
                    violate(f'{name} fails on {tag}', {'program': lhs, 'other_program': rhs, 'observed': repr(l)[:400], 'expected': repr(r)[:400],
                                                     'repro': repro(lhs) + '; ' + repro(rhs)})
        # encoding round trips through the real to_point / from_point
        encs = [(cv.enc1 if tag == 'g1' else cv.enc2)(k) for k in ks[:ctx.n(8, 40)]]
        for e in encs:
            ok, back = lib.call(lambda e=e: bytes(T.from_point(T.from_value(e).to_point()).value))
            ctx.case(('codec', tag, e), nontrivial=e != inf, kind=f'codec:{tag}')
            if not ok or back != e:
                violate(f'{tag} point encoding does not round-trip through to_point/from_point',
                        {'encoding': e.hex(), 'observed': back.hex() if ok else repr(back),
                         'repro': f"from pytezos.michelson.types import BLS12_381_{tag.upper()}Type as T; v=bytes.fromhex({e.hex()!r}); print(T.from_point(T.from_value(v).to_point()).value == v)"})
    for _ in range(ctx.n(40, 600)):
        a, b, c = rng.randrange(R), rng.randrange(R), rng.choice([0, 1, R - 1, rng.randrange(R)])
        P = 'PUSH bls12_381_fr'
        for name, lhs, rhs in (('Fr additive inverse', f'{P} {a} ; DUP ; NEG ; ADD', f'{P} 0'),
                               ('Fr associativity', f'{P} {a} ; {P} {b} ; ADD ; {P} {c} ; ADD', f'{P} {b} ; {P} {c} ; ADD ; {P} {a} ; ADD'),
                               ('Fr distributivity', f'{P} {a} ; {P} {b} ; ADD ; {P} {c} ; MUL', f'{P} {a} ; {P} {c} ; MUL ; {P} {b} ; {P} {c} ; MUL ; ADD'),
                               ('Fr identity', f'{P} {a} ; {P} 1 ; MUL', f'{P} {a}'),
                               ('Fr bytes round trip', f'{P} 0x{(a).to_bytes(32, "little").hex()} ; INT', f'PUSH int {a}')):
            l, r = ev(lhs), ev(rhs)
            nlaw += 1
            ctx.case(('law', name, a, b, c), nontrivial=True, kind=f'law:fr:{name}')
            if l != r or l[0] != 'ok':
                violate(f'{name} fails', {'program': lhs, 'other_program': rhs, 'observed': repr(l)[:300], 'expected': repr(r)[:300], 'repro': repro(lhs)})
    ctx.extra['law_checks'] = nlaw
    # fixed defects must stay fixed
    for f in ctx.known['fixed']:
        w = f.get('witness', {})
        if 'program' in w:
            obs = run_text(w['program'])
            if repr(obs) != w['expected']:
                violate(f'fixed defect is back: {f["what"]}', {'program': w['program'], 'observed': repr(obs)[:400], 'expected': w['expected'], 'repro': repro(w['program'])})
    t1 = time.time()

    # ---- (A) model inside coqc
    tab1 = clist(f'({cZ(k)}, ({cZ(x)}, {cZ(y)}))' for k in sorted(need1) if k for x, y in [cv.aff1(k)])
    tab2 = clist(f'({cZ(k)}, ({cZ(a)}, {cZ(b)}, {cZ(c)}, {cZ(d)}))' for k in sorted(need2) if k for a, b, c, d in [cv.aff2(k)])
    prelude = ('Definition B (n : nat) (z : Z) : bytes := be_digits n z.\n'
               f'Definition tab1 : list (Z * (Z * Z)) := {tab1}.\n'
               f'Definition tab2 : list (Z * (Z * Z * Z * Z)) := {tab2}.\n'
               'Definition operand (x : frlit + bval) : result bval := match x with inl l => match push_fr l with Ok z => Ok (BFr z) | Reject => Reject end | inr v => Ok v end.\n'
               'Fixpoint operands (l : list (frlit + bval)) : result (list bval) := match l with nil => Ok nil | x :: r => '
               'match operand x, operands r with Ok v, Ok vs => Ok (v :: vs) | _, _ => Reject end end.\n'
               'Definition runc (c : bop * list (frlit + bval)) : result bval := match operands (snd c) with Ok st => texec tab1 tab2 (fst c) st | Reject => Reject end.\n')
    allbad = ctx.coq_mismatches('bls', IMPORTS, 'runc', 'bres_eqb', 'bop * list (frlit + bval)', 'result bval', coq_cases + lenient_cases, shard=200, prelude=prelude)
    bad = [i for i in allbad if i < len(coq_cases)]
    lbad = [i for i in allbad if i >= len(coq_cases)]
    ctx.extra['lenient_acceptances'] = {'cases': len(lenient_cases), 'differ_from_model': len(lbad),
                                        'note': 'INT on g1/g2 values: outside the reference typing, not part of the verdict'}
    # Fr codec: to_bytes(32, little) of every Fr result, evaluated by the model
    frs = sorted({m[4][1][1:] for m in meta if m[4][0] == 'ok' and m[4][1][0] == 'fr' and m[4][1][2] is not None and m[4][1][1] >= 0})
    codec_cases = [(cZ(z), f'(Ok {cB(b)})') for z, b in frs]
    bad2 = ctx.coq_mismatches('frcodec', IMPORTS, 'fr_to_bytes', 'result_eqb bytes_eqb', 'Z', 'result bytes', codec_cases,
                              prelude='Definition B (n : nat) (z : Z) : bytes := be_digits n z.\n')
    ctx.table('FR modulus / Fr 32-byte little-endian codec (every Fr result of the run)')
    from pytezos.michelson.types import BLS12_381_FrType
    mod_ok = BLS12_381_FrType.modulus == R
    ctx.extra['timing_s'] = {'implementation+oracle': round(t1 - t0, 1), 'coqc_cases': round(time.time() - t1, 1)}
    ctx.extra['model_disagreements'] = len(bad) + len(bad2) + len(direct_bad)
    ctx.extra['table_points'] = {'g1': len(need1), 'g2': len(need2)}
    if reported == 0 and (bad or bad2 or direct_bad or not mod_ok):
        rep = {'correspondence': 'C21/Interpreter(PUSH..;OP on BLS types) vs Michelson.Bls.texec', 'fr_modulus_matches': mod_ok}
        if bad:
            kind, op, args, text, obs = meta[bad[0]]
            rep.update({'program': text, 'observed': repr(obs)[:600], 'disagreements': len(bad), 'more': [meta[i][3][:200] for i in bad[1:5]],
                        'model': ctx.coq_eval(IMPORTS, f'runc {coq_cases[bad[0]][0]}', prelude=prelude)[:1500], 'repro': repro(text)})
        elif bad2:
            rep.update({'fr_value': frs[bad2[0]][0], 'observed_bytes': frs[bad2[0]][1].hex()})
        elif direct_bad:
            rep.update({'program': direct_bad[0][0], 'observed': repr(direct_bad[0][1])})
        ctx.violation('implementation no longer corresponds to the model the theorems are about', rep, found=False)


def replay(ctx: lib.Ctx, doc: dict) -> bool:
    """./check C21 --replay file : re-run the recorded program(s); True (exit 1) if the deviation persists."""
    text = doc.get('program')
    if not text:
        return False
    obs = run_text(text)
    print('observed now:', repr(obs)[:600])
    if doc.get('other_program'):
        other = run_text(doc['other_program'])
        print('other side  :', repr(other)[:600])
        return obs != other or obs[0] != 'ok'
    if 'expected' in doc:
        got = ('fail',) if obs[0] == 'fail' else (obs[1][:2] if obs[0] == 'ok' and obs[1][0] == 'fr' else (obs[1] if obs[0] == 'ok' else obs))
        print('expected    :', doc['expected'][:600])
        return repr(got)[:500] != doc['expected'] and repr(obs) != doc['expected']
    return False
