"""Oracle-only stream for the hash instructions (outside the Coq model): BLAKE2B, SHA256, SHA512, SHA3, KECCAK executed by the
real Interpreter vs hashlib / an independent Keccak-f[1600] written here (validated against hashlib.sha3_256 on every input:
SHA3-256 and Keccak-256 differ only in the padding byte)."""
from __future__ import annotations

import hashlib

import lib

RC = [0x0000000000000001, 0x0000000000008082, 0x800000000000808A, 0x8000000080008000, 0x000000000000808B, 0x0000000080000001,
      0x8000000080008081, 0x8000000000008009, 0x000000000000008A, 0x0000000000000088, 0x0000000080008009, 0x000000008000000A,
      0x000000008000808B, 0x800000000000008B, 0x8000000000008089, 0x8000000000008003, 0x8000000000008002, 0x8000000000000080,
      0x000000000000800A, 0x800000008000000A, 0x8000000080008081, 0x8000000000008080, 0x0000000080000001, 0x8000000080008008]
ROT = [[0, 36, 3, 41, 18], [1, 44, 10, 45, 2], [62, 6, 43, 15, 61], [28, 55, 25, 21, 56], [27, 20, 39, 8, 14]]
M = (1 << 64) - 1


def _rol(x, n):
    n %= 64
    return ((x << n) | (x >> (64 - n))) & M if n else x


def _f(a):
    for rc in RC:
        c = [a[x][0] ^ a[x][1] ^ a[x][2] ^ a[x][3] ^ a[x][4] for x in range(5)]
        d = [c[(x - 1) % 5] ^ _rol(c[(x + 1) % 5], 1) for x in range(5)]
        a = [[a[x][y] ^ d[x] for y in range(5)] for x in range(5)]
        b = [[0] * 5 for _ in range(5)]
        for x in range(5):
            for y in range(5):
                b[y][(2 * x + 3 * y) % 5] = _rol(a[x][y], ROT[x][y])
        a = [[b[x][y] ^ ((~b[(x + 1) % 5][y]) & b[(x + 2) % 5][y]) for y in range(5)] for x in range(5)]
        a[0][0] ^= rc
    return a


def sponge256(data: bytes, pad: int) -> bytes:
    rate = 136
    p = bytearray(data)
    p.append(pad)
    while len(p) % rate:
        p.append(0)
    p[-1] |= 0x80
    a = [[0] * 5 for _ in range(5)]
    for off in range(0, len(p), rate):
        for i in range(rate // 8):
            a[i % 5][i // 5] ^= int.from_bytes(p[off + 8 * i: off + 8 * i + 8], 'little')
        a = _f(a)
    out = b''.join(a[i % 5][i // 5].to_bytes(8, 'little') for i in range(4))
    return out


def keccak256(data: bytes) -> bytes:
    return sponge256(data, 0x01)


REF = {
    'BLAKE2B': lambda b: hashlib.blake2b(b, digest_size=32).digest(),
    'SHA256': lambda b: hashlib.sha256(b).digest(),
    'SHA512': lambda b: hashlib.sha512(b).digest(),
    'SHA3': lambda b: hashlib.sha3_256(b).digest(),
    'KECCAK': keccak256,
}
LENGTHS = [0, 1, 2, 31, 32, 33, 55, 56, 57, 63, 64, 65, 71, 72, 73, 111, 112, 113, 119, 120, 127, 128, 129, 134, 135, 136, 137, 143,
           144, 145, 199, 200, 255, 256, 270, 271, 272, 273, 407, 408]


def run(ctx: lib.Ctx) -> None:
    from pytezos.michelson.repl import Interpreter

    assert keccak256(b'').hex() == 'c5d2460186f7233c927e7db2dcc703c0e500b653ca82273b7bfad8045d85a470'
    lengths = list(LENGTHS)
    if ctx.thorough:
        lengths += list(range(0, 300)) + [ctx.rng.randrange(300, 2000) for _ in range(40)]
    reported = 0
    for n in lengths:
        for fill in (ctx.rng.choice([0x00, 0xff, 0x80, 0x01]), None):
            data = bytes([fill] * n) if fill is not None else bytes(ctx.rng.getrandbits(8) for _ in range(n))
            if sponge256(data, 0x06) != hashlib.sha3_256(data).digest():
                raise lib.InternalError('the reference Keccak permutation of the harness disagrees with hashlib.sha3_256')
            for prim, ref in REF.items():
                r = Interpreter().execute(f'PUSH bytes 0x{data.hex()} ; {prim}')
                got = None
                if r.error is None and len(r.stack.items) == 1 and r.stack.items[0].prim == 'bytes':
                    got = bytes(r.stack.items[0].value)
                ctx.case((prim, data), nontrivial=n > 0, kind=None)
                ctx.dist['stream:hash-oracle'] += 1
                if got != ref(data) and reported < 2:
                    reported += 1
                    ctx.violation(f'{prim} differs from the reference hash (input of {n} bytes)',
                                  {'program': f'PUSH bytes 0x{data.hex()} ; {prim}', 'expected': ref(data).hex(),
                                   'implementation': got.hex() if got is not None else repr(r.error)[:200], 'stream': 'hash-oracle',
                                   'note': 'hash instructions are outside the Coq model: oracle-only comparison with hashlib / an independent Keccak-256',
                                   'repro': f"from pytezos.michelson.repl import Interpreter; print(Interpreter().execute('PUSH bytes 0x{data.hex()} ; {prim}').stack.items)"},
                                  found=True)


# --------------------------------------------------------------------------------------
# oracle-only: lambdas are packable / duplicable whatever their signature mentions, also when they sit inside a compound value
# --------------------------------------------------------------------------------------
LAMBDA_SIGS = [
    ('(ticket nat)', 'unit', '{ DROP ; UNIT }'),
    ('unit', 'operation', '{ FAILWITH }'),
    ('(big_map nat nat)', 'nat', '{ DROP ; PUSH nat 0 }'),
    ('(sapling_state 8)', 'unit', '{ DROP ; UNIT }'),
    ('(list operation)', 'unit', '{ DROP ; UNIT }'),
    ('(pair nat (ticket string))', 'unit', '{ DROP ; UNIT }'),
    ('nat', 'nat', '{ }'),
]
WRAPS = [
    ('bare', lambda sig: ''),
    ('pair', lambda sig: ' ; PUSH nat 1 ; PAIR'),
    ('option', lambda sig: ' ; SOME'),
    ('or', lambda sig: ' ; LEFT nat'),
    ('list', lambda sig: f' ; NIL (lambda {sig}) ; SWAP ; CONS'),
    ('map', lambda sig: f' ; SOME ; EMPTY_MAP nat (lambda {sig}) ; SWAP ; PUSH nat 1 ; UPDATE'),
    ('nested', lambda sig: ' ; SOME ; PUSH string "a" ; PAIR ; RIGHT unit'),
]


def lambda_signatures(ctx: lib.Ctx) -> None:
    from pytezos.michelson.repl import Interpreter
    import c01_gen

    box = c01_gen._hook_failwith()
    reported = 0
    for a, b, body in LAMBDA_SIGS:
        sig = f'{a} {b}'
        for wname, wrap in WRAPS:
            base = f'LAMBDA {a} {b} {body}{wrap(sig)}'
            for op in ('DUP', 'FAILWITH', 'PACK'):
                prog = f'{base} ; {op}'
                del box[:]
                r = Interpreter().execute(prog)
                why = None
                if op == 'DUP':
                    if r.error is not None or len(r.stack.items) != 2:
                        why = f'DUP of a {wname} holding a lambda must succeed (lambdas are duplicable whatever their signature): {r.error!r}'
                elif op == 'PACK':
                    if r.error is not None or len(r.stack.items) != 1 or r.stack.items[0].prim != 'bytes':
                        why = f'PACK of a {wname} holding a lambda must succeed (lambdas are packable whatever their signature): {r.error!r}'
                else:
                    args = getattr(r.error, 'args', ()) if r.error is not None else ()
                    if not (len(args) >= 2 and args[-2] == 'FAILWITH' and box and box[-1] is not None and args[-1] == repr(box[-1])):
                        why = f'FAILWITH on a {wname} holding a lambda must fail WITH THAT VALUE, got {r.error!r}'
                ctx.case((prog,), nontrivial=True, kind=None)
                ctx.dist['stream:lambda-signature-oracle'] += 1
                if why and reported < 2:
                    reported += 1
                    ctx.violation(why[:300], {'program': prog, 'stream': 'lambda-signature-oracle',
                                              'note': 'oracle-only (ticket / big_map / sapling_state / PACK are outside the Coq model)',
                                              'repro': f"from pytezos.michelson.repl import Interpreter; r=Interpreter().execute({prog!r}); print(r.error, r.stack)"},
                                  found=True)
