"""C17 — type annotations do not change execution or serialization.

Metamorphic twins on the real Interpreter: one program over the fragment (PUSH, UNPACK, GET n, UPDATE n, PAIR n,
UNPAIR n, CAR, CDR, PAIR, UNPAIR, COMPARE, EQ, PACK, DUP, SWAP, DROP, SOME, NONE, LEFT, RIGHT, UNIT, IF, IF_NONE,
IF_LEFT, DIP n) is run three times — with its type arguments
annotated (field and type annotations on every position, including the inner pairs of right combs),
re-annotated with other names, and stripped.
(B) the property's oracle: the three runs must give identical erased stacks (value + type without annotations),
    identical failures and identical packed bytes of every stack item.
(A) correspondence: each run's full result (annotations included) = Michelson/Comb.v `run_prog` on the same
    program, evaluated by vm_compute inside coqc."""
import lib
from lib import chex, clist, cnat, copt, cZ

PROP = 'C17'
IMPORTS = 'From PV Require Import Codec.Micheline Michelson.Comb.'
PRIMS = ['int', 'nat', 'mutez', 'string', 'bytes', 'bool', 'unit']
VALPRIMS = ['Pair', 'Some', 'None', 'Left', 'Right', 'True', 'False', 'Unit']
NAMES = ['a', 'b', 'c', 'd', 'e', 'f', 'g', 'x_1', 'yy', 'owner', 'amount', 'left', 'right']


# ---- type skeletons: ('p', prim) | ('pair', l, r) | ('option', t) | ('or', l, r) ------------------
def gen_leaf(rng, depth):
    k = rng.random()
    if depth <= 0 or k < 0.62:
        return ('p', rng.choice(PRIMS))
    if k < 0.78:
        return ('option', gen_leaf(rng, depth - 1))
    if k < 0.88:
        return ('or', gen_leaf(rng, depth - 1), gen_leaf(rng, depth - 1))
    return gen_comb(rng, depth - 1, rng.choice([2, 2, 3]))


def gen_comb(rng, depth, n):
    """right comb with n leaves; a leaf may itself be a pair (left-nested) or option/or"""
    first = gen_leaf(rng, depth) if rng.random() < 0.8 else gen_comb(rng, depth - 1, 2)
    if n == 2:
        return ('pair', first, gen_leaf(rng, depth))
    return ('pair', first, gen_comb(rng, depth, n - 1))


def annotate(rng, sk, style, in_adt=False):
    """skeleton -> Micheline type JSON. style: 'none' | 'all' | 'some'."""
    annots = []
    p = {'all': 0.9, 'some': 0.4, 'none': 0.0}[style]
    if rng.random() < p * 0.6:
        annots.append(':' + rng.choice(NAMES))
    if in_adt and rng.random() < p:
        annots.append('%' + rng.choice(NAMES))
    if sk[0] == 'p':
        out = {'prim': sk[1]}
    elif sk[0] in ('option', 'list'):
        out = {'prim': sk[0], 'args': [annotate(rng, sk[1], style)]}
    else:
        out = {'prim': sk[0], 'args': [annotate(rng, sk[1], style, True), annotate(rng, sk[2], style, True)]}
    if annots:
        out['annots'] = annots
    return out


def gen_value(rng, sk):
    k = sk[0]
    if k == 'p':
        p = sk[1]
        if p == 'int':
            return {'int': str(rng.choice([0, 1, -1, 7, -64, 127, 2 ** 70, rng.randrange(-100, 100)]))}
        if p in ('nat', 'mutez'):
            return {'int': str(rng.choice([0, 1, 2, 63, 64, 10 ** 12, rng.randrange(0, 1000)]))}
        if p == 'string':
            return {'string': rng.choice(['', 'a', 'ab', 'abc', 'b', 'hello world', 'Z'])}
        if p == 'bytes':
            return {'bytes': rng.choice(['', '00', 'ff', '0a0b', 'deadbeef', '0605'])}
        if p == 'bool':
            return {'prim': rng.choice(['True', 'False'])}
        return {'prim': 'Unit'}
    if k == 'pair':
        return {'prim': 'Pair', 'args': [gen_value(rng, sk[1]), gen_value(rng, sk[2])]}
    if k == 'option':
        return {'prim': 'None'} if rng.random() < 0.3 else {'prim': 'Some', 'args': [gen_value(rng, sk[1])]}
    if k == 'list':
        return [gen_value(rng, sk[1]) for _ in range(rng.choice([0, 1, 2, 2, 3]))]
    if rng.random() < 0.5:
        return {'prim': 'Left', 'args': [gen_value(rng, sk[1])]}
    return {'prim': 'Right', 'args': [gen_value(rng, sk[2])]}


def near_value(rng, sk, v):
    if rng.random() < 0.35:
        return v
    if sk[0] == 'pair' and rng.random() < 0.6:
        return {'prim': 'Pair', 'args': [v['args'][0], near_value(rng, sk[2], v['args'][1])]}
    return gen_value(rng, sk)


def text(m):
    """tiny Micheline -> Michelson text renderer (no dependence on pytezos' formatter)"""
    if isinstance(m, list):
        els = [text(x) for x in m]
        return '{ ' + ' ; '.join(e[1:-1] if e.startswith('(') else e for e in els) + ' }' if els else '{}'
    if 'int' in m:
        return m['int']
    if 'string' in m:
        return '"' + m['string'] + '"'
    if 'bytes' in m:
        return '0x' + m['bytes']
    parts = [m['prim']] + m.get('annots', []) + [text(a) for a in m.get('args', [])]
    return parts[0] if len(parts) == 1 else '(' + ' '.join(parts) + ')'


TYPED = ('PUSH', 'UNPACK', 'NONE', 'LEFT', 'RIGHT', 'NIL')     # instructions carrying a type argument at index 1
BRANCHY = ('IF', 'IF_NONE', 'IF_LEFT', 'IF_CONS')
BODY1 = ('ITER', 'MAP', 'LOOP')


def code_text(body):
    return '{ ' + ' ; '.join(instr_text(i) for i in body) + ' }' if body else '{}'


def instr_text(i):
    if i[0] == 'PUSH':
        return f'PUSH {text(i[1])} {text(i[2])}'
    if i[0] in ('UNPACK', 'NONE', 'LEFT', 'RIGHT', 'NIL'):
        return f'{i[0]} {text(i[1])}'
    if i[0] in BODY1:
        return f'{i[0]} {code_text(i[1])}'
    if i[0] == 'LAMBDA':
        return f'LAMBDA {text(i[1])} {text(i[2])} {code_text(i[3])}'
    if i[0] in BRANCHY:
        return f'{i[0]} {code_text(i[1])} {code_text(i[2])}'
    if i[0] == 'DIP':
        return f'DIP {i[1]} {code_text(i[2])}'
    return ' '.join(str(x) for x in i)


# ---- Python objects -> Coq literals ------------------------------------------------------------------
def c_ann(cls):
    f, t = cls.field_name, cls.type_name
    return f'(mk_ann {copt(chex(f.encode()) if f is not None else None)} {copt(chex(t.encode()) if t is not None else None)})'


def c_ty(cls):
    a = c_ann(cls)
    if cls.prim == 'pair':
        return f'(TyPair {a} {c_ty(cls.args[0])} {c_ty(cls.args[1])})'
    if cls.prim == 'option':
        return f'(TyOption {a} {c_ty(cls.args[0])})'
    if cls.prim == 'list':
        return f'(TyList {a} {c_ty(cls.args[0])})'
    if cls.prim == 'lambda':
        return f'(TyLambda {a} {c_ty(cls.args[0])} {c_ty(cls.args[1])})'
    if cls.prim == 'or':
        return f'(TyOr {a} {c_ty(cls.args[0])} {c_ty(cls.args[1])})'
    return f'(TyPrim {a} x{lib.prim_tag(cls.prim):02x})'


def c_val(x):
    from pytezos.michelson.forge import unforge_micheline
    from pytezos.michelson.types import (BoolType, BytesType, IntType, MutezType, NatType, OptionType, OrType, PairType,
                                         StringType, UnitType)
    cls = type(x)
    a = c_ann(cls)
    if isinstance(x, PairType):
        return f'(GPair {a} {c_val(x.items[0])} {c_val(x.items[1])})'
    if cls.prim == 'list':
        t = c_ty(cls.args[0])
        out = f'(GNil {a} {t})'
        for item in reversed(x.items):
            out = f'(GCons {a} {t} {c_val(item)} {out})'
        return out
    if isinstance(x, OptionType):
        if x.item is None:
            return f'(GNone {a} {c_ty(cls.args[0])})'
        return f'(GSome {a} {c_val(x.item)})'
    if isinstance(x, OrType):
        if x.is_left():
            return f'(GLeft {a} {c_val(x.items[0])} {c_ty(cls.args[1])})'
        return f'(GRight {a} {c_ty(cls.args[0])} {c_val(x.items[1])})'
    if isinstance(x, BoolType):
        return f'(GBool {a} {"true" if x.value else "false"})'
    if isinstance(x, UnitType):
        return f'(GUnit {a})'
    if isinstance(x, (IntType, NatType, MutezType)):
        return f'(GInt {a} x{lib.prim_tag(cls.prim):02x} {cZ(int(x.value))})'
    if isinstance(x, StringType):
        return f'(GStr {a} {chex(x.value.encode())})'
    if isinstance(x, BytesType):
        if x.value[:1] == b'\x05':
            return f'(GPacked {a} {lib.cnode(unforge_micheline(x.value[1:]))})'
        return f'(GByt {a} {chex(x.value)})'
    raise lib.InternalError(f'unexpected value {cls.__name__}')


def c_tyexpr(e):
    from pytezos.michelson.types.base import MichelsonType
    return c_ty(MichelsonType.match(e))


def c_code(body):
    return '(iseq ' + clist(c_instr(i) for i in body) + ')'


def c_instr(i):
    if i[0] == 'PUSH':
        return f'(IPushT {c_tyexpr(i[1])} {lib.cnode(i[2])})'
    if i[0] in ('UNPACK', 'NONE', 'LEFT', 'RIGHT', 'NIL'):
        return '(' + {'UNPACK': 'IUnpack', 'NONE': 'INone', 'LEFT': 'ILeft', 'RIGHT': 'IRight', 'NIL': 'INil'}[i[0]] + ' ' + c_tyexpr(i[1]) + ')'
    if i[0] == 'LAMBDA':
        return f'(ILambda {c_tyexpr(i[1])} {c_tyexpr(i[2])} {c_code(i[3])})'
    if i[0] in BODY1:
        return '(' + {'ITER': 'IIter', 'MAP': 'IMap', 'LOOP': 'ILoop'}[i[0]] + ' ' + c_code(i[1]) + ')'
    if i[0] in ('EQ', 'NEQ', 'LT', 'GT', 'LE', 'GE'):
        return f'(ICmpOp x{lib.prim_tag(i[0]):02x})'
    if i[0] in ('ADD', 'SUB', 'MUL'):
        return f'(IArith x{lib.prim_tag(i[0]):02x})'
    if i[0] in BRANCHY:
        return '(' + {'IF': 'IIf', 'IF_NONE': 'IIfNone', 'IF_LEFT': 'IIfLeft', 'IF_CONS': 'IIfCons'}[i[0]] + f' {c_code(i[1])} {c_code(i[2])})'
    if i[0] == 'DIP':
        return f'(IDip {cnat(i[1])} {c_code(i[2])})'
    if i[0] in ('GET', 'UPDATE', 'PAIR', 'UNPAIR') and len(i) == 2:
        return '(' + {'GET': 'IGet', 'UPDATE': 'IUpdate', 'PAIR': 'IPairN', 'UNPAIR': 'IUnpairN'}[i[0]] + ' ' + cnat(i[1]) + ')'
    return {'CAR': 'ICar', 'CDR': 'ICdr', 'PAIR': 'IPair', 'UNPAIR': 'IUnpair', 'COMPARE': 'ICompare', 'PACK': 'IPack',
            'DUP': 'IDup', 'SWAP': 'ISwap', 'DROP': 'IDrop', 'SOME': 'ISome', 'UNIT': 'IUnit', 'CONS': 'ICons', 'EXEC': 'IExec', 'APPLY': 'IApply'}[i[0]]



# ---- instruction annotations (field %x, variable @v, type :t) added to the program text -----------------------------
_OPS_RE = None


def decorate(code, seed):
    """The same program with annotations on its INSTRUCTIONS (deterministic in `seed`; None = unchanged): CAR/CDR get field
    annotations drawn from the same names the type annotations use (so that they sometimes coincide with, sometimes differ from
    the field name of the projected component), constructors get field/variable/type annotations, the rest variable annotations."""
    import random as _random
    import re as _re
    global _OPS_RE
    if seed is None:
        return code
    if _OPS_RE is None:
        _OPS_RE = _re.compile(r'(?<![A-Za-z_])(CAR|CDR|GET|UPDATE|PAIR|UNPAIR|LEFT|RIGHT|SOME|NONE|UNIT|DUP|COMPARE|EQ|PACK|UNPACK|PUSH|'
                              r'CONS|NIL|EMPTY_MAP|EMPTY_SET|LAMBDA|EXEC|APPLY|MEM|MAP|ITER)(?![A-Za-z_])( \d+)?')
    r = _random.Random(f'instr-annots:{seed}')

    def ann(m):
        op, num = m.group(1), m.group(2) or ''
        a = []
        if op in ('CAR', 'CDR'):
            if r.random() < 0.7:
                a.append('%' + r.choice(NAMES))
            if r.random() < 0.3:
                a.append('@' + r.choice(NAMES))
        elif op == 'PAIR' and not num:
            if r.random() < 0.5:
                a += ['%' + r.choice(NAMES), '%' + r.choice(NAMES)]
            if r.random() < 0.3:
                a.append('@' + r.choice(NAMES))
            if r.random() < 0.3:
                a.append(':' + r.choice(NAMES))
        elif op == 'UNPAIR' and not num:
            if r.random() < 0.4:
                a += ['%' + r.choice(NAMES), '%' + r.choice(NAMES)]
            if r.random() < 0.4:
                a += ['@' + r.choice(NAMES), '@' + r.choice(NAMES)]
        elif op in ('LEFT', 'RIGHT'):
            if r.random() < 0.5:
                a += ['%' + r.choice(NAMES), '%' + r.choice(NAMES)]
            if r.random() < 0.3:
                a.append('@' + r.choice(NAMES))
            if r.random() < 0.3:
                a.append(':' + r.choice(NAMES))
        elif op in ('SOME', 'NONE', 'UNIT', 'NIL', 'EMPTY_MAP', 'EMPTY_SET', 'LAMBDA', 'UNPACK'):
            if r.random() < 0.4:
                a.append('@' + r.choice(NAMES))
            if r.random() < 0.3:
                a.append(':' + r.choice(NAMES))
        elif op in ('MAP', 'ITER') or (op in ('GET', 'UPDATE', 'PAIR', 'UNPAIR') and num) or op in ('GET', 'UPDATE'):
            if r.random() < 0.4 and op != 'ITER' and not (op == 'UNPAIR' and num):
                a.append('@' + r.choice(NAMES))
        else:
            if r.random() < 0.4:
                a.append('@' + r.choice(NAMES))
        return op + ''.join(' ' + x for x in a) + num
    return _OPS_RE.sub(ann, code)


def strip_ty(e):
    out = {'prim': e['prim']}
    if e.get('args'):
        out['args'] = [strip_ty(a) for a in e['args']]
    return out


def run_prog(prog, iseed=None):
    """fresh Interpreter, whole program in one cell. -> (items or None, erased observation)"""
    from pytezos.michelson.repl import Interpreter
    itp = Interpreter()
    code = decorate(' ; '.join(instr_text(i) for i in prog), iseed)
    ok, res = lib.call(itp.execute, code)
    if not ok:
        return code, None, ('crash', type(res).__name__)
    if res.error is not None:
        return code, None, ('fail',)
    items = list(itp.stack.items)
    obs = ('ok', [(lib.canon_micheline(x.to_micheline_value(mode='readable')), strip_ty(type(x).as_micheline_expr()),
                   x.pack().hex(), x.pack(legacy=True).hex()) for x in items])
    return code, items, obs


# ---- program generation (stack-shape directed by probing the real interpreter step by step) -----------
def has_packed(x):
    """the value contains the result of an earlier PACK (the model does not forge, so it is never packed again)"""
    if hasattr(x, 'items'):
        return any(has_packed(i) for i in x.items if hasattr(i, 'prim'))
    if getattr(x, 'prim', '') == 'option':
        return x.item is not None and has_packed(x.item)
    if getattr(x, 'prim', '') == 'lambda':
        return True      # lambdas are not rendered by the model either
    return getattr(x, 'prim', '') == 'bytes' and x.value[:1] == b'\x05'


def gen_program(rng):
    """returns a list of abstract instructions (type arguments are skeletons, annotated per twin); generated by probing a real
    interpreter instruction by instruction, so that most programs are well-shaped"""
    from pytezos.michelson.repl import Interpreter
    from pytezos.michelson.types import BoolType, IntType, ListType, OptionType, OrType, PairType
    itp = Interpreter()

    def probe(i):
        lib.call(itp.execute, instr_text(concretize1(rng, i, 'some')))

    def junk():
        return rng.choice([[], [('DROP',)], [('UNIT',)], [('DUP',)], [('PUSH', ('p', 'int'), {'int': '7'})]])

    def gen_ops(out, budget, level):
        def emit(i):
            out.append(i)
            probe(i)

        def push(sk, v=None):
            emit(('PUSH', sk, gen_value(rng, sk) if v is None else v))
        for _ in range(budget):
            items = itp.stack.items
            top = items[0] if items else None
            depth = len(items)
            r = rng.random()
            if isinstance(top, BoolType) and r < 0.7:
                taken = bool(top.value)
                lib.call(itp.execute, 'DROP')
                body = []
                gen_ops(body, rng.randrange(0, 3), level + 1)
                out.append(('IF', body, junk()) if taken else ('IF', junk(), body))
            elif isinstance(top, OptionType) and r < 0.6 and level < 3:
                is_none = top.item is None
                lib.call(itp.execute, 'IF_NONE {} {}')
                body = []
                gen_ops(body, rng.randrange(0, 3), level + 1)
                out.append(('IF_NONE', body, junk()) if is_none else ('IF_NONE', junk(), body))
            elif isinstance(top, OrType) and r < 0.6 and level < 3:
                is_left = top.is_left()
                lib.call(itp.execute, 'IF_LEFT {} {}')
                body = []
                gen_ops(body, rng.randrange(0, 3), level + 1)
                out.append(('IF_LEFT', body, junk()) if is_left else ('IF_LEFT', junk(), body))
            elif isinstance(top, IntType) and type(top).prim == 'int' and r < 0.5:
                emit((rng.choice(['EQ', 'EQ', 'NEQ', 'LT', 'GT', 'LE', 'GE']),))
            elif isinstance(top, ListType) and r < 0.75:
                first = top.items[0] if top.items else None
                if r < 0.2 and level < 3:
                    nonempty = len(top.items) > 0
                    lib.call(itp.execute, 'IF_CONS {} {}')
                    body = []
                    gen_ops(body, rng.randrange(0, 3), level + 1)
                    out.append(('IF_CONS', body, junk()) if nonempty else ('IF_CONS', junk(), body))
                elif r < 0.4:
                    emit(('ITER', rng.choice([[('DROP',)], [('SOME',), ('DROP',)], [('DUP',), ('PAIR',), ('DROP',)]])))
                elif r < 0.7:
                    if isinstance(first, PairType):
                        k = len(list(first.iter_comb()))
                        body = rng.choice([[('CAR',)], [('CDR',)], [('GET', rng.randrange(0, 2 * k))], [], [('DUP',), ('PAIR',)],
                                           [('UNPAIR',), ('SWAP',), ('PAIR',)]])
                    else:
                        body = rng.choice([[], [('DUP',), ('PAIR',)], [('UNIT',), ('SWAP',), ('PAIR',)], [('DUP',), ('COMPARE',)]])
                    emit(('MAP', body))
                else:
                    emit(('PACK',) if not has_packed(top) else ('DUP',))
            elif r < 0.07:
                # a counting LOOP whose body touches the value below
                k = rng.choice([0, 1, 2, 3])
                inner = rng.choice([[], [('DUP',), ('DROP',)], [('DUP',), ('PACK',), ('DROP',)], [('DUP',), ('SOME',), ('DROP',)]])
                if top is None or has_packed(top):
                    inner = []
                emit(('PUSH', ('p', 'int'), {'int': str(k)}))
                emit(('DUP',))
                emit(('GT',))
                emit(('LOOP', [('DIP', 1, inner), ('PUSH', ('p', 'int'), {'int': '1'}), ('SWAP',), ('SUB',), ('DUP',), ('GT',)]))
                emit(('DROP',))
            elif r < 0.12:
                # lists built with NIL / CONS from annotated element types
                sk = gen_comb(rng, 1, rng.choice([2, 3])) if rng.random() < 0.7 else gen_leaf(rng, 0)
                emit(('NIL', sk))
                for _ in range(rng.choice([1, 2, 2])):
                    push(sk)
                    emit(('CONS',))
            elif r < 0.15:
                push(('list', gen_comb(rng, 1, rng.choice([2, 3]))))
            elif r < 0.21:
                # LAMBDA / EXEC and LAMBDA / APPLY / EXEC with annotated parameter types and a projection body
                P = gen_comb(rng, 1, rng.choice([2, 3, 4]))
                if rng.random() < 0.5:
                    code, R = proj_code(rng, P)
                    body = [tuple([c.split()[0]] + [int(x) for x in c.split()[1:]]) for c in code]
                    emit(('LAMBDA', P, R, body))
                    push(P)
                    emit(('EXEC',))
                else:
                    RT = gen_leaf(rng, 1)
                    code, R = proj_code(rng, P)
                    body = [('CAR',)] + [tuple([c.split()[0]] + [int(x) for x in c.split()[1:]]) for c in code]
                    emit(('LAMBDA', ('pair', P, RT), R, body))
                    push(P)
                    emit(('APPLY',))
                    if rng.random() < 0.85:
                        push(RT)
                        emit(('EXEC',))
            elif r < 0.19:
                emit(('PUSH', ('p', rng.choice(['int', 'nat'])), {'int': str(rng.choice([0, 1, 5, 12]))}))
                emit(('PUSH', ('p', rng.choice(['int', 'nat'])), {'int': str(rng.choice([0, 2, 7, 100]))}))
                emit((rng.choice(['ADD', 'SUB', 'MUL']),))
            elif r < 0.08 and depth >= 2 and level < 2:
                n = rng.choice([1, 1, 2, depth - 1])
                held = items[:n]
                del items[:n]
                body = []
                gen_ops(body, rng.randrange(1, 3), level + 1)
                itp.stack.items[0:0] = held
                out.append(('DIP', n, body))
            elif r < 0.16 and top is not None:
                k2 = rng.random()
                if k2 < 0.4:
                    emit(('SOME',))
                elif k2 < 0.7:
                    emit((rng.choice(['LEFT', 'RIGHT']), gen_leaf(rng, 1) if rng.random() < 0.6 else gen_comb(rng, 1, 2)))
                else:
                    emit(('NONE', gen_comb(rng, 1, rng.choice([2, 3]))))
            elif isinstance(top, PairType):
                k = len(list(top.iter_comb()))
                if r < 0.32:
                    emit(('GET', rng.choice([0, 1, 2, 3, 2 * k - 2, 2 * k - 1, 2 * k, rng.randrange(0, 2 * k + 2)])))
                elif r < 0.50:
                    el = gen_leaf(rng, 1) if rng.random() < 0.6 else gen_comb(rng, 1, rng.choice([2, 3]))
                    push(el)
                    emit(('UPDATE', rng.choice([0, 1, 2, 3, 4, 2 * k - 2, 2 * k - 1, rng.randrange(0, 2 * k + 1)])))
                elif r < 0.62:
                    emit(('UNPAIR', rng.choice([2, 2, 3, k, k, max(2, k - 1), k + 1, 1])))
                elif r < 0.70:
                    emit((rng.choice(['CAR', 'CDR', 'UNPAIR']),))
                elif r < 0.80 and not has_packed(top):
                    emit(('PACK',))
                elif r < 0.88:
                    emit(('DUP',))
                else:
                    push(gen_leaf(rng, 1))
                    emit((rng.choice(['PAIR', 'SWAP']),))
            else:
                if r < 0.36 and depth >= 2:
                    emit(('PAIR', rng.choice([2, 2, 3, depth, depth + 1, 1])))
                elif r < 0.48 and depth >= 2:
                    emit((rng.choice(['PAIR', 'SWAP', 'DROP']),))
                elif r < 0.58 and top is not None and not has_packed(top):
                    emit(('PACK',))
                elif r < 0.70:
                    # PACK a known value and read it back at the same (or another) type
                    sk = gen_comb(rng, 1, rng.choice([2, 3, 4, 5])) if rng.random() < 0.8 else gen_leaf(rng, 1)
                    push(sk)
                    emit(('PACK',))
                    emit(('UNPACK', sk if rng.random() < 0.8 else gen_comb(rng, 1, rng.choice([2, 3, 4]))))
                elif r < 0.86:
                    sk = gen_comb(rng, 1, rng.choice([2, 3, 4]))
                    v = gen_value(rng, sk)
                    push(sk, v)
                    push(sk, near_value(rng, sk, v))
                    emit(('COMPARE',))
                else:
                    push(gen_comb(rng, 1, rng.choice([2, 3, 4, 5])))
    prog = []
    n = rng.choice([2, 3, 3, 4, 4, 5, 6])
    sk = gen_comb(rng, 2, n)
    first = ('PUSH', sk, gen_value(rng, sk))
    prog.append(first)
    probe(first)
    gen_ops(prog, rng.randrange(1, 7), 0)
    if rng.random() < 0.12:
        op = rng.choice(['CAR', 'CDR', 'GET', 'UNPAIR', 'COMPARE', 'UPDATE', 'PAIR', 'EQ', 'IF_NONE', 'IF_LEFT', 'SOME', 'CONS', 'ADD', 'IF_CONS'])
        its = itp.stack.items
        if op == 'COMPARE' and len(its) >= 2 and (has_packed(its[0]) or has_packed(its[1])):
            op = 'CAR'      # the model does not forge: packed bytes are never compared
        if op in ('IF_NONE', 'IF_LEFT', 'IF_CONS'):
            prog.append((op, [], []))
        else:
            prog.append((op, rng.randrange(0, 9)) if op in ('GET', 'UPDATE', 'PAIR', 'UNPAIR') and (op in ('GET', 'UPDATE') or rng.random() < 0.5) else (op,))
    return prog


def concretize1(rng, i, style):
    if i[0] in TYPED:
        return (i[0], annotate(rng, i[1], style)) + tuple(i[2:])
    if i[0] in BRANCHY:
        return (i[0], concretize(rng, i[1], style), concretize(rng, i[2], style))
    if i[0] == 'DIP':
        return ('DIP', i[1], concretize(rng, i[2], style))
    if i[0] in BODY1:
        return (i[0], concretize(rng, i[1], style))
    if i[0] == 'LAMBDA':
        return ('LAMBDA', annotate(rng, i[1], style), annotate(rng, i[2], style), concretize(rng, i[3], style))
    return i


def concretize(rng, prog, style):
    return [concretize1(rng, i, style) for i in prog]


def n_instr(prog):
    return sum(1 + (n_instr(i[1]) + n_instr(i[2]) if i[0] in BRANCHY else n_instr(i[2]) if i[0] == 'DIP' else n_instr(i[1]) if i[0] in BODY1 else 0)
               for i in prog)



# ---- second stream: wider instruction set, twins only (no model): collections, lambdas, MAP/ITER bodies ----------
def proj_code(rng, sk, want_leaf=True):
    """random valid projection code for a value of skeleton sk (CAR/CDR/GET n), returns (code, resulting skeleton)"""
    code = []
    cur = sk
    for _ in range(rng.randrange(0, 4)):
        if cur[0] != 'pair':
            break
        leaves = []
        c = cur
        while c[0] == 'pair':
            leaves.append(c[1])
            c = c[2]
        leaves.append(c)
        r = rng.random()
        if r < 0.35:
            code.append('CAR')
            cur = cur[1]
        elif r < 0.6:
            code.append('CDR')
            cur = cur[2]
        else:
            k = rng.randrange(0, len(leaves))
            if k < len(leaves) - 1:
                code.append(f'GET {2 * k + 1}')
                cur = leaves[k]
            else:
                code.append(f'GET {2 * k}')
                cur = leaves[k]
    return code, cur


def comparable_sk(rng, n):
    first = ('p', rng.choice(['int', 'nat', 'string', 'bytes', 'bool', 'mutez']))
    if n <= 1:
        return first
    return ('pair', first, comparable_sk(rng, n - 1))


def annotate_named(sk, names):
    """type JSON of the skeleton whose pair components get the field names of `names` in order (None = no annotation)"""
    def go(t, name):
        if t[0] == 'p':
            out = {'prim': t[1]}
        elif t[0] in ('option', 'list'):
            out = {'prim': t[0], 'args': [go(t[1], None)]}
        elif t[0] == 'pair':
            out = {'prim': 'pair', 'args': [go(t[1], names.pop(0) if names else None), go(t[2], names.pop(0) if names else None)]}
        else:
            out = {'prim': t[0], 'args': [go(t[1], None), go(t[2], None)]}
        if name:
            out['annots'] = ['%' + name]
        return out
    return go(sk, None)


def count_pair_slots(sk):
    if sk[0] == 'pair':
        return 2 + count_pair_slots(sk[1]) + count_pair_slots(sk[2])
    if sk[0] in ('option', 'list'):
        return count_pair_slots(sk[1])
    if sk[0] == 'or':
        return count_pair_slots(sk[1]) + count_pair_slots(sk[2])
    return 0


def wide_program(rng):
    """(template with {T}/{K}… placeholders filled per twin) -> list of (text pieces); returns a function style -> code"""
    T = gen_comb(rng, 1, rng.choice([2, 2, 3, 4]))
    K = comparable_sk(rng, rng.choice([1, 1, 2, 3]))
    U = gen_leaf(rng, 1)
    vals = [gen_value(rng, T) for _ in range(3)]
    keys = []
    for _ in range(3):
        k = gen_value(rng, K)
        if text(k) not in [text(x) for x in keys]:
            keys.append(k)
    # sorted keys as pytezos requires for literals: let the implementation sort via repeated UPDATE instead
    proj, psk = proj_code(rng, T)
    P = ' ; '.join(proj) if proj else ''
    body = '{ ' + P + ' }' if P else '{}'
    cdr_body = '{ CDR' + (' ; ' + P if P else '') + ' }'
    kind = rng.randrange(0, 23) if rng.random() < 0.8 else rng.randrange(20, 23)
    if kind >= 20:
        # CAST / RENAME: components of equal type so that a by-name re-typing would silently permute them
        leaf = ('p', rng.choice(['int', 'nat', 'string']))
        T = rng.choice([('pair', leaf, leaf), ('pair', leaf, ('pair', leaf, leaf)), ('pair', ('pair', leaf, leaf), leaf), gen_comb(rng, 1, 3)])
        vals = [gen_value(rng, T) for _ in range(3)]
    TU = ('pair', T, U)
    KT = ('pair', K, T)
    uval = gen_value(rng, U)
    tuval = gen_value(rng, TU)
    ktval = {'prim': 'Pair', 'args': [keys[0], vals[0]]}

    def build(style):
        ty = lambda sk: text(annotate(rng, sk, style))   # noqa: E731
        v = [text(x) for x in vals]
        e = [x[1:-1] if x.startswith('(') else x for x in v]     # as elements of a sequence literal
        k = [text(x) for x in keys]
        if kind == 0:
            return f'PUSH (list {ty(T)}) {{ {e[0]} ; {e[1]} }} ; MAP {body}'
        if kind == 1:
            return f'NIL {ty(T)} ; PUSH {ty(T)} {v[0]} ; CONS ; PUSH {ty(T)} {v[1]} ; CONS ; DUP ; PACK'
        if kind == 2:
            ups = ' ; '.join(f'PUSH {ty(T)} {v[i % 3]} ; SOME ; PUSH {ty(K)} {k[i]} ; UPDATE' for i in range(len(k)))
            return f'EMPTY_MAP {ty(K)} {ty(T)} ; {ups} ; MAP {cdr_body}'
        if kind == 3:
            ups = ' ; '.join(f'PUSH {ty(T)} {v[i % 3]} ; SOME ; PUSH {ty(K)} {k[i]} ; UPDATE' for i in range(len(k)))
            return f'EMPTY_MAP {ty(K)} {ty(T)} ; {ups} ; PUSH {ty(K)} {k[0]} ; GET ; IF_NONE {{ UNIT }} {{ {P + " ; " if P else ""}PACK ; DROP ; UNIT }}'
        if kind == 4:
            ups = ' ; '.join(f'PUSH bool True ; PUSH {ty(K)} {k[i]} ; UPDATE' for i in range(len(k)))
            return f'EMPTY_SET {ty(K)} ; {ups} ; DUP ; PUSH {ty(K)} {k[-1]} ; MEM ; SWAP ; PACK'
        if kind == 5:
            return f'PUSH (option {ty(T)}) (Some {v[0]}) ; IF_NONE {{ UNIT }} {body}'
        if kind == 6:
            return f'PUSH (or {ty(T)} {ty(U)}) (Left {v[0]}) ; IF_LEFT {body} {{ DROP ; UNIT }}'
        if kind == 7:
            return f'LAMBDA {ty(T)} {ty(psk)} {body} ; PUSH {ty(T)} {v[0]} ; EXEC'
        if kind == 8:
            return f'PUSH {ty(T)} {v[0]} ; PACK ; UNPACK {ty(T)} ; IF_NONE {{ UNIT }} {body}'
        if kind == 9:
            return f'PUSH (list {ty(T)}) {{ {e[0]} ; {e[1]} ; {e[2]} }} ; ITER {{ {P + " ; " if P else ""}DROP }} ; UNIT'
        if kind == 10:
            return f'PUSH {ty(T)} {v[0]} ; LEFT {ty(U)} ; PACK ; PUSH {ty(T)} {v[1]} ; SOME ; PACK ; PAIR'
        if kind == 11:
            ups = ' ; '.join(f'PUSH {ty(T)} {v[i % 3]} ; SOME ; PUSH {ty(K)} {k[i]} ; UPDATE' for i in range(len(k)))
            return f'EMPTY_MAP {ty(K)} {ty(T)} ; {ups} ; ITER {{ CDR ; {P + " ; " if P else ""}DROP }} ; UNIT'
        if kind == 12:
            return f'PUSH (list (option {ty(T)})) {{ Some {v[0]} ; None }} ; MAP {{ IF_NONE {{ PUSH {ty(psk)} {text(gen_value(random_for(psk), psk))} }} {body} }} ; PACK'
        if kind == 14:   # APPLY captures the (possibly field-annotated) left component of the lambda parameter
            return (f'LAMBDA {ty(TU)} {ty(psk)} {{ CAR{" ; " + P if P else ""} }} ; PUSH {ty(T)} {v[0]} ; APPLY ; '
                    f'PUSH {ty(U)} {text(uval)} ; EXEC')
        if kind >= 20:   # CAST to a type with the same field names in other positions / other names / no names; RENAME
            if style == 'none':
                src = tgt = text(annotate_named(T, []))
            else:
                k = count_pair_slots(T)
                names = rng.sample(NAMES, min(k, len(NAMES)))
                src = text(annotate_named(T, list(names)))
                how = rng.random()
                if how < 0.45:
                    perm = names[:]
                    rng.shuffle(perm)
                    if perm == names and len(perm) > 1:
                        perm = perm[1:] + perm[:1]
                elif how < 0.65:
                    perm = rng.sample(NAMES, min(k, len(NAMES)))
                elif how < 0.8:
                    perm = []
                else:
                    perm = [n if rng.random() < 0.5 else None for n in reversed(names)]
                tgt = text(annotate_named(T, list(perm)))
            tail = {20: ' ; DUP ; PACK', 21: ' ; RENAME ; UNPAIR', 22: ' ; RENAME @x ; DUP ; CAR ; SWAP ; PACK'}[kind]
            return f'PUSH {src} {v[0]} ; CAST {tgt}{tail}'
        if kind == 19:   # the partially applied lambda itself is serialized
            return f'LAMBDA {ty(TU)} {ty(psk)} {{ CAR{" ; " + P if P else ""} }} ; PUSH {ty(T)} {v[0]} ; APPLY ; PACK'
        if kind == 15:   # CONS / SOME / LEFT of a projected (field-annotated) component
            return f'PUSH {ty(TU)} {text(tuval)} ; UNPAIR ; NIL {ty(T)} ; SWAP ; CONS ; SWAP ; SOME ; PAIR ; PACK'
        if kind == 16:   # map UPDATE / GET with projected key and value
            return (f'PUSH {ty(KT)} {text(ktval)} ; UNPAIR ; DIP {{ SOME }} ; EMPTY_MAP {ty(K)} {ty(T)} ; DUG 2 ; DUP ; DUG 3 ; UPDATE ; '
                    f'SWAP ; GET ; PACK')
        if kind == 17:   # set UPDATE / MEM with a projected element
            return (f'PUSH {ty(("pair", K, ("p", "bool")))} (Pair {k[0]} True) ; UNPAIR ; DUP ; DUG 2 ; EMPTY_SET {ty(K)} ; DUG 2 ; UPDATE ; '
                    f'SWAP ; MEM')
        if kind == 18:
            return f'PUSH {ty(TU)} {text(tuval)} ; UNPAIR ; LEFT {ty(U)} ; SWAP ; RIGHT {ty(T)} ; PAIR ; DUP ; PACK ; SWAP ; UNPAIR ; DROP ; IF_LEFT {body} {{ DROP ; UNIT }}'
        return f'PUSH {ty(T)} {v[0]} ; PUSH {ty(T)} {v[1]} ; PAIR ; DUP ; CAR ; SWAP ; CDR ; COMPARE'
    return kind, build


class random_for:
    """deterministic tiny rng so that the same default value is rendered in every twin"""
    def __init__(self, sk):
        import random as _r
        self._r = _r.Random(repr(sk))

    def __getattr__(self, name):
        return getattr(self._r, name)


LAST_ERROR = ['']


def observe_any(code):
    from pytezos.michelson.repl import Interpreter
    itp = Interpreter()
    ok, res = lib.call(itp.execute, code)
    if not ok or res.error is not None:
        LAST_ERROR[0] = ' '.join(map(str, getattr(res.error if ok else res, 'args', ())))
        return ('fail',)
    out = []
    for x in itp.stack.items:
        okp, packed = lib.call(lambda: x.pack().hex())
        okm, mich = lib.call(lambda: lib.canon_micheline(x.to_micheline_value(mode='readable')))
        out.append((mich if okm else 'no-micheline', strip_ty(type(x).as_micheline_expr()), packed if okp else 'not-packable'))
    return ('ok', out)



# Deterministic twin pairs (always run, independent of the PRNG): one instance of every shape a seeded change was caught by.
SHAPES = [
    ('comb GET/UNPAIR n/PACK through :type-annotated inner pairs (C17-1)',
     'PUSH (pair (int %a) (pair :t (int %c) (pair :u %d (int %e) (int %f)))) (Pair 1 2 3 4) ; DUP ; GET 5 ; SWAP ; DUP ; UNPAIR 3 ; DROP 3 ; DUP ; PUSH int 9 ; UPDATE 6 ; PACK ; SWAP ; PACK',
     'PUSH (pair int (pair int (pair int int))) (Pair 1 2 3 4) ; DUP ; GET 5 ; SWAP ; DUP ; UNPAIR 3 ; DROP 3 ; DUP ; PUSH int 9 ; UPDATE 6 ; PACK ; SWAP ; PACK'),
    ('MAP over a map projecting an annotated component (C17-2)',
     'PUSH (map string (pair (int %a) (nat %b))) { Elt "a" (Pair 1 2) ; Elt "b" (Pair 3 4) } ; MAP { CDR ; CAR } ; PUSH string "a" ; GET',
     'PUSH (map string (pair int nat)) { Elt "a" (Pair 1 2) ; Elt "b" (Pair 3 4) } ; MAP { CDR ; CAR } ; PUSH string "a" ; GET'),
    ('MAP over a map keeping the annotated value, then PACK (C17-2)',
     'PUSH (map nat (pair (int %x) (pair %y (nat %z) (string :s %w)))) { Elt 7 (Pair 1 2 "q") } ; MAP { CDR ; CDR } ; PACK',
     'PUSH (map nat (pair int (pair nat string))) { Elt 7 (Pair 1 2 "q") } ; MAP { CDR ; CDR } ; PACK'),
    ('assert_type_equal with different :type names (C17-3)',
     'PUSH (pair :p1 (int :i1 %a) (nat :n1)) (Pair 1 2) ; PUSH (pair :p2 (int :i2) (nat :n2 %b)) (Pair 1 3) ; COMPARE ; NIL (pair :q (int :x) nat) ; PUSH (pair :r int (nat :y)) (Pair 0 0) ; CONS ; PACK',
     'PUSH (pair int nat) (Pair 1 2) ; PUSH (pair int nat) (Pair 1 3) ; COMPARE ; NIL (pair int nat) ; PUSH (pair int nat) (Pair 0 0) ; CONS ; PACK'),
    ('CAR / CDR carrying %field instruction annotations that differ from the component names (C17-4)',
     'PUSH (pair (int %a) (pair %b (nat %c) (string %d))) (Pair 1 2 "s") ; DUP ; CAR %x ; SWAP ; DUP ; CDR %a ; CAR %d ; SWAP ; CDR %c ; CDR %b',
     'PUSH (pair int (pair nat string)) (Pair 1 2 "s") ; DUP ; CAR ; SWAP ; DUP ; CDR ; CAR ; SWAP ; CDR ; CDR'),
    ('or types whose variants share field names (C17-5)',
     'PUSH (or (int %a) (or %a (nat %a) (string %b))) (Right (Right "x")) ; IF_LEFT { DROP ; PUSH nat 0 } { IF_LEFT { DROP ; PUSH nat 1 } { DROP ; PUSH nat 2 } } ; PUSH (or (int %b) (nat %b)) (Left 1) ; PACK ; PUSH int 3 ; LEFT (or %a (nat %a) (int %a))',
     'PUSH (or int (or nat string)) (Right (Right "x")) ; IF_LEFT { DROP ; PUSH nat 0 } { IF_LEFT { DROP ; PUSH nat 1 } { DROP ; PUSH nat 2 } } ; PUSH (or int nat) (Left 1) ; PACK ; PUSH int 3 ; LEFT (or nat int)'),
    ('from_items over a list whose results carry different nested annotations (C17-6)',
     'PUSH (list (pair (pair (int %a) (nat %b)) (string %c))) { Pair (Pair 1 1) "x" ; Pair (Pair -1 2) "y" } ; MAP { DUP ; CAR ; CAR ; GT ; IF { } { DROP ; PUSH (pair (pair int nat) string) (Pair (Pair 0 0) "") } } ; PACK',
     'PUSH (list (pair (pair int nat) string)) { Pair (Pair 1 1) "x" ; Pair (Pair -1 2) "y" } ; MAP { DUP ; CAR ; CAR ; GT ; IF { } { DROP ; PUSH (pair (pair int nat) string) (Pair (Pair 0 0) "") } } ; PACK'),
    ('MAP over a list projecting an annotated component (#49)',
     'PUSH (list (pair (int %a) (pair %b nat (string %c)))) { Pair 1 2 "x" ; Pair 3 4 "y" } ; DUP ; MAP { CAR } ; SWAP ; MAP { GET 4 }',
     'PUSH (list (pair int (pair nat string))) { Pair 1 2 "x" ; Pair 3 4 "y" } ; DUP ; MAP { CAR } ; SWAP ; MAP { GET 4 }'),
    ('COMPARE of pairs with a one-sided annotated inner pair (C17-7)',
     'PUSH (pair (pair int int) nat) (Pair (Pair 1 2) 4) ; PUSH (pair (pair :in %p (int %x) (int %y)) (nat %n)) (Pair (Pair 1 2) 3) ; COMPARE ; PUSH (pair (pair %q int int) nat) (Pair (Pair 1 2) 4) ; PUSH (pair (pair int int) nat) (Pair (Pair 1 5) 3) ; COMPARE ; PUSH (pair (pair :t int int) nat) (Pair (Pair 1 2) 3) ; DUP ; UNPAIR ; UNPAIR ; PAIR ; PAIR ; COMPARE',
     'PUSH (pair (pair int int) nat) (Pair (Pair 1 2) 4) ; PUSH (pair (pair int int) nat) (Pair (Pair 1 2) 3) ; COMPARE ; PUSH (pair (pair int int) nat) (Pair (Pair 1 2) 4) ; PUSH (pair (pair int int) nat) (Pair (Pair 1 5) 3) ; COMPARE ; PUSH (pair (pair int int) nat) (Pair (Pair 1 2) 3) ; DUP ; UNPAIR ; UNPAIR ; PAIR ; PAIR ; COMPARE'),
    ('APPLY with a nested-annotated captured type, then PACK / EXEC (C17-8, #51, #52)',
     'PUSH (pair (int %a) (pair %b (nat %c) (list :l (pair (string %s) (bool %t))))) (Pair 1 2 { Pair "x" True }) ; LAMBDA (pair (pair (int %a) (pair %b (nat %c) (list :l (pair (string %s) (bool %t))))) (unit %u)) int { CAR ; CAR } ; SWAP ; APPLY ; DUP ; PACK ; SWAP ; UNIT ; EXEC',
     'PUSH (pair int (pair nat (list (pair string bool)))) (Pair 1 2 { Pair "x" True }) ; LAMBDA (pair (pair int (pair nat (list (pair string bool)))) unit) int { CAR ; CAR } ; SWAP ; APPLY ; DUP ; PACK ; SWAP ; UNIT ; EXEC'),
    ('CAST to a type with permuted / renamed / dropped field names (C17-9)',
     'PUSH (pair (int %a) (int %b)) (Pair 1 2) ; CAST (pair (int %b) (int %a)) ; PUSH (pair (nat %x) (pair %y (nat %z) (nat %w))) (Pair 1 2 3) ; CAST (pair (nat %w) (pair %x (nat %y) (nat %z))) ; RENAME @v ; PACK ; PUSH (pair (string %s) (string %t)) (Pair "p" "q") ; CAST (pair (string %t) string)',
     'PUSH (pair int int) (Pair 1 2) ; CAST (pair int int) ; PUSH (pair nat (pair nat nat)) (Pair 1 2 3) ; CAST (pair nat (pair nat nat)) ; RENAME ; PACK ; PUSH (pair string string) (Pair "p" "q") ; CAST (pair string string)'),
    ('SLICE / NONE / UNPACK failure on annotated item types (#53)',
     'PUSH (pair (string %s) (bytes %b)) (Pair "abc" 0x0102) ; UNPAIR ; PUSH nat 5 ; PUSH nat 0 ; SLICE ; SWAP ; PUSH nat 9 ; PUSH nat 1 ; SLICE ; PUSH bytes 0x00 ; UNPACK (pair :p (int %a) (nat %b))',
     'PUSH (pair string bytes) (Pair "abc" 0x0102) ; UNPAIR ; PUSH nat 5 ; PUSH nat 0 ; SLICE ; SWAP ; PUSH nat 9 ; PUSH nat 1 ; SLICE ; PUSH bytes 0x00 ; UNPACK (pair int nat)'),
]

FIXED = [  # witnesses of defects #10 and #34 (fixed in /repo): replayed on every run
    ('GET 3 on an annotated right comb (defect #10)',
     'PUSH (pair (int %a) (pair %b (int %c) (pair %d (int %e) (int %f)))) (Pair 1 2 3 4) ; GET 3',
     'PUSH (pair int (pair int (pair int int))) (Pair 1 2 3 4) ; GET 3'),
    ('PACK of an annotated 4-comb (defect #10)',
     'PUSH (pair (int %a) (pair %b (int %c) (pair %d (int %e) (int %f)))) (Pair 1 2 3 4) ; PACK',
     'PUSH (pair int (pair int (pair int int))) (Pair 1 2 3 4) ; PACK'),
    ('UNPAIR 3 on an annotated comb (defect #10)',
     'PUSH (pair (int %a) (pair :t (int %c) (pair %d (int %e) (int %f)))) (Pair 1 2 3 4) ; UNPAIR 3',
     'PUSH (pair int (pair int (pair int int))) (Pair 1 2 3 4) ; UNPAIR 3'),
    ('UPDATE 0 with a non-pair element (defect #34)',
     'PUSH (pair (int %a) (int %b)) (Pair 1 2) ; PUSH (string :s) "x" ; UPDATE 0',
     'PUSH (pair int int) (Pair 1 2) ; PUSH string "x" ; UPDATE 0'),
]


def observe_text(code):
    from pytezos.michelson.repl import Interpreter
    itp = Interpreter()
    ok, res = lib.call(itp.execute, code)
    if not ok or res.error is not None:
        return ('fail',)
    return ('ok', [(lib.canon_micheline(x.to_micheline_value(mode='readable')), strip_ty(type(x).as_micheline_expr()), x.pack().hex())
                   for x in itp.stack.items])


def run(ctx: lib.Ctx) -> None:
    from pytezos.michelson.tags import prim_tags
    import time
    t0 = time.time()
    T = {}
    ctx.extra['phase_seconds'] = T
    rng = ctx.rng
    ctx.rule = ('programs over the fragment PUSH/UNPACK/GET n/UPDATE n/PAIR n/UNPAIR n/CAR/CDR/PAIR/UNPAIR/COMPARE/EQ/PACK/DUP/SWAP/DROP/SOME/NONE/LEFT/RIGHT/'
                'UNIT/IF/IF_NONE/IF_LEFT/DIP n generated stack-shape-directed (the next instruction is chosen from the shape of the real '
                'interpreter stack, taken branches are generated by probing, indices around the comb length; one deliberately ill-typed tail in ~12%); every program is run as three twins '
                '(annotated ~90% of positions incl. inner comb pairs, partially annotated, stripped). non-trivial = program with >= 2 '
                'instructions after the first PUSH whose annotated twin has >= 1 annotation; distinct = distinct program text')
    # tables: prim tags used by the model
    want = {'Pair': 0x07, 'Some': 0x09, 'None': 0x06, 'Left': 0x05, 'Right': 0x08, 'True': 0x0a, 'False': 0x03, 'Unit': 0x0b, 'int': 0x5b,
            'nat': 0x62, 'mutez': 0x6a, 'string': 0x68, 'bytes': 0x69, 'bool': 0x59, 'unit': 0x6c, 'ADD': 0x12, 'SUB': 0x4b, 'MUL': 0x3a,
            'EQ': 0x25, 'NEQ': 0x3c, 'LT': 0x37, 'GT': 0x2a, 'LE': 0x32, 'GE': 0x28}
    got = {k: prim_tags[k][0] for k in want}
    ctx.table('value primitive tags of Comb.v (Pair Some None Left Right True False Unit int)')
    if got != want:
        ctx.violation('primitive tags differ from the model', {'correspondence': 'C17/prim_tags vs Comb.P_*', 'got': got}, found=False)
        return
    violations = 0
    # corpus of past disagreements, then the fixed witnesses
    import glob
    import json
    import os
    fixed = list(FIXED)
    for path in sorted(glob.glob(os.path.join(lib.VERIF, 'corpus', PROP, '*.json'))):
        doc = json.load(open(path))
        fixed.append((f"corpus case {os.path.basename(path)}: {doc.get('why', '')}", doc['annotated'], doc['stripped']))
        ctx.corpus_cases += 1
    for f in ctx.known.get('fixed', []):          # witnesses of `fixed` entries of findings/C17.json
        w = f.get('witness', {})
        if 'annotated' in w and 'stripped' in w and not any(w['annotated'] == x[1] for x in fixed):
            fixed.append((f"fixed defect is back ({f.get('commit')}): {f.get('what')}", w['annotated'], w['stripped']))
    for kf in ctx.known.get('findings', []):      # still known findings: note whether their witnesses still reproduce
        w = kf['witness']
        ctx.extra.setdefault('known_finding_witness_still_fails', {})[kf['id']] = observe_any(w['annotated']) != observe_any(w['stripped'])
    fixed += [(f'deterministic shape — {w}', a_, p_) for w, a_, p_ in SHAPES]
    for what, annotated, plain in fixed:
        a, b = observe_any(annotated), observe_any(plain)
        ctx.case(('fixed', annotated), kind='fixed-witness', sample={'code': annotated, 'result': repr(a)[:200]})
        if (a != b or a[0] != 'ok') and violations < 3:
            ctx.violation(f'annotated and stripped twin differ — {what}', {'annotated': annotated, 'stripped': plain, 'annotated_result': a, 'stripped_result': b,
                                                           'repro': f'Interpreter().execute({annotated!r}) vs Interpreter().execute({plain!r})'}, found=True)
            violations += 1
    cases, meta, mcases, mmeta = [], [], [], []
    nprog = ctx.n(150, 2000)
    for _ in range(nprog):
        prog = gen_program(rng)
        twins = []
        for style in ('all', 'some', 'none'):
            conc = concretize(rng, prog, style)
            code, items, obs = run_prog(conc)
            twins.append((style, conc, code, items, obs))
            try:
                lit_in = clist(c_instr(i) for i in conc)
            except Exception as e:  # noqa: BLE001  the implementation cannot even build the pushed value
                lit_in = None
            if lit_in is not None:
                try:
                    lit_out = 'Fail' if items is None else '(Done ' + clist(c_val(x) for x in items) + ')'
                except lib.InternalError:
                    lit_in = None      # a lambda value is left on the stack: not rendered for the model comparison
            if lit_in is not None:
                cases.append((lit_in, lit_out))
                meta.append((code, obs))
                if items:
                    for x in items[:2]:
                        if not has_packed(x) and len(mcases) < ctx.n(300, 3000):
                            mcases.append((c_val(x), clist(lib.cnode(x.to_micheline_value(mode=m)) for m in ('readable', 'optimized', 'legacy_optimized'))))
                            mmeta.append(code)
            n_ann = code.count('%') + code.count(':')
            ctx.case(code, nontrivial=n_instr(conc) >= 3 and (style == 'none' or n_ann > 0), kind=f'{style}:{obs[0]}:{prog[-1][0]}',
                     sample={'code': code, 'result': repr(obs)[:300]})
        # twins that also carry annotations on the instructions (types annotated / stripped; thorough: a renamed set too)
        iseed = rng.randrange(1 << 30)
        extra = [('all', iseed), ('none', iseed)] + ([('all', iseed + 1)] if ctx.thorough else [])
        for style, sd in extra:
            conc = concretize(rng, prog, style)
            code, items, obs = run_prog(conc, sd)
            twins.append((style + '+instr', conc, code, items, obs))
            ctx.case(code, nontrivial=True, kind=f'{style}+instr-annots:{obs[0]}', sample=None)
        # (B) twins agree
        base = twins[2][4]
        lam = base[0] == 'ok' and any(it[1].get('prim') == 'lambda' for it in base[1])
        for style, conc, code, items, obs in twins[:2] + twins[3:]:
            if lam and style.endswith('+instr'):
                continue      # a lambda is left on the stack: the annotations on the instructions of its body are code, not types
            if obs != base and violations < 3:
                ctx.violation('annotations change the result: the annotated and the stripped program differ',
                              {'annotated_code': code, 'stripped_code': twins[2][2], 'annotated_result': obs, 'stripped_result': base,
                               'repro': f'Interpreter().execute({code!r}) vs Interpreter().execute({twins[2][2]!r})'}, found=True)
                violations += 1
    ctx.extra['programs'] = nprog
    # second stream: collections / lambdas / MAP / ITER, twins only
    nwide = ctx.n(130, 2500)
    wide_kinds = {}
    known_hits = 0
    for _ in range(nwide):
        kind, build = wide_program(rng)
        codes = [build(st) for st in ('all', 'some', 'none')]
        iseed = rng.randrange(1 << 30)
        styles = ['all', 'some', 'none', 'all+instr', 'none+instr'] + (['all+instr2'] if ctx.thorough else [])
        if kind == 19:
            iseed = None      # the serialized value is a lambda: annotations on the instructions of its body are code, not types
        codes += [decorate(build('all'), iseed), decorate(build('none'), iseed)] + \
            ([decorate(build('all'), None if iseed is None else iseed + 1)] if ctx.thorough else [])
        obs3 = [observe_any(c) for c in codes]
        wide_kinds[kind] = wide_kinds.get(kind, 0) + (obs3[2][0] == 'ok')
        for st, c, o in zip(styles, codes, obs3):
            ctx.case(c, nontrivial=True, kind=f'wide{kind}:{st}:{o[0]}', sample=None)
        for c, o in zip(codes[:2] + codes[3:], obs3[:2] + obs3[3:]):
            if o != obs3[2] and o == ('fail',) and ' MAP ' in c and 'PUSH (list' in c and ctx.finding('list-map-field-annot'):
                observe_any(c)
                if 'list argument type cannot be annotated' in LAST_ERROR[0]:
                    ctx.known_hit(ctx.finding('list-map-field-annot'))
                    known_hits += 1
                    continue
            if o != obs3[2] and o[0] == 'ok' and obs3[2][0] == 'ok' and ' APPLY' in c and ctx.finding('apply-push-annot') \
                    and any(a != b and b[1].get('prim') in ('lambda', 'bytes') for a, b in zip(o[1], obs3[2][1])) \
                    and all(a == b or b[1].get('prim') in ('lambda', 'bytes') for a, b in zip(o[1], obs3[2][1])):
                ctx.known_hit(ctx.finding('apply-push-annot'))
                known_hits += 1
                continue
            if o != obs3[2] and o == ('fail',) and ' APPLY' in c and ctx.finding('apply-field-annot'):
                observe_any(c)
                if LAST_ERROR[0].startswith('APPLY lambda argument type cannot be annotated'):
                    ctx.known_hit(ctx.finding('apply-field-annot'))
                    known_hits += 1
                    continue
            if o != obs3[2] and violations < 3:
                ctx.violation('annotations change the result: the annotated and the stripped program differ',
                              {'annotated_code': c, 'stripped_code': codes[2], 'annotated_result': o, 'stripped_result': obs3[2],
                               'repro': f'Interpreter().execute({c!r}) vs Interpreter().execute({codes[2]!r})'}, found=True)
                violations += 1
    ctx.extra['wide_programs'] = nwide
    ctx.extra['known_finding_hits'] = known_hits
    ctx.extra['wide_templates_ok_counts'] = wide_kinds
    T['interpreter'] = round(time.time() - t0, 1)
    bad = ctx.coq_mismatches('comb', IMPORTS, 'run_prog', 'out_eqb', 'list (cinstr ann)', 'outcome ann', cases, shard=70)
    mbad = ctx.coq_mismatches('mich', IMPORTS, 'fun v => [to_mich Readable v; to_mich Optimized v; to_mich LegacyOptimized v]',
                              'list_eqb node_eqb', 'aval', 'list node', mcases, shard=100)
    ctx.extra['rendering_cases'] = len(mcases)
    if mbad and violations == 0 and not bad:
        ctx.violation('to_micheline_value no longer corresponds to the model (readable / optimized / legacy_optimized rendering)',
                      {'correspondence': 'C17/MichelsonType.to_micheline_value vs Michelson.Comb.to_mich', 'code_producing_the_value': mmeta[mbad[0]],
                       'value': mcases[mbad[0]][0][:1500], 'implementation': mcases[mbad[0]][1][:1500],
                       'model': ctx.coq_eval(IMPORTS, f'let v := {mcases[mbad[0]][0]} in [to_mich Readable v; to_mich Optimized v; to_mich LegacyOptimized v]'),
                       'disagreements': len(mbad)}, found=False)
    T['coq'] = round(time.time() - t0, 1)
    if bad and violations == 0:
        code, obs = meta[bad[0]]
        ctx.violation('the interpreter no longer corresponds to the model the theorems are about',
                      {'correspondence': 'C17/Interpreter.execute vs Michelson.Comb.run_prog', 'code': code, 'interpreter': obs,
                       'model': ctx.coq_eval(IMPORTS, f'run_prog {cases[bad[0]][0]}'), 'disagreements': len(bad), 'more_disagreeing_codes': [meta[i][0] for i in bad[1:8]],
                       'repro': f'Interpreter().execute({code!r})'}, found=False)
