"""C06 — local operation forging matches the Tezos operation binary format.

(A) pytezos.operation.forge.forge_operation_group on generated groups vs Codec/Ops.v (PY transcription; the same
    evaluation also checks SPEC = PY, dec (enc g) = normalise g and well-formedness on the very input), inside coqc.
(B) the implementation's bytes are decoded by the independent reader of c06_spec.py and must give back the
    (normalised) group; two different normalised groups must never share their bytes.
Tables: operation tags, reserved entrypoints, the set of kinds forge_operation dispatches on.
Spec validation: the recorded mainnet operations of /repo/tests (their recorded hashes are ground truth).
"""
from __future__ import annotations

import glob
import json
import os

import c06_gen as G
import c06_spec as S
import lib
from lib import cN, clist, copt

PROP = 'C06'
IMPORTS = 'From PV Require Import Codec.Zarith Codec.Ops.'
CURVE = {'tz1': 'KEd', 'tz2': 'KSp', 'tz3': 'KP2', 'tz4': 'KBl', 'edpk': 'KEd', 'sppk': 'KSp', 'p2pk': 'KP2', 'BLpk': 'KBl'}


def chex(b: bytes) -> str:
    """bytes as an explicit list of byte constructors (elaborates ~2.5x faster than a hex string literal)"""
    return '[' + ';'.join('x%02x' % x for x in bytes(b)) + ']' if b else 'nil'


def mich(x) -> bytes:
    from pytezos.michelson.forge import forge_micheline
    return forge_micheline(x)


# ---- JSON -> Coq ------------------------------------------------------------------------------------------------------
def c_pkh(s: str) -> str:
    return f'({CURVE[s[:3]]}, {chex(G.unb58(s[:3], s))})'


def c_addr(s: str) -> str:
    p = s[:3]
    raw = G.unb58(p, s)
    if p in ('tz1', 'tz2', 'tz3', 'tz4'):
        return f'(AImplicit ({CURVE[p]}, {chex(raw)}))'
    return f"({'AOriginated' if p == 'KT1' else 'ARollup'} {chex(raw)})"


def c_pk(s: str) -> str:
    return f'({CURVE[s[:4]]}, {chex(G.unb58(s[:4], s))})'


def c_content(c: dict) -> str:
    k = c['kind']
    if k == 'endorsement':
        return f"(CEndorsement {cN(int(c['level']))})"
    if k == 'activate_account':
        return f"(CActivate {chex(G.unb58('tz1', c['pkh']))} {chex(bytes.fromhex(c['secret']))})"
    if k == 'failing_noop':
        return f"(CFailingNoop {chex(c['arbitrary'].encode())})"
    h = f"(mkh {c_pkh(c['source'])} {cN(int(c['fee']))} {cN(int(c['counter']))} {cN(int(c['gas_limit']))} {cN(int(c['storage_limit']))})"
    if k == 'reveal':
        pr = copt(chex(G.unb58('BLsig', c['proof']))) if c.get('proof') else 'None'
        op = f"(MReveal {c_pk(c['public_key'])} {pr})"
    elif k == 'transaction':
        p = c.get('parameters')
        ps = copt(f"({chex(p['entrypoint'].encode())}, {chex(mich(p['value']))})") if p else 'None'
        op = f"(MTransaction {cN(int(c['amount']))} {c_addr(c['destination'])} {ps})"
    elif k == 'origination':
        dl = copt(c_pkh(c['delegate'])) if c.get('delegate') else 'None'
        op = f"(MOrigination {cN(int(c['balance']))} {dl} {chex(mich(c['script']['code']))} {chex(mich(c['script']['storage']))})"
    elif k == 'delegation':
        dl = copt(c_pkh(c['delegate'])) if c.get('delegate') else 'None'
        op = f'(MDelegation {dl})'
    elif k == 'register_global_constant':
        op = f"(MRegisterGlobalConstant {chex(mich(c['value']))})"
    elif k == 'transfer_ticket':
        op = (f"(MTransferTicket {chex(mich(c['ticket_contents']))} {chex(mich(c['ticket_ty']))} {c_addr(c['ticket_ticketer'])} "
              f"{cN(int(c['ticket_amount']))} {c_addr(c['destination'])} {chex(c['entrypoint'].encode())})")
    elif k == 'smart_rollup_add_messages':
        op = f"(MSrAddMessages {clist(chex(bytes.fromhex(m)) for m in c['message'])})"
    elif k == 'smart_rollup_execute_outbox_message':
        op = (f"(MSrExecuteOutbox {chex(G.unb58('sr1', c['rollup']))} {chex(G.unb58('src1', c['cemented_commitment']))} "
              f"{chex(bytes.fromhex(c['output_proof']))})")
    else:
        raise lib.InternalError(k)
    return f'(CManager {h} {op})'


def c_group(g: dict) -> str:
    return f"(mkg {chex(G.unb58('B', g['branch']))} {clist(c_content(c) for c in g['contents'])})"


def wf_expected(g: dict) -> bool:
    for c in g['contents']:
        if c['kind'] == 'transaction' and c.get('parameters'):
            if not 1 <= len(c['parameters']['entrypoint'].encode('utf-8')) <= 31:
                return False
    return True


# ---- tables -----------------------------------------------------------------------------------------------------------
def tables(ctx):
    import pytezos.operation.forge as F
    from pytezos.rpc.kind import operation_tags

    problems = []
    ctx.table('operation/forge.py reserved_entrypoints')

    def tag_of(v):
        """the table may hold one-byte strings or integers; anything else counts as a mismatch (tag 10^6)"""
        if isinstance(v, (bytes, bytearray)) and len(v) == 1:
            return v[0]
        if isinstance(v, int) and not isinstance(v, bool) and 0 <= v < 256:
            return v
        return 10 ** 6
    try:
        rows = sorted(((str(k), tag_of(v)) for k, v in dict(F.reserved_entrypoints).items()), key=lambda kv: kv[1])
    except Exception as e:  # noqa: BLE001   the table is not even a mapping any more: compared as a mismatching table
        rows = [('<unreadable: %r>' % e, 10 ** 6)]
    lit = clist(f'({chex(k.encode("utf-8", "replace"))}, {cN(v)})' for k, v in rows)
    eq = 'list_eqb (prod_eqb bytes_eqb N.eqb)'
    if ctx.coq_mismatches('reserved', IMPORTS, 'fun _ : unit => map (fun p => (tx (fst p), snd p)) py_reserved', eq,
                          'unit', 'list (bytes * N)', [('tt', lit)]):
        problems.append({'table': 'reserved_entrypoints', 'repo': rows,
                         'canonical': list(enumerate(G.SPEC_RESERVED))})
    ctx.table('rpc/kind.py operation_tags (the 11 modelled kinds) + kinds dispatched by forge_operation')
    model_kinds = ['endorsement', 'activate_account', 'failing_noop', 'reveal', 'transaction', 'origination', 'delegation',
                   'register_global_constant', 'transfer_ticket', 'smart_rollup_add_messages', 'smart_rollup_execute_outbox_message']
    rows2 = [(k, operation_tags.get(k, 10 ** 6)) for k in model_kinds]
    lit2 = clist(f'({chex(k.encode())}, {cN(v)})' for k, v in rows2)
    if ctx.coq_mismatches('optags', IMPORTS, 'fun _ : unit => map (fun p => (tx (fst p), snd p)) operation_tags', eq,
                          'unit', 'list (bytes * N)', [('tt', lit2)]):
        problems.append({'table': 'operation_tags', 'repo': rows2})
    # the dispatch table of forge_operation: every modelled kind must be forgeable
    for k in model_kinds:
        ok, res = lib.call(F.forge_operation, {'kind': k})
        if not ok and isinstance(res, NotImplementedError):
            problems.append({'table': 'forge_operation dispatch', 'missing': k})
    return problems


def safe_tables(ctx):
    try:
        return tables(ctx)
    except lib.InternalError:
        raise
    except Exception as e:  # noqa: BLE001   a table of /repo changed shape: that is a table mismatch, not a checker failure
        return [{'table': 'reserved_entrypoints', 'note': f'table comparison failed: {type(e).__name__}: {e}'[:300]}]


# ---- generators -------------------------------------------------------------------------------------------------------
def gen_group(rng, nmax=8):
    k = rng.random()
    if k < 0.2:   # one kind repeated (sources of every curve)
        kind = rng.choice(G.MANAGER_KINDS + G.OTHER_KINDS)
        n = rng.randrange(1, nmax + 1)
        return {'branch': G.rand_block_hash(rng), 'contents': [G.rand_content(rng, kind) for _ in range(n)]}
    if k < 0.45:  # transactions with every entrypoint / destination
        n = rng.randrange(1, nmax + 1)
        return {'branch': G.rand_block_hash(rng), 'contents': [G.rand_content(rng, 'transaction') for _ in range(n)]}
    return G.rand_group(rng, nmax)


def systematic_groups(rng):
    """every reserved entrypoint x every destination kind; every source curve for every manager kind"""
    out = []
    for ep in G.SPEC_RESERVED + ['stak', 'Stake', 'a', 'x' * 31]:
        for dk in ('tz1', 'tz2', 'tz3', 'tz4', 'KT1', 'sr1'):
            c = G.rand_content(rng, 'transaction')
            c['destination'] = G.rand_address(rng, (dk,))
            c['parameters'] = {'entrypoint': ep, 'value': rng.choice([{'prim': 'Unit'}, {'int': '1'}])}
            out.append({'branch': G.rand_block_hash(rng), 'contents': [c]})
    for kind in G.MANAGER_KINDS:
        for tz in ('tz1', 'tz2', 'tz3', 'tz4'):
            out.append({'branch': G.rand_block_hash(rng), 'contents': [G.rand_content(rng, kind, source=G.rand_pkh(rng, (tz,)))]})
    for txt in ['café', 'жук', '中文', 'a\U0001F600b', '€', 'naïve text with ß and ñ', '\u00a0']:
        out.append({'branch': G.rand_block_hash(rng), 'contents': [{'kind': 'failing_noop', 'arbitrary': txt}]})
        c = G.rand_content(rng, 'transaction')
        c['parameters'] = {'entrypoint': txt[:10], 'value': {'int': '1'}}
        out.append({'branch': G.rand_block_hash(rng), 'contents': [c]})
        c = G.rand_content(rng, 'transfer_ticket')
        c['entrypoint'] = txt
        out.append({'branch': G.rand_block_hash(rng), 'contents': [c]})
    # values around Unit x entrypoints around default, all in ONE shape of content so that a wrongly elided argument collides
    # with the plain-Unit group (same header fields, same destination)
    import copy
    base = G.rand_content(rng, 'transaction')
    branch = G.rand_block_hash(rng)
    for ep in ('default', 'root', 'stake', 'Unit'):
        for v in G.UNITISH:
            c = copy.deepcopy(base)
            c['parameters'] = {'entrypoint': ep, 'value': copy.deepcopy(v)}
            out.append({'branch': branch, 'contents': [c]})
    c = copy.deepcopy(base)
    c.pop('parameters', None)
    out.append({'branch': branch, 'contents': [c]})
    return out


def spelling_groups(rng):
    """Unit written with empty args/annots lists (the same expression; replays the witness of fixed defect #45 on every run)"""
    import copy
    out = []
    for ep in ('default', 'root', 'x'):
        for v in G.UNIT_SPELLINGS:
            c = G.rand_content(rng, 'transaction')
            c['parameters'] = {'entrypoint': ep, 'value': copy.deepcopy(v)}
            out.append({'branch': G.rand_block_hash(rng), 'contents': [c]})
    return out


def is_unit_spelling(g) -> bool:
    return any(c['kind'] == 'transaction' and c.get('parameters') and c['parameters']['value'] in G.UNIT_SPELLINGS for c in g['contents'])


def malformed_variants(rng, g):
    """field-level mutations that keep the JSON forgeable: over-long entrypoints (ill-formed for the protocol)"""
    g = json.loads(json.dumps(g))
    for c in g['contents']:
        if c['kind'] == 'transaction':
            c['parameters'] = {'entrypoint': ''.join(rng.choice(G.NAME_CHARS) for _ in range(rng.choice([32, 33, 64, 255]))),
                               'value': {'prim': 'Unit'}}
            return g
    return None


def check_has_parameters(ctx, groups):
    """forge.py has_parameters vs Ops.has_parameters on (entrypoint, forged value), every distinct parameter seen incl. Unit spellings"""
    from pytezos.operation.forge import has_parameters
    cases, seen = [], set()
    for g in groups:
        for c in g['contents']:
            if c['kind'] != 'transaction':
                continue
            p = c.get('parameters')
            key = json.dumps(p, sort_keys=True)
            if key in seen or len(cases) >= 400:
                continue
            seen.add(key)
            lit = 'None' if not p else f"(Some ({chex(p['entrypoint'].encode())}, {chex(mich(p['value']))}))"
            cases.append((lit, lib.cbool(bool(has_parameters(c)))))
    bad = ctx.coq_mismatches('haspar', IMPORTS, 'has_parameters', 'Bool.eqb', 'option (bytes * bytes)', 'bool', cases)
    ctx.extra['has_parameters_cases'] = len(cases)
    return [{'table': 'has_parameters', 'disagreements': len(bad), 'first': cases[bad[0]][0][:300]}] if bad else []


def mutate_bytes(rng, raw: bytes) -> bytes:
    b = bytearray(raw)
    k = rng.random()
    if k < 0.25:
        return bytes(b[:rng.randrange(0, len(b))])                       # truncation at any offset
    if k < 0.5:
        i = rng.randrange(32, len(b)) if len(b) > 32 else 0
        b[i] ^= 1 << rng.randrange(8)                                    # bit flip behind the branch
        return bytes(b)
    if k < 0.65:
        i = rng.randrange(32, len(b) + 1)
        b[i:i] = bytes([rng.choice([0, 0x80, 0xff, rng.getrandbits(8)])])  # insertion
        return bytes(b)
    if k < 0.8 and len(b) > 33:
        del b[rng.randrange(32, len(b))]                                 # deletion
        return bytes(b)
    if k < 0.9:
        return bytes(b) + bytes([rng.choice([0, 108, 17, 255])])         # extension
    i = rng.randrange(32, len(b)) if len(b) > 32 else 0
    b[i] = rng.choice([0, 1, 2, 3, 4, 0x7f, 0x80, 0xff])                 # tag / length / bool positions
    return bytes(b)


def malformed_stream(ctx, raws):
    """Malformed stream: mutated forged bytes are read by the Coq spec decoder and by the independent Python reader; they must
    agree on acceptance, and an accepted string must re-encode to itself (C06_decoder_strict).  pytezos has no operation
    decoder, so this validates the *spec* (both readers are the checker's own): a disagreement is a checker inconsistency."""
    rng = ctx.rng.__class__(f'{ctx.seed}:malformed')
    n = ctx.n(300, 3000)
    cases, muts = [], []
    pool = [r for r in raws if len(r) < 700] or raws
    while len(cases) < n and pool:
        m = mutate_bytes(rng, rng.choice(pool))
        try:
            S.decode_group(m)
            acc = True
        except S.Bad:
            acc = False
        except Exception as e:  # noqa: BLE001
            raise lib.InternalError(f'independent reader crashed on {m.hex()}: {e!r}')
        ctx.case(m.hex(), nontrivial=True, kind=f"malformed:{'accepted' if acc else 'rejected'}")
        cases.append((chex(m), f'({lib.cbool(acc)}, true)'))
        muts.append(m)
    bad = ctx.coq_mismatches('malformed', IMPORTS,
                             'fun bs => match dec_group bs with Some g => (true, bytes_eqb (enc_group g) bs) | None => (false, true) end',
                             'prod_eqb Bool.eqb Bool.eqb', 'bytes', 'bool * bool', cases, shard=ctx.n(100, 200))
    ctx.extra['malformed_cases'] = len(cases)
    if bad:
        raise lib.InternalError(f'spec decoder (Coq) and independent reader (Python) disagree on {muts[bad[0]].hex()} ({len(bad)} cases)')


def recorded_groups():
    """recorded mainnet operations in /repo/tests with their recorded hashes"""
    out = []
    d = os.path.join(lib.REPO, 'tests', 'unit_tests', 'test_operation', 'data')
    for p in sorted(glob.glob(os.path.join(d, 'o*.json'))):
        doc = json.load(open(p))
        if all(c['kind'] in G.MANAGER_KINDS + G.OTHER_KINDS for c in doc['contents']):
            out.append((os.path.basename(p)[:-5], doc))
    return out


def strip_meta(c):
    return {k: v for k, v in c.items() if k != 'metadata'}


def run(ctx: lib.Ctx) -> None:
    from pytezos.operation.forge import forge_operation_group

    rng = ctx.rng
    ctx.rule = ('operation groups of 1..8 contents over the 11 forgeable kinds, every source curve and destination kind, reserved / '
                'near-reserved / named entrypoints of length 1..31 (+ over-long ones as the ill-formed stream), zarith fields at 7-bit '
                'boundaries up to 2^600, optional fields present/absent, explicit default/Unit parameters; systematic sweep of entrypoint x '
                'destination kind and kind x source curve; recorded mainnet groups. non-trivial = at least one manager content; '
                'distinct = distinct JSON group')
    import concurrent.futures
    pool = concurrent.futures.ThreadPoolExecutor(max_workers=1)
    fut_tables = pool.submit(safe_tables, ctx)   # coqc on the tables runs while the implementation is exercised
    pool2 = concurrent.futures.ThreadPoolExecutor(max_workers=1)

    groups = []
    for p in sorted(glob.glob(os.path.join(lib.VERIF, 'corpus', PROP, '*.json'))):
        groups.append(('corpus', json.load(open(p))['group']))
        ctx.corpus_cases += 1
    recorded = recorded_groups()
    for name, doc in recorded:
        groups.append(('recorded:' + name, {'branch': doc['branch'], 'contents': [strip_meta(c) for c in doc['contents']]}))
    groups += [('systematic', g) for g in systematic_groups(rng)]
    groups += [('unit-spelling', g) for g in spelling_groups(rng)]
    n_total = ctx.n(800, 6000)
    while len(groups) < n_total:
        g = gen_group(rng)
        groups.append(('random', g))
        if rng.random() < 0.05:
            m = malformed_variants(rng, g)
            if m:
                groups.append(('overlong-entrypoint', m))

    cases, meta = [], []
    seen = {}
    reported = 0
    for origin, g in groups:
        ok, raw = lib.call(forge_operation_group, g)
        nman = sum(1 for c in g['contents'] if c['kind'] in G.MANAGER_KINDS)
        ctx.case(json.dumps(g, sort_keys=True), nontrivial=nman > 0, kind=f"{origin.split(':')[0]}:n{min(len(g['contents']), 4)}",
                 sample={'origin': origin, 'kinds': [c['kind'] for c in g['contents']], 'bytes': len(raw) if ok else None})
        for c in g['contents']:
            ctx.dist['kind:' + c['kind']] += 1
        if not ok:
            if reported < 3:
                reported += 1
                ctx.violation(f'forge_operation_group raised {type(raw).__name__}: {raw} on a well-formed group', replay_doc(g, None), found=True)
            continue
        wfx = wf_expected(g)
        cases.append((c_group(g), f'({chex(raw)}, true, {lib.cbool(wfx)}, {lib.cbool(wfx)})'))
        meta.append((origin, g, raw))
        # ---- (B) independent decode + collision check
        why = None
        try:
            want = S.canon_group(g, mich)
            got = S.decode_group(raw)
            if got != want:
                diff = [i for i, (a, b) in enumerate(zip(got['contents'], want['contents'])) if a != b]
                why = f'decoding the forged bytes with the Tezos operation encoding gives a different group (branch ok: {got["branch"] == want["branch"]}, differing contents: {diff or "count"})'
        except S.Bad as e:
            why = f'the forged bytes are not a valid Tezos operation encoding: {e}'
        if why is None and wfx:
            keyc = json.dumps(want, sort_keys=True)
            prev = seen.setdefault(raw, keyc)
            if prev != keyc:
                why = 'two different groups forge to the same bytes'
        if origin.startswith('recorded:') and why is None:
            doc = dict(recorded)[origin.split(':', 1)[1]]
            from pytezos.crypto.encoding import base58_decode
            sig = base58_decode(doc['signature'].encode())
            h = G.b58o(G.blake2b(raw + sig))
            if h != origin.split(':', 1)[1]:
                why = f'recorded mainnet operation: hash of forged bytes + signature is {h}, recorded {origin.split(":", 1)[1]}'
        if why and wfx and reported < 3:
            reported += 1
            ctx.violation(why, replay_doc(g, raw), found=True)
    ctx.extra['recorded_mainnet_groups'] = [n for n, _ in recorded]

    fut_mal = pool2.submit(malformed_stream, ctx, [m[2] for m in meta])
    fut_hp = pool.submit(check_has_parameters, ctx, [g for _, g, _ in meta])
    bad = ctx.coq_mismatches('groups', IMPORTS, 'check_group', 'check_eqb', 'group', 'bytes * bool * bool * bool', cases, shard=ctx.n(70, 120))
    fut_mal.result()
    pool2.shutdown()
    problems = fut_tables.result() + fut_hp.result()
    pool.shutdown()
    if reported == 0 and (bad or problems):
        rep = {'correspondence': 'C06/forge_operation_group vs Codec.Ops.forge_operation_group (= enc_group)', 'disagreements': len(bad),
               'tables': problems}
        if bad:
            origin, g, raw = meta[bad[0]]
            rep.update(replay_doc(g, raw))
            rep['model'] = ctx.coq_eval(IMPORTS, f'check_group {cases[bad[0]][0]}')[:3000]
        found = False
        if problems and any(p.get('table') == 'reserved_entrypoints' for p in problems):
            # a wrong entrypoint table is a concrete failing input: forge a call of each canonical reserved entrypoint
            for i, ep in enumerate(G.SPEC_RESERVED):
                c = G.rand_content(rng, 'transaction')
                c['parameters'] = {'entrypoint': ep, 'value': {'int': '1'}}
                g = {'branch': G.rand_block_hash(rng), 'contents': [c]}
                ok, raw = lib.call(forge_operation_group, g)
                try:
                    good = ok and S.decode_group(raw) == S.canon_group(g, mich) and raw == spec_bytes_tx(g, i)
                except S.Bad:
                    good = False
                if not good:
                    ctx.violation(f'entrypoint {ep!r} is not forged as its protocol tag {i:02x}', replay_doc(g, raw if ok else None), found=True)
                    return
        ctx.violation('implementation no longer corresponds to the model the theorems are about', rep, found=found)


def spec_bytes_tx(g, ep_tag):
    """canonical bytes of a single-transaction group calling reserved entrypoint number ep_tag (written out by hand)"""
    c = g['contents'][0]
    def nat(n):
        out = bytearray()
        while True:
            b = n & 0x7F
            n >>= 7
            out.append(b | (0x80 if n else 0))
            if not n:
                return bytes(out)
    def addr(s):
        p = s[:3]
        raw = G.unb58(p, s)
        return {'tz1': b'\0\0', 'tz2': b'\0\1', 'tz3': b'\0\2', 'tz4': b'\0\3'}[p] + raw if p.startswith('tz') else \
            (b'\1' if p == 'KT1' else b'\3') + raw + b'\0'
    v = mich(c['parameters']['value'])
    return (G.unb58('B', g['branch']) + bytes([108]) + addr(c['source'])[1:] + nat(int(c['fee'])) + nat(int(c['counter'])) +
            nat(int(c['gas_limit'])) + nat(int(c['storage_limit'])) + nat(int(c['amount'])) + addr(c['destination']) + b'\xff' +
            bytes([ep_tag]) + len(v).to_bytes(4, 'big') + v)


def replay_doc(g, raw):
    return {'group': g, 'forged': raw.hex() if raw is not None else None,
            'repro': 'from pytezos.operation.forge import forge_operation_group; forge_operation_group(group).hex(); decode with harness/c06_spec.decode_group'}


def replay(ctx, doc):
    from pytezos.operation.forge import forge_operation_group
    g = doc['group']
    ok, raw = lib.call(forge_operation_group, g)
    if not ok:
        print('raised', raw)
        return True
    try:
        good = S.decode_group(raw) == S.canon_group(g, mich)
    except S.Bad as e:
        print('not decodable:', e)
        good = False
    print('forged', raw.hex(), 'decodes back:', good)
    return not good
