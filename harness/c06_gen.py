"""Generators of operation contents / groups as pytezos JSON (shared by C06, C23, C24).

Everything is drawn from the caller's PRNG.  Base58 strings are produced with the `base58`
library and a prefix table written down here (independent of pytezos' own tables), so that the
harness does not use the code under test to prepare its inputs.
"""
from __future__ import annotations

import hashlib

import base58

# base58check binary prefixes (Tezos docs) -----------------------------------------------------
PFX = {
    'tz1': bytes([6, 161, 159]), 'tz2': bytes([6, 161, 161]), 'tz3': bytes([6, 161, 164]), 'tz4': bytes([6, 161, 166]),
    'KT1': bytes([2, 90, 121]), 'sr1': bytes([6, 124, 117]),
    'edpk': bytes([13, 15, 37, 217]), 'sppk': bytes([3, 254, 226, 86]), 'p2pk': bytes([3, 178, 139, 127]),
    'BLpk': bytes([6, 149, 135, 204]),
    'B': bytes([1, 52]), 'src1': bytes([17, 165, 134, 138]),
    'BLsig': bytes([40, 171, 64, 207]), 'sig': bytes([4, 130, 43]), 'Net': bytes([87, 82, 0]),
    'expr': bytes([13, 44, 64, 27]), 'o': bytes([5, 116]),
    'edsig': bytes([9, 245, 205, 134, 18]), 'spsig1': bytes([13, 115, 101, 19, 63]), 'p2sig': bytes([54, 240, 44, 52]),
}
PK_LEN = {'edpk': 32, 'sppk': 33, 'p2pk': 33, 'BLpk': 48}
CURVE_OF_TZ = {'tz1': 0, 'tz2': 1, 'tz3': 2, 'tz4': 3}
CURVE_OF_PK = {'edpk': 0, 'sppk': 1, 'p2pk': 2, 'BLpk': 3}


def b58(prefix: str, payload: bytes) -> str:
    return base58.b58encode_check(PFX[prefix] + payload).decode()


def unb58(prefix: str, s: str) -> bytes:
    raw = base58.b58decode_check(s)
    p = PFX[prefix]
    assert raw[:len(p)] == p, (prefix, s)
    return raw[len(p):]


def rand_bytes(rng, n: int) -> bytes:
    k = rng.random()
    if k < 0.06:
        return bytes(n)
    if k < 0.12:
        return b'\xff' * n
    if k < 0.2 and n > 1:  # leading / trailing zero, small leading bytes (prefix-confusion shapes)
        b = bytearray(rng.getrandbits(8) for _ in range(n))
        b[0] = rng.choice([0, 1, 2, 3])
        b[-1] = rng.choice([0, 0, 255])
        return bytes(b)
    return bytes(rng.getrandbits(8) for _ in range(n))


def rand_pkh(rng, kinds=('tz1', 'tz2', 'tz3', 'tz4')) -> str:
    return b58(rng.choice(kinds), rand_bytes(rng, 20))


def rand_address(rng, kinds=('tz1', 'tz2', 'tz3', 'tz4', 'KT1', 'sr1')) -> str:
    return b58(rng.choice(kinds), rand_bytes(rng, 20))


def rand_pk(rng, kinds=('edpk', 'sppk', 'p2pk', 'BLpk')) -> str:
    k = rng.choice(kinds)
    return b58(k, rand_bytes(rng, PK_LEN[k]))


def rand_block_hash(rng) -> str:
    return b58('B', rand_bytes(rng, 32))


BOUNDARY = [0, 1, 2, 63, 64, 127, 128, 129, 255, 256, 16383, 16384, 2 ** 21 - 1, 2 ** 21, 2 ** 31 - 1, 2 ** 31, 2 ** 32,
            2 ** 35 - 1, 2 ** 35, 2 ** 63 - 1, 2 ** 63, 2 ** 64 - 1, 2 ** 64, 2 ** 64 + 1, 2 ** 70, 2 ** 77 - 1, 2 ** 77]


def rand_nat(rng, big=True) -> int:
    k = rng.random()
    if k < 0.3:
        return rng.choice(BOUNDARY)
    if k < 0.55:
        e = 7 * rng.randrange(0, 20)
        return max(0, (1 << e) + rng.choice([-1, 0, 1]))
    if k < 0.9:
        return rng.getrandbits(rng.choice([3, 7, 8, 14, 15, 21, 28, 32, 56, 63, 64, 65]))
    return rng.getrandbits(rng.randrange(1, 600 if big else 64)) if rng.random() < 0.3 else rng.getrandbits(rng.randrange(1, 80))


PRIMS0 = ['Unit', 'True', 'False', 'None', 'unit', 'nat', 'int', 'string', 'bytes', 'address', 'DROP', 'UNIT']


def rand_micheline(rng, depth=2):
    k = rng.random()
    if depth <= 0 or k < 0.35:
        c = rng.random()
        if c < 0.3:
            v = rand_nat(rng)
            return {'int': str(v if rng.random() < 0.6 else -v)}
        if c < 0.5:
            return {'string': ''.join(rng.choice('abcXYZ019 _%') for _ in range(rng.randrange(0, 12)))}
        if c < 0.7:
            return {'bytes': rand_bytes(rng, rng.randrange(0, 24)).hex()}
        return {'prim': rng.choice(PRIMS0)}
    if k < 0.55:
        return [rand_micheline(rng, depth - 1) for _ in range(rng.randrange(0, 4))]
    if k < 0.8:
        return {'prim': 'Pair', 'args': [rand_micheline(rng, depth - 1) for _ in range(rng.choice([2, 2, 3, 4]))]}
    if k < 0.9:
        return {'prim': rng.choice(['Some', 'Left', 'Right']), 'args': [rand_micheline(rng, depth - 1)]}
    return {'prim': 'pair', 'args': [{'prim': 'nat', 'annots': ['%a']}, {'prim': 'string'}], 'annots': [':t', '%f']}


SPEC_RESERVED = ['default', 'root', 'do', 'set_delegate', 'remove_delegate', 'deposit', 'stake', 'unstake',
                 'finalize_unstake', 'set_delegate_parameters']
NAME_CHARS = 'abcdefghijklmnopqrstuvwxyzABCDEFGHIJKLMNOPQRSTUVWXYZ0123456789_'


NON_ASCII = ['é', 'ß', 'ж', 'Я', '中', '文', '€', '\U0001F600', '\u00a0', 'ñ']


def rand_text(rng, n: int) -> str:
    """text of n characters; a third of the texts contain characters whose UTF-8 form has 2, 3 or 4 bytes"""
    alphabet = 'abc xyz019\n'
    if rng.random() < 0.35:
        return ''.join(rng.choice(NON_ASCII) if rng.random() < 0.3 else rng.choice(alphabet) for _ in range(max(n, 1)))
    return ''.join(rng.choice(alphabet) for _ in range(n))


def rand_entrypoint(rng) -> str:
    k = rng.random()
    if k < 0.08:   # names with multi-byte characters: at most 31 BYTES
        name = ''
        while True:
            ch = rng.choice(NON_ASCII + list('abcXYZ_09'))
            if len((name + ch).encode()) > rng.choice([3, 8, 31, 31]):
                break
            name += ch
        return name or 'é'
    if k < 0.45:
        return rng.choice(SPEC_RESERVED)
    if k < 0.6:  # near-misses of reserved names
        base = rng.choice(SPEC_RESERVED)
        return rng.choice([base + '_', base[:-1] or 'x', base.upper(), '_' + base, base + '0'])[:31]
    n = rng.choice([1, 1, 2, 5, 7, 15, 30, 31, 31, rng.randrange(1, 32)])
    return ''.join(rng.choice(NAME_CHARS) for _ in range(n))


UNITISH = [
    {'prim': 'Unit'}, {'prim': 'Unit', 'annots': ['%a']}, {'prim': 'Unit', 'annots': [':t', '%b']}, {'prim': 'Unit', 'annots': ['@v']},
    {'prim': 'unit'}, {'prim': 'Pair', 'args': [{'prim': 'Unit'}, {'prim': 'Unit'}]}, {'prim': 'Some', 'args': [{'prim': 'Unit'}]},
    {'prim': 'None'}, {'prim': 'True', 'annots': ['%x']}, [], [{'prim': 'Unit'}], {'int': '0'}, {'string': ''}, {'string': 'Unit'}, {'bytes': ''},
    {'bytes': '030b'}, {'prim': 'UNIT'},
]


def rand_unitish(rng):
    import copy
    return copy.deepcopy(rng.choice(UNITISH))


# the same Micheline expression Unit spelled with empty lists (legal JSON, accepted by the node)
UNIT_SPELLINGS = [{'prim': 'Unit', 'args': []}, {'prim': 'Unit', 'annots': []}, {'prim': 'Unit', 'args': [], 'annots': []}]


def rand_script(rng):
    code = [{'prim': 'parameter', 'args': [{'prim': 'unit'}]}, {'prim': 'storage', 'args': [{'prim': rng.choice(['unit', 'nat', 'bytes'])}]},
            {'prim': 'code', 'args': [[{'prim': 'CDR'}, {'prim': 'NIL', 'args': [{'prim': 'operation'}]}, {'prim': 'PAIR'}]]}]
    if rng.random() < 0.3:
        code = [rand_micheline(rng, 2) for _ in range(rng.randrange(0, 3))]
    return {'code': code, 'storage': rand_micheline(rng, 2)}


MANAGER_KINDS = ['reveal', 'transaction', 'origination', 'delegation', 'register_global_constant', 'transfer_ticket',
                 'smart_rollup_add_messages', 'smart_rollup_execute_outbox_message']
OTHER_KINDS = ['failing_noop', 'activate_account', 'endorsement']


def manager_header(rng, source=None, unset=False):
    if unset:
        return {'source': '', 'fee': '0', 'counter': '0', 'gas_limit': '0', 'storage_limit': '0'}
    return {'source': source or rand_pkh(rng), 'fee': str(rand_nat(rng)), 'counter': str(rand_nat(rng)),
            'gas_limit': str(rand_nat(rng)), 'storage_limit': str(rand_nat(rng))}


def rand_content(rng, kind: str, source=None, unset=False) -> dict:
    """One content of the given kind.  unset=True leaves source/fee/counter/limits for fill()."""
    if kind == 'failing_noop':
        return {'kind': kind, 'arbitrary': rand_text(rng, rng.choice([0, 1, 5, 40, 40, 300]))}
    if kind == 'activate_account':
        return {'kind': kind, 'pkh': b58('tz1', rand_bytes(rng, 20)), 'secret': rand_bytes(rng, 20).hex()}
    if kind == 'endorsement':
        return {'kind': kind, 'level': rng.choice([0, 1, 255, 256, 2 ** 31 - 1, 2 ** 32 - 1, rng.getrandbits(31)])}
    c = {'kind': kind, **manager_header(rng, source, unset)}
    if kind == 'reveal':
        pk = rand_pk(rng)
        c['public_key'] = '' if unset else pk
        if not unset and pk.startswith('BLpk') and rng.random() < 0.7:
            c['proof'] = b58('BLsig', rand_bytes(rng, 96))
    elif kind == 'transaction':
        c['amount'] = str(rand_nat(rng))
        c['destination'] = rand_address(rng)
        k = rng.random()
        if k < 0.15:
            pass
        elif k < 0.3:
            c['parameters'] = {'entrypoint': 'default', 'value': {'prim': 'Unit'}}
        elif k < 0.5:  # values around Unit x entrypoints around default: only (default, plain unannotated Unit) may be elided
            c['parameters'] = {'entrypoint': rng.choice(['default', 'default', 'default', 'root', 'stake', 'Unit', 'defaul', 'default_']),
                               'value': rand_unitish(rng)}
        else:
            c['parameters'] = {'entrypoint': rand_entrypoint(rng), 'value': rand_micheline(rng)}
    elif kind == 'origination':
        c['balance'] = str(rand_nat(rng))
        if rng.random() < 0.5:
            c['delegate'] = rand_pkh(rng)
        c['script'] = rand_script(rng)
    elif kind == 'delegation':
        k = rng.random()
        if unset and k < 0.3:
            c['delegate'] = ''  # self-registration, filled by fill()
        elif k < 0.8:
            c['delegate'] = rand_pkh(rng)
    elif kind == 'register_global_constant':
        c['value'] = rand_micheline(rng)
    elif kind == 'transfer_ticket':
        c['ticket_contents'] = rand_micheline(rng, 2)
        c['ticket_ty'] = rng.choice([{'prim': 'unit'}, {'prim': 'nat'}, {'prim': 'pair', 'args': [{'prim': 'nat'}, {'prim': 'string'}]}])
        c['ticket_ticketer'] = rand_address(rng, ('KT1', 'KT1', 'tz1', 'sr1'))
        c['ticket_amount'] = str(rand_nat(rng))
        c['destination'] = rand_address(rng)
        c['entrypoint'] = rand_entrypoint(rng)
    elif kind == 'smart_rollup_add_messages':
        c['message'] = [rand_bytes(rng, rng.choice([0, 1, 4, 20, 100])).hex() for _ in range(rng.choice([0, 1, 1, 2, 5]))]
    elif kind == 'smart_rollup_execute_outbox_message':
        c['rollup'] = b58('sr1', rand_bytes(rng, 20))
        c['cemented_commitment'] = b58('src1', rand_bytes(rng, 32))
        c['output_proof'] = rand_bytes(rng, rng.choice([0, 1, 33, 200])).hex()
    else:
        raise ValueError(kind)
    return c


def rand_group(rng, nmax=8, kinds=None, source=None) -> dict:
    kinds = kinds or (MANAGER_KINDS + OTHER_KINDS)
    n = rng.choice([1, 1, 2, 3, rng.randrange(1, nmax + 1)])
    return {'branch': rand_block_hash(rng), 'contents': [rand_content(rng, rng.choice(kinds), source) for _ in range(n)]}


def b58o(digest: bytes) -> str:
    return b58('o', digest)


def zlen(n: int) -> int:
    """Byte length of the zarith natural (independent of pytezos)."""
    return 1 if n == 0 else (n.bit_length() + 6) // 7


def blake2b(data: bytes, size: int = 32) -> bytes:
    return hashlib.blake2b(data, digest_size=size).digest()
