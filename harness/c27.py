"""C27 — node errors map to the most specific registered class. Correspondence:
RpcError.from_errors (real code, real registry dumped from RpcError.__handlers__, and the same
code under substituted registries) vs Client/ErrorMap.v `from_errors`."""
import itertools
import os

import lib
from lib import clist, cnat, cstr

PROP = 'C27'
IMPORTS = 'From PV Require Import Client.ErrorMap.'

PROTO_HASH = 'PtNairobiyssHuh87hEhfVBGCVrK3WnS8Z2FT4ymB5tAa4r1nQf'
UNREG = ['foo', 'bar_baz']
# protocol names as they occur on real networks (digits, '-', '_', mixed case) and chunks with other non-word characters
PROTOCOLS = ['018-Proxford', 'alpha', 'PtNairobi', 'genesis', '000-Ps9mPmXa', '019-PtParisB', 'demo_counter', 'Ps9mPmXaiyrF']
ODD = ['a-b', 'x y', 'tez-', '-tez', 'michelson_v1:', 'script_rejected!', '(tez)', 'a/b', '0', '_', 'proto-x', 'Proto']


_INTERN: dict = {}


def cchunk(c: str) -> str:
    """chunks and class names are interned as prelude constants (string literals are slow to parse)"""
    if c not in _INTERN:
        _INTERN[c] = f'k{len(_INTERN)}'
    return _INTERN[c]


def intern_prelude() -> str:
    return ''.join(f'Definition {name} : string := {cstr(c)}.\n' for c, name in _INTERN.items())


def cident(s: str) -> str:
    return clist(cchunk(c) for c in s.split('.'))


def creg(items) -> str:
    return clist(f'({cident(k)}, {cchunk(v)})' for k, v in items)


def observe(node_mod, errors):
    """type and payload of RpcError.from_errors(errors) -> ('Unspecified',) | ('Generic', i) | ('Handled', name, i) | ('Other', text)"""
    ok, val = lib.call(node_mod.RpcError.from_errors, errors)
    if not ok:
        return ('Other', f'raised {type(val).__name__}: {val}'[:160])
    if not isinstance(val, node_mod.RpcError):
        return ('Other', f'returned {type(val).__name__}')
    carried = [i for i, e in enumerate(errors) if val.args and val.args[0] is e]
    if type(val) is node_mod.RpcError:
        if val.args == ('Unspecified error',):
            return ('Unspecified',)
        return ('Generic', carried[0]) if len(carried) == 1 else ('Other', f'generic RpcError carrying {val.args!r}'[:160])
    return ('Handled', type(val).__name__, carried[0]) if len(carried) == 1 else ('Other', f'{type(val).__name__} carrying {val.args!r}'[:160])


def cobs(o) -> str:
    if o[0] == 'Unspecified':
        return 'Unspecified'
    if o[0] == 'Generic':
        return f'(Generic {cnat(o[1])})'
    if o[0] == 'Handled':
        return f'(Handled {cchunk(o[1])} {cnat(o[2])})'
    return '(Generic 4999%nat)'


def spec_expect(reg: dict, ident: str):
    """(B) the property text, independently of model and code.  Returns (strict, expected class name or None).
    strict = the identifier has one of the forms the property quantifies over (proto.<protocol>.<category>.<name>,
    <category>.<name>, <name>); for other shapes the reading of 'protocol prefix' and 'category' is not fixed by the
    text, so only the unambiguous part is demanded (see spec_check)."""
    ch = ident.split('.')
    if len(ch) == 1:
        cands = [ident]
    elif len(ch) == 2:
        cands = [ident, ch[1], ch[0]]
    elif len(ch) == 4 and ch[0] == 'proto':
        cands = [ident, f'{ch[2]}.{ch[3]}', ch[3], ch[2]]
    else:
        return False, None
    for k in cands:
        if k in reg:
            return True, reg[k]
    return True, None


def spec_check(reg: dict, errors, obs):
    """reason or None"""
    if not errors:
        return None if obs == ('Unspecified',) else f'empty error list gives {obs}'
    last = len(errors) - 1
    ident = errors[-1]['id']
    if obs[0] == 'Other':
        return f'from_errors misbehaved: {obs[1]}'
    if obs[0] == 'Unspecified':
        return 'non-empty error list reported as unspecified'
    if obs[-1] != last:
        return f'the exception carries error #{obs[-1]} instead of the last one (#{last})'
    got = obs[1] if obs[0] == 'Handled' else None
    strict, want = spec_expect(reg, ident)
    if strict:
        if got != want:
            return f'{ident!r} raised as {got or "generic RpcError"}, most specific registered match is {want or "none (generic RpcError)"}'
        return None
    # other shapes: full id wins; a class may only come from a suffix/component of the identifier
    ch = ident.split('.')
    if ident in reg:
        return None if got == reg[ident] else f'{ident!r} is registered as {reg[ident]} but raised as {got}'
    plausible = {reg[k] for i in range(len(ch)) for k in ('.'.join(ch[i:]), ch[i]) if k in reg}
    if got is not None and got not in plausible:
        return f'{ident!r} raised as {got}, which no part of the identifier is registered for'
    if got is None and any(k in reg for k in ('.'.join(ch[2:]), ch[-1], ch[-2])):
        return f'{ident!r} raised as generic RpcError although a part of it is registered'
    return None


class Swapped:
    """Temporarily substitute the registry dict (from_errors reads cls.__handlers__)."""

    def __init__(self, node_mod, mapping):
        self.node_mod, self.mapping = node_mod, mapping

    def __enter__(self):
        self.saved = self.node_mod.RpcError.__handlers__
        self.node_mod.RpcError.__handlers__ = self.mapping

    def __exit__(self, *a):
        self.node_mod.RpcError.__handlers__ = self.saved


def run(ctx: lib.Ctx) -> None:
    import pytezos.rpc.errors as errors_mod  # noqa: F401  (registers the classes)
    import pytezos.rpc.node as node_mod

    ctx.rule = ('exhaustive: every identifier of 1..4 chunks (thorough: 1..5; quick samples 1500 of the 5-chunk ones) over {proto, a protocol hash, every '
                'component of a registered key, two unregistered words} as the last error of a list of 1..4 errors, against the real registry; '
                'realistic protocol names (018-Proxford, alpha, 000-Ps9mPmXa, ...) and chunks with non-word characters in the prefix position x every <category>.<name>, and at random positions; '
                'the same code under 40 (thorough 300) substituted registries keyed by full ids, prefix-less ids, names and categories; empty and '
                'classes registered the real way inside the harness (class statements with protocol-qualified full ids, short ids, names, lists of ids; '
                '__handlers__ swapped for a scratch dict and restored) - dump compared with the model\'s build, and the registered ids looked up under the same / another / no protocol; '
                'degenerate identifiers. non-trivial = some variant of the identifier is registered; distinct = distinct (registry, error ids)')
    real = dict(node_mod.RpcError.__handlers__)
    real_named = {k: v.__name__ for k, v in real.items()}
    classes = sorted(set(real.values()), key=lambda c: c.__name__)

    # ---- table: the registry itself
    ctx.table('RpcError.__handlers__ (error id -> class) vs Client.ErrorMap.handlers')
    ctx.extra['registry'] = real_named
    tbl_case = [(creg(sorted(real_named.items())), 'true')]
    tbl_bad = ctx.coq_mismatches(f'table{os.getpid()}', IMPORTS, 'fun t => table_eqb t handlers_named', 'Bool.eqb', 'registry string', 'bool',
                                 tbl_case, prelude=intern_prelude())
    expected_tbl = {'michelson_v1.bad_contract_parameter': 'MichelsonBadContractParameter', 'michelson_v1.bad_return': 'MichelsonBadReturn',
                    'michelson_v1': 'MichelsonError', 'tez': 'TezArithmeticError', 'script_rejected': 'MichelsonScriptRejected'}

    comps = sorted({c for k in real for c in k.split('.')})
    alpha = ['proto', PROTO_HASH] + comps + UNREG

    # ---- registries: index 0 = the real one
    regs = [real]
    keypool = []
    for n in range(1, 5):
        keypool += ['.'.join(t) for t in itertools.product(['proto', PROTO_HASH, 'michelson_v1', 'tez', 'script_rejected', 'bad_return', 'foo'], repeat=n)]
    for _ in range(ctx.n(40, 300)):
        size = ctx.rng.choice([1, 2, 3, 5, 8, 20])
        reg = {}
        for _ in range(size):
            k = ctx.rng.choice(keypool) if ctx.rng.random() < 0.5 else '.'.join(ctx.rng.choice(alpha) for _ in range(ctx.rng.choice([1, 1, 2, 2, 3, 4])))
            reg[k] = ctx.rng.choice(classes)
        regs.append(reg)
    named = [{k: v.__name__ for k, v in r.items()} for r in regs]
    regs_def = 'Definition regs : list (registry string) := ' + clist(creg(sorted(n.items())) for n in named) + '.\n'

    cases, meta = [], []

    def add(ri, ids, kind):
        errors = [{'id': i, 'kind': 'temporary', 'n': k} for k, i in enumerate(ids)]
        with Swapped(node_mod, regs[ri]):
            obs = observe(node_mod, errors)
        nontriv = bool(ids) and any(v in regs[ri] for v in node_variants(ids[-1]))
        ctx.case((ri, tuple(ids)), nontrivial=nontriv, kind=kind,
                 sample={'registry': 'real' if ri == 0 else named[ri], 'error_ids': list(ids), 'raised': list(obs)})
        cases.append((f'({cnat(ri)}, {clist(cident(i) for i in ids)})', cobs(obs)))
        meta.append((ri, list(ids), obs))

    def node_variants(ident):
        ch = ident.split('.')
        return [ident, '.'.join(ch[2:]), ch[-1], ch[-2] if len(ch) > 1 else ch[-1]]

    def prefix_errors():
        k = ctx.rng.choice([0, 0, 1, 2, 3])
        return ['.'.join(ctx.rng.choice(alpha) for _ in range(ctx.rng.randrange(1, 5))) for _ in range(k)]

    # real registry, exhaustive identifiers
    maxlen = 5 if ctx.thorough else 4
    for n in range(1, maxlen + 1):
        for t in itertools.product(alpha, repeat=n):
            add(0, prefix_errors() + ['.'.join(t)], f'real:chunks{n}')
    if not ctx.thorough:
        for _ in range(1500):
            add(0, prefix_errors() + ['.'.join(ctx.rng.choice(alpha) for _ in range(5))], 'real:chunks5-sampled')
    # realistic protocol names in the prefix position, every <category>.<name> (and one component more / less) behind them
    for pname in PROTOCOLS + ODD[:4]:
        for t in itertools.product(alpha[2:], repeat=2):
            add(0, prefix_errors() + ['.'.join(('proto', pname) + t)], 'real:protocol-names')
        for c in alpha[2:]:
            add(0, prefix_errors() + [f'proto.{pname}.{c}'], 'real:protocol-names')
            add(0, prefix_errors() + [f'{pname}.{c}'], 'real:protocol-names')
    # odd characters anywhere
    wide = alpha + PROTOCOLS + ODD
    for _ in range(ctx.n(1500, 10000)):
        n = ctx.rng.choice([1, 2, 3, 4, 4, 4, 5])
        chunks = [ctx.rng.choice(wide if ctx.rng.random() < 0.5 else alpha) for _ in range(n)]
        add(0, prefix_errors() + ['.'.join(chunks)], 'real:odd-characters')
    # a more specific / differently classified error EARLIER in the list must not win
    for a, b in itertools.product(['proto.X.michelson_v1.script_rejected', 'michelson_v1.bad_return', 'tez.x', 'foo.bar', 'proto.X.michelson_v1.runtime_error'], repeat=2):
        add(0, [a, b], 'real:pairs')
        add(0, [a, b, a], 'real:pairs')
    # degenerate identifiers
    for ident in ['', '.', '..', 'a.', '.a', 'tez.', '.tez', 'proto..michelson_v1.', 'michelson_v1..bad_return', 'proto.X.tez', 'proto.tez', 'Tez', 'TEZ.x']:
        add(0, [ident], 'real:degenerate')
    add(0, [], 'empty')
    # witnesses of repaired defects (findings/C27.json "fixed"): failing again is a violation like any other
    for fx in ctx.known.get('fixed', []):
        add(0, [e['id'] for e in fx['witness']['errors']], 'fixed-witness')
        ctx.corpus_cases += 1
    # substituted registries
    per = ctx.n(120, 250)
    for ri in range(1, len(regs)):
        add(ri, [], 'empty')
        keys = list(regs[ri])
        for _ in range(per):
            r = ctx.rng.random()
            if r < 0.35:    # an identifier built around a registered key
                k = ctx.rng.choice(keys)
                ident = ctx.rng.choice([k, 'proto.' + PROTO_HASH + '.' + k, 'proto.' + ctx.rng.choice(PROTOCOLS) + '.' + k, 'proto.' + PROTO_HASH + '.x.' + k, k + '.zz', 'foo.' + k, k + '.' + ctx.rng.choice(alpha)])
            else:
                pool = alpha if ctx.rng.random() < 0.7 else alpha + PROTOCOLS + ODD
                ident = '.'.join(ctx.rng.choice(pool) for _ in range(ctx.rng.choice([1, 2, 2, 3, 4, 4, 4, 5])))
            add(ri, prefix_errors() + [ident], 'substituted')

    # ---- registration the real way: class statements with error_id=..., then dump __handlers__ and look ids up
    dcases, dmeta = [], []
    qual = ['006-PsCARTHA', '018-Proxford', 'alpha', PROTO_HASH]

    def gen_id():
        r = ctx.rng.random()
        base = '.'.join(ctx.rng.choice(['contract', 'michelson_v1', 'tez', 'balance_too_low', 'script_rejected', 'bad_return', 'foo'])
                        for _ in range(ctx.rng.choice([1, 1, 2, 2, 3])))
        if r < 0.4:
            return f'proto.{ctx.rng.choice(qual)}.{base}'      # protocol-qualified full id
        if r < 0.5:
            return f'proto.{base}'
        return base

    for _ in range(ctx.n(60, 400)):
        scratch: dict = {}
        decls = []
        with Swapped(node_mod, scratch):
            for ci in range(ctx.rng.choice([1, 2, 3, 5])):
                ids = [gen_id() for _ in range(ctx.rng.choice([1, 1, 1, 2, 3]))]
                name = f'Seeded{ci}'
                ok, val = lib.call(type, name, (node_mod.RpcError,), {}, error_id=ids if (len(ids) > 1 or ctx.rng.random() < 0.2) else ids[0])
                if ok:
                    decls.append((ids, name))
            dumped = {k: v.__name__ for k, v in scratch.items()}
            # lookups: the registered ids themselves, the same ids under another / no protocol, their short forms, random ids
            probes = set()
            for ids, _n in decls:
                for i in ids:
                    ch = i.split('.')
                    probes.add(i)
                    if ch[0] == 'proto' and len(ch) > 2:
                        probes.add('.'.join(ch[2:]))
                        probes.add(f'proto.{ctx.rng.choice(qual)}.' + '.'.join(ch[2:]))
                    else:
                        probes.add(f'proto.{ctx.rng.choice(qual)}.{i}')
                    probes.add(ch[-1])
            probes.add(gen_id())
            for ident in sorted(probes):
                errors = [{'id': ident}]
                obs = observe(node_mod, errors)
                # (B) independent of the model: the dict must hold exactly the declared ids (last declaration wins) ...
                want_reg = {}
                for ids, nm in decls:
                    for i in ids:
                        want_reg[i] = nm
                ctx.case(('decl', tuple((tuple(i), n) for i, n in decls), ident), nontrivial=True, kind='registered-the-real-way',
                         sample={'class_statements': decls, 'handlers_afterwards': dumped, 'error_id': ident, 'raised': list(obs)})
                dcases.append((f'({clist(f"({clist(cident(i) for i in ids)}, {cchunk(nm)})" for ids, nm in decls)}, {creg(sorted(dumped.items()))}, [{cident(ident)}])',
                               f'(true, {cobs(obs)})'))
                dmeta.append((decls, dumped, want_reg, ident, obs))
    dbad = ctx.coq_mismatches(f'register{os.getpid()}', IMPORTS, 'run_decl_case', 'decl_obs_eqb',
                              'list (list ident * string) * registry string * list ident', 'bool * raised string', dcases,
                              shard=ctx.n(1000, 3000), prelude=intern_prelude())
    dfails = []
    for idx, (decls, dumped, want_reg, ident, obs) in enumerate(dmeta):
        why = spec_check(want_reg, [{'id': ident}], obs)
        if why:
            why += f' (classes registered by the statements {decls})'
        rank = 0
        if not why and dumped != want_reg:
            rank = 1
            why = f'after the class statements {decls} the registry holds {dumped}, expected the declared ids verbatim {want_reg}'
        if why:
            dfails.append((rank, len(decls), len(ident), idx, why))
    dfails.sort()
    for *_k, idx, why in dfails[:2]:
        decls, dumped, want_reg, ident, obs = dmeta[idx]
        ctx.violation(f'error mapping violated: {why}',
                      {'class_statements': [{'error_id': ids if len(ids) > 1 else ids[0], 'class': nm} for ids, nm in decls],
                       'handlers_afterwards': dumped, 'errors': [{'id': ident}], 'raised': list(obs),
                       'repro': 'from pytezos.rpc.node import RpcError; ' + '; '.join(f'{nm} = type({nm!r}, (RpcError,), {{}}, error_id={(ids if len(ids) > 1 else ids[0])!r})' for ids, nm in decls) +
                                f"; print(type(RpcError.from_errors([{{'id': {ident!r}}}])), RpcError.__handlers__)"})

    prelude = intern_prelude() + regs_def
    bad = ctx.coq_mismatches(f'errormap{os.getpid()}', IMPORTS, 'run_case regs', 'raised_eqb', 'nat * list ident', 'raised string', cases,
                             shard=ctx.n(1000, 3000), prelude=prelude)

    # (B)
    fails = []
    for idx, (ri, ids, obs) in enumerate(meta):
        why = spec_check(named[ri], [{'id': i} for i in ids], obs)
        if why:
            ch = ids[-1].split('.') if ids else []
            canonical = len(ch) in (1, 2) or (len(ch) == 4 and ch[0] == 'proto')
            fails.append((ri != 0, '' in ch, any(c in ODD for c in ch), not canonical, len(ids), len(ids[-1]) if ids else 0, idx, why))
    fails.sort()
    for *_k, idx, why in fails[:3]:
        ri, ids, obs = meta[idx]
        ctx.violation(f'error mapping violated: {why}',
                      {'registry': named[ri], 'registry_is_real': ri == 0, 'errors': [{'id': i} for i in ids], 'raised': list(obs),
                       'repro': ("import pytezos.rpc.errors; from pytezos.rpc.node import RpcError; " +
                                 ('' if ri == 0 else 'RpcError.__handlers__ = {k: getattr(pytezos.rpc.errors, v) for k, v in registry.items()}; ') +
                                 f"print(type(RpcError.from_errors({[{'id': i} for i in ids]!r})))")})
    if dfails:
        pass
    elif real_named != expected_tbl and not fails:
        diff = {k: (real_named.get(k), expected_tbl.get(k)) for k in set(real_named) | set(expected_tbl) if real_named.get(k) != expected_tbl.get(k)}
        ctx.violation('the registered error classes differ from the table the theorems are stated for',
                      {'correspondence': 'C27/RpcError.__handlers__ vs Client.ErrorMap.handlers', 'difference (repo, model)': diff}, found=False)
    elif not fails and (bad or tbl_bad or dbad):
        rep = {'correspondence': 'C27/RpcError.from_errors + __init_subclass__ vs Client.ErrorMap.from_errors + build', 'table_mismatch': bool(tbl_bad),
               'registration_mismatches': len(dbad)}
        if bad:
            ri, ids, obs = meta[bad[0]]
            rep.update({'registry': named[ri], 'errors': [{'id': i} for i in ids], 'raised': list(obs), 'disagreements': len(bad),
                        'model': ctx.coq_eval(IMPORTS, f'from_errors {creg(sorted(named[ri].items()))} {clist(cident(i) for i in ids)}', prelude=intern_prelude())})
        ctx.violation('implementation no longer corresponds to the model the theorems are about', rep, found=False)
