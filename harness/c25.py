"""C25 — injected operations carry the account's next counters.

Correspondence (A): call histories (Fill / Autofill(ok|simulation fails) / Sign / Inject(accepted|refused) / Bake over
several lineages of groups) executed by the real OperationGroup / ExecutionContext code against the simulated node of
c25_node.py, vs Client/Counter.v `report` (per-call observations, property verdict, well-behavedness), inside coqc.
Oracle (B): the counters found in the binary payload handed to /injection/operation must be consecutive and start at
node counter + account's pending contents + 1 at that moment.  Failures inside the known-finding classes are reported as
KNOWN-FINDING; stale groups (another accepted injection since the group was filled) are outside the property's reading.
"""
from __future__ import annotations

import glob
import json
import os

import c06_gen as G
import lib
from c25_node import SimNode, make_client, make_key
from lib import cN, cbool, clist, cnat

PROP = 'C25'
IMPORTS = 'From PV Require Import Client.Counter.'
DEST = 'tz1gjaF81ZRRvdzjobyfVNsAeSC6PScjfQwN'
FOREIGN = 'tz1KqTpEZ7Yob7QbPE4Hy4Wo8fHG8LhKxZSx'


# ---- independent reader of the injected payload (plain transfers only) -------------------------------------------
def read_nat(b: bytes, i: int):
    v = shift = 0
    while True:
        x = b[i]
        i += 1
        v |= (x & 0x7F) << shift
        shift += 7
        if x < 0x80:
            return v, i


def parse_payload(raw: bytes):
    """[(source 21 bytes, counter)] of a signed group of parameterless transactions (64-byte signature)."""
    i, end, out = 32, len(raw) - 64, []
    while i < end:
        assert raw[i] == 108, 'not a transaction'
        src = raw[i + 1:i + 22]
        i += 22
        _fee, i = read_nat(raw, i)
        counter, i = read_nat(raw, i)
        _gas, i = read_nat(raw, i)
        _sto, i = read_nat(raw, i)
        _amt, i = read_nat(raw, i)
        i += 22
        assert raw[i] == 0, 'parameters present'
        i += 1
        out.append((src, counter))
    assert i == end, 'trailing bytes'
    return out


# ---- executing a history against the real code ---------------------------------------------------------------------
# operation kinds that carry source + counter (manager operations) in the protocols pytezos forges
MANAGER_KINDS = ['transaction', 'register_global_constant', 'reveal', 'transfer_ticket', 'origination', 'smart_rollup_add_messages',
                 'delegation', 'set_deposits_limit', 'increase_paid_storage', 'update_consensus_key', 'smart_rollup_originate',
                 'smart_rollup_execute_outbox_message', 'smart_rollup_cement', 'smart_rollup_publish', 'dal_publish_slot_header']


def run_history(nc0: int, pend0: int, h: list, key, rng):
    """Returns (observations, ghost info, failures of (B))."""
    node = SimNode()
    pkh = key.public_key_hash()
    node.counters[pkh] = nc0
    src21 = bytes([0]) + G.unb58('tz1', pkh)

    # shape in which this node reports pending operations: objects carrying their hash (current nodes), [hash, operation] pairs
    # whose operation has no hash field (older nodes), in `applied` or `unprocessed`, or a mixture
    style = rng.choice(['dict-applied', 'dict-unprocessed', 'pairs', 'pairs-applied', 'mixed', 'mixed'])
    next_kind = [nc0 + pend0]    # rotates through the manager kinds, starting point varies with the case

    def add_pending(n_contents: int, tag: str):
        # every manager operation of the account consumes a counter, whatever its kind (seeded change C25-10 counted four kinds only)
        kinds = [MANAGER_KINDS[(next_kind[0] + j) % len(MANAGER_KINDS)] for j in range(n_contents)]
        next_kind[0] += n_contents
        op = {'branch': 'B', 'contents': [{'kind': k, 'source': pkh, 'counter': '0'} for k in kinds], 'signature': 'sig'}
        st = style if style != 'mixed' else rng.choice(['dict-applied', 'dict-unprocessed', 'pairs', 'pairs-applied'])
        if st == 'dict-applied':
            node.mempool_applied.append({'hash': 'o' + tag, **op})
        elif st == 'dict-unprocessed':
            node.mempool_unprocessed.append({'hash': 'o' + tag, **op})
        elif st == 'pairs':
            node.mempool_unprocessed.append(['o' + tag, op])
        else:
            node.mempool_applied.append(['o' + tag, op])

    def pending() -> int:
        tot = 0
        for op in node.mempool_applied + node.mempool_unprocessed:
            if isinstance(op, list):
                op = op[1]
            tot += sum(1 for c in op.get('contents', []) if c.get('source') == pkh)
        return tot

    # noise that must not be counted
    node.mempool_applied.append({'hash': 'oF', 'contents': [{'kind': 'transaction', 'source': FOREIGN}, {'kind': 'endorsement', 'level': 1}]})
    node.mempool_unprocessed.append(['oG', {'contents': [{'kind': 'reveal', 'source': FOREIGN}]}])
    node.mempool_applied.append(['oH', {'contents': [{'kind': 'transaction', 'source': FOREIGN}]}])
    left, i0 = pend0, 0
    while left > 0:     # the initially pending contents come as several operations
        k0 = rng.choice([1, 1, left])
        add_pending(k0, f'init{i0}')
        left -= k0
        i0 += 1
    client = make_client(key, node)
    roots, groups, ginfo = {}, [], []
    dirty, ninj = set(), 0
    obs, fails, wb, all_right = [], [], True, True
    concrete = {}
    attempt = {}
    node.inject_ok = lambda raw: attempt['ok']
    orig_post = node.post

    def post(path, params=None, json=None, timeout=None):
        if path.endswith('injection/operation'):
            attempt['raw'] = bytes.fromhex(json)
        return orig_post(path, params=params, json=json, timeout=timeout)
    node.post = post

    unfilled = {}

    def build(l, n):
        """the unfilled n-content group of lineage l: ONE object per (l, n), reused by every later fill/autofill/send of that
        lineage and size, and extended from the (l, n-1) object via .transaction() (the content dicts are shared) — filling must
        not write into the unfilled original"""
        if (l, 0) not in unfilled:
            unfilled[(l, 0)] = roots.setdefault(l, client.operation_group())
        for i in range(1, n + 1):
            if (l, i) not in unfilled:
                unfilled[(l, i)] = unfilled[(l, i - 1)].transaction(destination=DEST, amount=i)
        return unfilled[(l, n)]

    for idx, c in enumerate(h):
        kind = c[0]
        if kind in ('Fill', 'Autofill'):
            l, n = c[1], c[2]
            sim_ok = c[3] if kind == 'Autofill' else True
            if kind == 'Fill':
                wb = wb and n > 0 and l not in dirty and pending() == 0
            else:
                wb = wb and n > 0 and l not in dirty
            was_dirty, pend_at_fill = l in dirty, pending()
            node.metadata_for = (lambda i, cc: {'operation_result': {'status': 'applied', 'consumed_milligas': '100000'}}) if sim_ok else \
                (lambda i, cc: {'operation_result': {'status': 'failed', 'errors': [{'kind': 'temporary', 'id': 'proto.alpha.contract.balance_too_low'}]}})
            g = build(l, n)
            ok, res = lib.call(g.fill if kind == 'Fill' else g.autofill)
            if n > 0:
                dirty.add(l)
            if ok:
                ctrs = [int(x['counter']) for x in res.contents]
                if ctrs != list(range(ctrs[0], ctrs[0] + len(ctrs))) or len(ctrs) != n:
                    obs.append(('Other', f'counters {ctrs}'))
                else:
                    obs.append(('Filled', ctrs[0], n))
                groups.append(res)
                ginfo.append({'lineage': l, 'stamp': ninj, 'refilled': was_dirty, 'plain_fill_with_pending': kind == 'Fill' and pend_at_fill > 0,
                              'filled_at': idx})
            elif n == 0:
                obs.append(('Rejected',))
            elif kind == 'Autofill' and not sim_ok and type(res).__name__.endswith('Error'):
                obs.append(('SimFailed',))
            else:
                obs.append(('Other', f'{type(res).__name__}: {res}'[:200]))
        elif kind == 'SendAsync':
            # send_async(ttl, counter, gas_limit, storage_limit) = fill(counter=c) + sign + inject(prevalidate=False); the caller chooses
            # the counter: node counter + pending + 1 + delta (delta = 0: the right one).  Model: FillAt l n c; Inject g ok
            l, n, okflag, delta = c[1], c[2], c[3], c[4]
            cnt = node.counters[pkh] + pending() + 1 + delta
            concrete[idx] = [('FillAt', l, n, cnt), ('Inject', len(groups), okflag)]
            wb = wb and n > 0 and delta == 0
            was_dirty = l in dirty
            attempt.clear()
            attempt['ok'] = okflag
            expected = node.counters[pkh] + pending() + 1
            g = build(l, n)
            ok, res = lib.call(lambda: g.send_async(ttl=5, counter=cnt, gas_limit=10000 * n, storage_limit=300 * n))
            raw = attempt.get('raw')
            if raw is None or ok != okflag:
                obs.append(('Other', f'send_async: ok={ok} {res!r}'[:200]))
                obs.append(('None',))
                groups.append(None)
                ginfo.append({'lineage': l, 'stamp': ninj, 'refilled': was_dirty, 'plain_fill_with_pending': False, 'filled_at': idx})
                continue
            parsed = parse_payload(raw)
            ctrs = [x[1] for x in parsed]
            good_shape = all(s == src21 for s, _ in parsed) and ctrs == list(range(ctrs[0], ctrs[0] + len(ctrs))) and len(ctrs) == n
            obs.append(('Filled', ctrs[0], n) if good_shape else ('Other', f'send_async counters {ctrs}'))
            obs.append(('Injected', ctrs[0], len(ctrs), okflag) if good_shape else ('Other', f'payload counters {ctrs}'))
            groups.append(res if ok else None)
            ginfo.append({'lineage': l, 'stamp': ninj, 'refilled': was_dirty, 'plain_fill_with_pending': False, 'filled_at': idx,
                          'explicit_counter': True})
            dirty.discard(l)
            if okflag:
                if not (good_shape and ctrs[0] == expected):
                    all_right = False
                    if delta == 0:   # a wrong counter chosen by the caller (delta != 0) is the caller's business
                        fails.append({'call_index': idx, 'group': len(groups) - 1, 'carried': ctrs, 'expected_first': expected, **ginfo[-1], 'stale': False})
                ninj += 1
                add_pending(len(ctrs), str(idx))
        elif kind == 'Send':
            # OperationGroup.send() = autofill().sign().inject(); observed as the two model calls Autofill l n true; Inject g ok
            l, n, okflag = c[1], c[2], c[3]
            concrete[idx] = [('Autofill', l, n, True), ('Inject', len(groups), okflag)]
            wb = wb and n > 0 and l not in dirty
            was_dirty = l in dirty
            node.metadata_for = lambda i, cc: {'operation_result': {'status': 'applied', 'consumed_milligas': '100000'}}
            attempt.clear()
            attempt['ok'] = okflag
            expected = node.counters[pkh] + pending() + 1
            g = build(l, n)
            ok, res = lib.call(lambda: g.send(min_confirmations=0))
            raw = attempt.get('raw')
            if raw is None or ok != okflag:
                obs.append(('Other', f'send: ok={ok} {res!r}'[:200]))
                obs.append(('None',))
                groups.append(None)
                ginfo.append({'lineage': l, 'stamp': ninj, 'refilled': was_dirty, 'plain_fill_with_pending': False, 'filled_at': idx})
                continue
            parsed = parse_payload(raw)
            ctrs = [x[1] for x in parsed]
            good_shape = all(s == src21 for s, _ in parsed) and ctrs == list(range(ctrs[0], ctrs[0] + len(ctrs))) and len(ctrs) == n
            obs.append(('Filled', ctrs[0], n) if good_shape else ('Other', f'send counters {ctrs}'))
            obs.append(('Injected', ctrs[0], len(ctrs), okflag) if good_shape else ('Other', f'payload counters {ctrs}'))
            groups.append(res if ok else None)
            ginfo.append({'lineage': l, 'stamp': ninj, 'refilled': was_dirty, 'plain_fill_with_pending': False, 'filled_at': idx})
            # inject() resets the lineage's cache first
            if okflag:
                if not (good_shape and ctrs[0] == expected):
                    all_right = False
                    fails.append({'call_index': idx, 'group': len(groups) - 1, 'carried': ctrs, 'expected_first': expected, **ginfo[-1], 'stale': False})
                ninj += 1
                add_pending(len(ctrs), str(idx))
        elif kind == 'Bulk':
            # b = client.bulk(*filled groups): a NEW root group (own context) whose contents are reset to the unfilled state; then
            # b.fill() / b.autofill().  Model: Fill / Autofill of a fresh lineage with the total number of contents
            gids, lnew, auto = c[1], c[2], c[3]
            src = [groups[g] for g in gids if g < len(groups) and groups[g] is not None]
            n = sum(len(x.contents) for x in src)
            concrete[idx] = [('Autofill', lnew, n, True) if auto else ('Fill', lnew, n)]
            if auto:
                wb = wb and n > 0
            else:
                wb = wb and n > 0 and pending() == 0
            pend_at_fill = pending()
            node.metadata_for = lambda i, cc: {'operation_result': {'status': 'applied', 'consumed_milligas': '100000'}}
            ok, res = lib.call(lambda: getattr(client.bulk(*src), 'autofill' if auto else 'fill')())
            if ok:
                ctrs = [int(x['counter']) for x in res.contents]
                if ctrs != list(range(ctrs[0], ctrs[0] + len(ctrs))) or len(ctrs) != n:
                    obs.append(('Other', f'bulk of filled groups: counters {ctrs}'))
                else:
                    obs.append(('Filled', ctrs[0], n))
                groups.append(res)
                ginfo.append({'lineage': lnew, 'stamp': ninj, 'refilled': False, 'plain_fill_with_pending': (not auto) and pend_at_fill > 0,
                              'filled_at': idx})
            elif n == 0:
                obs.append(('Rejected',))
            else:
                obs.append(('Other', f'bulk: {type(res).__name__}: {res}'[:200]))
        elif kind == 'Sign':
            g = c[1]
            if g >= len(groups):
                obs.append(('Rejected',))
            else:
                ok, res = lib.call(groups[g].sign)
                obs.append(('None',) if ok else ('Other', f'sign: {res}'[:200]))
        elif kind == 'Inject':
            g, okflag = c[1], c[2]
            if g >= len(groups):
                wb = False
                obs.append(('Rejected',))
                continue
            if groups[g] is None:
                raise lib.InternalError('history references the group of a refused send()')
            wb = wb and ginfo[g]['stamp'] == ninj
            attempt.clear()
            attempt['ok'] = okflag
            expected = node.counters[pkh] + pending() + 1
            ok, res = lib.call(lambda: groups[g].sign().inject())
            raw = attempt.get('raw')
            if raw is None or ok != okflag:
                obs.append(('Other', f'inject: ok={ok} {res!r}'[:200]))
                continue
            parsed = parse_payload(raw)
            ctrs = [x[1] for x in parsed]
            good_shape = all(s == src21 for s, _ in parsed) and ctrs == list(range(ctrs[0], ctrs[0] + len(ctrs)))
            obs.append(('Injected', ctrs[0], len(ctrs), okflag) if good_shape else ('Other', f'payload counters {ctrs}'))
            dirty.discard(ginfo[g]['lineage'])
            if okflag:
                right = good_shape and ctrs[0] == expected
                if not right:
                    all_right = False
                    fails.append({'call_index': idx, 'group': g, 'carried': ctrs, 'expected_first': expected, **ginfo[g],
                                  'stale': ginfo[g]['stamp'] != ninj})
                ninj += 1
                add_pending(len(ctrs), str(idx))
        elif kind == 'Bake':
            node.counters[pkh] += pending()
            node.mempool_applied = [op for op in node.mempool_applied
                                    if not any(cc.get('source') == pkh for cc in (op[1] if isinstance(op, list) else op).get('contents', []))]
            node.mempool_unprocessed = [op for op in node.mempool_unprocessed
                                        if not any(cc.get('source') == pkh for cc in (op[1] if isinstance(op, list) else op).get('contents', []))]
            obs.append(('None',))
    for f in fails:
        f['mempool_shape'] = style
    model_h = []
    for idx, c in enumerate(h):
        model_h += concrete.get(idx, [c])
    return obs, all_right, wb, fails, model_h


# ---- Coq rendering ---------------------------------------------------------------------------------------------------
def coq_call(c) -> str:
    k = c[0]
    if k == 'Fill':
        return f'(Fill {cnat(c[1])} {cN(c[2])})'
    if k == 'Autofill':
        return f'(Autofill {cnat(c[1])} {cN(c[2])} {cbool(c[3])})'
    if k == 'FillAt':
        return f'(FillAt {cnat(c[1])} {cN(c[2])} {cN(c[3])})'
    if k == 'Sign':
        return f'(Sign {cnat(c[1])})'
    if k == 'Inject':
        return f'(Inject {cnat(c[1])} {cbool(c[2])})'
    return 'Bake'


def coq_obs(o) -> str:
    k = o[0]
    if k == 'Filled':
        return f'(OFilled {cN(o[1])} {cN(o[2])})'
    if k == 'Injected':
        return f'(OInjected {cN(o[1])} {cN(o[2])} {cbool(o[3])})'
    if k == 'SimFailed':
        return 'OSimFailed'
    if k == 'Rejected':
        return 'ORejected'
    if k == 'None':
        return 'ONone'
    return '(OFilled 999999999999999 999999999999999)'  # 'Other': something the model never produces


# ---- generators ------------------------------------------------------------------------------------------------------
def gen_wellbehaved(rng, maxlen):
    """fill/autofill on a clean lineage, inject before anything else moves the counter; refusals, bakes, signs."""
    h, ngroups, pend, dirty = [], 0, None, set()
    pend0 = rng.choice([0, 0, 1, 3])
    pend = pend0
    while len(h) < maxlen - 2:
        clean = [l for l in range(3) if l not in dirty]
        if not clean:
            break
        l = rng.choice(clean)
        n = rng.choice([1, 1, 2, 3])
        if rng.random() < 0.3:
            if pend > 0:
                h.append(('Bake',))
                pend = 0
            h.append(('Fill', l, n))
        elif rng.random() < 0.3:   # the one-call paths: send() = autofill().sign().inject(); send_async(counter=right one)
            ok = rng.random() < 0.8
            h.append(('Send', l, n, ok) if rng.random() < 0.6 else ('SendAsync', l, n, ok, 0))
            ngroups += 1
            if ok:
                pend += n
            if rng.random() < 0.3:
                h.append(('Bake',))
                pend = 0
            continue
        else:
            simok = rng.random() < 0.85
            h.append(('Autofill', l, n, simok))
            if not simok:
                dirty.add(l)
                continue
        dirty.add(l)
        g = ngroups
        ngroups += 1
        if rng.random() < 0.3:
            h.append(('Sign', g))
        if rng.random() < 0.15:
            continue  # built but never injected
        ok = rng.random() < 0.75
        h.append(('Inject', g, ok))
        dirty.discard(l)
        if ok:
            pend += n
        elif rng.random() < 0.5:
            h.append(('Inject', g, True))  # retry of the very same signed group
            pend += n
        if rng.random() < 0.3:
            h.append(('Bake',))
            pend = 0
    return pend0, h[:maxlen]


def gen_prebuilt(rng, maxlen):
    """The cache's legitimate use: k groups (batches of 1..3) of ONE lineage filled back to back while nothing is pending, then
    injected in order (all accepted, or one refusal which derails the rest).  On the unchanged code every accepted injection of
    the all-accepted variant carries the right counters although the lineage is 're-filled'."""
    l = rng.randrange(3)
    k = rng.choice([2, 2, 3, 4])
    h = []
    if rng.random() < 0.3:
        h += [('Autofill', (l + 1) % 3, rng.choice([1, 2]), True), ('Inject', 0, True), ('Bake',)]
    first = sum(1 for c in h if c[0] == 'Autofill')
    pend0 = 0
    if rng.random() < 0.5:
        for _ in range(k):
            h.append(('Fill', l, rng.choice([1, 2, 2, 3])))
    else:   # autofilled back to back while operations of the account are pending (initially, or the unbaked one above)
        pend0 = rng.choice([0, 1, 2])
        if h and h[-1] == ('Bake',) and rng.random() < 0.7:
            h.pop()
        if rng.random() < 0.3:
            h.append(('SendAsync', (l + 2) % 3, 1, True, 0))
            first += 1
        for _ in range(k):
            h.append(('Autofill', l, rng.choice([1, 2, 2, 3]), True))
    refuse_at = rng.randrange(k) if rng.random() < 0.25 else None
    for i in range(k):
        h.append(('Inject', first + i, i != refuse_at))
        if rng.random() < 0.2:
            h.append(('Bake',))
    return pend0, h[:max(maxlen, len(h))]


def gen_bulk(rng, maxlen):
    """several groups are filled/autofilled standalone (separate lineages, so they all get the same counters), then batched with
    client.bulk() into one group which is autofilled (or filled) and injected"""
    pend0 = rng.choice([0, 0, 1, 2])
    k = rng.choice([2, 2, 3])
    h = []
    for i in range(k):
        h.append(('Autofill', i, rng.choice([1, 1, 2]), True) if (pend0 or rng.random() < 0.5) else ('Fill', i, rng.choice([1, 2])))
    auto = bool(pend0) or rng.random() < 0.6
    h.append(('Bulk', list(range(k)), 7, auto))
    if rng.random() < 0.3:
        h.append(('Sign', k))
    h.append(('Inject', k, rng.random() < 0.85))
    if rng.random() < 0.4:
        h += [('Bake',), ('Bulk', [0, k], 8, True), ('Inject', k + 1, True)]
    return pend0, h


def gen_arbitrary(rng, maxlen):
    h, ngroups, usable = [], 0, []
    for _ in range(rng.randrange(1, maxlen + 1)):
        k = rng.random()
        if k < 0.12:
            ok = rng.random() < 0.8
            if rng.random() < 0.5:
                h.append(('Send', rng.randrange(3), rng.choice([1, 1, 2, 3]), ok))
            else:
                h.append(('SendAsync', rng.randrange(3), rng.choice([1, 1, 2]), ok, rng.choice([0, 0, 0, 1])))
            if ok:
                usable.append(ngroups)
            ngroups += 1
        elif k < 0.22:
            h.append(('Fill', rng.randrange(3), rng.choice([1, 1, 2, 3, 0])))
            if h[-1][2]:
                usable.append(ngroups)
                ngroups += 1
        elif k < 0.5:
            ok = rng.random() < 0.8
            h.append(('Autofill', rng.randrange(3), rng.choice([1, 1, 2, 3, 0]), ok))
            if ok and h[-1][2]:
                usable.append(ngroups)
                ngroups += 1
        elif k < 0.58 and usable:
            h.append(('Sign', rng.choice(usable)))
        elif k < 0.9 and usable:
            h.append(('Inject', rng.choice([usable[-1], usable[-1], rng.choice(usable)]), rng.random() < 0.8))
        else:
            h.append(('Bake',))
    return rng.choice([0, 0, 1, 2]), h


FIXED = [
    (10, 0, [('Fill', 0, 1), ('Fill', 0, 1), ('Inject', 1, True)]),
    (10, 0, [('Autofill', 0, 2, False), ('Autofill', 0, 2, True), ('Inject', 0, True)]),
    (10, 0, [('Autofill', 0, 1, True), ('Inject', 0, True), ('Fill', 1, 1), ('Inject', 1, True)]),
    (10, 0, [('Autofill', 0, 2, True), ('Sign', 0), ('Inject', 0, True), ('Autofill', 0, 1, True), ('Inject', 1, False), ('Bake',),
             ('Autofill', 1, 3, True), ('Inject', 2, True), ('Bake',), ('Fill', 0, 1), ('Inject', 3, True)]),
    # pre-building two groups on one lineage and injecting them in order (the cache's legitimate use)
    (126, 0, [('Fill', 0, 1), ('Fill', 0, 2), ('Inject', 0, True), ('Inject', 1, True)]),
    (10, 0, [('Fill', 0, 2), ('Fill', 0, 2), ('Inject', 0, True), ('Inject', 1, True)]),
    (10, 1, [('Autofill', 0, 1, True), ('Autofill', 0, 1, True), ('Inject', 0, True), ('Inject', 1, True)]),
    (17, 0, [('Autofill', 0, 1, True), ('Autofill', 1, 1, True), ('Bulk', [0, 1], 7, True), ('Inject', 2, True)]),
    # the same unfilled group object (and an extension of it) sent again after the node moved on
    (10, 0, [('Autofill', 0, 1, True), ('Inject', 0, True), ('Bake',), ('Autofill', 0, 1, True), ('Inject', 1, True)]),
    (10, 0, [('Send', 0, 1, True), ('Bake',), ('Send', 0, 2, True), ('Bake',), ('Fill', 0, 2), ('Inject', 2, True)]),
    (126, 0, [('Fill', 1, 2), ('Inject', 0, True), ('Bake',), ('Send', 1, 2, True), ('Send', 1, 3, False), ('Bake',), ('Send', 1, 3, True)]),
    (17, 3, [('Fill', 0, 2), ('Autofill', 1, 1, True), ('Bulk', [0, 1], 7, True), ('Sign', 2), ('Inject', 2, True)]),
    (126, 2, [('Autofill', 0, 1, True), ('Inject', 0, True), ('Autofill', 1, 2, True), ('Inject', 1, True)]),
    (18, 0, [('SendAsync', 0, 1, True, 0), ('Send', 0, 1, True)]),
    (18, 0, [('SendAsync', 0, 2, True, 0), ('Autofill', 0, 1, True), ('Inject', 1, True), ('Bake',), ('SendAsync', 1, 1, True, 0)]),
    (5, 2, [('SendAsync', 1, 1, False, 0), ('SendAsync', 1, 1, True, 0), ('Autofill', 1, 2, True), ('Inject', 2, True)]),
    (10, 0, [('Fill', 1, 3), ('Fill', 1, 2), ('Fill', 1, 1), ('Inject', 0, True), ('Bake',), ('Inject', 1, True), ('Inject', 2, True)]),
    (0, 2, [('Autofill', 1, 1, True), ('Inject', 0, False), ('Inject', 0, True), ('Bake',), ('Autofill', 1, 1, True), ('Inject', 1, True)]),
]


def classify(fail) -> str | None:
    if fail['stale']:
        return 'stale'
    if fail['refilled']:
        return 'refill-shifts-counters'
    if fail['plain_fill_with_pending']:
        return 'fill-ignores-mempool'
    return None


def run(ctx: lib.Ctx) -> None:
    rng = ctx.rng
    ctx.rule = ('call histories of length <= 10 (quick) / <= 16 (thorough) over Fill/Autofill(ok|simulation fails)/Sign/Inject(accepted|refused)/'
                'Bake on up to 3 lineages with groups of 0..3 transfers, node counter at zarith boundaries, initial pending operations, '
                'mempool entries in the three shapes the node returns plus foreign noise; two streams: well-behaved by construction, and arbitrary. '
                'non-trivial = at least one injection attempt; distinct = distinct (initial state, history)')
    key = make_key(rng, b'ed')
    maxlen = ctx.n(10, 16)
    hist = []
    for p in sorted(glob.glob(os.path.join(lib.VERIF, 'corpus', PROP, '*.json'))):
        d = json.load(open(p))
        hist.append((d['node_counter'], d['pending'], [tuple(c) for c in d['history']]))
        ctx.corpus_cases += 1
    hist += FIXED
    # exhaustive: every history up to length 2 (quick) / 3 (thorough) over a 17-call alphabet
    alphabet = ([('Fill', l, n) for l in (0, 1) for n in (1, 2)] + [('Autofill', l, n, ok) for l in (0, 1) for n in (1, 2) for ok in (True, False)]
                + [('Inject', g, ok) for g in (0, 1) for ok in (True, False)] + [('Bake',)])
    import itertools
    for k in range(1, ctx.n(2, 3) + 1):
        for h in itertools.product(alphabet, repeat=k):
            if any(c[0] == 'Inject' for c in h):
                hist.append((10, 0, list(h)))
                if k <= 2:
                    hist.append((127, 1, list(h)))
    ctx.extra['exhaustive_histories'] = len(hist) - len(FIXED) - ctx.corpus_cases
    n_total = len(hist) + ctx.n(1000, 20000)
    while len(hist) < n_total:
        nc0 = rng.choice([0, 1, 5, 10, 125, 126, 127, 128, 16382, 16383, 10 ** 6, 2 ** 63 - 2])
        k = rng.random()
        if k < 0.06:
            pend0, h = gen_bulk(rng, maxlen)
        elif k < 0.16:
            pend0, h = gen_prebuilt(rng, maxlen)
        elif k < 0.5:
            pend0, h = gen_wellbehaved(rng, maxlen)
        else:
            pend0, h = gen_arbitrary(rng, maxlen)
        hist.append((nc0, pend0, h))

    cases, meta = [], []
    reported = 0
    counts = {'wb': 0, 'wb_with_injection': 0, 'stale_skipped': 0}
    for nc0, pend0, h in hist:
        obs, all_right, wb, fails, model_h = run_history(nc0, pend0, h, key, rng)
        n_inj = sum(1 for o in obs if o[0] == 'Injected')
        ctx.case((nc0, pend0, tuple(h)), nontrivial=n_inj > 0,
                 kind=f"{'wb' if wb else 'arbitrary'}:{'right' if all_right else 'wrong'}:inj{min(n_inj, 3)}",
                 sample={'node_counter': nc0, 'pending': pend0, 'history': [list(c) for c in h], 'observed': [list(o) for o in obs]})
        counts['wb'] += wb
        counts['wb_with_injection'] += bool(wb and n_inj)
        cases.append((f"({cN(nc0)}, {cN(pend0)}, {clist(coq_call(c) for c in model_h)})",
                      f"({clist(coq_obs(o) for o in obs)}, {cbool(all_right)}, {cbool(wb)})"))
        meta.append((nc0, pend0, h, obs, all_right, wb, fails))
        others = [o for o in obs if o[0] == 'Other']
        # ---- (B)
        for f in fails:
            cls = classify(f)
            if cls == 'stale':
                counts['stale_skipped'] += 1
                continue
            fd = ctx.finding(cls) if cls else None
            if fd is not None:
                ctx.known_hit(fd)
            elif reported < 3:
                reported += 1
                ctx.violation(f"injected group carries counters {f['carried']} but the node expects {f['expected_first']} first "
                              f"(group filled once on a clean lineage, nothing injected in between)", replay_doc(nc0, pend0, h, obs, f), found=True)
        if others and reported < 3:
            reported += 1
            ctx.violation(f'client call misbehaved: {others[0][1]}', replay_doc(nc0, pend0, h, obs, None), found=True)
        if wb and not all_right and reported < 3:  # cannot happen unless classify and wb disagree
            reported += 1
            ctx.violation('well-behaved history with a wrong injected counter', replay_doc(nc0, pend0, h, obs, fails[0] if fails else None), found=True)
    ctx.extra.update(counts)

    bad = ctx.coq_mismatches('hist', IMPORTS, 'report', 'report_eqb', 'N * N * list call', 'list obs * bool * bool', cases, shard=300)
    if reported == 0 and bad:
        nc0, pend0, h, obs, all_right, wb, fails = meta[bad[0]]
        rep = {'correspondence': 'C25/OperationGroup.fill+autofill+inject, ExecutionContext.get_counter/reset/get_counter_offset vs Client.Counter.run',
               'disagreements': len(bad), **replay_doc(nc0, pend0, h, obs, None),
               'implementation': cases[bad[0]][1], 'model': ctx.coq_eval(IMPORTS, f'report {cases[bad[0]][0]}')}
        # search 1: disagreeing histories on which the implementation literally fails the property (whatever the class of the
        # failing injection) while the model of the unchanged code satisfies it: the change broke the property on that history
        found = None
        cand = [i for i in bad if not meta[i][4] and meta[i][6]][:200]
        if cand:
            sub = [(cases[i][0], 'true') for i in cand]
            model_wrong = set(ctx.coq_mismatches('verdict', IMPORTS, "fun x => let '(a, b, h) := x in all_right (run a b h)", 'Bool.eqb',
                                                 'N * N * list call', 'bool', sub))
            for j, i in enumerate(cand):
                if j not in model_wrong:
                    found = (meta[i], meta[i][6][0])
                    break
        # search 2: does some *well-behaved* history among the disagreeing ones carry a wrong counter?
        for i in (bad if not found else []):
            m = meta[i]
            for f in m[6]:
                if classify(f) is None:
                    found = (m, f)
                    break
            if found:
                break
        if found:
            m, f = found
            ctx.violation(f"injected group carries counters {f['carried']} but the node expects {f['expected_first']} first "
                          f"(on this history the unchanged code carries the expected counters)",
                          replay_doc(m[0], m[1], m[2], m[3], f), found=True)
        else:
            ctx.violation('implementation no longer corresponds to the model the theorems are about', rep, found=False)


def replay_doc(nc0, pend0, h, obs, fail):
    return {'node_counter': nc0, 'pending': pend0, 'history': [list(c) for c in h], 'observed': [list(o) for o in obs], 'failing_injection': fail,
            'repro': 'harness/c25.py run_history(node_counter, pending, history, key, rng): lineage l = client.operation_group(); '
                     'Fill l n = l.transaction(..)*n .fill(); Autofill = .autofill(); Inject g = groups[g].sign().inject() against c25_node.SimNode'}


def replay(ctx, doc):
    key = make_key(ctx.rng, b'ed')
    obs, all_right, wb, fails, _mh = run_history(doc['node_counter'], doc['pending'], [tuple(c) for c in doc['history']], key, ctx.rng)
    print(json.dumps({'observed': obs, 'all_right': all_right, 'well_behaved': wb, 'failures': fails}, indent=1, default=repr))
    return any(classify(f) is None for f in fails)
