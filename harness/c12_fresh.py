"""Helper of harness/c12.py: evaluate a sequence of conversions in a *new* interpreter (one process per sequence, so no
module-level state — caches, memo tables — left behind by the long-lived harness process is visible).

Reads a JSON list of steps [{'type': <Micheline type>, 'value': <Micheline value>|None}, …] on stdin, executes them in
order and prints the list of observations, one per step:
{'layouts': [repr(get_type_layout(False)), repr(get_type_layout(True))] | None, 'python': repr(to_python_object) | None,
 'back': Micheline of from_python_object(to_python_object(v)) | None, 'error': str | None}.
(fork()ing a pristine child per step was tried first: a fork costs 0.3-0.6 s in this sandbox, too slow.)"""
import json
import sys


def observe(step):
    from pytezos.michelson.types.base import MichelsonType
    out = {'layouts': None, 'python': None, 'back': None, 'error': None}
    try:
        T = MichelsonType.match(step['type'])
        if hasattr(T, 'get_type_layout'):
            out['layouts'] = [repr(T.get_type_layout(infer_names=False)), repr(T.get_type_layout(infer_names=True))]
        if step.get('value') is not None:
            v = T.from_micheline_value(step['value'])
            o = v.to_python_object(lazy_diff=None)
            out['python'] = repr(o)
            out['back'] = T.from_python_object(o).to_micheline_value(mode='readable', lazy_diff=None)
    except BaseException as e:  # noqa: BLE001
        out['error'] = f'{type(e).__name__}: {e}'[:300]
    return out


def main():
    steps = json.load(sys.stdin)
    json.dump([observe(step) for step in steps], sys.stdout, default=repr)


if __name__ == '__main__':
    main()
