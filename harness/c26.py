"""C26 — RPC retry policy. Correspondence: RpcNode.request (real code, `requests.request` and
`sleep` of pytezos.rpc.node substituted by recording stubs) vs Client/Retry.v `run_list`,
exhaustively over all response sequences the loop can consume."""
import itertools
import json

import requests

import lib
from lib import cbool, clist, cnat, cZ

PROP = 'C26'
IMPORTS = 'From PV Require Import Client.Retry.'

# ---- the alphabet (property text): abstract symbol -> (status class, flags j p t m) ----------
# flags: json_list, has_proto, has_temp, has_marker
SYMS = {
    'Ok200': ('S200', (0, 0, 0, 0)),
    'Tmp5xx': ('S5xx', (1, 0, 1, 0)),
    'TmpMarker5xx': ('S5xx', (1, 0, 1, 1)),
    'Perm5xx': ('S5xx', (1, 0, 0, 0)),
    'PermMarker5xx': ('S5xx', (1, 0, 0, 1)),  # JSON errors quoting prevalidator.ml: a prevalidator failure
    'Proto5xx': ('S5xx', (1, 1, 0, 0)),
    'ProtoTmp5xx': ('S5xx', (1, 1, 1, 0)),
    'ProtoTmpMarker5xx': ('S5xx', (1, 1, 1, 1)),
    'Preval5xx': ('S5xx', (0, 0, 0, 1)),
    'Text5xx': ('S5xx', (0, 0, 0, 0)),
    'E401': ('S401', (0, 0, 0, 0)),
    'E401Tmp': ('S401', (1, 0, 1, 0)),
    'E404': ('S404', (0, 0, 0, 0)),
    'E404Preval': ('S404', (0, 0, 0, 1)),
    'E4xx': ('SOther', (0, 0, 0, 0)),
    'E4xxTmp': ('SOther', (1, 0, 1, 0)),
    'E4xxPreval': ('SOther', (0, 0, 0, 1)),
}


def spec_transient(sym: str) -> bool:
    """The property's own rule (independent of the Coq model): retry only after a 5xx whose
    errors are temporary and not protocol errors, or a prevalidator failure."""
    stc, (j, p, t, m) = SYMS[sym]
    if stc != 'S5xx':
        return False
    if j and p:
        return False
    return bool((j and t) or m)


def concrete(sym: str, i: int, rng) -> requests.Response:
    stc, (j, p, t, m) = SYMS[sym]
    status = {'S200': [200], 'S401': [401], 'S404': [404], 'SOther': [400, 403, 409, 422],
              'S5xx': [500, 500, 502, 503, 504]}[stc]
    r = requests.Response()
    r.status_code = rng.choice(status)
    tok = f'tok{i}'
    # headers a proxy or the node may add: the retry policy (attempts, delays, outcome) must not depend on them
    if rng.random() < 0.35:
        r.headers['Retry-After'] = rng.choice(['1', '2', '3', '5', '30', '120', 'Wed, 21 Oct 2026 07:28:00 GMT', '0'])
    if rng.random() < 0.15:
        r.headers['X-RateLimit-Reset'] = str(rng.choice([1, 10, 3600]))
    if stc == 'S200':
        r.headers['content-type'] = 'application/json'
        r._content = json.dumps({'ok': tok}).encode()
        return r
    if j:
        mk = ' at src/lib_shell/prevalidator.ml:1918' if m else ''
        proto_ids = ['proto.alpha.michelson_v1.script_rejected', 'proto.018-Proxford.contract.balance_too_low', 'proto.x']
        node_ids = ['node.prevalidation.oversized', 'prevalidation.x', 'protocol', 'node.z', 'protox.y', 'a.proto.b']
        perm = lambda: rng.choice(['permanent', 'branch', 'Temporary'])  # noqa: E731
        errs = []
        if p:
            proto_temp = t and rng.random() < 0.5
            errs.append({'kind': 'temporary' if proto_temp else perm(), 'id': rng.choice(proto_ids)})
            if t and not proto_temp:
                errs.append({'kind': 'temporary', 'id': rng.choice(node_ids)})
            elif rng.random() < 0.6:
                errs.append({'kind': 'temporary' if t else perm(), 'id': rng.choice(node_ids)})
        else:
            errs.append({'kind': 'temporary' if t else perm(), 'id': rng.choice(node_ids)})
            if rng.random() < 0.6:
                errs.append({'kind': perm(), 'id': rng.choice(node_ids)})
        if rng.random() < 0.3:
            errs.append('stray string element')
        rng.shuffle(errs)
        if not isinstance(errs[-1], dict):
            errs.reverse()
        for e in errs:
            if isinstance(e, dict):
                e['msg'] = tok
        if m:
            rng.choice([e for e in errs if isinstance(e, dict)])['msg'] = tok + mk
        r.headers['content-type'] = 'application/json'
        r._content = json.dumps(errs).encode()
    else:
        r.headers['content-type'] = rng.choice(['text/plain', 'text/html; charset=utf-8'])
        txt = f'Internal error {tok}'
        if m:
            txt = f'Fatal error: exception Assert_failure("src/lib_shell/prevalidator.ml", 1918, 4) {tok}'
        r._content = txt.encode()
    return r


def run_impl(seq, rng):
    """Run RpcNode.request against the scripted responses. Returns observation
    (requests, delays as quarter seconds or -1, outcome tuple)."""
    import pytezos.rpc.node as node

    resps = [concrete(s, i, rng) for i, s in enumerate(seq)]
    calls = []
    sleeps = []

    class FakeRequests:
        exceptions = requests.exceptions

        @staticmethod
        def request(**kw):
            i = len(calls)
            calls.append(kw)
            if i < len(resps):
                return resps[i]
            extra = requests.Response()
            extra.status_code = 200
            extra.headers['content-type'] = 'application/json'
            extra._content = json.dumps({'ok': f'tok{i}'}).encode()
            resps.append(extra)
            return extra

    saved = (node.requests, node.sleep)
    node.requests = FakeRequests
    node.sleep = lambda d: sleeps.append(d)
    try:
        ok, val = lib.call(node.RpcNode('http://n0').request, 'GET', '/chains/main/x')
    finally:
        node.requests, node.sleep = saved
    if ok:
        idx = [i for i, r in enumerate(resps) if r is val]
        out = ('Returned', idx[0]) if idx else ('Other', 'returned a foreign object')
    elif isinstance(val, node.RpcError):
        text = repr(val.args)
        if text.startswith("('Unauthorized: "):
            out = ('Unauthorized',)
        elif text.startswith("('Not found: "):
            out = ('NotFound',)
        else:
            idx = [i for i in range(len(resps)) if f'tok{i}' in text and f'tok{i}0' not in text]
            out = ('FromResponse', idx[0]) if len(idx) == 1 else ('Other', text[:200])
    else:
        out = ('Other', f'{type(val).__name__}: {val}'[:200])
    dq = [int(d * 4) if float(d * 4).is_integer() else -1 for d in sleeps]
    wire = [(r.status_code, r.headers.get('content-type'), r.text) for r in resps[:len(calls)]]
    return len(calls), dq, out, [float(x) for x in sleeps], wire


def spec_oracle(seq, obs):
    """(B) the property itself, checked on the implementation's observation. Returns a reason or None."""
    nreq, dq, out, sleeps, _wire = obs
    if nreq > 6 or nreq < 1:
        return f'{nreq} requests were made'
    # resend iff transient
    expect = 1
    for k, s in enumerate(seq):
        if k >= 5 or not spec_transient(s):
            break
        expect += 1
    if nreq != expect:
        return f'{nreq} requests sent, the retry rule demands {expect}'
    if len(sleeps) != nreq - 1:
        return f'{len(sleeps)} sleeps for {nreq} requests'
    if any(b < a for a, b in zip(sleeps, sleeps[1:])) or any(d > 2.0 or d <= 0 for d in sleeps):
        return f'delays {sleeps} decrease or exceed two seconds'
    last = seq[nreq - 1] if nreq - 1 < len(seq) else 'Ok200'
    stc = SYMS[last][0]
    want = {'S200': ('Returned', nreq - 1), 'S401': ('Unauthorized',), 'S404': ('NotFound',)}.get(stc, ('FromResponse', nreq - 1))
    if out != want:
        return f'outcome {out}, expected {want} (the last response decides)'
    return None


def coq_resp(sym):
    stc, fl = SYMS[sym]
    return f'(mk {stc} ' + ' '.join(cbool(bool(x)) for x in fl) + ')'


def coq_obs(obs):
    nreq, dq, out, _, _wire = obs
    o = {'Returned': lambda: f'(Returned {cnat(out[1])})', 'Unauthorized': lambda: 'Unauthorized',
         'NotFound': lambda: 'NotFound', 'FromResponse': lambda: f'(FromResponse {cnat(out[1])})',
         'Other': lambda: '(FromResponse 4999%nat)'}[out[0]]()
    return f'({cnat(nreq)}, {clist(cZ(d) for d in dq)}, {o})'


def sequences(full=True):
    trans = [s for s in SYMS if spec_transient(s)]
    if not full:
        trans = [s for s in trans if s != 'TmpMarker5xx']  # quick tier: 3 of the 4 transient symbols in prefixes
    for k in range(0, 6):
        for pre in itertools.product(trans, repeat=k):
            for lastsym in SYMS:
                if k < 5 and spec_transient(lastsym):
                    continue  # would not be the last one
                yield list(pre) + [lastsym]
    # six transient responses plus a seventh that must never be requested
    for pre in itertools.product(trans, repeat=6):
        yield list(pre) + ['Ok200']


def run(ctx: lib.Ctx) -> None:
    import pytezos.rpc.node as node

    ctx.rule = ('exhaustive: every response sequence the retry loop can consume (k transient responses, k=0..5, then any '
                'symbol; or six transient ones; quick tier: prefixes use 3 of the 4 transient symbols) over 17 abstract symbols = status class x (json list, proto id, temporary kind, '
                'prevalidator marker); each symbol instantiated as a concrete requests.Response drawn from the seeded PRNG '
                '(thorough: 6 instantiations). non-trivial = at least one retry happens; distinct = distinct symbol sequence')
    # tables: the three constants
    consts = (node.TRANSIENT_RETRY_ATTEMPTS, node.TRANSIENT_RETRY_INITIAL_DELAY, node.TRANSIENT_RETRY_MAX_DELAY)
    ctx.table('TRANSIENT_RETRY_ATTEMPTS/INITIAL_DELAY/MAX_DELAY')
    ctx.extra['constants'] = list(consts)
    const_ok = consts == (6, 0.25, 2.0)

    seqs = list(sequences(full=ctx.thorough))
    reps = ctx.n(1, 6)
    cases, meta = [], []
    for rep in range(reps):
        for seq in seqs:
            obs = run_impl(seq, ctx.rng)
            ctx.case(tuple(seq), nontrivial=len(seq) > 1, kind=f'len{len(seq)}:{seq[-1]}',
                     sample={'responses': seq, 'requests': obs[0], 'sleeps': obs[3], 'outcome': list(obs[2])})
            cases.append((clist(coq_resp(s) for s in seq), coq_obs(obs)))
            meta.append((seq, obs))
    ctx.extra['exhaustive'] = True
    ctx.extra['sequences'] = len(seqs)
    bad = ctx.coq_mismatches('retry', IMPORTS, 'fun l => obs (run_list l)', 'obs_eqb', 'list resp', 'nat * list Z * outcome', cases)

    # (B) the property's own oracle on every observation (cheap, so not only on disagreements)
    reported = 0
    for i, (seq, obs) in enumerate(meta):
        why = spec_oracle(seq, obs)
        if why and reported < 3:
            reported += 1
            ctx.violation(f'retry policy violated: {why}',
                          {'responses': seq, 'wire': obs[4], 'observed': {'requests': obs[0], 'sleeps': obs[3], 'outcome': list(obs[2])},
                           'repro': 'harness/c26.py run_impl(responses) against pytezos.rpc.node.RpcNode.request with stubbed requests/sleep'})
    if reported == 0 and (bad or not const_ok):
        i = bad[0] if bad else None
        rep = {'correspondence': 'C26/RpcNode.request vs Client.Retry.run_list', 'constants': list(consts)}
        if i is not None:
            seq, obs = meta[i]
            rep.update({'responses': seq, 'wire': obs[4], 'observed': {'requests': obs[0], 'sleeps': obs[3], 'outcome': list(obs[2])},
                        'model': ctx.coq_eval(IMPORTS, f'obs (run_list {cases[i][0]})'), 'disagreements': len(bad)})
        ctx.violation('implementation no longer corresponds to the model the theorems are about', rep, found=False)
