"""C01 — the interpreter computes the Michelson result of well-typed programs.

(A) correspondence: the real Interpreter (pytezos.michelson.repl) vs the model Michelson/PySem.v `py_eval`
    (final stack as pytezos objects incl. their classes, FAILWITH operand, or error), evaluated inside coqc.
(B) the property's oracle: the implementation's observation, classes erased, vs the reference semantics
    Michelson/RefSem.v `ref_eval` (inside coqc) on the same well-typed program and input stack.
Also: every generated program must be accepted by Michelson/Typing.v `typecheck` (else the generator and the
type checker disagree: internal error), and RefSem is validated on the Octez opcode vectors of the repo.
"""
from __future__ import annotations

import glob
import json
import os
import signal

import c01_gen as G
import lib

PROP = 'C01'
IMPORTS = 'From PV Require Import Michelson.Instr Michelson.Typing Michelson.RefSem Michelson.PyStack Michelson.PySem.'
FUEL = 700
CASE_TY = 'env * (instr * list (ty * data))'
PRELUDE = f'''
Definition erase_obs (o : obs) : outcome :=
  match o with ODone s => Done (map erase s) | OFailed v => Failed (erase v) | OError => RtError | OOutOfFuel => OutOfFuel end.
Definition ref_run (c : {CASE_TY}) : outcome :=
  ref_eval (fst c) {FUEL} (fst (snd c)) (map (fun p => value_of_data (snd p)) (snd (snd c))).
Definition py_run' (c : {CASE_TY}) : obs := py_run (fst c) {FUEL} (fst (snd c)) (snd (snd c)).
Definition tc_ok (c : {CASE_TY}) : bool :=
  env_okb (fst c) && match typecheck (fst (snd c)) (map fst (snd (snd c))) with Some _ => true | None => false end.
(* what the model is compared on: the full objects (stack programs) or their erasure (contracts through run_code) *)
Inductive pyobs := Full (o : obs) | Erased (o : outcome).
Definition outcome_or_obs_eqb (a b : pyobs) : bool :=
  match a, b with
  | Full x, Full y => obs_eqb x y
  | Full x, Erased y | Erased y, Full x => outcome_eqb (erase_obs x) y
  | Erased x, Erased y => outcome_eqb x y
  end.
Definition py_obs (c : {CASE_TY}) : pyobs := Full (py_run' c).
Definition static_types (c : {CASE_TY}) : option (list ty) :=
  match typecheck (fst (snd c)) (map fst (snd (snd c))) with Some (Typed s) => Some s | _ => None end.
'''


def case_from_json(doc: dict) -> dict:
    """corpus format: {"inputs": [[type, data]...], "code": instr} with tuples written as JSON arrays;
    lists of instructions / list literals are {"l": [...]}."""
    def conv(x):
        if isinstance(x, dict) and 'l' in x:
            return [conv(y) for y in x['l']]
        if isinstance(x, list):
            return tuple(conv(y) for y in x)
        return x
    return {'inputs': [tuple(conv(p)) for p in doc['inputs']], 'code': conv(doc['code']), 'result': None,
            'retyping_map': False, 'known': doc.get('known'), 'corpus': doc.get('name'), 'env': doc.get('env')}


def case_to_json(case: dict) -> dict:
    def conv(x):
        if isinstance(x, list):
            return {'l': [conv(y) for y in x]}
        if isinstance(x, tuple):
            return [conv(y) for y in x]
        return x
    return {'inputs': [conv(p) for p in case['inputs']], 'code': conv(case['code']), 'known': case.get('known'), 'env': case.get('env')}


class Timeout(Exception):
    pass


def _alarm(_s, _f):
    raise Timeout()


def preload():
    """import the implementation before any alarm is armed (an alarm firing inside an import leaves a half-initialised module)"""
    import pytezos.michelson.repl  # noqa: F401
    import pytezos.michelson.parse  # noqa: F401
    G._hook_failwith()


def run_guarded(case):
    old = signal.signal(signal.SIGALRM, _alarm)
    signal.alarm(60)
    try:
        return G.run_impl(case)
    except Timeout:
        return {'kind': 'error', 'why': 'timeout: the implementation did not terminate within 20 s', 'timeout': True}
    finally:
        signal.alarm(0)
        signal.signal(signal.SIGALRM, old)


def build_cases(ctx: lib.Ctx, prop: str):
    """corpus + fixed-witness programs + known-finding class + generated programs (shared by C01 and C02)."""
    cases = []
    for path in sorted(glob.glob(os.path.join(lib.VERIF, 'corpus', 'C01', '*.json')) +
                       (glob.glob(os.path.join(lib.VERIF, 'corpus', 'C02', '*.json')) if prop == 'C02' else [])):
        doc = json.load(open(path))
        for d in doc if isinstance(doc, list) else [doc]:
            c = case_from_json(d)
            c['stream'] = 'corpus'
            cases.append(c)
            ctx.corpus_cases += 1
    for f in ctx.known.get('fixed', []):
        w = f.get('witness') or {}
        if 'code' in w:
            c = case_from_json(w)
            c['stream'] = 'fixed'
            c['fixed'] = f
            cases.append(c)
    for c in G.known_finding_cases(ctx.rng, ctx.n(12, 60)):
        c['stream'] = 'known-class'
        cases.append(c)
    sweep = G.instr_sweep(ctx.rng, ctx.thorough)
    if not ctx.thorough:   # the quick tier runs a seeded 33% sample of the sweep plus the cases marked `must`
        sweep = [c for c in sweep if c.get('must') or ctx.rng.random() < 0.33]
    cases.extend(sweep)
    n = ctx.n(520, 14000)
    max_size = ctx.n(12, 40)
    for k in range(n):
        strict = ctx.rng.random() < 0.5
        size = ctx.rng.choice([3, 6, max_size, max_size]) if k % 7 else max_size
        c = G.gen_case(ctx.rng, size, strict=strict)
        c['stream'] = 'strict' if strict else 'retyping-guarded'
        cases.append(c)
    return cases


def record(ctx: lib.Ctx, case, obs):
    prims = G.code_prims(case['code'])
    size = G.code_size(case['code'])
    nontrivial = size >= 3 and len(prims) >= 2
    ctx.case((G.case_text(case),), nontrivial=nontrivial, kind=None,
             sample={'program': G.case_text(case)[:300], 'outcome': obs['kind']} if size >= 5 else None)
    ctx.dist['outcome:' + obs['kind']] += 1
    ctx.dist['stream:' + case['stream']] += 1
    ctx.dist['size:%s' % ('1-4' if size < 5 else '5-12' if size <= 12 else '13-40' if size <= 40 else '>40')] += 1
    for p in prims:
        ctx.dist['instr:' + p] += 1


def replay_doc(ctx, case, obs, extra=None):
    doc = {'program': G.case_text(case), 'inputs_top_first': [[G.ty_mich(t), G.data_mich(d)] for t, d in case['inputs']],
           'code': G.code_mich(case['code']), 'stream': case['stream'], 'repro': G.repro(case), 'environment': case.get('env') or G.DEFAULT_ENV,
           'implementation': {k: (v if k != 'stack' else [{'value': x[3], 'type': x[2]} for x in v]) for k, v in obs.items() if k != 'value'},
           'case_json': case_to_json(case)}
    if extra:
        doc.update(extra)
    return doc


RULE = ('type-directed generator (harness/c01_gen.py): 0-4 typed input values (boundary integers, nested '
        'pair/option/or/list shapes, near-equal values for COMPARE) and a well-typed program of <= 12 (quick) / <= 40 '
        '(thorough) instructions built stack-type-directedly over the whole fragment, incl. DIP/DIG/DUG/DUP/DROP n at '
        'depths 0..len, nested control flow, counted LOOPs, LOOP_LEFT, ITER/MAP bodies with conversion code; half of '
        'the programs allow type-changing MAP bodies (guarded by IF_CONS so the list is non-empty); a stream in '
        'the known-finding class; an oracle-only stream for BLAKE2B/SHA256/SHA512/SHA3/KECCAK on block-boundary lengths; REPL sessions of 2-5 cells on one Interpreter where ~45% of the cells fail (FAILWITH or '
        'run-time error inside DIP n / nested DIP / ITER / MAP / LOOP bodies) and every cell observes outcome, session stack '
        'and `protected`; a systematic per-instruction sweep (every overload of the arithmetic/logic/compare '
        'instructions on boundary operands incl. zero divisors, COMPARE on every comparable shape with near-equal operands, '
        'DROP/DUP/DIG/DUG n at every depth with and without a protected prefix); contract-shaped programs run through Interpreter.run_code; the corpus. '
        'non-trivial = at least 3 instructions of at least 2 kinds; distinct = distinct program text + inputs')


def triple_check(ctx: lib.Ctx, name: str, coq_cases, obs_lits, ref_lits, label=None):
    """One coqc pass evaluating typecheck, py_eval and ref_eval on every case; the three comparisons are told apart
    (by three more passes over the disagreeing cases only) when something disagrees. -> (bad_tc, bad_A, bad_B)"""
    fn = "fun c => (tc_ok c, py_obs c, ref_run c)"
    eqb = "fun a b => match a, b with (t1, o1, r1), (t2, o2, r2) => Bool.eqb t1 t2 && outcome_or_obs_eqb o1 o2 && outcome_eqb r1 r2 end"
    cases = [(c, f'(true, {o}, {r})') for c, o, r in zip(coq_cases, obs_lits, ref_lits)]
    bad = ctx.coq_mismatches(name, IMPORTS, fn, eqb, CASE_TY, 'bool * pyobs * outcome', cases, prelude=PRELUDE)
    if not bad:
        return [], [], []
    sub = [coq_cases[i] for i in bad]
    bt = ctx.coq_mismatches(name + '_tc', IMPORTS, 'tc_ok', 'Bool.eqb', CASE_TY, 'bool', [(c, 'true') for c in sub], prelude=PRELUDE)
    ba = ctx.coq_mismatches(name + '_py', IMPORTS, 'py_obs', 'outcome_or_obs_eqb', CASE_TY, 'pyobs',
                            [(coq_cases[i], obs_lits[i]) for i in bad], prelude=PRELUDE)
    bb = ctx.coq_mismatches(name + '_ref', IMPORTS, 'ref_run', 'outcome_eqb', CASE_TY, 'outcome',
                            [(coq_cases[i], ref_lits[i]) for i in bad], prelude=PRELUDE)
    return [bad[j] for j in bt], [bad[j] for j in ba], [bad[j] for j in bb]


def collect(ctx: lib.Ctx, prop: str):
    preload()
    cases = build_cases(ctx, prop)
    metas = []
    for case in cases:
        obs = run_guarded(case)
        record(ctx, case, obs)
        metas.append(obs)
    ctx.extra['impl_seconds'] = round(__import__('time').time() - ctx.t0, 1)
    coq_cases = [G.case_coq(c) for c in cases]
    return cases, metas, coq_cases


def tc_fail(ctx, cases, bad_t, label='programs'):
    """generated programs the Coq type checker rejects: counted in the evidence, skipped; an internal error only if they are many"""
    if bad_t:
        ctx.extra.setdefault('generator_typing_disagreements', {})[label] = {
            'count': len(bad_t), 'first': G.case_text(cases[bad_t[0]])[:600]}
        if len(bad_t) > max(3, len(cases) // 100):
            raise lib.InternalError(f'{len(bad_t)} of {len(cases)} generated {label} rejected by Typing.typecheck '
                                    '(generator/type checker disagree): ' + G.case_text(cases[bad_t[0]])[:600])
    return set(bad_t)


def collect_contracts(ctx: lib.Ctx):
    cases, metas = [], []
    for _ in range(ctx.n(70, 2500)):
        c = G.gen_contract(ctx.rng, ctx.rng.choice([3, 8, ctx.n(12, 40)]))
        c['stream'] = 'contract'
        old = signal.signal(signal.SIGALRM, _alarm)
        signal.alarm(60)
        try:
            o = G.run_contract(c)
        except Timeout:
            o = {'kind': 'error', 'why': 'timeout'}
        finally:
            signal.alarm(0)
            signal.signal(signal.SIGALRM, old)
        record(ctx, c, o)
        cases.append(c)
        metas.append(o)
    coq_cases = [G.case_coq(c) for c in cases]
    return cases, metas, coq_cases


SESSION_TY = 'env * (list instr * list (ty * data))'
SESSION_PRELUDE = f'''
Definition s_env (c : {SESSION_TY}) := fst c.
Definition s_cells (c : {SESSION_TY}) := fst (snd c).
Definition s_inputs (c : {SESSION_TY}) := snd (snd c).
(* every cell is well-typed for the stack it meets (types follow the reference: a failing cell changes nothing) *)
Fixpoint session_ok (e : env) (cells : list instr) (st : sty) (s : list value) : bool :=
  match cells with
  | [] => true
  | c :: r => match typecheck c st with
              | None => false
              | Some R => match ref_eval e {FUEL} c s, R with
                          | Done s', Typed st' => session_ok e r st' s'
                          | Done _, Failing => false
                          | _, _ => session_ok e r st s
                          end
              end
  end.
Definition session_valid (c : {SESSION_TY}) : bool :=
  env_okb (s_env c) && session_ok (s_env c) (s_cells c) (map fst (s_inputs c)) (map (fun p => value_of_data (snd p)) (s_inputs c)).
Definition py_sess (c : {SESSION_TY}) := py_run_session (s_env c) {FUEL} (s_cells c) (s_inputs c).
Definition ref_sess (c : {SESSION_TY}) := ref_session (s_env c) {FUEL} (s_cells c) (map (fun p => value_of_data (snd p)) (s_inputs c)).
Definition erase_sess (l : list (obs * (list pval * nat))) : list (outcome * list value) :=
  map (fun x => (erase_obs (fst x), map erase (fst (snd x)))) l.
Definition ref_sess_eqb (a b : list (outcome * list value)) : bool :=
  list_eqb (fun x y => outcome_eqb (fst x) (fst y) && list_eqb value_eqb (snd x) (snd y)) a b.
'''


def sessions(ctx: lib.Ctx, prop: str):
    """REPL sessions: (A) py_session, (B) ref_session, per cell outcome + the session stack and `protected` afterwards."""
    cases, metas = [], []
    for _ in range(ctx.n(90, 2500)):
        c = G.gen_session(ctx.rng, ctx.rng.choice([3, 6, ctx.n(10, 30)]))
        c['stream'] = 'session'
        old = signal.signal(signal.SIGALRM, _alarm)
        signal.alarm(90)
        try:
            o = G.run_session(c)
        except Timeout:
            o = [({'kind': 'error', 'why': 'timeout'}, [], 0)]
        finally:
            signal.alarm(0)
            signal.signal(signal.SIGALRM, old)
        cases.append(c)
        metas.append(o)
        ctx.case((G.session_text(c),), nontrivial=True, kind=None, sample=None)
        ctx.dist['stream:session'] += 1
        ctx.dist['session_cells'] += len(c['cells'])
        ctx.dist['session_failing_cells'] += sum(1 for k in c['kinds'] if k == 'fail')
    pre = PRELUDE + SESSION_PRELUDE
    coq = [G.session_coq(c) for c in cases]
    invalid = set(ctx.coq_mismatches('sess_ok', IMPORTS, 'session_valid', 'Bool.eqb', SESSION_TY, 'bool', [(c, 'true') for c in coq], prelude=pre))
    ctx.extra['sessions_discarded_by_typing'] = len(invalid)
    keep = [i for i in range(len(cases)) if i not in invalid]
    obs_l = [G.session_obs_coq(metas[i]) for i in keep]
    fn = 'fun c => (py_sess c, ref_sess c)'
    eqb = 'fun a b => session_obs_eqb (fst a) (fst b) && ref_sess_eqb (snd a) (snd b)'
    out_ty = 'list (obs * (list pval * nat)) * list (outcome * list value)'
    both = ctx.coq_mismatches('sess', IMPORTS, fn, eqb, SESSION_TY, out_ty,
                              [(coq[i], f'({o}, erase_sess {o})') for i, o in zip(keep, obs_l)], prelude=pre)
    bad_a, bad_b = [], []
    if both:
        sub = [keep[j] for j in both]
        ba = ctx.coq_mismatches('sess_py', IMPORTS, 'py_sess', 'session_obs_eqb', SESSION_TY, 'list (obs * (list pval * nat))',
                                [(coq[i], G.session_obs_coq(metas[i])) for i in sub], prelude=pre)
        bb = ctx.coq_mismatches('sess_ref', IMPORTS, 'ref_sess', 'ref_sess_eqb', SESSION_TY, 'list (outcome * list value)',
                                [(coq[i], f'(erase_sess {G.session_obs_coq(metas[i])})') for i in sub], prelude=pre)
        bad_a, bad_b = [sub[j] for j in ba], [sub[j] for j in bb]
    ctx.extra['session_disagreements_model'] = len(bad_a)
    ctx.extra['session_disagreements_reference'] = len(bad_b)
    return cases, metas, coq, bad_a, bad_b, pre


def session_doc(case, obs, extra=None):
    doc = {'session': G.session_text(case), 'cells': [G.code_mich(c) for c in case['cells']], 'cell_kinds': case['kinds'],
           'stream': 'session', 'environment': case.get('env'), 'repro': G.session_repro(case),
           'implementation': [{'outcome': o['kind'], 'why': o.get('why'), 'stack_after': after, 'protected_after': p} for o, after, p in obs]}
    if extra:
        doc.update(extra)
    return doc


def contract_doc(case, obs, extra=None):
    doc = {'script': case.get('script'), 'parameter': G.data_mich(case['contract']['pv']), 'storage': G.data_mich(case['contract']['sv']),
           'stream': 'contract', 'repro': G.contract_repro(case), 'implementation': {k: v for k, v in obs.items() if k != 'value'},
           'case_json': case_to_json(case)}
    if extra:
        doc.update(extra)
    return doc


def run(ctx: lib.Ctx) -> None:
    ctx.rule = RULE
    cases, metas, coq_cases = collect(ctx, PROP)

    # typecheck accepts; (A) implementation vs py_eval; (B) implementation vs ref_eval
    obs_l = [G.obs_coq(o) for o in metas]
    bad_t, bad_a, bad_b = triple_check(ctx, 'main', coq_cases, [f'(Full {o})' for o in obs_l], [f'(erase_obs {o})' for o in obs_l])
    skip = tc_fail(ctx, cases, bad_t)
    bad_a = [i for i in bad_a if i not in skip]
    bad_b = [i for i in bad_b if i not in skip]
    # the FAILWITH error must carry the repr of the operand that was on top
    bad_m = [i for i, o in enumerate(metas) if o['kind'] == 'failwith' and not o.get('repr_ok')]

    ctx.extra['disagreements_model'] = len(bad_a)
    ctx.extra['disagreements_reference'] = len(bad_b)
    ctx.extra['first_disagreements'] = [{'i': i, 'program': G.case_text(cases[i])[:400], 'stream': cases[i]['stream'],
                                         'impl': metas[i]['kind'], 'why': metas[i].get('why'), 'A': i in bad_a, 'B': i in bad_b}
                                        for i in sorted(set(bad_a) | set(bad_b)) if cases[i]['stream'] != 'known-class'][:12]
    reported = 0
    for i in bad_b:
        case, obs = cases[i], metas[i]
        if case.get('known') == 'empty-map-retype' and i not in bad_a:
            f = ctx.finding('empty-map-retype')
            if f is not None:
                ctx.known_hit(f)
                continue
        if reported >= 3:
            continue
        reported += 1
        ref = ctx.coq_eval(IMPORTS, f'ref_run {coq_cases[i]}', prelude=PRELUDE)
        what = 'a fixed defect is back: ' + case['fixed']['what'] if case.get('fixed') else \
            'interpreter result differs from the Michelson reference semantics on a well-typed program'
        ctx.violation(what, replay_doc(ctx, case, obs, {'reference_semantics': ref}), found=True)

    # contracts through run_code
    ccases, cmetas, ccoq = collect_contracts(ctx)
    cobs = [G.contract_obs_coq(o) for o in cmetas]
    cbad_t, cbad_a, cbad_b = triple_check(ctx, 'contract', ccoq, [f'(Erased {o})' for o in cobs], cobs)
    cskip = tc_fail(ctx, ccases, cbad_t, 'contracts')
    cbad_a = [i for i in cbad_a if i not in cskip]
    cbad_b = [i for i in cbad_b if i not in cskip]
    ctx.extra['contract_disagreements_reference'] = len(cbad_b)
    ctx.extra['contract_disagreements_model'] = len(cbad_a)
    for i in cbad_b:
        if reported >= 3:
            break
        reported += 1
        ref = ctx.coq_eval(IMPORTS, f'ref_run {ccoq[i]}', prelude=PRELUDE)
        ctx.violation('run_code result differs from the Michelson reference semantics on a well-typed contract',
                      contract_doc(ccases[i], cmetas[i], {'reference_semantics': ref}), found=True)

    # REPL sessions
    scases, smetas, scoq, sbad_a, sbad_b, spre = sessions(ctx, PROP)
    for i in sbad_b:
        if reported >= 3:
            break
        reported += 1
        ref = ctx.coq_eval(IMPORTS, f'ref_sess {scoq[i]}', prelude=spre)
        ctx.violation('a cell of a REPL session (same Interpreter object) differs from the reference semantics run from the '
                      'expected session stack, or a failed cell did not leave the session stack untouched',
                      session_doc(scases[i], smetas[i], {'reference_semantics': ref}), found=True)

    if reported == 0 and sbad_a:
        i = sbad_a[0]
        model = ctx.coq_eval(IMPORTS, f'py_sess {scoq[i]}', prelude=spre)
        ctx.violation('implementation no longer corresponds to the model the theorems are about',
                      session_doc(scases[i], smetas[i], {'model': model, 'correspondence': 'C01/Interpreter.execute sessions vs PySem.py_session'}),
                      found=False)
        reported += 1
    if reported == 0 and (bad_a or bad_m or cbad_a):
        if bad_a or bad_m:
            i = (bad_a or bad_m)[0]
            case, obs = cases[i], metas[i]
            model = ctx.coq_eval(IMPORTS, f"py_run' {coq_cases[i]}", prelude=PRELUDE)
            doc = replay_doc(ctx, case, obs, {'model': model})
        else:
            i = cbad_a[0]
            model = ctx.coq_eval(IMPORTS, f"py_run' {ccoq[i]}", prelude=PRELUDE)
            doc = contract_doc(ccases[i], cmetas[i], {'model': model})
        doc.update({'correspondence': 'C01/Interpreter.execute|run_code vs Michelson.PySem.py_eval',
                    'disagreements': len(bad_a) + len(cbad_a), 'failwith_repr_mismatch': len(bad_m)})
        ctx.violation('implementation no longer corresponds to the model the theorems are about', doc, found=False)
    opcode_vectors(ctx)
    import c01_hash
    c01_hash.run(ctx)
    c01_hash.lambda_signatures(ctx)


def opcode_vectors(ctx: lib.Ctx) -> None:
    """RefSem vs the Octez ground truth shipped with the repo."""
    try:
        import c01_vectors
    except ImportError:
        return
    c01_vectors.run(ctx, IMPORTS, PRELUDE, FUEL)
