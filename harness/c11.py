"""C11 — typed values round-trip through readable / optimized / legacy-optimized Micheline.

Correspondence (A): the real MichelsonType.match(type).from_micheline_value / to_micheline_value(mode)
of /repo against Michelson/Values.v (to_mich, of_mich, has_type) and Michelson/Timestamp.v
(format_timestamp, parse_ts), evaluated by vm_compute inside coqc with the real Base58 codec
(SHA-256 supplied as a table) and the lambda parser supplied as a table.
Oracle (B): from_micheline_value(to_micheline_value(mode)) == value, on the implementation alone.
"""
from __future__ import annotations

import copy
import json
import os
import glob

import lib
from lib import chex, cok
from c11_gen import cZ
import c11_gen as G

PROP = 'C11'
CORR = 'C11/MichelsonType.to_micheline_value+from_micheline_value vs Michelson.Values.to_mich/of_mich'


def match_type(tj):
    from pytezos.michelson.types.base import MichelsonType
    import pytezos.michelson.types  # noqa: F401
    import pytezos.michelson.instructions  # noqa: F401
    return MichelsonType.match(tj)


def from_mich(T, m):
    """(ok, abstract value | None, object | exception)"""
    ok, r = lib.call(T.from_micheline_value, copy.deepcopy(m))
    if not ok:
        return False, None, r
    return True, G.ast_of_obj(r), r


has_opaque = G.has_opaque

OF_FN = "fun '(e, t, n) => of_mich (real_codec (sha_fp (fst e)) table43) (assoc_node (snd e)) t n"
TO_FN = "fun '(e, m, v) => to_mich (real_codec (sha_fp (fst e)) table43) m v"
HT_FN = "fun '(e, t, v) => has_type (assoc_node (snd e)) t v"


class Batch:
    """correspondence cases; every case carries its own SHA-256 / lambda-parser oracle tables"""

    def __init__(self, ctx):
        self.ctx = ctx
        self.sha = None  # generation-time table is not needed: tables are per case
        self.to_cases, self.to_meta = [], []
        self.of_cases, self.of_meta = [], []
        self.ht_cases, self.ht_meta = [], []

    def add_to(self, mode, v, out, meta):
        sha = G.ShaTable()
        out_n = G.norm_sig_text(out, None)
        if not G.encodable(out_n) or has_opaque(v):
            self.ctx.dist['skipped:unrenderable'] += 1
            return
        if mode == 'readable':
            G.collect_texts(out_n, sha)
        self.to_cases.append((f'({G.coq_env(sha, {})}, {G.MODES[mode]}, {G.coq_val(v)})', G.cnode(out_n)))
        self.to_meta.append(meta)

    def add_of(self, n, m, ok, ast, meta):
        if not G.encodable(m) or (ok and has_opaque(ast)):
            self.ctx.dist['skipped:unrenderable'] += 1
            return
        lam = G.lam_table(n, m)
        if lam is None:
            self.ctx.dist['skipped:unrenderable'] += 1
            return
        sha = G.ShaTable()
        G.collect_texts(m, sha)
        self.of_cases.append((f'({G.coq_env(sha, lam)}, {G.coq_ty(n)}, {G.cnode(m)})', cok(G.coq_val(ast)) if ok else 'Reject'))
        self.of_meta.append(meta)

    def add_ht(self, n, v, meta):
        lam = G.lam_table(n, G.readable_json(v, None))
        if lam is None or has_opaque(v):
            return
        self.ht_cases.append((f'({G.coq_env(G.ShaTable(), lam)}, {G.coq_ty(n)}, {G.coq_val(v)})', 'true'))
        self.ht_meta.append(meta)

    def run(self):
        """the three comparisons run concurrently (each is sharded and parallel inside coq_mismatches)"""
        import concurrent.futures
        ctx = self.ctx
        jobs = [
            ('to', TO_FN, 'node_eqb', f'{G.ENV_TY} * mode * val', 'node', self.to_cases, self.to_meta),
            ('of', OF_FN, 'rval_eqb', f'{G.ENV_TY} * ty * node', 'result val', self.of_cases, self.of_meta),
            ('ht', HT_FN, 'Bool.eqb', f'{G.ENV_TY} * ty * val', 'bool', self.ht_cases, self.ht_meta),
        ] + self.extra_jobs
        bad = []

        def one(job):
            name, fn, eqb, ity, oty, cases, meta = job
            return [(name, fn, cases[i], meta[i], '') for i in
                    ctx.coq_mismatches(name, G.COQ_IMPORTS, fn, eqb, ity, oty, cases, shard=200)]

        with concurrent.futures.ThreadPoolExecutor(max_workers=len(jobs)) as ex:
            for res in ex.map(one, jobs):
                bad.extend(res)
        return bad

    extra_jobs: list = []


# ----------------------------------------------------------------------------- malformed stream
def mutate(rng, m, depth=0):
    """one random structural mutation of a Micheline value"""
    m = copy.deepcopy(m)
    nodes = []

    def walk(x, path):
        nodes.append(path)
        if isinstance(x, list):
            for i, y in enumerate(x):
                walk(y, path + [i])
        elif isinstance(x, dict):
            for i, y in enumerate(x.get('args', []) or []):
                walk(y, path + ['args', i])

    walk(m, [])
    path = rng.choice(nodes)

    def get(p):
        x = m
        for k in p:
            x = x[k]
        return x

    def put(p, val):
        nonlocal m
        if not p:
            m = val
            return
        x = m
        for k in p[:-1]:
            x = x[k]
        x[p[-1]] = val

    x = get(path)
    r = rng.random()
    if isinstance(x, list):
        if len(x) >= 2 and r < 0.35:
            i = rng.randrange(len(x) - 1)
            x[i], x[i + 1] = x[i + 1], x[i]
        elif x and r < 0.55:
            x.insert(rng.randrange(len(x) + 1), copy.deepcopy(rng.choice(x)))
        elif x and r < 0.7:
            x.pop(rng.randrange(len(x)))
        elif r < 0.8:
            put(path, {'prim': 'Pair', 'args': x} if len(x) >= 1 else {'prim': 'Unit'})
        elif r < 0.9:
            x.append({'int': '0'})
        else:
            put(path, {'int': str(len(x))})
    elif 'prim' in x:
        args = x.get('args', [])
        if r < 0.25:
            x['prim'] = rng.choice(['Left', 'Right', 'Some', 'None', 'Pair', 'Elt', 'True', 'False', 'Unit'])
        elif r < 0.4 and args:
            args.pop(rng.randrange(len(args)))
            if not args:
                x.pop('args')
        elif r < 0.55:
            x.setdefault('args', []).append(copy.deepcopy(rng.choice(args)) if args else {'prim': 'Unit'})
        elif r < 0.7 and x['prim'] == 'Pair' and len(args) >= 2:
            put(path, args)  # Pair -> sequence
        elif r < 0.8 and x['prim'] == 'Pair' and len(args) >= 3:
            x['args'] = [args[0], {'prim': 'Pair', 'args': args[1:]}]
        elif r < 0.9:
            x['annots'] = ['%x']
        else:
            put(path, {'string': x['prim']})
    elif 'int' in x:
        z = int(x['int'])
        put(path, rng.choice([{'int': str(-z - 1)}, {'int': str(z + 2 ** 63)}, {'string': str(z)}, {'bytes': '00'},
                              {'int': str(z - 1)}, {'string': f' {z}_0 '}]))
    elif 'string' in x:
        s = x['string']
        if r < 0.4 and s:
            i = rng.randrange(len(s))
            c = rng.choice('123456789ABCDEFGHJKLMNPQRSTUVWXYZabcdefghijkmnopqrstuvwxyz0OIl%T:Z- ')
            put(path, {'string': s[:i] + c + s[i + 1:]})
        elif r < 0.5:
            put(path, {'string': s + rng.choice(['%default', '%', '%a%default', ' ', '\n', '%éa', 'Z', '+00:00'])})
        elif r < 0.6 and s:
            put(path, {'string': s[:-1]})
        elif r < 0.7:
            put(path, {'bytes': s.encode().hex()[:rng.choice([42, 44, 46, 8, 128])]})
        elif r < 0.8:
            put(path, {'int': '1'})
        elif r < 0.9:
            put(path, {'string': rng.choice(TS_STRINGS)})
        else:
            put(path, {'string': s + 'é'})
    elif 'bytes' in x:
        b = bytes.fromhex(x['bytes'])
        if r < 0.3 and b:
            i = rng.randrange(len(b))
            put(path, {'bytes': (b[:i] + bytes([b[i] ^ (1 << rng.randrange(8))]) + b[i + 1:]).hex()})
        elif r < 0.45:
            put(path, {'bytes': b[:-1].hex()})
        elif r < 0.6:
            put(path, {'bytes': (b + rng.choice([b'\x00', b'default', b'%default', b'a', b'\xff\xfe', b'x%default'])).hex()})
        elif r < 0.7 and len(b) >= 2:
            put(path, {'bytes': (bytes([rng.choice([0, 1, 2, 3, 4])]) + bytes([rng.choice([0, 1, 2, 3, 4])]) + b[2:]).hex()})
        elif r < 0.8:
            put(path, {'string': b.hex()})
        elif r < 0.9:
            put(path, {'bytes': b[1:].hex()})
        else:
            put(path, {'int': '7'})
    return m


TS_STRINGS = [
    '2020-02-29T12:00:00Z', '2021-02-29T12:00:00Z', '1900-02-29T00:00:00Z', '2000-02-29T23:59:59Z', '0001-01-01T00:00:00Z',
    '0000-01-01T00:00:00Z', '9999-12-31T23:59:59Z', '1000-01-01T00:00:00Z', '0999-12-31T23:59:59Z', '2020-13-01T00:00:00Z',
    '2020-00-10T00:00:00Z', '2020-04-31T00:00:00Z', '2020-04-30T24:00:00Z', '2020-04-30T23:60:00Z', '2020-04-30T23:59:60Z',
    '2020-01-01T00:00:00+01:30', '2020-01-01T00:00:00-23:59', '2020-01-01T00:00:00+24:00', '2020-01-01T00:00:00-00:60',
    '2020-01-01T00:00:00.5Z', '2020-01-01T00:00:00.000Z', '1969-12-31T23:59:59.5Z', '1969-12-31T23:59:59.000Z',
    '1960-01-01T00:00:00.25+02:00', '2020-01-01T00:00:00.Z', '2020-01-01T00:00:00Z\n', '2020-01-01T00:00:00Z\n\n',
    '2020-01-01T00:00:00+01:00\n', '2020-01-01 00:00:00Z', '2020-01-01t00:00:00z', '2020-1-01T00:00:00Z', '20200101T000000Z',
    '2020-01-01T00:00:00', '2020-01-01T00:00:00ZZ', '1234', '-1234', ' 42 ', '+7', '1_000', '1__0', '_1', '1_', '0x10', '', ' ',
    '-', '+', '007', '-0', '12a', '1e3', '1.0', '\t9\n', '\x1c5', '--5', '+-5', '- 5', '1 2', '253402300800', '-62135596801',
    '2020-01-01T00:00:00+0100', '2020-01-01T00:00:00+01:0', '2020-01-01T00:00:00.12345678901234567890Z'.replace('12345678901234567890', '125'),
    '1970-01-01T00:00:00-00:00', '1969-12-31T23:59:59.999+00:00', '2400-02-29T00:00:00Z', '2100-02-29T00:00:00Z',
]


# ----------------------------------------------------------------------------- main
def gen_case(ctx, rng, depth, sha, domain_lambdas=True):
    while True:
        tj = G.gen_type(rng, depth, tickets=True)
        ok, T = lib.call(match_type, tj)
        if ok:
            break
        ctx.dist['type-rejected-by-match'] += 1
    n = G.norm_type(tj)
    v = G.gen_value(rng, n, sha, size=rng.choice([1, 2, 3, 4]), domain_lambdas=domain_lambdas)
    return tj, T, n, v


def build(T, v, sha, rng):
    rj = G.readable_json(v, sha, rng)
    ok, obj = lib.call(T.from_micheline_value, copy.deepcopy(rj))
    return ok, obj, rj


def check_value(ctx, batch, rng, tj, T, n, v, malformed=0, reported=None):
    """runs the implementation on one typed value; adds correspondence cases; returns violations found by (B)"""
    sha = None
    ok, obj, rj = build(T, v, sha, rng)
    tdesc = json.dumps(tj)
    key = (tdesc, repr(v))
    nontrivial = G.value_size(v) >= 3
    ctx.case(key, nontrivial=nontrivial, kind=f'top:{n[0]}',
             sample={'type': tj, 'value': G.readable_json(v, None), 'depth': G.type_depth(n)})
    ctx.dist[f'depth{min(G.type_depth(n), 6)}'] += 1
    mc = G.max_comb(v)
    if mc:
        ctx.dist[f'comb{min(mc, 9)}'] += 1
    out_viol = []
    meta = {'type': tj, 'value_readable': G.readable_json(v, None)}
    if not ok:
        out_viol.append((f'from_micheline_value rejects a well-formed readable value: {obj}', dict(meta, input=rj)))
        batch.add_of(n, rj, False, None, dict(meta, input=rj))
        return out_viol
    a0 = G.ast_of_obj(obj)
    batch.add_of(n, rj, True, a0, dict(meta, input=rj))
    batch.add_ht(n, v, meta)
    if a0 != v:
        out_viol.append(('from_micheline_value built a different value than the literal denotes', dict(meta, input=rj, got=repr(a0))))
        return out_viol
    outs = {}
    for mode in G.MODES:
        ok1, out = lib.call(obj.to_micheline_value, mode, lazy_diff=None)
        m2 = dict(meta, mode=mode)
        if not ok1:
            out_viol.append((f'to_micheline_value({mode}) raised: {out}', m2))
            continue
        out = lib.canon_micheline(out)
        outs[mode] = out
        batch.add_to(mode, v, out, dict(m2, output=out))
        ok2, a2, back = from_mich(T, out)
        batch.add_of(n, out, ok2, a2, dict(m2, input=out))
        ctx.case((key, mode), nontrivial=nontrivial, kind=f'mode:{mode}')
        # (B) the property itself
        if not ok2:
            out_viol.append((f'{mode} rendering does not parse back: {back}', dict(m2, output=out,
                             repro=f"T=MichelsonType.match({tdesc}); T.from_micheline_value({json.dumps(out)})")))
        elif (not has_ticket(v) and not (back == obj)) or a2 != v:   # TicketType defines no __eq__: abstract values decide
            out_viol.append((f'{mode} round trip yields a different value', dict(m2, output=out, got=repr(a2),
                             repro=f"T=MichelsonType.match({tdesc}); v=T.from_micheline_value({json.dumps(rj)}); T.from_micheline_value(v.to_micheline_value('{mode}')) == v")))
    # malformed stream: mutations of the renderings
    for _ in range(malformed):
        if not outs:
            break
        mode = rng.choice(list(outs))
        mm = mutate(rng, outs[mode])
        if rng.random() < 0.3:
            mm = mutate(rng, mm)
        okm, am, bm = from_mich(T, mm)
        ctx.case((tdesc, json.dumps(mm)), nontrivial=True, kind='malformed:' + ('accepted' if okm else 'rejected'))
        batch.add_of(n, mm, okm, am, dict(meta, input=mm, mutated_from=mode))
        if okm and not has_opaque(am):
            # accepted mutants are values too: they must round-trip as well (B)
            for mode2 in G.MODES:
                ok3, out3 = lib.call(bm.to_micheline_value, mode2, lazy_diff=None)
                if not ok3:
                    continue
                ok4, a4, b4 = from_mich(T, out3)
                if not ok4 or a4 != am:
                    if has_empty_ep(am):
                        f = ctx.finding('empty-entrypoint')
                        if f:
                            ctx.known_hit(f)
                            continue
                    if True:
                        out_viol.append((f'{mode2} round trip of an accepted value fails', dict(meta, input=mm, mode=mode2, output=out3,
                                         repro=f"T=MichelsonType.match({tdesc}); v=T.from_micheline_value({json.dumps(mm)}); T.from_micheline_value(v.to_micheline_value('{mode2}')) == v")))
    return out_viol


def has_ticket(v) -> bool:
    if isinstance(v, tuple):
        return bool(v) and (v[0] == 'ticket' or any(has_ticket(x) for x in v[1:]))
    if isinstance(v, list):
        return any(has_ticket(x) for x in v)
    return False


def has_empty_ep(v) -> bool:
    """class of known finding C11/empty-entrypoint: an address-like value whose text ends with a bare '%'"""
    if isinstance(v, tuple):
        if v and v[0] == 'addr':
            return v[3] == b''
        if v and v[0] == 'ticket' and v[3] == b'':
            return True
        return any(has_empty_ep(x) for x in v[1:])
    if isinstance(v, list):
        return any(has_empty_ep(x) for x in v)
    return False


def timestamp_cases(ctx, rng, nrand):
    """format_timestamp / optimize_timestamp directly"""
    from pytezos.michelson.format import format_timestamp
    from pytezos.michelson.forge import optimize_timestamp
    fmt_cases, fmt_meta, par_cases, par_meta, viol = [], [], [], [], []
    zs = list(G.TS_BOUNDARY) + [G.gen_ts(rng) for _ in range(nrand)]
    strings = list(TS_STRINGS)
    for z in zs:
        ok, s = lib.call(format_timestamp, z)
        ctx.case(('fmt', z), nontrivial=True, kind='ts:format')
        if not ok or not isinstance(s, str):
            viol.append((f'format_timestamp({z}) raised {s}', {'timestamp': z, 'repro': f'format_timestamp({z})'}))
            continue
        fmt_cases.append((cZ(z), chex(s.encode())))
        fmt_meta.append({'timestamp': z, 'text': s})
        ok2, back = lib.call(optimize_timestamp, s)
        if not ok2 or back != z:
            viol.append((f'optimize_timestamp(format_timestamp({z})) = {back!r}', {'timestamp': z, 'text': s,
                         'repro': f'optimize_timestamp(format_timestamp({z})) == {z}'}))
        strings.append(s)
        if rng.random() < 0.5:
            i = rng.randrange(len(s))
            strings.append(s[:i] + rng.choice('0123456789-T:Z+ ._') + s[i + 1:])
    for s in strings:
        if any(ord(c) > 127 for c in s):
            continue
        ok, z = lib.call(optimize_timestamp, s)
        ctx.case(('parse', s), nontrivial=True, kind='ts:parse:' + ('ok' if ok else 'reject'))
        par_cases.append((chex(s.encode()), cok(cZ(z)) if ok else 'Reject'))
        par_meta.append({'text': s, 'parsed': z if ok else repr(z)})
    jobs = [('format_timestamp', 'format_timestamp', 'bytes_eqb', 'Z', 'bytes', fmt_cases, fmt_meta),
            ('parse_ts', 'parse_ts', 'result_eqb Z.eqb', 'bytes', 'result Z', par_cases, par_meta)]
    return viol, jobs


def fixed_witnesses(ctx):
    """witnesses of repaired defects (FIXLOG #12, #3, #10, #38, #39): must keep round-tripping"""
    viol = []
    for f in ctx.known.get('fixed', []):
        w = f.get('witness') or {}
        if 'type' not in w or 'value' not in w:
            continue
        ok, T = lib.call(match_type, w['type'])
        if not ok:
            viol.append((f'fixed witness no longer accepted as a type: {T}', {'witness': w}))
            continue
        ok, obj = lib.call(T.from_micheline_value, copy.deepcopy(w['value']))
        if not ok:
            viol.append((f'regression of fixed defect ({f.get("what")}): {obj}', {'witness': w}))
            continue
        for mode in G.MODES:
            ok2, back = lib.call(lambda: T.from_micheline_value(obj.to_micheline_value(mode)))
            ctx.case(('fixed', json.dumps(w), mode), kind='fixed-witness')
            if not ok2 or not (back == obj):
                viol.append((f'regression of fixed defect ({f.get("what")}) in mode {mode}', {'witness': w, 'mode': mode,
                             'repro': f"T=MichelsonType.match({json.dumps(w['type'])}); v=T.from_micheline_value({json.dumps(w['value'])}); T.from_micheline_value(v.to_micheline_value('{mode}')) == v"}))
    return viol


def finding_witnesses(ctx):
    """replay the witnesses of the known findings: while the defect is present the finding is reported"""
    for f in ctx.known.get('findings', []):
        w = f.get('witness') or {}
        if 'type' not in w or 'value' not in w:
            continue
        ok, T = lib.call(match_type, w['type'])
        if not ok:
            continue
        ok, obj = lib.call(T.from_micheline_value, copy.deepcopy(w['value']))
        if not ok:
            continue
        ctx.case(('finding', json.dumps(w)), kind='known-finding-witness')
        for mode in ([w['mode']] if w.get('mode') else list(G.MODES)):
            ok2, back = lib.call(lambda: T.from_micheline_value(obj.to_micheline_value(mode)))
            if not ok2 or not (back == obj):
                ctx.known_hit(f)


TICKET_CONTENTS = [
    {'prim': 'nat'}, {'prim': 'string'}, {'prim': 'bytes'}, {'prim': 'int'}, {'prim': 'timestamp'}, {'prim': 'address'},
    {'prim': 'pair', 'args': [{'prim': 'nat'}, {'prim': 'nat'}]},
    {'prim': 'pair', 'args': [{'prim': 'string'}, {'prim': 'bytes'}]},
    {'prim': 'pair', 'args': [{'prim': 'nat'}, {'prim': 'string'}, {'prim': 'key_hash'}]},
    {'prim': 'pair', 'args': [{'prim': 'pair', 'args': [{'prim': 'int'}, {'prim': 'int'}]}, {'prim': 'bool'}]},
    {'prim': 'option', 'args': [{'prim': 'nat'}]}, {'prim': 'option', 'args': [{'prim': 'string'}]},
    {'prim': 'or', 'args': [{'prim': 'nat'}, {'prim': 'string'}]}, {'prim': 'or', 'args': [{'prim': 'bytes'}, {'prim': 'unit'}]},
]


def ticket_stream(ctx, rng, count):
    """typed ticket values (plain and inside option / list / pair); consecutive tickets deliberately share the head
    primitive of their content type.  They go through check_value like every other value: comparisons (A) and (B)."""
    out = []
    for i in range(count):
        content = rng.choice(TICKET_CONTENTS)
        wrap = rng.choice(['plain', 'plain', 'option', 'list', 'pair'])
        tt = {'prim': 'ticket', 'args': [content]}
        tj = {'plain': tt, 'option': {'prim': 'option', 'args': [tt]}, 'list': {'prim': 'list', 'args': [tt]},
              'pair': {'prim': 'pair', 'args': [{'prim': 'nat'}, tt]}}[wrap]
        ok, T = lib.call(match_type, tj)
        if not ok:
            continue
        tick = G.gen_value(rng, G.norm_type(tt), None, size=2)
        v = {'plain': tick, 'option': ('some', tick), 'list': ('list', [tick, tick]), 'pair': ('pair', ('int', 7), tick)}[wrap]
        ctx.dist['ticket:' + content['prim']] += 1
        out.append((tj, T, G.norm_type(tj), v))
    return out


TIMEZONES = ['America/New_York', 'Asia/Kolkata', 'Pacific/Kiritimati', 'Europe/London']


def timezone_slice(ctx, rng, count):
    """the property holds whatever the timezone of the process: a slice of the timestamp round trips is repeated with
    TZ set to zones west/east of UTC (incl. a half-hour offset, +14 and a zone with DST); oracle (B) only"""
    import os
    import time
    from pytezos.michelson.format import format_timestamp
    from pytezos.michelson.forge import optimize_timestamp
    viol = []
    T = match_type({'prim': 'timestamp'})
    zs = [0, 1, -1, 86399, 951782400, 1711846800, 1719792000, 1730599200, -30610224000, 253402300799, 253402300800,
          -2203891200, 4102444800] + [G.gen_ts(rng) for _ in range(count)]
    saved = os.environ.get('TZ')
    try:
        for tz in TIMEZONES:
            os.environ['TZ'] = tz
            time.tzset()
            for z in zs:
                ctx.case(('tz', tz, z), nontrivial=True, kind='ts:timezone:' + tz)
                ok, s = lib.call(format_timestamp, z)
                ok2, back = lib.call(optimize_timestamp, s) if ok else (False, s)
                if not ok2 or back != z:
                    viol.append((f'under TZ={tz}: optimize_timestamp(format_timestamp({z})) = {back!r}',
                                 {'timestamp': z, 'TZ': tz, 'text': s if ok else None,
                                  'repro': f"TZ={tz} python -c \"from pytezos.michelson.format import format_timestamp as f; from pytezos.michelson.forge import optimize_timestamp as o; print(o(f({z})))\"  # must print {z}"}))
                    break
                ok3, v2 = lib.call(lambda: T.from_micheline_value(T.from_micheline_value({'int': str(z)}).to_micheline_value('readable')).value)
                if not ok3 or v2 != z:
                    viol.append((f'under TZ={tz}: readable round trip of timestamp {z} gives {v2!r}',
                                 {'timestamp': z, 'TZ': tz,
                                  'repro': f"TZ={tz}: T=MichelsonType.match({{'prim':'timestamp'}}); T.from_micheline_value(T.from_micheline_value({{'int':'{z}'}}).to_micheline_value('readable')).value == {z}"}))
                    break
    finally:
        if saved is None:
            os.environ.pop('TZ', None)
        else:
            os.environ['TZ'] = saved
        time.tzset()
    return viol


def corpus(ctx):
    items = []
    for p in sorted(glob.glob(os.path.join(lib.VERIF, 'corpus', PROP, '*.json'))):
        for c in json.load(open(p)):
            items.append(c)
    return items


def run(ctx: lib.Ctx) -> None:
    rng = ctx.rng
    ctx.rule = ('type-directed: a Micheline type expression is drawn (depth <= 4; all scalar types, domain types, option, or, '
                'pair as n-ary/nested combs of 2..8 leaves with and without annotations, list, set, map, lambda), then a value of it '
                '(boundary integers up to thousands of bits, timestamps at era/year/range boundaries and +-1e18, key hashes with '
                'first byte 00..03 / last byte 00, entrypoints, sorted sets/maps); the pytezos object is rendered in the three modes and '
                'parsed back; malformed stream = structural/byte/character mutations of the renderings fed to from_micheline_value, plus '
                'a list of near-valid timestamp strings. non-trivial = value with >= 3 constructors (or any malformed input); distinct = distinct (type, value[, mode])')
    viols = []
    viols += fixed_witnesses(ctx)
    finding_witnesses(ctx)
    ticket_cases = ticket_stream(ctx, rng, ctx.n(40, 400))
    viols += timezone_slice(ctx, rng, ctx.n(40, 400))
    bads = []

    tv, ts_jobs = timestamp_cases(ctx, rng, ctx.n(150, 2000))
    viols += tv
    tb = []

    nvals = ctx.n(200, 2000)
    per_batch = 220 if not ctx.thorough else 1000
    done = 0
    # corpus first
    cor = corpus(ctx)
    batch = Batch(ctx)
    batch.extra_jobs = ts_jobs
    for c in cor:
        ok, T = lib.call(match_type, c['type'])
        if not ok:
            continue
        n = G.norm_type(c['type'])
        okm, am, _ = from_mich(T, c['input'])
        batch.add_of(n, c['input'], okm, am, {'type': c['type'], 'input': c['input'], 'corpus': True})
        ctx.corpus_cases += 1
    for tj, T, n, v in ticket_cases:
        viols += check_value(ctx, batch, rng, tj, T, n, v, malformed=1)
    while done < nvals:
        for _ in range(min(per_batch, nvals - done)):
            depth = rng.choice([1, 2, 2, 3, 3, 4])
            tj, T, n, v = gen_case(ctx, rng, depth, None)
            viols += check_value(ctx, batch, rng, tj, T, n, v, malformed=rng.choice([1, 2, 2]))
            done += 1
        bads += batch.run()
        batch = Batch(ctx)
        batch.extra_jobs = []
        if len(viols) > 40:
            break

    ctx.extra['correspondence_mismatches'] = len(bads) + len(tb)
    if bads or tb:
        ctx.extra['first_mismatches'] = [str((b[0], b[3]))[:600] for b in bads[:5]] + [str((b[0], b[2]))[:600] for b in tb[:5]]
    reported = 0
    seen = set()
    for what, rep in viols:
        if reported >= 3:
            break
        if what in seen:
            continue
        seen.add(what)
        reported += 1
        ctx.violation(what, rep, found=True)
    if reported == 0 and (bads or tb):
        rep = {'correspondence': CORR, 'disagreements': len(bads) + len(tb)}
        if bads:
            name, fn, case, meta, pre = bads[0]
            rep.update({'function': fn, 'case': meta, 'coq_input': case[0][:3000], 'implementation': case[1][:3000],
                        'model': ctx.coq_eval(G.COQ_IMPORTS, f'({fn}) {case[0]}', prelude=pre)[:3000]})
        else:
            fn, case, meta = tb[0]
            rep.update({'function': fn, 'case': meta, 'model': ctx.coq_eval(G.COQ_IMPORTS, f'{fn} {case[0]}')})
        ctx.violation('implementation no longer corresponds to the model the theorems are about', rep, found=False)
