"""Independent reader of the Tezos operation binary format (oracle (B) of C06, also used by C23).

Written from the protocol's encoding description, shares no code with pytezos or with the Coq model.
decode_group(bytes) -> {'branch': hex, 'contents': [canonical dicts]}; canon_group(json) produces the same
canonical form from a pytezos JSON group (base58 decoded with the table of c06_gen, Micheline left as the forged
bytes supplied by the caller), with explicit (default, Unit) parameters normalised away.
"""
from __future__ import annotations

import c06_gen as G

RESERVED = ['default', 'root', 'do', 'set_delegate', 'remove_delegate', 'deposit', 'stake', 'unstake', 'finalize_unstake',
            'set_delegate_parameters']
TZ = ['tz1', 'tz2', 'tz3', 'tz4']
PK = ['edpk', 'sppk', 'p2pk', 'BLpk']


class Bad(Exception):
    pass


class R:
    def __init__(self, b: bytes):
        self.b, self.i = b, 0

    def take(self, n: int) -> bytes:
        if n < 0 or self.i + n > len(self.b):
            raise Bad('truncated')
        v = self.b[self.i:self.i + n]
        self.i += n
        return v

    def u8(self) -> int:
        return self.take(1)[0]

    def nat(self) -> int:
        v = shift = 0
        n = 0
        while True:
            x = self.u8()
            n += 1
            v |= (x & 0x7F) << shift
            shift += 7
            if x < 0x80:
                if n > 1 and x == 0:
                    raise Bad('non-minimal zarith')
                return v

    def dyn(self) -> bytes:
        return self.take(int.from_bytes(self.take(4), 'big'))

    def boolean(self) -> bool:
        x = self.u8()
        if x not in (0, 255):
            raise Bad('bool')
        return x == 255

    def pkh(self) -> str:
        t = self.u8()
        if t > 3:
            raise Bad('curve tag')
        return f'{TZ[t]}:{self.take(20).hex()}'

    def address(self) -> str:
        t = self.u8()
        if t == 0:
            return self.pkh()
        if t in (1, 3):
            h = self.take(20)
            if self.u8() != 0:
                raise Bad('address padding')
            return f"{'KT1' if t == 1 else 'sr1'}:{h.hex()}"
        raise Bad('address tag')

    def pk(self) -> str:
        t = self.u8()
        if t > 3:
            raise Bad('key tag')
        return f'{PK[t]}:{self.take(G.PK_LEN[PK[t]]).hex()}'

    def entrypoint(self) -> str:
        t = self.u8()
        if t == 255:
            n = self.u8()
            name = self.take(n).decode('latin-1')
            if name in RESERVED:
                raise Bad(f'non-canonical: reserved entrypoint {name!r} spelled out instead of its tag')
            if not 1 <= n <= 31:
                raise Bad('entrypoint name length')
            return name
        if t < len(RESERVED):
            return RESERVED[t]
        raise Bad('entrypoint tag')

    def done(self) -> bool:
        return self.i == len(self.b)


def decode_content(r: R) -> dict:
    tag = r.u8()
    if tag == 0:
        return {'kind': 'endorsement', 'level': int.from_bytes(r.take(4), 'big')}
    if tag == 4:
        return {'kind': 'activate_account', 'pkh': r.take(20).hex(), 'secret': r.take(20).hex()}
    if tag == 17:
        return {'kind': 'failing_noop', 'arbitrary': r.dyn().hex()}
    kinds = {107: 'reveal', 108: 'transaction', 109: 'origination', 110: 'delegation', 111: 'register_global_constant',
             158: 'transfer_ticket', 201: 'smart_rollup_add_messages', 206: 'smart_rollup_execute_outbox_message'}
    if tag not in kinds:
        raise Bad(f'operation tag {tag}')
    c = {'kind': kinds[tag], 'source': r.pkh(), 'fee': r.nat(), 'counter': r.nat(), 'gas_limit': r.nat(), 'storage_limit': r.nat()}
    k = c['kind']
    if k == 'reveal':
        c['public_key'] = r.pk()
        c['proof'] = r.dyn().hex() if r.boolean() else None
    elif k == 'transaction':
        c['amount'] = r.nat()
        c['destination'] = r.address()
        if r.boolean():
            c['entrypoint'] = r.entrypoint()
            c['value'] = r.dyn().hex()
            if c['entrypoint'] == 'default' and c['value'] == '030b':
                raise Bad('non-canonical: explicit default/Unit parameters')
        else:
            c['entrypoint'], c['value'] = None, None
    elif k == 'origination':
        c['balance'] = r.nat()
        c['delegate'] = r.pkh() if r.boolean() else None
        c['code'] = r.dyn().hex()
        c['storage'] = r.dyn().hex()
    elif k == 'delegation':
        c['delegate'] = r.pkh() if r.boolean() else None
    elif k == 'register_global_constant':
        c['value'] = r.dyn().hex()
    elif k == 'transfer_ticket':
        c['ticket_contents'] = r.dyn().hex()
        c['ticket_ty'] = r.dyn().hex()
        c['ticket_ticketer'] = r.address()
        c['ticket_amount'] = r.nat()
        c['destination'] = r.address()
        c['entrypoint'] = r.dyn().decode('latin-1')
    elif k == 'smart_rollup_add_messages':
        inner = R(r.dyn())
        msgs = []
        while not inner.done():
            msgs.append(inner.dyn().hex())
        c['message'] = msgs
    elif k == 'smart_rollup_execute_outbox_message':
        c['rollup'] = r.take(20).hex()
        c['cemented_commitment'] = r.take(32).hex()
        c['output_proof'] = r.dyn().hex()
    return c


def decode_group(raw: bytes) -> dict:
    r = R(raw)
    out = {'branch': r.take(32).hex(), 'contents': []}
    while not r.done():
        out['contents'].append(decode_content(r))
    return out


# ---- canonical form of a JSON group (what the decoder must give back) ---------------------------------------------
def _pkh(s: str) -> str:
    return f'{s[:3]}:{G.unb58(s[:3], s).hex()}'


def _addr(s: str) -> str:
    return f'{s[:3]}:{G.unb58(s[:3], s).hex()}'


def _pk(s: str) -> str:
    return f'{s[:4]}:{G.unb58(s[:4], s).hex()}'


def canon_content(c: dict, mich) -> dict:
    """mich: Micheline JSON -> forged bytes (supplied by the caller)."""
    k = c['kind']
    if k == 'endorsement':
        return {'kind': k, 'level': int(c['level'])}
    if k == 'activate_account':
        return {'kind': k, 'pkh': G.unb58('tz1', c['pkh']).hex(), 'secret': c['secret']}
    if k == 'failing_noop':
        return {'kind': k, 'arbitrary': c['arbitrary'].encode().hex()}
    o = {'kind': k, 'source': _pkh(c['source']), 'fee': int(c['fee']), 'counter': int(c['counter']), 'gas_limit': int(c['gas_limit']),
         'storage_limit': int(c['storage_limit'])}
    if k == 'reveal':
        o['public_key'] = _pk(c['public_key'])
        o['proof'] = G.unb58('BLsig', c['proof']).hex() if c.get('proof') else None
    elif k == 'transaction':
        o['amount'] = int(c['amount'])
        o['destination'] = _addr(c['destination'])
        p = c.get('parameters')
        if p and not (p['entrypoint'] == 'default' and mich(p['value']).hex() == '030b'):
            o['entrypoint'], o['value'] = p['entrypoint'].encode('utf-8').decode('latin-1'), mich(p['value']).hex()
        else:
            o['entrypoint'], o['value'] = None, None
    elif k == 'origination':
        o['balance'] = int(c['balance'])
        o['delegate'] = _pkh(c['delegate']) if c.get('delegate') else None
        o['code'] = mich(c['script']['code']).hex()
        o['storage'] = mich(c['script']['storage']).hex()
    elif k == 'delegation':
        o['delegate'] = _pkh(c['delegate']) if c.get('delegate') else None
    elif k == 'register_global_constant':
        o['value'] = mich(c['value']).hex()
    elif k == 'transfer_ticket':
        o['ticket_contents'] = mich(c['ticket_contents']).hex()
        o['ticket_ty'] = mich(c['ticket_ty']).hex()
        o['ticket_ticketer'] = _addr(c['ticket_ticketer'])
        o['ticket_amount'] = int(c['ticket_amount'])
        o['destination'] = _addr(c['destination'])
        o['entrypoint'] = c['entrypoint'].encode('utf-8').decode('latin-1')
    elif k == 'smart_rollup_add_messages':
        o['message'] = list(c['message'])
    elif k == 'smart_rollup_execute_outbox_message':
        o['rollup'] = G.unb58('sr1', c['rollup']).hex()
        o['cemented_commitment'] = G.unb58('src1', c['cemented_commitment']).hex()
        o['output_proof'] = c['output_proof']
    return o


def canon_group(g: dict, mich) -> dict:
    return {'branch': G.unb58('B', g['branch']).hex(), 'contents': [canon_content(c, mich) for c in g['contents']]}
