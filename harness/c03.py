"""C03 — COMPARE and ordered collections follow the Tezos total order.

(A) correspondence: the real COMPARE instruction (through pytezos' Interpreter) and the iteration
order / literal acceptance of real sets, against Michelson/Compare.v [py_compare] and
Michelson/Collections.v [set_run]/[set_literal], evaluated by vm_compute inside coqc.
(B) the property itself: an independent Python transcription of the Tezos order (c03_vals.spec_cmp,
itself cross-checked against the Coq [cmp] on every case) applied to what the implementation
returned: COMPARE = spec, COMPARE b a = -COMPARE a b, sets sorted and deduplicated by the spec."""
from __future__ import annotations

import lib
from lib import cbool, clist, cZ
import c03_vals as V

PROP = 'C03'
IMPORTS = 'From PV Require Import Michelson.Compare Michelson.Collections.'


# ------------------------------------------------------------------------------------ running the implementation

_IT = None


def fresh_interpreter():
    """One Interpreter (its parser tables are expensive to build), reset before every use."""
    global _IT
    from pytezos.michelson.repl import Interpreter
    if _IT is None:
        _IT = Interpreter()
    _IT.reset()
    return _IT


def impl_compare(t, a, b, rng=None):
    """COMPARE a b through the real interpreter: -1/0/1, or a string describing the failure.
    With rng: the two literals are written in a randomly chosen equivalent notation."""
    it = fresh_interpreter()
    ts = V.type_src(t)
    sa, sb = (V.variant_src(rng, t, a), V.variant_src(rng, t, b)) if rng is not None else (V.value_src(a), V.value_src(b))
    code = f'PUSH {ts} {sb}; PUSH {ts} {sa}; COMPARE'
    ok, r = lib.call(it.execute, code)
    if not ok:
        return f'raised {type(r).__name__}: {r}'[:200], code
    if r.error is not None:
        return f'error: {r.error}'[:200], code
    ok, x = lib.call(lambda: int(it.stack.items[0]))
    if not ok or len(it.stack.items) != 1:
        return 'unexpected stack', code
    return x, code


def impl_set(t, ups, lit):
    """Build a set by UPDATEs; push a literal. Returns (items as value tuples or error, literal accepted, code)."""
    ts = V.type_src(t)
    it = fresh_interpreter()
    code = f'EMPTY_SET {ts}; ' + '; '.join(
        f'PUSH bool {"True" if b else "False"}; PUSH {ts} {V.value_src(v)}; UPDATE' for v, b in ups)
    ok, r = lib.call(it.execute, code)
    universe = {}
    for v, _ in ups:
        universe.setdefault(lib_json(V.value_micheline(v)), v)
    if not ok or r.error is not None:
        items = f'failed: {r if not ok else r.error}'[:200]
    else:
        items = []
        for x in it.stack.items[0].items:
            key = lib_json(lib.canon_micheline(V.norm_out(t, x.to_micheline_value(mode='readable'))))
            items.append(universe.get(key, ('str', '<<foreign value>>')))
    it2 = fresh_interpreter()
    lit_code = f'PUSH (set {ts}) {{ ' + ' ; '.join(V.literal_elt_srcs(t, lit)) + ' }'
    ok2, r2 = lib.call(it2.execute, lit_code)
    acc = bool(ok2 and r2.error is None)
    if acc:
        got = [lib_json(lib.canon_micheline(V.norm_out(t, x.to_micheline_value(mode='readable')))) for x in it2.stack.items[0].items]
        if got != [lib_json(V.value_micheline(v)) for v in lit]:
            acc = 'accepted but items differ from the literal'
    return items, acc, code + ' /// ' + lit_code


def lib_json(m):
    import json
    return json.dumps(m, sort_keys=True)


# ------------------------------------------------------------------------------------ directed cases

def directed_pairs():
    """Shapes where a subtle ordering bug hides (each is (type, a, b))."""
    h = bytes(range(1, 21))
    h2 = bytes([0] * 19 + [1])
    X = bytes(range(32))
    out = []
    P = lambda *xs: ('pair',) + xs  # noqa: E731
    I = lambda z: ('int', z)  # noqa: E731
    tii = ('pair', ('int',), ('int',))
    out += [(tii, P(I(1), I(5)), P(I(2), I(3))), (tii, P(I(2), I(3)), P(I(2), I(4))), (tii, P(I(-1), I(0)), P(I(0), I(-1)))]
    t3 = ('pair', ('int',), ('pair', ('string',), ('bytes',)))
    out += [(t3, P(I(0), P(('str', 'b'), ('bytes', b'\x00'))), P(I(0), P(('str', 'ab'), ('bytes', b'\xff'))))]
    ta = ('address',)
    kinds = V.ADDR_KINDS
    for i, k1 in enumerate(kinds):
        for k2 in kinds[i:]:
            out.append((ta, ('addr', k1, h, None), ('addr', k2, h2, None)))
            out.append((ta, ('addr', k1, h2, None), ('addr', k2, h, None)))
    for e1 in [None, 'a', 'e', 'defaul', 'default0', 'd']:
        for e2 in [None, 'a', 'e', 'defaulu', 'z']:
            out.append((ta, ('addr', 'KT1', h, e1), ('addr', 'KT1', h, e2)))
    out.append((ta, ('addr', 'KT1', h, 'z'), ('addr', 'KT1', h2, None)))
    out.append((ta, ('addr', 'KT1', h, ''), ('addr', 'KT1', h, None)))
    out.append((ta, ('addr', 'tz1', h, ''), ('addr', 'tz1', h, 'a')))
    tk = ('key',)
    keys = [('key', 'Ed', X), ('key', 'Secp', b'\x02' + X), ('key', 'Secp', b'\x03' + X), ('key', 'P256', b'\x02' + X),
            ('key', 'P256', b'\x03' + X), ('key', 'P256', b'\x03' + bytes(32)), ('key', 'P256', b'\x02' + bytes([255] * 32)),
            ('key', 'Bls', bytes(48)), ('key', 'Bls', bytes([1] * 48)),
            ('key', 'Secp', b'\x03' + bytes(32)), ('key', 'Secp', b'\x02' + bytes([255] * 32)),
            ('key', 'Ed', bytes([255]) + bytes(31)), ('key', 'Ed', bytes(31) + bytes([255]))]
    for a in keys:
        for b in keys:
            out.append((tk, a, b))
    tkh = ('key_hash',)
    for c1 in V.CURVES:
        for c2 in V.CURVES:
            out.append((tkh, ('kh', c1, h), ('kh', c2, h2)))
            out.append((tkh, ('kh', c1, bytes(20)), ('kh', c2, bytes([255] * 20))))
    ts = ('signature',)
    raw = bytes(range(64))
    for n1 in ['sig', 'edsig', 'spsig1', 'p2sig']:
        out.append((ts, ('sig', raw, n1), ('sig', raw, 'sig')))
        out.append((ts, ('sig', raw, n1), ('sig', raw[:-1] + b'\xff', 'edsig')))
    out.append((ts, ('sig', bytes(96), 'BLsig'), ('sig', bytes(64), 'sig')))
    tou = ('option', ('unit',))
    out += [(tou, ('some', ('unit',)), ('none',)), (tou, ('none',), ('none',)), (tou, ('some', ('unit',)), ('some', ('unit',)))]
    tuu = ('or', ('unit',), ('unit',))
    out += [(tuu, ('left', ('unit',)), ('right', ('unit',))), (tuu, ('right', ('unit',)), ('right', ('unit',)))]
    tpu = ('pair', ('unit',), ('option', ('pair', ('unit',), ('unit',))))
    out += [(tpu, P(('unit',), ('some', P(('unit',), ('unit',)))), P(('unit',), ('none',)))]
    ton = ('or', ('never',), ('nat',))
    out += [(ton, ('right', I(0)), ('right', I(1)))]
    tb = ('bool',)
    out += [(tb, ('bool', False), ('bool', True))]
    tstr = ('string',)
    out += [(tstr, ('str', ''), ('str', ' ')), (tstr, ('str', 'a'), ('str', 'B')), (tstr, ('str', 'ab'), ('str', 'b')),
            (tstr, ('str', 'a~'), ('str', 'a'))]
    tby = ('bytes',)
    out += [(tby, ('bytes', b''), ('bytes', b'\x00')), (tby, ('bytes', b'\x7f'), ('bytes', b'\x80')),
            (tby, ('bytes', b'\x01\x00'), ('bytes', b'\x01'))]
    tm = ('mutez',)
    out += [(tm, I(2 ** 63 - 1), I(2 ** 63 - 2)), (tm, I(0), I(1))]
    tc = ('chain_id',)
    out += [(tc, ('cid', bytes(4)), ('cid', bytes([0, 0, 0, 1]))), (tc, ('cid', bytes([255] * 4)), ('cid', bytes([1, 0, 0, 0])))]
    return out


# known-finding classes (decidable predicates on a compared pair); only used when findings/C03.json lists them
def cls_p256_equal_x(t, a, b):
    return _any_pos(t, a, b, lambda tt, x, y: tt[0] == 'key' and x[1] == y[1] == 'P256' and x[2][1:] == y[2][1:] and x[2][:1] != y[2][:1])


def cls_option_unit(t, a, b):
    return _any_pos(t, a, b, lambda tt, x, y: tt[0] == 'option' and {x[0], y[0]} == {'none', 'some'} and _all_unit(tt[1]))


def _all_unit(t):
    return t[0] == 'unit' or (t[0] == 'pair' and _all_unit(t[1]) and _all_unit(t[2]))


def _any_pos(t, a, b, pred):
    if pred(t, a, b):
        return True
    if t[0] == 'pair':
        return _any_pos(t[1], a[1], b[1], pred) or _any_pos(t[2], a[2], b[2], pred)
    if t[0] == 'option' and a[0] == b[0] == 'some':
        return _any_pos(t[1], a[1], b[1], pred)
    if t[0] == 'or' and a[0] == b[0]:
        return _any_pos(t[1] if a[0] == 'left' else t[2], a[1], b[1], pred)
    return False


def _has_empty_ep(t, v):
    return V.contains_shape(t, v, lambda tt, x: tt[0] == 'address' and x[3] == '')


def cls_empty_ep(t, a, b):
    return _has_empty_ep(t, a) or _has_empty_ep(t, b)


def inject_empty_ep(rng, t, v):
    """Replace the entrypoint of one address inside v by the empty name (literal "...%")."""
    if t[0] == 'address':
        return ('addr', v[1], v[2], '')
    if t[0] == 'pair':
        if V.type_mentions(t[1], ('address',)) and (not V.type_mentions(t[2], ('address',)) or rng.random() < 0.5):
            return ('pair', inject_empty_ep(rng, t[1], v[1]), v[2])
        return ('pair', v[1], inject_empty_ep(rng, t[2], v[2]))
    if t[0] == 'option' and v[0] == 'some':
        return ('some', inject_empty_ep(rng, t[1], v[1]))
    if t[0] == 'or':
        return (v[0], inject_empty_ep(rng, t[1] if v[0] == 'left' else t[2], v[1]))
    return v


FINDING_CLASSES = {'address-empty-entrypoint': cls_empty_ep, 'p256-equal-x': cls_p256_equal_x, 'option-unit-eq-none': cls_option_unit}


def unit_in_set_key(t):
    return V.type_mentions(t, ('unit',))


# ------------------------------------------------------------------------------------ run

def run(ctx: lib.Ctx) -> None:
    rng = ctx.rng
    V.install_sorted_check()
    ctx.rule = ('COMPARE cases: a comparable type drawn at random (depth <= 3 quick / 4 thorough; 14 leaf types incl. never under '
                'option/or) then a pair of values, 65 % of them differing in one leaf only (equal first pair components, same '
                'hash under another address kind / signature scheme, entrypoints around "default", P-256 keys with equal X, '
                'same signature in another notation, None vs Some, Left vs Right), each compared in both directions through '
                'the real Interpreter; plus ~190 directed boundary pairs. Set cases: 2-7 values of one type (mutation chains) '
                'added/removed by UPDATE in random order, and one set literal (spec-sorted, or permuted/duplicated). '
                'non-trivial = the two values differ and share their outermost constructor / the set history touches >= 3 values.')
    depth = ctx.n(3, 4)
    n_pairs = ctx.n(1000, 12000)
    n_sets = ctx.n(200, 2500)

    # ---------------- COMPARE
    triples = []
    for (t, a, b) in directed_pairs():
        triples.append(('directed', t, a, b))
        triples.append(('directed', t, b, a))
    while len(triples) < 2 * n_pairs:
        t = V.gen_type(rng, rng.randrange(0, depth + 1))
        if not V.inhabited(t):
            continue
        a = V.gen_value(rng, t)
        if rng.random() < 0.65:
            b = V.mutate(rng, t, a)
            kind = 'near'
        else:
            b = V.gen_value(rng, t)
            kind = 'independent'
        if V.type_mentions(t, ('address',)) and rng.random() < 0.08:
            b = inject_empty_ep(rng, t, b)
            kind = 'empty-entrypoint'
        triples.append((kind, t, a, b))
        triples.append((kind, t, b, a))

    cases, meta = [], []
    law = None
    for kind, t, a, b in triples:
        got, code = impl_compare(t, a, b, rng if kind != 'directed' and not cls_empty_ep(t, a, b) else None)
        want = V.spec_cmp(t, a, b)
        law = law or V.texts_respect_order([a, b])
        ctx.case((t, V.canon(a), V.canon(b)), nontrivial=(V.canon(a) != V.canon(b) and a[0] == b[0]),
                 kind=f'compare:{kind}:{t[0]}',
                 sample={'type': V.type_src(t), 'a': V.value_src(a), 'b': V.value_src(b), 'COMPARE': got})
        g = got if isinstance(got, int) else 99
        wt = not cls_empty_ep(t, a, b)      # values outside has_type: only the model-vs-code comparison applies
        cases.append((f'({V.checksums_coq([a, b])}, {V.tables_coq([a, b])}, {V.type_coq(t)}, {V.value_coq(a)}, {V.value_coq(b)})',
                      f'({cbool(wt)}, {cZ(g)}, {cZ(want if wt else 0)}, true)'))
        meta.append((t, a, b, got, want, code))
    import concurrent.futures
    coq_pool = concurrent.futures.ThreadPoolExecutor(max_workers=1)
    bad_future = coq_pool.submit(V.par_mismatches, ctx, 'compare', IMPORTS, 'compare_case', 'compare_case_eqb',
                             'list (bytes * bytes) * text_tables * cty * val * val', 'bool * Z * Z * bool', cases, 500)

    reported = 0
    # (B) on every case
    for i, (t, a, b, got, want, code) in enumerate(meta):
        if got == want:
            continue
        hit = None
        for f in ctx.known['findings']:
            pred = FINDING_CLASSES.get(f['id'])
            if pred and pred(t, a, b):
                hit = f
        if hit:
            ctx.known_hit(hit)
            continue
        if reported < 3:
            reported += 1
            ctx.violation(f'COMPARE returned {got!r}, the Tezos order gives {want}',
                          {'type': V.type_src(t), 'a': V.value_src(a), 'b': V.value_src(b), 'observed': got, 'expected': want,
                           'repro': f"from pytezos.michelson.repl import Interpreter; i=Interpreter(); i.execute({code!r}); print(i.stack.items[0])"})
    if law and reported < 3:
        reported += 1
        ctx.violation('harness self-check: ' + law, {'note': 'base58check texts do not order like their payloads (texts_ok)'}, found=False)
    compare_reported = reported

    def finish_compare():
        """(A) for the COMPARE stream, once coqc is done: the implementation agreed with the spec everywhere it was not
        reported, yet the Coq side may disagree: model != implementation, Python spec != Coq cmp, or concrete text != real string."""
        bad = bad_future.result()
        coq_pool.shutdown()
        if not bad or compare_reported:
            return
        rest = [i for i in bad if meta[i][3] == meta[i][4]]     # the others were routed above (violation or known finding)
        if rest:
            i = rest[0]
            t, a, b, got, want, code = meta[i]
            ctx.violation('implementation no longer corresponds to the model the theorems are about',
                          {'correspondence': 'C03/COMPARE vs Michelson.Compare.py_compare (and spec_cmp vs cmp, concrete base58 texts vs real strings)',
                           'type': V.type_src(t), 'a': V.value_src(a), 'b': V.value_src(b), 'observed': got, 'python_spec': want,
                           'model': ctx.coq_eval(IMPORTS, f'compare_case {cases[i][0]}'), 'disagreements': len(rest)}, found=False)

    # ---------------- sets: order, deduplication, literals
    scases, smeta = [], []
    pending_unit = ctx.finding('unit-unhashable')
    directed_lits = list(V.notation_duplicates(rng))
    for sidx in range(-len(directed_lits), n_sets):
        t = V.gen_type(rng, rng.randrange(0, depth), allow_never=False) if sidx >= 0 else directed_lits[sidx][0]
        k = rng.randrange(2, 8)
        pool = [V.gen_value(rng, t)] if sidx >= 0 else [directed_lits[sidx][1][0]]
        if t[0] in ('address', 'key', 'key_hash', 'signature') and rng.random() < 0.7:
            from c14 import mixed_kinds      # kinds / curves / notations mixed in one set (text order != Michelson order)
            pool = mixed_kinds(rng, t, min(k, 6)) or pool
        while len(pool) < k:
            pool.append(V.mutate(rng, t, rng.choice(pool)) if rng.random() < 0.75 else V.gen_value(rng, t))
        ups = [(rng.choice(pool), rng.random() < 0.8) for _ in range(rng.randrange(k, 2 * k + 2))]
        distinct = []
        for v in pool:
            if V.canon(v) not in [V.canon(x) for x in distinct]:
                distinct.append(v)
        lit = sorted(distinct, key=V.spec_key(t))
        lk = rng.random()
        lit_kind = 'sorted'
        if lk < 0.25 and len(lit) >= 2:
            i = rng.randrange(len(lit) - 1)
            lit[i], lit[i + 1] = lit[i + 1], lit[i]
            lit_kind = 'swapped'
        elif lk < 0.4 and lit:
            i = rng.randrange(len(lit))
            lit.insert(i, lit[i])
            lit_kind = 'duplicate'
        elif lk < 0.5:
            rng.shuffle(lit)
            lit_kind = 'shuffled'
        if sidx < 0:
            lit, lit_kind = list(directed_lits[sidx][1]), 'duplicate-other-notation'
        elif lit_kind == 'duplicate' and V.alt_micheline(t, lit[i]) is not None:
            lit_kind = 'duplicate-other-notation'
        items, acc, code = impl_set(t, ups, lit)
        # the property's expectation
        cur = []
        for v, b in ups:
            cur = [x for x in cur if V.canon(x) != V.canon(v)]
            if b:
                cur.append(v)
        want_items = sorted(cur, key=V.spec_key(t))
        want_acc = all(V.spec_cmp(t, lit[i], lit[i + 1]) < 0 for i in range(len(lit) - 1))
        ctx.case((t, tuple(V.canon(v) for v, _ in ups), tuple(V.canon(v) for v in lit)), nontrivial=len(distinct) >= 3,
                 kind=f'set:{lit_kind}:{t[0]}',
                 sample={'type': V.type_src(t), 'code': code[:300], 'items': [V.value_src(x) for x in items] if isinstance(items, list) else items,
                         'literal_accepted': acc})
        law = V.texts_respect_order(pool)
        if law and reported < 3:
            reported += 1
            ctx.violation('harness self-check: ' + law, {}, found=False)
        its = items if isinstance(items, list) else [('str', '<<failed>>')]
        scases.append((f'({V.tables_coq(pool)}, {clist(f"({V.value_coq(v)}, {cbool(b)})" for v, b in ups)}, {clist(V.value_coq(v) for v in lit)})',
                       f'({clist(V.value_coq(v) for v in its)}, {cbool(acc is True)})'))
        smeta.append((t, ups, lit, items, acc, want_items, want_acc, code))
    finish_compare()
    reported = max(reported, len(ctx.violations))
    sbad = V.par_mismatches(ctx, 'setorder', IMPORTS, 'set_order_case', 'set_order_eqb',
                            'text_tables * list (val * bool) * list val', 'list val * bool', scases, shard=50)
    for i, (t, ups, lit, items, acc, want_items, want_acc, code) in enumerate(smeta):
        ok_items = isinstance(items, list) and [V.canon(x) for x in items] == [V.canon(x) for x in want_items]
        ok_lit = (acc is True) == want_acc and acc in (True, False)
        if ok_items and ok_lit:
            continue
        if pending_unit and unit_in_set_key(t):
            ctx.known_hit(pending_unit)
            continue
        if reported < 3:
            reported += 1
            what = ('set is not sorted/deduplicated by the Tezos order' if not ok_items else
                    f'set literal {"rejected" if acc is False else "accepted"} although it is {"strictly increasing" if want_acc else "unsorted or has duplicates"}')
            ctx.violation(what, {'type': V.type_src(t), 'code': code,
                                 'observed_items': [V.value_src(x) for x in items] if isinstance(items, list) else items,
                                 'expected_items': [V.value_src(x) for x in want_items], 'literal_accepted': acc, 'literal_should_be_accepted': want_acc,
                                 'repro': 'from pytezos.michelson.repl import Interpreter; i=Interpreter(); i.execute(<code before ///>); print(i.stack.items[0]); the literal after /// in a fresh Interpreter'})
    if sbad and reported == 0:
        rest = [i for i in sbad if not (pending_unit and unit_in_set_key(smeta[i][0]))]
        if rest:
            i = rest[0]
            t, ups, lit, items, acc, want_items, want_acc, code = smeta[i]
            ctx.violation('implementation no longer corresponds to the model the theorems are about',
                          {'correspondence': 'C03/SetType.add,remove,check_constraints vs Michelson.Collections.set_run,set_literal',
                           'type': V.type_src(t), 'code': code, 'observed_items': [V.value_src(x) for x in items] if isinstance(items, list) else items,
                           'literal_accepted': acc, 'model': ctx.coq_eval(IMPORTS, f'set_order_case {scases[i][0]}'), 'disagreements': len(rest)},
                          found=False)

    # ---------------- witnesses of repaired defects (fixed entries) must keep passing
    for f in ctx.known['fixed']:
        w = f.get('witness') or {}
        if 'type' not in w:
            continue
        t, a, b = _parse_witness(w)
        got, code = impl_compare(t, a, b)
        ctx.corpus_cases += 1
        if got != V.spec_cmp(t, a, b):
            ctx.violation(f"repaired defect is back: {f['what']}", {'type': w['type'], 'a': w['a'], 'b': w['b'], 'observed': got,
                                                                  'expected': V.spec_cmp(t, a, b), 'repro': code})
    ctx.extra['compare_cases'] = len(cases)
    ctx.extra['set_cases'] = len(scases)
    # sets / maps / big_maps built from unordered Python lists and dicts must come out ordered by the Michelson order
    from c15 import python_object_stream
    python_object_stream(ctx, rng, len(ctx.violations))
    V.report_sorted_check(ctx)


def _parse_witness(w):
    """fixed-entry witnesses are stored as python literals of the value tuples"""
    conv = lambda x: _tuplify(eval(x, {'__builtins__': {}, 'bytes': bytes, 'range': range}))  # noqa: E731,S307 (own committed file)
    return conv(w['type']), conv(w['a']), conv(w['b'])


def _tuplify(x):
    if isinstance(x, (list, tuple)):
        return tuple(_tuplify(y) for y in x)
    return x
