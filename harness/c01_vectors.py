"""RefSem.v / Typing.v vs the Octez ground truth shipped with the repo: the (script, storage, parameter, expected storage)
vectors of tests/unit_tests/test_michelson/test_repl/test_opcodes.py whose scripts fall inside the modelled fragment.
The reference semantics must reproduce the recorded result (this validates the SPEC, not pytezos)."""
from __future__ import annotations

import ast
import os

import c01_gen as G
import lib


Outside = G.Outside
ty_of = G.ty_of
instr_of = G.instr_of
seq_of = G.seq_of


def vectors():
    from pytezos.michelson.parse import michelson_to_micheline

    root = os.path.join(lib.REPO, 'tests', 'unit_tests', 'test_michelson', 'test_repl')
    src = open(os.path.join(root, 'test_opcodes.py')).read()
    tree = ast.parse(src)
    rows = []
    for node in ast.walk(tree):
        if isinstance(node, ast.Tuple) and len(node.elts) == 4:
            try:
                row = ast.literal_eval(node)
            except Exception:  # noqa: BLE001
                continue
            if all(isinstance(x, str) for x in row) and row[0].endswith('.tz'):
                rows.append(row)
    out, skipped = [], 0
    cache = {}
    for fn, storage, parameter, expected in rows:
        try:
            if fn not in cache:
                path = os.path.join(root, 'opcodes', fn)
                try:
                    sections = michelson_to_micheline(open(path).read())
                    sec = {s['prim']: s['args'] for s in sections if isinstance(s, dict)}
                    cache[fn] = (ty_of(sec['parameter'][0]), ty_of(sec['storage'][0]), seq_of(sec['code'][0]))
                except Outside as e:
                    cache[fn] = e
                except Exception as e:  # noqa: BLE001
                    cache[fn] = Outside(f'unreadable: {e}')
            if isinstance(cache[fn], Exception):
                raise cache[fn]
            p, s, code = cache[fn]
            pv = G.data_of_micheline(p, michelson_to_micheline(parameter))
            sv = G.data_of_micheline(s, michelson_to_micheline(storage))
            ev = G.data_of_micheline(s, michelson_to_micheline(expected))
            env = dict(G.DEFAULT_ENV, balance=4000000000000, chain_id='NetXdQprcVkpaWU')   # the constants of test_opcodes.py
            out.append((fn, {'inputs': [(('pair', p, s), ('pair', pv, sv))], 'code': code, 'env': env}, ev))
        except (Outside, G.Unrenderable):
            skipped += 1
        except Exception:  # noqa: BLE001  (vector text the pytezos parser rejects)
            skipped += 1
    return out, skipped


def run(ctx: lib.Ctx, imports: str, prelude: str, fuel: int) -> None:
    vecs, skipped = vectors()
    ctx.extra['octez_vectors_in_fragment'] = len(vecs)
    ctx.extra['octez_vectors_outside_fragment'] = skipped
    ctx.extra['octez_scripts_in_fragment'] = len({v[0] for v in vecs})
    if not vecs:
        return
    cases = [(G.case_coq(c), f'(Done [VPair (VList []) (value_of_data {G.data_coq(ev)})])') for _, c, ev in vecs]
    untyped = set(ctx.coq_mismatches('octez_tc', imports, 'tc_ok', 'Bool.eqb', 'env * (instr * list (ty * data))', 'bool',
                                     [(c, 'true') for c, _ in cases], prelude=prelude))
    ctx.extra['octez_vectors_rejected_by_fragment_typing'] = sorted({vecs[i][0] for i in untyped})
    vecs = [v for i, v in enumerate(vecs) if i not in untyped]
    cases = [c for i, c in enumerate(cases) if i not in untyped]
    ctx.extra['octez_vectors_in_fragment'] = len(vecs)
    ctx.extra['octez_scripts_in_fragment'] = len({v[0] for v in vecs})
    bad = ctx.coq_mismatches('octez', imports, 'ref_run', 'outcome_eqb',
                             'env * (instr * list (ty * data))', 'outcome', cases, prelude=prelude)
    ctx.table('Octez opcode vectors (test_opcodes.py) inside the fragment vs RefSem.ref_eval + Typing.typecheck')
    if bad:
        i = bad[0]
        fn, c, ev = vecs[i]
        got = ctx.coq_eval(imports, f'ref_run {cases[i][0]}', prelude=prelude)
        raise lib.InternalError(f'reference semantics disagrees with the Octez vector {fn} ({len(bad)} vectors): expected storage '
                                f'{G.data_mich(ev)}, RefSem gives {got[:500]}')
