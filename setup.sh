#!/bin/bash
# Builds the Coq development (full .vo build). `--incremental` is what every check calls
# first: a no-op when everything is current.
set -e
here="$(cd "$(dirname "$0")" && pwd)"
cd "$here/coq"
{
  echo "-R theories PV"
  echo "-arg -w -arg -notation-overridden,-ambiguous-paths,-deprecated-hint-without-locality,-deprecated-instance-without-locality"
  find theories -name '*.v' | LC_ALL=C sort
} > _CoqProject.new
if ! cmp -s _CoqProject.new _CoqProject 2>/dev/null || [ ! -f Makefile ]; then
  mv _CoqProject.new _CoqProject
  coq_makefile -f _CoqProject -o Makefile >/dev/null
else
  rm -f _CoqProject.new
fi
# -k: a file that does not compile must not keep unrelated properties from being checked; the check of a
# property whose own files failed reports that itself (coqc on Properties/Cxx.v fails).
mkdir -p "$here/.work"
if [ "$1" = "--incremental" ]; then
  timeout 3000 make -k -j16 >"$here/.work/make.log" 2>&1 || { grep -E "^(File|Error|make.*Error)" "$here/.work/make.log" | head -20; true; }
else
  timeout 3000 make -k -j16 >"$here/.work/make.log" 2>&1 || true
  tail -3 "$here/.work/make.log"
  if grep -qE "^make.*Error" "$here/.work/make.log"; then
    echo "setup: some files failed to compile:"; grep -B3 -E "^Error" "$here/.work/make.log" | grep -E "^File" | sort -u | head -20
  fi
fi
exit 0
