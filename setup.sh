#!/bin/bash
# Builds the Coq development (full .vo build). `--incremental` is what every check calls
# first: a no-op when everything is current.
set -e
here="$(cd "$(dirname "$0")" && pwd)"
cd "$here/coq"
{
  echo "-R theories PV"
  echo "-arg -w -arg -notation-overridden,-ambiguous-paths,-deprecated-hint-without-locality,-deprecated-instance-without-locality"
  find theories -name '*.v' | LC_ALL=C sort
} > _CoqProject.new
if ! cmp -s _CoqProject.new _CoqProject 2>/dev/null || [ ! -f Makefile ]; then
  mv _CoqProject.new _CoqProject
  coq_makefile -f _CoqProject -o Makefile >/dev/null
else
  rm -f _CoqProject.new
fi
if [ "$1" = "--incremental" ]; then
  timeout 3000 make -j16 >"$here/.work/make.log" 2>&1 || { tail -40 "$here/.work/make.log"; exit 1; }
else
  mkdir -p "$here/.work"
  timeout 3000 make -j16 2>&1 | tail -5
  test "${PIPESTATUS[0]}" = 0
fi
