# #8: BYTES on int keeps the sign byte: PUSH int 128; BYTES = 0x0080 and BYTES; INT is the identity
import sys
from pytezos.michelson.repl import Interpreter
def run(code):
    i = Interpreter()
    r = i.execute(code)
    assert r.error is None, r.error
    return i.stack.items[0]
ok = True
exp = {0: '', 1: '01', 127: '7f', 128: '0080', 255: '00ff', 256: '0100', 32768: '008000', -1: 'ff', -128: '80', -129: 'ff7f', -32768: '8000', -32769: 'ff7fff'}
for v, h in exp.items():
    ok &= run(f'PUSH int {v}; BYTES').value.hex() == h
    ok &= int(run(f'PUSH int {v}; BYTES; INT')) == v
for v, h in {0: '', 1: '01', 128: '80', 255: 'ff', 256: '0100', 65535: 'ffff'}.items():
    ok &= run(f'PUSH nat {v}; BYTES').value.hex() == h
    ok &= int(run(f'PUSH nat {v}; BYTES; NAT')) == v
sys.exit(0 if ok else 1)
