# #41: an empty entrypoint ("KT1...%") is the default entrypoint and is normalised away
import sys
from pytezos.michelson.types import AddressType
from pytezos.michelson.repl import Interpreter
A = 'KT1BEqzn5Wx8uJrZNvuS9DVHmLvG9td3fDLi'
def cmp(a, b):
    i = Interpreter()
    r = i.execute(f'PUSH address "{b}"; PUSH address "{a}"; COMPARE')
    assert r.error is None, r.error
    return int(i.stack.items[0])
ok = True
try:
    ok &= AddressType.from_value(A + '%').value == A
    ok &= AddressType.from_value(A + '%') == AddressType.from_value(A)
    ok &= cmp(A + '%', A) == 0 and cmp(A, A + '%') == 0 and cmp(A + '%default', A + '%') == 0
    ok &= AddressType.from_value(A + '%').to_micheline_value('optimized') == AddressType.from_value(A).to_micheline_value('optimized')
    ok &= AddressType.from_value(A + '%a').value == A + '%a'
except Exception:
    ok = False
sys.exit(0 if ok else 1)
