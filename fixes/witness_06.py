# #6: BLS public keys are comparable (edpk < sppk < p2pk < BLpk, then bytes)
import sys
from pytezos.michelson.repl import Interpreter
from pytezos.crypto.encoding import base58_encode
def cmp(a, b):
    i = Interpreter()
    r = i.execute(f'PUSH key "{b}"; PUSH key "{a}"; COMPARE')
    assert r.error is None, r.error
    return int(i.stack.items[0])
bl1 = base58_encode(b'\x01' * 48, b'BLpk').decode()
bl2 = base58_encode(b'\x02' * 48, b'BLpk').decode()
p2 = base58_encode(b'\x03' + b'\xff' * 32, b'p2pk').decode()
ed = base58_encode(b'\xff' * 32, b'edpk').decode()
try:
    ok = cmp(bl1, bl2) == -1 and cmp(bl2, bl1) == 1 and cmp(bl1, bl1) == 0
    ok &= cmp(p2, bl1) == -1 and cmp(bl1, p2) == 1 and cmp(ed, bl1) == -1
except Exception as e:
    ok = False
sys.exit(0 if ok else 1)
