# #2: prim tag 0xee is not a Tezos primitive; unforge must reject it
import sys
from pytezos.michelson.forge import unforge_micheline
try:
    r = unforge_micheline(bytes.fromhex('03ee'))
except Exception:
    r = None
ok = r is None and unforge_micheline(bytes.fromhex('030b')) == {'prim': 'Unit'} \
    and unforge_micheline(bytes.fromhex('039e')) == {'prim': 'IS_IMPLICIT_ACCOUNT'}
sys.exit(0 if ok else 1)
