# #42: Unit is equal only to Unit: Some Unit vs None compare as different
import sys
from pytezos.michelson.repl import Interpreter
def cmp(ty, a, b):
    i = Interpreter()
    r = i.execute(f'PUSH ({ty}) ({b}); PUSH ({ty}) ({a}); COMPARE')
    assert r.error is None, r.error
    return int(i.stack.items[0])
ok = cmp('option unit', 'Some Unit', 'None') == 1
ok &= cmp('option unit', 'None', 'Some Unit') == -1
ok &= cmp('option unit', 'Some Unit', 'Some Unit') == 0 and cmp('option unit', 'None', 'None') == 0
ok &= cmp('option (option unit)', 'Some None', 'Some (Some Unit)') == -1
ok &= cmp('option (option unit)', 'Some (Some Unit)', 'Some None') == 1
ok &= cmp('unit', 'Unit', 'Unit') == 0
ok &= cmp('or unit unit', 'Left Unit', 'Right Unit') == -1
sys.exit(0 if ok else 1)
