# #5: address order = implicit (tz1<tz2<tz3<tz4) < KT1 < sr1, then bytes, then entrypoint (none = "default")
import sys
from pytezos.michelson.repl import Interpreter
from pytezos.crypto.encoding import base58_encode
def cmp(a, b):
    i = Interpreter()
    r = i.execute(f'PUSH address "{b}"; PUSH address "{a}"; COMPARE')
    assert r.error is None, r.error
    return int(i.stack.items[0])
def mk(pfx, d): return base58_encode(d, pfx).decode()
lo, hi = b'\x01' * 20, b'\xfe' * 20
tz1, tz2, tz3, tz4 = (mk(p, hi) for p in (b'tz1', b'tz2', b'tz3', b'tz4'))
kt, sr = mk(b'KT1', lo), mk(b'sr1', lo)
chain = [mk(b'tz1', lo), tz1, mk(b'tz2', lo), tz2, tz3, tz4, kt + '%a', kt, kt + '%e', mk(b'KT1', hi), sr, mk(b'sr1', hi)]
ok = True
for x in range(len(chain)):
    for y in range(len(chain)):
        want = (x > y) - (x < y)
        got = cmp(chain[x], chain[y])
        if got != want:
            ok = False
# no entrypoint == "default": KT%a < KT (default) < KT%e
ok &= cmp(kt + '%a', kt) == -1 and cmp(kt, kt + '%e') == -1 and cmp(kt + '%default', kt) == 0
sys.exit(0 if ok else 1)
