# #45: default entrypoint + Unit (also written with empty args/annots) is forged as "no parameters" (single flag byte 00)
import sys
from pytezos.operation.forge import forge_transaction
def tx(value, ep='default'):
    return forge_transaction({
        'kind': 'transaction', 'source': 'tz1VSUr8wwNhLAzempoch5d6hLRiTh8Cjcjb', 'fee': '1', 'counter': '2', 'gas_limit': '3',
        'storage_limit': '4', 'amount': '5', 'destination': 'KT1BEqzn5Wx8uJrZNvuS9DVHmLvG9td3fDLi',
        'parameters': {'entrypoint': ep, 'value': value}})
plain = tx({'prim': 'Unit'})
ok = plain.endswith(b'\x00') and not plain.endswith(bytes.fromhex('ff0000000002030b'))
try:
    for v in ({'prim': 'Unit', 'args': []}, {'prim': 'Unit', 'annots': []}, {'prim': 'Unit', 'args': [], 'annots': []}):
        ok &= tx(v) == plain
    ok &= tx({'prim': 'Unit', 'annots': ['%a']}) != plain and tx({'prim': 'Unit', 'annots': ['%a']})[len(plain) - 1:].startswith(b'\xff\x00')
    ok &= tx({'prim': 'Unit'}, ep='foo').endswith(bytes.fromhex('ffff03666f6f00000002030b'))
    ok &= tx({'int': '0'}).endswith(bytes.fromhex('ff00000000020000'))
except Exception:
    ok = False
sys.exit(0 if ok else 1)
