# #32: SLICE returns Some only if offset < size and offset + length <= size
import sys
from pytezos.michelson.repl import Interpreter
def run(ty, lit, off, ln):
    i = Interpreter()
    r = i.execute(f'PUSH {ty} {lit}; PUSH nat {ln}; PUSH nat {off}; SLICE')
    if r.error is not None:
        return 'ERR'
    return i.stack.items[0].to_micheline_value()
N = {'prim': 'None'}
S = lambda v: {'prim': 'Some', 'args': [v]}
ok = run('string', '"abc"', 3, 0) == N
ok &= run('string', '""', 0, 0) == N
ok &= run('bytes', '0xaabbcc', 3, 0) == N
ok &= run('bytes', '0x', 0, 0) == N
ok &= run('string', '"abc"', 4, 0) == N and run('string', '"abc"', 1, 3) == N
ok &= run('string', '"abc"', 0, 0) == S({'string': ''})
ok &= run('string', '"abc"', 2, 0) == S({'string': ''})
ok &= run('string', '"abc"', 1, 2) == S({'string': 'bc'})
ok &= run('bytes', '0xaabbcc', 1, 2) == S({'bytes': 'bbcc'})
ok &= run('string', '"abc"', 0, 3) == S({'string': 'abc'})
sys.exit(0 if ok else 1)
