# #43: 96-byte (BLS) signatures round-trip through the optimized form
import sys
from pytezos.michelson.types import SignatureType
from pytezos.crypto.encoding import base58_encode
ok = True
try:
    for n, pfx, back in ((96, b'BLsig', b'BLsig'), (64, b'sig', b'sig'), (64, b'edsig', b'sig')):
        s = base58_encode(bytes(range(n)), pfx).decode()
        m = SignatureType.from_value(s).to_micheline_value(mode='optimized')
        r = SignatureType.from_micheline_value(m)
        ok &= m == {'bytes': bytes(range(n)).hex()} and r.value == base58_encode(bytes(range(n)), back).decode()
        ok &= r == SignatureType.from_value(s)
except Exception:
    ok = False
sys.exit(0 if ok else 1)
