# #17: SPLIT_TICKET rejects zero amounts; JOIN_TICKETS succeeds and keeps the ticket type
import sys
from pytezos.michelson.repl import Interpreter
def run(code):
    i = Interpreter()
    r = i.execute(code)
    return (None if r.error is not None else i), r
T = 'PUSH nat 5; PUSH string "x"; TICKET; ASSERT_SOME; '
ok = True
i, r = run(T + 'PUSH (pair nat nat) (Pair 0 5); SWAP; SPLIT_TICKET')
ok &= i is not None and i.stack.items[0].is_none()
i, r = run(T + 'PUSH (pair nat nat) (Pair 5 0); SWAP; SPLIT_TICKET')
ok &= i is not None and i.stack.items[0].is_none()
i, r = run(T + 'PUSH (pair nat nat) (Pair 2 3); SWAP; SPLIT_TICKET; ASSERT_SOME; JOIN_TICKETS; ASSERT_SOME; READ_TICKET; DIP { DROP }; CDR')
ok &= i is not None and i.stack.items[0].to_micheline_value() == {'prim': 'Pair', 'args': [{'string': 'x'}, {'int': '5'}]}
i, r = run(T + 'PUSH (pair nat nat) (Pair 2 3); SWAP; SPLIT_TICKET; ASSERT_SOME; JOIN_TICKETS; ASSERT_SOME')
ok &= i is not None and i.stack.items[0].args and i.stack.items[0].args[0].prim == 'string'
i, r = run(T + 'PUSH (pair nat nat) (Pair 2 3); SWAP; SPLIT_TICKET; ASSERT_SOME; CAR')
ok &= i is not None and bool(i.stack.items[0].args) and i.stack.items[0].args[0].prim == 'string'
sys.exit(0 if ok else 1)
