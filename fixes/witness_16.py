# #16: annotated chest / chest_key / tx_rollup_l2_address in argument position must be parenthesised
import sys
from pytezos.michelson.format import micheline_to_michelson
from pytezos.michelson.parse import michelson_to_micheline
ok = True
for prim in ('chest', 'chest_key', 'tx_rollup_l2_address', 'nat'):
    expr = {'prim': 'pair', 'args': [{'prim': prim, 'annots': ['%a']}, {'prim': 'unit'}]}
    try:
        ok &= michelson_to_micheline(micheline_to_michelson(expr)) == expr
        ok &= michelson_to_micheline(micheline_to_michelson(expr, inline=True)) == expr
    except Exception:
        ok = False
sys.exit(0 if ok else 1)
