# #22: protocol entrypoint tags 0..9
import sys
from pytezos.operation.forge import forge_entrypoint
names = ['default', 'root', 'do', 'set_delegate', 'remove_delegate', 'deposit', 'stake', 'unstake', 'finalize_unstake', 'set_delegate_parameters']
ok = all(forge_entrypoint(n) == bytes([i]) for i, n in enumerate(names))
ok &= forge_entrypoint('foo') == b'\xff\x03foo'
sys.exit(0 if ok else 1)
