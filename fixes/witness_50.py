# #50: tickets cannot be duplicated through big_maps (GET on a big_map of tickets, DUP of such a big_map)
import sys
from pytezos.michelson.repl import Interpreter
MK = ' nat (ticket nat) ; PUSH nat 5 ; PUSH nat 42 ; TICKET ; IF_NONE { PUSH string "none" ; FAILWITH } {} ; SOME ; PUSH nat 0 ; UPDATE ; '
W = MK + 'DUP ; PUSH nat 0 ; GET ; IF_NONE { PUSH string "n" ; FAILWITH } {} ; SWAP ; PUSH nat 0 ; GET ; IF_NONE { PUSH string "n" ; FAILWITH } {} ; PAIR ; JOIN_TICKETS'
def err(code):
    i = Interpreter()
    return i.execute(code).error is not None, i
ok = err('EMPTY_MAP' + W)[0]                      # the map twin is rejected
ok &= err('EMPTY_BIG_MAP' + W)[0]                 # defect: ran and produced a ticket of amount 10
ok &= err('EMPTY_BIG_MAP' + MK + 'DUP')[0]
ok &= err('EMPTY_BIG_MAP' + MK + 'PUSH nat 0 ; GET')[0]
# legitimate uses keep working
e, i = err('EMPTY_BIG_MAP' + MK + 'NONE (ticket nat) ; PUSH nat 0 ; GET_AND_UPDATE ; IF_NONE { PUSH string "n" ; FAILWITH } {} ; READ_TICKET ; CDR ; CDR')
ok &= not e and int(i.stack.items[0]) == 5
e, i = err('EMPTY_BIG_MAP' + MK + 'PUSH nat 0 ; MEM')
ok &= not e and i.stack.items[0].to_micheline_value() == {'prim': 'True'}
e, i = err('EMPTY_BIG_MAP nat nat ; PUSH nat 7 ; SOME ; PUSH nat 0 ; UPDATE ; DUP ; PUSH nat 0 ; GET')
ok &= not e and i.stack.items[0].to_micheline_value() == {'prim': 'Some', 'args': [{'int': '7'}]}
# REPL state backup (deepcopy) of a big_map holding tickets still works: a failing cell restores the stack
i = Interpreter()
ok &= i.execute('EMPTY_BIG_MAP' + MK).error is None
ok &= i.execute('PUSH int 1 ; FAILWITH').error is not None and len(i.stack.items) == 1
ok &= i.execute('PUSH nat 0 ; MEM').error is None
sys.exit(0 if ok else 1)
