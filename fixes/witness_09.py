# #9: SUB_MUTEZ returns None on underflow instead of failing
import sys
from pytezos.michelson.repl import Interpreter
def run(code):
    i = Interpreter()
    r = i.execute(code)
    if r.error is not None:
        return 'ERR'
    return i.stack.items[0].to_micheline_value()
ok = run('PUSH mutez 2; PUSH mutez 1; SUB_MUTEZ') == {'prim': 'None'}
ok &= run('PUSH mutez 1; PUSH mutez 2; SUB_MUTEZ') == {'prim': 'Some', 'args': [{'int': '1'}]}
ok &= run('PUSH mutez 2; PUSH mutez 2; SUB_MUTEZ') == {'prim': 'Some', 'args': [{'int': '0'}]}
sys.exit(0 if ok else 1)
