# #48: a lazy-diff update whose value is the empty sequence [] is an update to {} and not a removal
import sys
from pytezos.michelson.types import BigMapType, StringType, ListType, NatType
T = BigMapType.create_type(args=[StringType, ListType.create_type(args=[NatType])])
diff = [{'kind': 'big_map', 'id': '7', 'diff': {'action': 'update', 'updates': [
    {'key': {'string': 'b'}, 'key_hash': 'x', 'value': []},
    {'key': {'string': 'c'}, 'key_hash': 'y'},
    {'key': {'string': 'd'}, 'key_hash': 'z', 'value': [{'int': '1'}]},
]}}]
try:
    bm = T.from_micheline_value({'int': '7'}).merge_lazy_diff(diff)
    b = bm.get(StringType('b'), dup=False)
    ok = b is not None and b.to_micheline_value() == []
    ok &= bm.get(StringType('c'), dup=False) is None and [repr(k) for k in bm.removed_keys] == ["'c'"]
    ok &= bm.get(StringType('d'), dup=False).to_micheline_value() == [{'int': '1'}]
    ok &= len(bm.items) == 2
except Exception:
    ok = False
sys.exit(0 if ok else 1)
