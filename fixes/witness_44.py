# #44: prims that take arguments are parenthesised in argument position: constant, Lambda_rec, Ticket
import sys
from pytezos.michelson.format import micheline_to_michelson
from pytezos.michelson.parse import michelson_to_micheline
exprs = [
    {'prim': 'list', 'args': [{'prim': 'constant', 'args': [{'string': 'expruX'}]}]},
    {'prim': 'Pair', 'args': [{'prim': 'Lambda_rec', 'args': [[{'prim': 'DROP'}]]}, {'int': '1'}]},
    {'prim': 'Some', 'args': [{'prim': 'Ticket', 'args': [{'string': 'KT1BEqzn5Wx8uJrZNvuS9DVHmLvG9td3fDLi'}, {'prim': 'nat'}, {'int': '1'}, {'int': '2'}]}]},
    {'prim': 'PUSH', 'args': [{'prim': 'constant', 'args': [{'string': 'expruX'}]}, {'int': '1'}]},
]
ok = True
for e in exprs:
    try:
        ok &= michelson_to_micheline(micheline_to_michelson(e)) == e
        ok &= michelson_to_micheline(micheline_to_michelson(e, inline=True)) == e
    except Exception:
        ok = False
sys.exit(0 if ok else 1)
