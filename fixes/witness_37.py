# #37: validators match the textual prefix of the base58 row exactly (a BLpk key is not a block hash)
import sys
from pytezos.crypto.encoding import base58_encode, is_bh, is_ogh, is_public_key, is_pkh, is_sig, is_kt, is_chain_id
enc = lambda n, p: base58_encode(bytes(range(n)), p).decode()
ok = True
for n, p in ((48, b'BLpk'), (32, b'BLsk'), (96, b'BLsig'), (56, b'BLesk')):
    ok &= not is_bh(enc(n, p))
ok &= is_bh(enc(32, b'B')) and is_bh('BLockGenesisGenesisGenesisGenesisGenesisf79b5d1CoW2')
ok &= is_ogh(enc(32, b'o')) and not is_ogh(enc(32, b'B'))
ok &= is_public_key(enc(48, b'BLpk')) and is_public_key(enc(32, b'edpk')) and is_public_key(enc(33, b'sppk'))
ok &= is_pkh(enc(20, b'tz4')) and not is_pkh(enc(20, b'KT1')) and is_kt(enc(20, b'KT1'))
ok &= is_sig(enc(64, b'sig')) and is_sig(enc(64, b'spsig')) and is_sig(enc(96, b'BLsig')) and not is_sig(enc(32, b'srs1'))
ok &= is_chain_id(enc(4, b'Net'))
sys.exit(0 if ok else 1)
