# #34: UPDATE 0 replaces the whole value, also with a non-pair element
import sys
from pytezos.michelson.repl import Interpreter
def run(code):
    i = Interpreter()
    r = i.execute(code)
    if r.error is not None:
        return 'ERR'
    return i.stack.items[0].to_micheline_value()
P = lambda *a: {'prim': 'Pair', 'args': list(a)}
I = lambda n: {'int': str(n)}
ok = run('PUSH (pair int int) (Pair 1 2); PUSH int 9; UPDATE 0') == I(9)
ok &= run('PUSH (pair int int) (Pair 1 2); PUSH string "x"; UPDATE 0') == {'string': 'x'}
ok &= run('PUSH (pair int int) (Pair 1 2); PUSH (pair int int int) (Pair 7 8 9); UPDATE 0') == P(I(7), I(8), I(9))
ok &= run('PUSH (pair int int) (Pair 1 2); PUSH int 9; UPDATE 1') == P(I(9), I(2))
ok &= run('PUSH (pair int int) (Pair 1 2); PUSH int 9; UPDATE 2') == P(I(1), I(9))
ok &= run('PUSH (pair int int int) (Pair 1 2 3); PUSH int 9; UPDATE 2') == P(I(1), I(9))
ok &= run('PUSH (pair int int int) (Pair 1 2 3); PUSH int 9; UPDATE 4') == P(I(1), I(2), I(9))
ok &= run('PUSH (pair int int int) (Pair 1 2 3); PUSH int 9; UPDATE 3') == P(I(1), I(9), I(3))
sys.exit(0 if ok else 1)
