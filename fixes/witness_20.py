# #20: BLS keys have no 64-byte generic signature form; sign(generic=True) must yield a verifiable BLsig
import sys
from pytezos.crypto.key import Key
ok = True
try:
    k = Key.from_secret_exponent(bytes([7]) + bytes(31), curve=b'BL')
    s = k.sign(b'hello', generic=True)
    ok &= s.startswith('BLsig') and k.verify(s, b'hello')
except Exception:
    ok = False
for c in (b'ed', b'sp', b'p2'):
    k = Key.generate(curve=c, export=False)
    s = k.sign(b'hello', generic=True)
    ok &= s.startswith('sig') and k.verify(s, b'hello')
sys.exit(0 if ok else 1)
