# #40: key order is total: p2pk keys with equal X and different parity byte are ordered (X first, then the flag)
import sys
from pytezos.michelson.repl import Interpreter
from pytezos.crypto.encoding import base58_encode
def cmp(a, b):
    i = Interpreter()
    r = i.execute(f'PUSH key "{b}"; PUSH key "{a}"; COMPARE')
    assert r.error is None, r.error
    return int(i.stack.items[0])
X = bytes(range(32)); X2 = bytes([0]) + bytes(range(31))
k2 = base58_encode(b'\x02' + X, b'p2pk').decode(); k3 = base58_encode(b'\x03' + X, b'p2pk').decode()
k3b = base58_encode(b'\x03' + X2, b'p2pk').decode()
ok = cmp(k2, k3) == -1 and cmp(k3, k2) == 1 and cmp(k2, k2) == 0
ok &= cmp(k3b, k2) == -1 and cmp(k2, k3b) == 1   # distinct X: unchanged (X decides)
s2 = base58_encode(b'\x02' + X, b'sppk').decode(); s3 = base58_encode(b'\x03' + X2, b'sppk').decode()
ok &= cmp(s2, s3) == -1 and cmp(s3, s2) == 1 and cmp(s3, k2) == -1
sys.exit(0 if ok else 1)
