# #13: to_parameters picks the deepest annotated ancestor of the actual variant, else the root entrypoint
import sys
from pytezos.michelson.sections.parameter import ParameterSection
from pytezos.michelson.parse import michelson_to_micheline as m
def check(ty, val, want_ep, want_val):
    P = ParameterSection.match(m(f'parameter {ty}'))
    try:
        p = P.from_micheline_value(m(val)).to_parameters()
        back = P.from_parameters(p).item.to_micheline_value()
    except Exception:
        return False
    return p == {'entrypoint': want_ep, 'value': m(want_val)} and back == m(val)
T = '(or (or %a nat int) string)'
ok = check(T, 'Left (Left 1)', 'a', 'Left 1')
ok &= check(T, 'Left (Right 2)', 'a', 'Right 2')
ok &= check(T, 'Right "s"', 'default', 'Right "s"')
T2 = '(or (or %a (nat %b) int) (or (string %c) (unit %d)))'
ok &= check(T2, 'Left (Left 1)', 'b', '1')
ok &= check(T2, 'Left (Right 2)', 'a', 'Right 2')
ok &= check(T2, 'Right (Left "s")', 'c', '"s"')
ok &= check('(or (nat %x) (int %y))', 'Right 3', 'y', '3')
ok &= check('(or nat int)', 'Right 3', 'default', 'Right 3')
sys.exit(0 if ok else 1)
