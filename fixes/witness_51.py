# #51: APPLY on a lambda whose pair argument has field annotations
import sys
from pytezos.michelson.repl import Interpreter
def run(code):
    i = Interpreter()
    r = i.execute(code)
    if r.error is not None:
        return 'ERR'
    return i.stack.items[0]
ok = True
for T in ('(pair (int %a) (nat %b))', '(pair int nat)', '(pair (int %a) nat)', '(pair int (nat %b))'):
    a = run(f'LAMBDA {T} int {{ CAR }} ; PUSH int 5 ; APPLY')
    ok &= a != 'ERR' and a.as_micheline_expr() == {'prim': 'lambda', 'args': [{'prim': 'nat'}, {'prim': 'int'}]}
    b = run(f'LAMBDA {T} int {{ UNPAIR ; SWAP ; INT ; ADD }} ; PUSH int 5 ; APPLY ; PUSH nat 3 ; EXEC')
    ok &= b != 'ERR' and b.to_micheline_value() == {'int': '8'}
c = run('LAMBDA (pair (int %a) (pair %p (nat %b) (string %c))) nat { CDR ; CAR } ; PUSH int 5 ; APPLY ; PUSH (pair nat string) (Pair 7 "x") ; EXEC')
ok &= c != 'ERR' and c.to_micheline_value() == {'int': '7'}
sys.exit(0 if ok else 1)
