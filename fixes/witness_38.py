# #38: the entrypoint starts after the FIRST '%' ('%' is a legal annotation character)
import sys
from pytezos.michelson.types import AddressType, ContractType, UnitType
from pytezos.michelson.forge import forge_contract, unforge_contract
A = 'KT1BEqzn5Wx8uJrZNvuS9DVHmLvG9td3fDLi'
ok = True
try:
    for ep in ('a%b', 'a', 'a%default', 'x%%y'):
        v = f'{A}%{ep}'
        ok &= unforge_contract(forge_contract(v)) == v
        m = AddressType.from_value(v).to_micheline_value('optimized')
        ok &= AddressType.from_micheline_value(m).value == v
    ok &= AddressType.from_value(A + '%default').value == A
    ok &= forge_contract(A + '%default') == forge_contract(A) and len(forge_contract(A)) == 22
    C = ContractType.create_type(args=[UnitType])
    c = C.from_value(A + '%a%b')
    ok &= c.get_address() == A and c.get_entrypoint() == 'a%b'
    ok &= C.from_value(A).get_entrypoint() == 'default'
except Exception:
    ok = False
sys.exit(0 if ok else 1)
