# #18: the point at infinity (0x40 00..) is the neutral element of G1/G2 addition
import sys
from py_ecc import optimized_bls12_381 as b
from pytezos.michelson.types import BLS12_381_G1Type, BLS12_381_G2Type
from pytezos.michelson.repl import Interpreter
ok = True
for T, G, n in ((BLS12_381_G1Type, b.G1, 96), (BLS12_381_G2Type, b.G2, 192)):
    inf = T.from_value(b'\x40' + bytes(n - 1))
    g = T.from_point(G)
    ok &= b.is_inf(inf.to_point())
    ok &= T.from_point(b.add(inf.to_point(), g.to_point())).value == g.value
    ok &= T.from_point(inf.to_point()).value == inf.value
    ok &= T.from_point(g.to_point()).value == g.value
    i = Interpreter()
    r = i.execute(f'PUSH {T.prim} 0x{g.value.hex()}; PUSH {T.prim} 0x{inf.value.hex()}; ADD')
    ok &= r.error is None and i.stack.items[0].value == g.value
sys.exit(0 if ok else 1)
