# #11: MAP over a map keeps the (pair) keys
import sys
from pytezos.michelson.repl import Interpreter
i = Interpreter()
r = i.execute('PUSH (map (pair int int) int) { Elt (Pair 1 2) 3 ; Elt (Pair 4 5) 6 }; MAP { CDR; PUSH int 1; ADD }')
ok = r.error is None
if ok:
    top = i.stack.items[0]
    ok = top.to_micheline_value() == [
        {'prim': 'Elt', 'args': [{'prim': 'Pair', 'args': [{'int': '1'}, {'int': '2'}]}, {'int': '4'}]},
        {'prim': 'Elt', 'args': [{'prim': 'Pair', 'args': [{'int': '4'}, {'int': '5'}]}, {'int': '7'}]},
    ]
    ok &= top.args[0].prim == 'pair'
sys.exit(0 if ok else 1)
