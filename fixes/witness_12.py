# #12: every timestamp round-trips through readable Micheline; outside years 1000-9999 it is rendered as an integer
import sys
from pytezos.michelson.types import TimestampType
ok = True
for t in (253402300800, -62135596800, -62135596801, -30610224001, 10**18, -10**18, -30610224000, 0, 1700000000, 253402300799):
    try:
        for mode in ('readable', 'optimized', 'legacy_optimized'):
            m = TimestampType.from_value(t).to_micheline_value(mode=mode)
            ok &= TimestampType.from_micheline_value(m).value == t
    except Exception:
        ok = False
ok &= TimestampType.from_value(253402300800).to_micheline_value() == {'int': '253402300800'}
ok &= TimestampType.from_value(253402300799).to_micheline_value() == {'string': '9999-12-31T23:59:59Z'}
ok &= TimestampType.from_value(-30610224000).to_micheline_value() == {'string': '1000-01-01T00:00:00Z'}
ok &= TimestampType.from_value(-30610224001).to_micheline_value() == {'int': '-30610224001'}
sys.exit(0 if ok else 1)
