# #19: after a failing cell the restored stack's big_maps must live in the restored context
import sys
from pytezos.michelson.repl import Interpreter
def session(with_failure):
    i = Interpreter()
    assert i.execute('storage (big_map string int); parameter unit').error is None
    assert i.execute('EMPTY_BIG_MAP string int').error is None
    if with_failure:
        assert i.execute('PUSH int 1; FAILWITH').error is not None
    ok = all(bm.context is i.context for item in i.stack.items for bm in [item] if hasattr(bm, 'context'))
    r1 = i.execute('NIL operation; PAIR; COMMIT')
    r2 = i.execute('EMPTY_BIG_MAP string int; NIL operation; PAIR; COMMIT')
    assert r1.error is None and r2.error is None, (r1.error, r2.error)
    return ok, r1.storage, r2.storage, i.context.alloc_big_map_index
a = session(False)
b = session(True)
sys.exit(0 if a == b and b[0] else 1)
