# #27: find_state_changes reports every change level in (last, head] with the new value, in increasing order
import sys, itertools
from pytezos.rpc.search import find_state_changes, find_state_change
ok = True
try:
    for head, last in ((100, 0), (97, 3), (10, 9), (50, 50), (130, 7)):
        for step in (1, 7, 60, 200):
            for changes in ((), (last + 1,), (head,), (last + 2, last + 3), (last + 1, (head + last) // 2, head), tuple(range(last + 1, min(head, last + 6) + 1))):
                changes = sorted({c for c in changes if last < c <= head})
                h = lambda lvl, ch=changes: sum(1 for c in ch if c <= lvl)
                want = [(c, h(c)) for c in changes]
                got = list(find_state_changes(head, last, h, lambda a, b: a == b, step=step))
                if got != want:
                    ok = False
    ok &= find_state_change(100, 0, lambda l: int(l >= 37), lambda a, b: a == b, pred_value=0) == (37, 1)
except TypeError:
    ok = False
sys.exit(0 if ok else 1)
