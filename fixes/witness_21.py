# #21: base58_decode must verify the binary prefix, not only the textual prefix and the length
import sys, base58
from pytezos.crypto.encoding import base58_decode, base58_encode, is_pkh
bad = None
for n in range(100000):
    s = base58.b58encode_check(bytes.fromhex('06a1a0') + n.to_bytes(20, 'big'))
    if s.startswith(b'tz1') and len(s) == 36:
        bad = s
        break
assert bad is not None
try:
    base58_decode(bad)
    rejected = False
except ValueError:
    rejected = True
ok = rejected and not is_pkh(bad)
good = base58_encode(b'\x11' * 20, b'tz1')
ok &= base58_decode(good) == b'\x11' * 20 and is_pkh(good)
sys.exit(0 if ok else 1)
