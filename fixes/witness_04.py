# #4: pairs compare lexicographically
import sys
from pytezos.michelson.repl import Interpreter
def cmp(ty, a, b):
    i = Interpreter()
    r = i.execute(f'PUSH ({ty}) ({b}); PUSH ({ty}) ({a}); COMPARE')
    assert r.error is None, r.error
    return int(i.stack.items[0])
ok = cmp('pair int int', 'Pair 1 5', 'Pair 2 3') == -1
ok &= cmp('pair int int', 'Pair 2 3', 'Pair 1 5') == 1
ok &= cmp('pair int int', 'Pair 1 5', 'Pair 1 3') == 1
ok &= cmp('pair int int', 'Pair 1 3', 'Pair 1 3') == 0
ok &= cmp('pair int int int', 'Pair 1 3 9', 'Pair 1 4 0') == -1
ok &= cmp('pair int int int', 'Pair 1 3 9', 'Pair 1 3 0') == 1
sys.exit(0 if ok else 1)
