# #7: signatures compare by their bytes, independent of the base58 notation (sig / edsig / spsig1 / p2sig)
import sys
from pytezos.michelson.repl import Interpreter
from pytezos.crypto.encoding import base58_encode
def cmp(a, b):
    i = Interpreter()
    r = i.execute(f'PUSH signature "{b}"; PUSH signature "{a}"; COMPARE')
    assert r.error is None, r.error
    return int(i.stack.items[0])
lo, hi = b'\x01' * 64, b'\xf0' * 64
enc = lambda d, p: base58_encode(d, p).decode()
ok = cmp(enc(lo, b'sig'), enc(lo, b'edsig')) == 0
ok &= cmp(enc(lo, b'spsig'), enc(lo, b'p2sig')) == 0
ok &= cmp(enc(lo, b'sig'), enc(hi, b'edsig')) == -1 and cmp(enc(hi, b'edsig'), enc(lo, b'sig')) == 1
ok &= cmp(enc(hi, b'edsig'), enc(lo, b'sig')) == 1 and cmp(enc(lo, b'edsig'), enc(hi, b'sig')) == -1
# set literal with the same signature twice in different notations is a duplicate -> still must not crash on compare
sys.exit(0 if ok else 1)
