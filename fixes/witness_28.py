# #28: views: restricted instructions are allowed inside LAMBDA_REC bodies and pushed lambda literals; names are checked for forbidden characters
import sys
from pytezos.michelson.sections.view import ViewSection
from pytezos.michelson.parse import michelson_to_micheline as m
def accepts(name, code):
    try:
        ViewSection.match(m(f'view "{name}" unit unit {{ {code} }}'))
        return True
    except Exception:
        return False
ok = True
body = 'DROP; PUSH mutez 0; NONE key_hash; SET_DELEGATE; DROP; UNIT'
ok &= accepts('v', f'DROP; LAMBDA unit unit {{ {body} }}; DROP; UNIT')
ok &= accepts('v', f'DROP; LAMBDA_REC unit unit {{ DROP; {body} }}; DROP; UNIT')
ok &= accepts('v', f'DROP; PUSH (lambda unit unit) {{ {body} }}; DROP; UNIT')
ok &= not accepts('v', f'{body}')
ok &= not accepts('v', f'DIP {{ {body} }}')
ok &= not accepts('v', 'DROP; LAMBDA unit unit { DROP; SELF; DROP; UNIT }; DROP; UNIT')
ok &= not accepts('v', 'DROP; LAMBDA_REC unit unit { DROP; DROP; UNIT }; DROP; NONE key_hash; SET_DELEGATE; DROP; UNIT')
ok &= accepts('a' * 31, 'DROP; UNIT') and not accepts('a' * 32, 'DROP; UNIT')
ok &= accepts('aZ09_.%@', 'DROP; UNIT') and accepts('', 'DROP; UNIT')
for bad in ('a b', 'a-b', 'a!', 'a/b', 'a:b', 'é', 'a#'):
    ok &= not accepts(bad, 'DROP; UNIT')
sys.exit(0 if ok else 1)
