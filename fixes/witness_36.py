# #36: NEG on bls12_381_fr stays in the field (r - x), does not become an int
import sys
from pytezos.michelson.repl import Interpreter
R = 0x73EDA753299D7D483339D80809A1D80553BDA402FFFE5BFEFFFFFFFF00000001
i = Interpreter()
r = i.execute('PUSH bls12_381_fr 5; NEG')
ok = r.error is None and i.stack.items[0].prim == 'bls12_381_fr' and int(i.stack.items[0]) == R - 5 \
    == 52435875175126190479447740508185965837690552500527637822603658699938581184508
i = Interpreter()
r = i.execute('PUSH bls12_381_fr 5; DUP; NEG; ADD')
ok &= r.error is None and i.stack.items[0].prim == 'bls12_381_fr' and int(i.stack.items[0]) == 0
for ty, v, w in (('int', 5, -5), ('nat', 5, -5), ('int', -7, 7)):
    i = Interpreter()
    r = i.execute(f'PUSH {ty} {v}; NEG')
    ok &= r.error is None and i.stack.items[0].prim == 'int' and int(i.stack.items[0]) == w
sys.exit(0 if ok else 1)
