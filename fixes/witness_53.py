# #53: None results whose type comes from a field-annotated operand (SLICE out of bounds, failing JOIN_TICKETS)
import sys
from pytezos.michelson.repl import Interpreter
def run(code):
    i = Interpreter()
    r = i.execute(code)
    if r.error is not None:
        return 'ERR'
    return i.stack.items[0]
N = {'prim': 'None'}
ok = True
for ann in ('%s', ''):
    a = run(f'PUSH (pair (string {ann}) nat) (Pair "abc" 1); CAR; PUSH nat 5; PUSH nat 0; SLICE')
    ok &= a != 'ERR' and a.to_micheline_value() == N and a.as_micheline_expr() == {'prim': 'option', 'args': [{'prim': 'string'}]}
    b = run(f'PUSH (pair (bytes {ann}) nat) (Pair 0xaabb 1); CAR; PUSH nat 5; PUSH nat 0; SLICE')
    ok &= b != 'ERR' and b.to_micheline_value() == N and b.as_micheline_expr() == {'prim': 'option', 'args': [{'prim': 'bytes'}]}
    c = run(f'PUSH (pair (string {ann}) nat) (Pair "abc" 1); CAR; PUSH nat 2; PUSH nat 1; SLICE')
    ok &= c != 'ERR' and c.to_micheline_value() == {'prim': 'Some', 'args': [{'string': 'bc'}]}
T = 'PUSH nat 5; PUSH string "{}"; TICKET; ASSERT_SOME; '
for ann in ('%l', ''):
    # two tickets with different contents, the left one taken from a pair with an annotated field: JOIN_TICKETS = None
    d = run(T.format('x') + f'PUSH nat 0; SWAP; PAIR {ann} %n; CAR; ' + T.format('y') + 'SWAP; PAIR; JOIN_TICKETS')
    ok &= d != 'ERR' and d.to_micheline_value() == N
sys.exit(0 if ok else 1)
