# #52: the PUSH embedded by APPLY carries the captured type without any annotations (also nested ones)
import sys
from pytezos.michelson.repl import Interpreter
def pack(code):
    i = Interpreter()
    r = i.execute(code + ' ; PACK')
    if r.error is not None:
        return None
    return i.stack.items[0].value.hex()
ok = True
a = pack('LAMBDA (pair (int %a) (nat %b)) int { CAR } ; PUSH int 5 ; APPLY')
b = pack('LAMBDA (pair int nat) int { CAR } ; PUSH int 5 ; APPLY')
ok &= a is not None and a == b
# { PUSH int 5 ; PAIR ; { CAR } }
ok &= b == '05' + '020000000f' + '0743035b0005' + '0342' + '0200000002' + '0316'
a = pack('LAMBDA (pair (pair %p (int %x) (nat :t %y)) (nat %b)) int { CAR ; CAR } ; PUSH (pair (int %x) (nat %y)) (Pair 1 2) ; APPLY')
b = pack('LAMBDA (pair (pair int nat) nat) int { CAR ; CAR } ; PUSH (pair int nat) (Pair 1 2) ; APPLY')
ok &= a is not None and a == b
i = Interpreter()
r = i.execute('LAMBDA (pair (pair %p (int %x) (nat %y)) (nat %b)) int { CAR ; CAR } ; PUSH (pair int nat) (Pair 1 2) ; APPLY ; PUSH nat 3 ; EXEC')
ok &= r.error is None and i.stack.items[0].to_micheline_value() == {'int': '1'}
sys.exit(0 if ok else 1)
