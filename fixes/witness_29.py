# #29: base58 rows: secp256k1 scalar SSp = 32 bytes / 53 chars / prefix 26f888; secp256k1 element GSp = 33 bytes / 54 chars / prefix 055c00
import sys, base58
from pytezos.crypto.encoding import base58_encode, base58_decode, base58_encodings
ok = True
try:
    for pfx, n, binp, ln in ((b'SSp', 32, bytes([38, 248, 136]), 53), (b'GSp', 33, bytes([5, 92, 0]), 54)):
        for payload in (bytes(n), b'\xff' * n, bytes(range(n))):
            s = base58_encode(payload, pfx)
            ok &= s.startswith(pfx) and len(s) == ln and base58.b58decode_check(s) == binp + payload
            ok &= base58_decode(s) == payload
except Exception:
    ok = False
# every row is self-consistent: encoding min/max payloads gives the stated prefix and length
for pfx, ln, binp, n, _ in base58_encodings:
    for payload in (bytes(n), b'\xff' * n):
        s = base58.b58encode_check(binp + payload)
        ok &= s.startswith(pfx) and len(s) == ln
sys.exit(0 if ok else 1)
