# #10: field annotations do not change comb structure: GET n / UNPAIR n / PACK on annotated right combs
import sys
from pytezos.michelson.repl import Interpreter
def run(code):
    i = Interpreter()
    r = i.execute(code)
    if r.error is not None:
        return None
    return i
T = '(pair (int %a) (pair %b (int %c) (pair %d (int %e) (int %f))))'
ok = True
for n, want in ((1, {'int': '1'}), (3, {'int': '2'}), (5, {'int': '3'}), (6, {'int': '4'})):
    i = run(f'PUSH {T} (Pair 1 2 3 4); GET {n}')
    ok &= i is not None and i.stack.items[0].to_micheline_value() == want
i = run(f'PUSH {T} (Pair 1 2 3 4); UNPAIR 4')
ok &= i is not None and [x.to_micheline_value() for x in i.stack.items[:4]] == [{'int': str(k)} for k in (1, 2, 3, 4)]
i = run(f'PUSH {T} (Pair 1 2 3 4); PACK')
j = run('PUSH (pair int int int int) (Pair 1 2 3 4); PACK')
ok &= i is not None and i.stack.items[0].value == j.stack.items[0].value == bytes.fromhex('0502000000080001000200030004')
sys.exit(0 if ok else 1)
