# #35: unit is hashable: set/map literals with unit keys work
import sys
from pytezos.michelson.repl import Interpreter
from pytezos.michelson.types.core import Unit, unit
def run(code):
    i = Interpreter()
    r = i.execute(code)
    if r.error is not None:
        return 'ERR'
    return i.stack.items[0].to_micheline_value()
U = {'prim': 'Unit'}
ok = run('PUSH (set unit) { Unit }') == [U]
ok &= run('PUSH (map unit nat) { Elt Unit 1 }') == [{'prim': 'Elt', 'args': [U, {'int': '1'}]}]
ok &= run('PUSH (set (pair unit nat)) { Pair Unit 1 ; Pair Unit 2 }; SIZE') == {'int': '2'}
ok &= run('PUSH (set unit) { Unit }; UNIT; MEM') == {'prim': 'True'}
try:
    ok &= hash(Unit) == hash(unit()) and len({Unit, unit()}) == 1
except TypeError:
    ok = False
sys.exit(0 if ok else 1)
