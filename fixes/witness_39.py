# #39: UPDATE (Some v) of a key that exists only on chain must be recorded in the big_map diff
import sys, io, contextlib
from pytezos.michelson.repl import Interpreter
from pytezos.rpc.node import RpcError
from pytezos.michelson.forge import forge_script_expr
from pytezos.michelson.types import StringType
class Leaf:
    def __init__(s, tbl, ptr, kh): s.t=tbl; s.p=ptr; s.k=kh
    def __call__(s):
        v = s.t.get((s.p, s.k))
        pass
        if v is None: raise RpcError('not found')
        return v
class Idx:
    def __init__(s, f): s.f=f
    def __getitem__(s,k): return s.f(k)
class Shell:
    def __init__(s, tbl):
        s.tbl=tbl
        class Ctx: pass
        c=Ctx(); c.big_maps = Idx(lambda ptr: Idx(lambda kh: Leaf(tbl, ptr, kh)))
        class B: pass
        b=B(); b.context=c
        s.blocks = Idx(lambda bid: b)
kh = lambda s: forge_script_expr(StringType(s).pack(legacy=True))
tbl = {(7, kh('a')): {'int':'1'}, (7, kh('b')): {'int':'2'}}
script = '''parameter unit; storage (pair (big_map string int) (list (option int)));
code { CDR; CAR; 
  PUSH (option int) (Some 10); PUSH string "a"; UPDATE;
  DUP; PUSH string "a"; GET; SWAP; DUP; PUSH string "b"; GET; SWAP; DUP; PUSH string "c"; GET ; SWAP;
  DIP { NIL (option int); SWAP; CONS; SWAP; CONS; SWAP; CONS }; PAIR; NIL operation; PAIR }'''
from pytezos.michelson.parse import michelson_to_micheline
r = Interpreter.run_code({"prim":"Unit"}, {"prim":"Pair","args":[{"int":"7"},[]]}, michelson_to_micheline(script), shell=Shell(tbl), block_id="head")
S = lambda n: {'prim': 'Some', 'args': [{'int': str(n)}]}
ok = r[4] is None and r[1] == {'prim': 'Pair', 'args': [{'int': '7'}, [S(10), S(2), {'prim': 'None'}]]}
upd = r[2][0]['diff']['updates'] if r[2] else []
ok &= len(upd) == 1 and upd[0]['key'] == {'string': 'a'} and upd[0]['value'] == {'int': '10'}
sys.exit(0 if ok else 1)
