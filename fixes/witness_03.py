# #3: 21-byte key hashes whose digest starts 00..03 / ends 00 must round-trip through unforge_address
import sys
from pytezos.michelson.forge import forge_address, unforge_address
from pytezos.crypto.encoding import base58_encode
ok = True
digests = [bytes([0]) + b'\x11' * 19, bytes([3]) + b'\x22' * 19, b'\x33' * 19 + b'\x00', bytes(20), b'\x44' * 20]
for pfx in (b'tz1', b'tz2', b'tz3', b'tz4'):
    for d in digests:
        a = base58_encode(d, pfx).decode()
        try:
            ok &= unforge_address(forge_address(a, tz_only=True)) == a
            ok &= unforge_address(forge_address(a)) == a
        except Exception:
            ok = False
for pfx in (b'KT1', b'txr1', b'sr1'):
    for d in digests:
        a = base58_encode(d, pfx).decode()
        try:
            ok &= unforge_address(forge_address(a)) == a
        except Exception:
            ok = False
sys.exit(0 if ok else 1)
