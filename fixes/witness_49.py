# #49: lists built from annotated items drop the item annotation (like set/map/option do)
import sys
from pytezos.michelson.repl import Interpreter
def run(code):
    i = Interpreter()
    r = i.execute(code)
    if r.error is not None:
        return 'ERR'
    return i.stack.items[0]
I = lambda *n: [{'int': str(k)} for k in n]
a = run('PUSH (list (pair (int %a) nat)) { Pair 1 2 ; Pair 3 4 } ; MAP { CAR }')
b = run('PUSH (list (pair int nat)) { Pair 1 2 ; Pair 3 4 } ; MAP { CAR }')
ok = a != 'ERR' and b != 'ERR' and a.to_micheline_value() == b.to_micheline_value() == I(1, 3)
ok &= a != 'ERR' and a.args[0].as_micheline_expr() == {'prim': 'int'}
c = run('PUSH (pair (int %a) nat) (Pair 1 2); CAR; NIL int; SWAP; CONS')
ok &= c != 'ERR' and c.to_micheline_value() == I(1)
d = run('PUSH (list (pair (int %a) (nat %b))) { Pair 1 2 ; Pair 3 4 } ; MAP { UNPAIR; SWAP; DROP }; PUSH int 7; CONS')
ok &= d != 'ERR' and d.to_micheline_value() == I(7, 1, 3)
sys.exit(0 if ok else 1)
