# #25: error id variants go from the most specific to the least specific; the final component is tried
import sys
import pytezos.rpc.errors as E
from pytezos.rpc.node import RpcError, _gen_error_variants
def h(eid):
    return type(RpcError.from_errors([{'id': eid}]))
ok = h('proto.018-Proxford.michelson_v1.script_rejected') is E.MichelsonScriptRejected
ok &= h('proto.018-Proxford.michelson_v1.bad_contract_parameter') is E.MichelsonBadContractParameter
ok &= h('proto.018-Proxford.michelson_v1.bad_return') is E.MichelsonBadReturn
ok &= h('proto.018-Proxford.michelson_v1.runtime_error') is E.MichelsonError
ok &= h('proto.018-Proxford.tez.subtraction_underflow') is E.TezArithmeticError
ok &= h('proto.018-Proxford.contract.balance_too_low') is RpcError
ok &= _gen_error_variants('a.b.c.d') == ['a.b.c.d', 'c.d', 'd', 'c']
ok &= _gen_error_variants('a.b') == ['a.b', 'b', 'a'] and _gen_error_variants('a') == ['a']
sys.exit(0 if ok else 1)
