# #1: non-minimal zarith int (multi-byte with trailing 0x00) must be rejected
import sys
from pytezos.michelson.forge import unforge_micheline, forge_micheline
try:
    r = unforge_micheline(bytes.fromhex('008000'))
except Exception:
    r = None
ok = r is None
# canonical ones still decode
for v in (0, 1, -1, 63, 64, -64, 8191, 8192, 10**30, -10**30):
    ok &= unforge_micheline(forge_micheline({'int': str(v)})) == {'int': str(v)}
sys.exit(0 if ok else 1)
