# #26: RpcMultiNode advances to the next node even when a request raises
import sys
from pytezos.rpc.node import RpcMultiNode
class Bad:
    def request(self, method, path, **kw): raise ConnectionError('down')
class Good:
    def request(self, method, path, **kw): return 'ok'
m = RpcMultiNode(['http://a.invalid', 'http://b.invalid'])
m.nodes = [Bad(), Good()]
try:
    m.request('GET', '/x')
    first = 'no error'
except ConnectionError:
    first = 'error'
try:
    second = m.request('GET', '/x')
except ConnectionError:
    second = 'error'
ok = first == 'error' and second == 'ok' and m._next_i == 0
sys.exit(0 if ok else 1)
