# #15: big_map diff must not turn removal markers into items
import sys
from pytezos.michelson.repl import Interpreter
i = Interpreter()
code = '''
EMPTY_BIG_MAP string int;
PUSH int 1; SOME; PUSH string "a"; UPDATE;
PUSH int 2; SOME; PUSH string "b"; UPDATE;
NONE int; PUSH string "a"; UPDATE;
PUSH int 3; SOME; PUSH string "b"; UPDATE;
PUSH int 5; SOME; PUSH string "a"; UPDATE;
DUP; PUSH string "a"; GET; SWAP; PUSH string "b"; GET; PAIR
'''
r = i.execute(code)
ok = r.error is None and i.stack.items[0].to_micheline_value() == {'prim': 'Pair', 'args': [
    {'prim': 'Some', 'args': [{'int': '3'}]}, {'prim': 'Some', 'args': [{'int': '5'}]}]}  # Pair (GET b) (GET a)
sys.exit(0 if ok else 1)
