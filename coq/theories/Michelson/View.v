(* Michelson/View.v — acceptance of a view definition, as implemented by
   /repo/src/pytezos/michelson/sections/view.py (ViewSection.create_type: name checks;
   ViewSection.check_code: forbidden instructions).

   A view is  view "name" arg_type ret_type code.  pytezos first parses the four arguments with
   Micheline.match (outside this model: the model speaks about views whose parts parse) and then
     - rejects a name of 32 or more characters or with a character outside [a-zA-Z0-9_.%@];
     - walks the code tree: every node's arguments (types included) and every sequence item;
       SELF is rejected wherever it occurs; TRANSFER_TOKENS, CREATE_CONTRACT, SET_DELEGATE are
       rejected unless some ancestor is LAMBDA, LAMBDA_REC, PUSH (the pushed value: instructions
       inside a pushed value can only be lambda literals) or the type constructor `lambda`.
   Names are byte strings (UTF-8 of the Python str: every non-ASCII character contributes bytes
   >= 0x80, which are not allowed characters, so counting bytes or characters makes no difference
   to acceptance).  Definitions only. *)
From Coq Require Import List NArith Bool.
From Coq.Strings Require Import Byte.
From PV Require Import Base.Bytes Codec.Micheline Codec.Prims.
Import ListNotations.

(* ---------------------------------------------------------------- names *)

Definition allowed_char (c : byte) : bool :=
  let n := Byte.to_N c in
  ((97 <=? n) && (n <=? 122) || (65 <=? n) && (n <=? 90) || (48 <=? n) && (n <=? 57)
   || (n =? 95) || (n =? 46) || (n =? 37) || (n =? 64))%N.      (* a-z A-Z 0-9 _ . % @ *)

Definition check_name (name : bytes) : bool :=
  Nat.ltb (length name) 32 && forallb allowed_char name.

(* ---------------------------------------------------------------- code *)

Definition is_self (t : byte) : bool := byte_eqb t T_SELF.

Definition restricted (t : byte) : bool :=
  byte_eqb t T_CREATE_CONTRACT || byte_eqb t T_SET_DELEGATE || byte_eqb t T_TRANSFER_TOKENS.

(* nodes below which the restricted instructions are tolerated *)
Definition lambda_intro (t : byte) : bool :=
  byte_eqb t T_LAMBDA || byte_eqb t T_LAMBDA_REC || byte_eqb t T_PUSH || byte_eqb t T_lambda.

(* ViewSection.check_code(code, lambda_) : true = no objection *)
Fixpoint check_code (n : node) (in_lambda : bool) : bool :=
  match n with
  | NPrim t args _ =>
      negb (is_self t)
      && negb (restricted t && negb in_lambda)
      && (fix go (l : list node) : bool :=
            match l with
            | [] => true
            | x :: r => check_code x (in_lambda || lambda_intro t) && go r
            end) args
  | NSeq items =>
      (fix go (l : list node) : bool :=
         match l with [] => true | x :: r => check_code x in_lambda && go r end) items
  | _ => true
  end.

Definition view_accepts (name : bytes) (code : node) : bool :=
  check_name name && check_code code false.
