(* Michelson/PyStack.v — model of pytezos/michelson/stack.py (class MichelsonStack).

   One flat Python list [items] (index 0 = top of the stack) plus the counter [protected]: the first
   [protected] items are hidden from push/pop/peek (that is how DIP n, DIG n, DUG n, DUP n reach below the top).
     push(x)      self.items.insert(self.protected, x)              (list.insert appends when the index is too large)
     pop(count)   if len(items) - protected < count: raise; [self.items.pop(self.protected) for _ in range(count)]
     peek()       if not items: raise; items[protected]             (IndexError when protected >= len)
     protect(n)   if len(items) < n: raise; protected += n          (NB: compares with len(items), not with the visible part)
     restore(n)   if protected < n: raise; protected -= n
   [None] = the Python method raises. *)
From Coq Require Import List Arith Bool.
From PV Require Import Michelson.Instr.
Import ListNotations.

Record pstack : Type := mkstack { items : list pval; prot : nat }.

(* list.insert(i, x) *)
Fixpoint insert_at {A} (i : nat) (x : A) (l : list A) : list A :=
  match i, l with
  | 0, _ => x :: l
  | S _, [] => [x]
  | S k, y :: r => y :: insert_at k x r
  end.

(* list.pop(i) *)
Fixpoint remove_at {A} (i : nat) (l : list A) {struct l} : option (A * list A) :=
  match l with
  | [] => None
  | y :: r => match i with
              | 0 => Some (y, r)
              | S k => match remove_at k r with
                       | Some (v, r') => Some (v, y :: r')
                       | None => None
                       end
              end
  end.

(* [self.items.pop(p) for _ in range(count)] *)
Fixpoint remove_n {A} (count p : nat) (l : list A) : option (list A * list A) :=
  match count with
  | 0 => Some ([], l)
  | S c => match remove_at p l with
           | Some (x, l1) => match remove_n c p l1 with
                             | Some (xs, l2) => Some (x :: xs, l2)
                             | None => None
                             end
           | None => None
           end
  end.

Definition push (x : pval) (st : pstack) : pstack :=
  mkstack (insert_at (prot st) x (items st)) (prot st).

Definition pop (count : nat) (st : pstack) : option (list pval * pstack) :=
  if length (items st) <? prot st + count then None   (* len(items) - protected < count, over the integers *)
  else match remove_n count (prot st) (items st) with
       | Some (xs, l) => Some (xs, mkstack l (prot st))
       | None => None
       end.

Definition pop1 (st : pstack) : option (pval * pstack) :=
  match pop 1 st with
  | Some ([a], st') => Some (a, st')
  | _ => None
  end.

Definition peek (st : pstack) : option pval :=
  match items st with
  | [] => None
  | _ => nth_error (items st) (prot st)
  end.

Definition protect (n : nat) (st : pstack) : option pstack :=
  if length (items st) <? n then None else Some (mkstack (items st) (prot st + n)).

Definition restore (n : nat) (st : pstack) : option pstack :=
  if prot st <? n then None else Some (mkstack (items st) (prot st - n)).

(* the part of the stack an instruction can see, and the part it cannot *)
Definition view (st : pstack) : list pval := skipn (prot st) (items st).
Definition hidden (st : pstack) : list pval := firstn (prot st) (items st).

(* a stack with hidden prefix [pre] and visible part [vis] *)
Definition mkst (pre vis : list pval) : pstack := mkstack (pre ++ vis) (length pre).
