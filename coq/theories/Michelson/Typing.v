(* Michelson/Typing.v — the static type checker for the fragment of Instr.v (Michelson typing rules,
   annotations ignored). [typecheck code st = Some (Typed st')] : code maps stacks of type st to st';
   [Some Failing] : code always fails (FAILWITH in tail position), its result type is arbitrary.

   [typecheck_gen strict]: with [strict = true] a MAP body must return the element type it received.
   pytezos cannot compute the static result type of MAP over an EMPTY list (known finding
   "empty-map-retype": it returns the source list with its old class), so the simulation and preservation
   theorems are proved for [typecheck_nr := typecheck_gen true] and refuted for [typecheck].
   [strict = true] restricts one thing: MAP bodies (on lists and on maps) keep the element/value type. Everything else in
   Instr.v is in the proved fragment. *)
From Coq Require Import List ZArith Bool Arith.
From PV Require Import Base.Bytes Michelson.Instr.
Import ListNotations.

Definition sty := list ty.

Inductive tcres : Type :=
| Typed (s : sty)
| Failing.

Definition sty_eqb : sty -> sty -> bool := list_eqb ty_eqb.

Definition tcres_eqb (a b : tcres) : bool :=
  match a, b with
  | Typed x, Typed y => sty_eqb x y
  | Failing, Failing => true
  | _, _ => false
  end.

Fixpoint comparable (t : ty) : bool :=
  match t with
  | TInt | TNat | TString | TBytes | TBool | TUnit | TMutez | TTimestamp => true
  | TPair a b => comparable a && comparable b
  | TOption a => comparable a
  | TOr a b => comparable a && comparable b
  | TList _ | TSet _ | TMap _ _ | TLambda _ _ | TOperation | TAddress | TChainId => false   (* address/chain_id are comparable in Michelson; their order is property C03's subject and outside this fragment *)
  end.

(* both branches of a conditional must agree unless one of them fails *)
Definition tc_join (a b : tcres) : option tcres :=
  match a, b with
  | Failing, r => Some r
  | r, Failing => Some r
  | Typed x, Typed y => if sty_eqb x y then Some (Typed x) else None
  end.

(* result type of an arithmetic instruction on two numeric types *)
Definition num (t : ty) : bool := match t with TInt | TNat => true | _ => false end.
Definition add_ty (a b : ty) : option ty :=
  match a, b with
  | TNat, TNat => Some TNat
  | TNat, TInt | TInt, TNat | TInt, TInt => Some TInt
  | TTimestamp, TInt | TInt, TTimestamp => Some TTimestamp
  | TMutez, TMutez => Some TMutez
  | _, _ => None
  end.
Definition mul_ty (a b : ty) : option ty :=
  match a, b with
  | TNat, TNat => Some TNat
  | TNat, TInt | TInt, TNat | TInt, TInt => Some TInt
  | TMutez, TNat | TNat, TMutez => Some TMutez
  | _, _ => None
  end.
(* SUB on mutez is deprecated (rejected by the protocol's type checker): SUB_MUTEZ is the instruction *)
Definition sub_ty (a b : ty) : option ty :=
  match a, b with
  | TTimestamp, TInt => Some TTimestamp
  | TTimestamp, TTimestamp => Some TInt
  | _, _ => if num a && num b then Some TInt else None
  end.
Definition ediv_ty (a b : ty) : option ty :=
  match a, b with
  | TNat, TNat => Some (TOption (TPair TNat TNat))
  | TNat, TInt | TInt, TNat | TInt, TInt => Some (TOption (TPair TInt TNat))
  | TMutez, TNat => Some (TOption (TPair TMutez TMutez))
  | TMutez, TMutez => Some (TOption (TPair TNat TMutez))
  | _, _ => None
  end.

(* does a type mention set or map? (the proved fragment has no set/map literal) *)
Fixpoint has_coll (t : ty) : bool :=
  match t with
  | TSet _ | TMap _ _ => true
  | TPair a b | TOr a b => has_coll a || has_coll b
  | TOption a | TList a => has_coll a
  | _ => false
  end.

(* well-formed types: the element type of a set and the key type of a map are comparable *)
Fixpoint wf_ty (t : ty) : bool :=
  match t with
  | TSet k => comparable k && wf_ty k
  | TMap k v => comparable k && wf_ty k && wf_ty v
  | TPair a b | TOr a b | TLambda a b => wf_ty a && wf_ty b
  | TOption a | TList a => wf_ty a
  | _ => true
  end.

(* types whose values have a literal in the fragment (what APPLY may capture) *)
Fixpoint has_literal (t : ty) : bool :=
  match t with
  | TAddress | TChainId | TOperation | TLambda _ _ => false
  | TPair a b | TOr a b | TMap a b => has_literal a && has_literal b
  | TOption a | TList a | TSet a => has_literal a
  | _ => true
  end.

(* instructions without sub-programs (the same rules in both modes) *)
Definition tc_simple (strict : bool) (i : instr) (s : sty) : option sty :=
  match i with
  | I_EXEC => match s with
              | a :: TLambda a' b :: r => if ty_eqb a a' then Some (b :: r) else None
              | _ => None
              end
  | I_APPLY => match s with
               | a :: TLambda (TPair a' b) c :: r =>
                   if ty_eqb a a' && has_literal a && wf_ty a then Some (TLambda b c :: r) else None
               | _ => None
               end
  | I_EMPTY_SET k => if comparable k then Some (TSet k :: s) else None
  | I_EMPTY_MAP k v => if comparable k then Some (TMap k v :: s) else None
  | I_MEM => match s with
             | k :: TSet k' :: r | k :: TMap k' _ :: r => if ty_eqb k k' && comparable k then Some (TBool :: r) else None
             | _ => None
             end
  | I_GET => match s with
             | k :: TMap k' v :: r => if ty_eqb k k' && comparable k then Some (TOption v :: r) else None
             | _ => None
             end
  | I_UPDATE => match s with
                | k :: TBool :: TSet k' :: r => if ty_eqb k k' && comparable k then Some (TSet k' :: r) else None
                | k :: TOption v :: TMap k' v' :: r =>
                    if ty_eqb k k' && ty_eqb v v' && comparable k then Some (TMap k' v' :: r) else None
                | _ => None
                end
  | I_GET_AND_UPDATE => match s with
                        | k :: TOption v :: TMap k' v' :: r =>
                            if ty_eqb k k' && ty_eqb v v' && comparable k then Some (TOption v' :: TMap k' v' :: r) else None
                        | _ => None
                        end
  | I_DROP _ | I_DUP _ | I_DIG _ | I_DUG _ => shuffle i s
  | I_SWAP => match s with a :: b :: r => Some (b :: a :: r) | _ => None end
  | I_PUSH t d => if data_has_type t d && wf_ty t then Some (t :: s) else None
  | I_PAIR => match s with a :: b :: r => Some (TPair a b :: r) | _ => None end
  | I_UNPAIR => match s with TPair a b :: r => Some (a :: b :: r) | _ => None end
  | I_CAR => match s with TPair a _ :: r => Some (a :: r) | _ => None end
  | I_CDR => match s with TPair _ b :: r => Some (b :: r) | _ => None end
  | I_PAIRN n => if (2 <=? n) && (n <=? length s)
                 then option_map (fun t => t :: skipn n s) (ty_comb (firstn n s)) else None
  | I_UNPAIRN n => match s with
                   | t :: r => if 2 <=? n then option_map (fun l => l ++ r) (ty_uncomb n t) else None
                   | [] => None
                   end
  (* the Michelson rules accept GET 0 / UPDATE 0 on any type; pytezos insists on a pair operand, so the fragment does too *)
  | I_GETN k => match s with TPair a b :: r => option_map (fun t => t :: r) (ty_get_n k (TPair a b)) | _ => None end
  | I_UPDATEN k => match s with
                   | x :: TPair a b :: r => option_map (fun t => t :: r) (ty_update_n k x (TPair a b))
                   | _ => None
                   end
  | I_LEFT t => match s with a :: r => Some (TOr a t :: r) | _ => None end
  | I_RIGHT t => match s with b :: r => Some (TOr t b :: r) | _ => None end
  | I_SOME => match s with a :: r => Some (TOption a :: r) | _ => None end
  | I_NONE t => Some (TOption t :: s)
  | I_UNIT => Some (TUnit :: s)
  | I_NIL t => Some (TList t :: s)
  | I_CONS => match s with a :: TList b :: r => if ty_eqb a b then Some (TList b :: r) else None | _ => None end
  | I_SIZE => match s with
              | TString :: r | TBytes :: r | TList _ :: r => Some (TNat :: r)
              | TSet _ :: r | TMap _ _ :: r => Some (TNat :: r)
              | _ => None
              end
  | I_ADD => match s with a :: b :: r => option_map (fun t => t :: r) (add_ty a b) | _ => None end
  | I_MUL => match s with a :: b :: r => option_map (fun t => t :: r) (mul_ty a b) | _ => None end
  | I_SUB_MUTEZ => match s with TMutez :: TMutez :: r => Some (TOption TMutez :: r) | _ => None end
  | I_AMOUNT | I_BALANCE => Some (TMutez :: s)
  | I_SENDER | I_SOURCE | I_SELF_ADDRESS => Some (TAddress :: s)
  | I_NOW => Some (TTimestamp :: s)
  | I_LEVEL => Some (TNat :: s)
  | I_CHAIN_ID => Some (TChainId :: s)
  | I_SUB => match s with a :: b :: r => option_map (fun t => t :: r) (sub_ty a b) | _ => None end
  | I_EDIV => match s with a :: b :: r => option_map (fun t => t :: r) (ediv_ty a b) | _ => None end
  | I_NEG => match s with a :: r => if num a then Some (TInt :: r) else None | _ => None end
  | I_ABS => match s with TInt :: r => Some (TNat :: r) | _ => None end
  | I_ISNAT => match s with TInt :: r => Some (TOption TNat :: r) | _ => None end
  | I_INT => match s with TNat :: r => Some (TInt :: r) | _ => None end
  | I_COMPARE => match s with
                 | a :: b :: r => if ty_eqb a b && comparable a then Some (TInt :: r) else None
                 | _ => None
                 end
  | I_EQ | I_NEQ | I_LT | I_GT | I_LE | I_GE =>
      match s with TInt :: r => Some (TBool :: r) | _ => None end
  | I_AND => match s with
             | TBool :: TBool :: r => Some (TBool :: r)
             | TNat :: TNat :: r | TInt :: TNat :: r => Some (TNat :: r)
             | _ => None
             end
  | I_OR | I_XOR => match s with
                    | TBool :: TBool :: r => Some (TBool :: r)
                    | TNat :: TNat :: r => Some (TNat :: r)
                    | _ => None
                    end
  | I_NOT => match s with
             | TBool :: r => Some (TBool :: r)
             | TNat :: r | TInt :: r => Some (TInt :: r)
             | _ => None
             end
  | I_LSL | I_LSR => match s with TNat :: TNat :: r => Some (TNat :: r) | _ => None end
  | I_SLICE => match s with
               | TNat :: TNat :: TString :: r => Some (TOption TString :: r)
               | TNat :: TNat :: TBytes :: r => Some (TOption TBytes :: r)
               | _ => None
               end
  | I_CONCAT => match s with
                | TString :: TString :: r => Some (TString :: r)
                | TBytes :: TBytes :: r => Some (TBytes :: r)
                | TList TString :: r => Some (TString :: r)
                | TList TBytes :: r => Some (TBytes :: r)
                | _ => None
                end
  | _ => None
  end.

Fixpoint typecheck_gen (strict : bool) (i : instr) (s : sty) {struct i} : option tcres :=
  match i with
  | I_NOOP => Some (Typed s)
  | I_SEQ a b =>
      match typecheck_gen strict a s with
      | Some (Typed s1) => typecheck_gen strict b s1
      | Some Failing => match b with I_NOOP => Some Failing | _ => None end  (* FAILWITH only in tail position *)
      | None => None
      end
  | I_FAILWITH => match s with _ :: _ => Some Failing | [] => None end
  | I_LAMBDA a b body =>
      match typecheck_gen strict body [a] with
      | Some (Typed [b']) => if ty_eqb b b' then Some (Typed (TLambda a b :: s)) else None
      | Some Failing => Some (Typed (TLambda a b :: s))
      | _ => None
      end
  | I_DIP n c =>
      if n <=? length s then
        match typecheck_gen strict c (skipn n s) with
        | Some (Typed r) => Some (Typed (firstn n s ++ r))
        | _ => None
        end
      else None
  | I_IF bt bf =>
      match s with
      | TBool :: r =>
          match typecheck_gen strict bt r, typecheck_gen strict bf r with
          | Some x, Some y => tc_join x y
          | _, _ => None
          end
      | _ => None
      end
  | I_IF_NONE bt bf =>
      match s with
      | TOption a :: r =>
          match typecheck_gen strict bt r, typecheck_gen strict bf (a :: r) with
          | Some x, Some y => tc_join x y
          | _, _ => None
          end
      | _ => None
      end
  | I_IF_LEFT bt bf =>
      match s with
      | TOr a b :: r =>
          match typecheck_gen strict bt (a :: r), typecheck_gen strict bf (b :: r) with
          | Some x, Some y => tc_join x y
          | _, _ => None
          end
      | _ => None
      end
  | I_IF_CONS bt bf =>
      match s with
      | TList a :: r =>
          match typecheck_gen strict bt (a :: TList a :: r), typecheck_gen strict bf r with
          | Some x, Some y => tc_join x y
          | _, _ => None
          end
      | _ => None
      end
  | I_LOOP c =>
      match s with
      | TBool :: r =>
          match typecheck_gen strict c r with
          | Some (Typed s1) => if sty_eqb s1 (TBool :: r) then Some (Typed r) else None
          | Some Failing => Some (Typed r)
          | None => None
          end
      | _ => None
      end
  | I_LOOP_LEFT c =>
      match s with
      | TOr a b :: r =>
          match typecheck_gen strict c (a :: r) with
          | Some (Typed s1) => if sty_eqb s1 (TOr a b :: r) then Some (Typed (b :: r)) else None
          | Some Failing => Some (Typed (b :: r))
          | None => None
          end
      | _ => None
      end
  | I_ITER c =>
      match (match s with
             | TList a :: r => Some (a, r)
             | TSet a :: r => Some (a, r)
             | TMap k v :: r => Some (TPair k v, r)
             | _ => None
             end) with
      | Some (a, r) =>
          match typecheck_gen strict c (a :: r) with
          | Some (Typed s1) => if sty_eqb s1 r then Some (Typed r) else None
          | Some Failing => Some (Typed r)
          | None => None
          end
      | None => None
      end
  | I_MAP c =>
      match s with
      | TList a :: r =>
          match typecheck_gen strict c (a :: r) with
          | Some (Typed (b :: r1)) =>
              if sty_eqb r1 r && (negb strict || ty_eqb a b) then Some (Typed (TList b :: r)) else None
          | _ => None   (* a MAP body may not fail *)
          end
      | TMap k v :: r =>
          match typecheck_gen strict c (TPair k v :: r) with
          | Some (Typed (b :: r1)) =>
              if sty_eqb r1 r && (negb strict || ty_eqb v b) then Some (Typed (TMap k b :: r)) else None
          | _ => None
          end
      | _ => None
      end
  | _ => option_map Typed (tc_simple strict i s)
  end.

(* the Michelson typing rules *)
Definition typecheck : instr -> sty -> option tcres := typecheck_gen false.
(* ... restricted to MAP bodies that keep the element type *)
Definition typecheck_nr : instr -> sty -> option tcres := typecheck_gen true.

(* the body of a lambda value maps [a] to [b] (or always fails), in the proved fragment *)
Definition lam_body_ok (a b : ty) (body : instr) : bool :=
  match typecheck_nr body [a] with
  | Some (Typed [b']) => ty_eqb b b'
  | Some Failing => true
  | _ => false
  end.

(* "v is a well-formed pytezos value of type t": the class is t at every level, naturals are >= 0 *)
Fixpoint pv_typedb (v : pval) (t : ty) {struct v} : bool :=
  match v, t with
  | PInt _, TInt => true
  | PNat z, TNat => (0 <=? z)%Z
  | PMutez z, TMutez => (0 <=? z)%Z && (z <? mutez_bound)%Z
  | PTimestamp _, TTimestamp => true
  | PAddress _, TAddress => true
  | PChainId _, TChainId => true
  | PStr _, TString => true
  | PBytes _, TBytes => true
  | PBool _, TBool => true
  | PUnit, TUnit => true
  | PPair x y, TPair a b => pv_typedb x a && pv_typedb y b
  | PNone t', TOption a => ty_eqb t' a
  | PSome x, TOption a => pv_typedb x a
  | PLeft x tr, TOr a b => pv_typedb x a && ty_eqb tr b
  | PRight tl y, TOr a b => ty_eqb tl a && pv_typedb y b
  | PList t' l, TList a => ty_eqb t' a && forallb (fun x => pv_typedb x a) l
  | PSet t' l, TSet a => ty_eqb t' a && forallb (fun x => pv_typedb x a) l && py_strict_sorted l
  | PMap kt vt l, TMap a b =>
      ty_eqb kt a && ty_eqb vt b
      && forallb (fun x => match x with PPair k v => pv_typedb k a && pv_typedb v b | _ => false end) l
      && py_strict_sorted (map py_key l)
  | PLam a b body, TLambda a' b' => ty_eqb a a' && ty_eqb b b' && lam_body_ok a b body
  | _, _ => false
  end.

