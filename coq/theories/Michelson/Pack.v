(* Michelson/Pack.v — PACK / UNPACK: model of MichelsonType.pack / MichelsonType.unpack
   (src/pytezos/michelson/types/base.py) and of PackInstruction / UnpackInstruction
   (src/pytezos/michelson/instructions/generic.py).

     pack t v          ~ v.pack()            = 0x05 ++ forge_micheline(v.to_micheline_value('optimized'))
     pack_legacy t v   ~ v.pack(legacy=True)
     unpack t bs       ~ T.unpack(bs)        = T.from_micheline_value(unforge_micheline(bs[1:])),
                                               after checking is_packable and the 0x05 head byte
     unpack_instr t bs ~ UNPACK t            (Some v, or None when anything above raised)

   The binary Micheline codec is Codec/MichelineBin.v ([enc], [dec_full]).  [dec_full] runs on
   fuel that Proofs/MichelineBin_proofs.v shows sufficient; running out of it is mapped to
   rejection here and excluded in the theorems.  Definitions only. *)
From Coq Require Import List ZArith Bool.
From Coq.Strings Require Import Byte.
From PV Require Import Base.Bytes Base.Result Codec.Micheline Codec.MichelineBin Michelson.Values.
Import ListNotations.

Section Pack.
  Variable C : codec.
  Variable lam_norm : node -> result node.

  Definition pack_mode (m : mode) (t : ty) (v : val) : result bytes :=
    if packable t then Ok (x05 :: enc (to_mich C m v)) else Reject.

  Definition pack : ty -> val -> result bytes := pack_mode Optimized.
  Definition pack_legacy : ty -> val -> result bytes := pack_mode LegacyOptimized.

  Definition unpack (t : ty) (bs : bytes) : result val :=
    if packable t then
      match bs with
      | x05 :: r =>
          match dec_full r with
          | DOk n => of_mich C lam_norm t n
          | DReject | DFuel => Reject
          end
      | _ => Reject
      end
    else Reject.

  (* the instructions: PACK pushes the bytes, UNPACK pushes an option *)
  Definition pack_instr (t : ty) (v : val) : result val :=
    let* b := pack t v in Ok (VBytes b).

  Definition unpack_instr (t : ty) (bs : bytes) : val :=
    match unpack t bs with Ok v => VSome v | Reject => VNone end.
End Pack.
