(* Michelson/Pack.v — PACK / UNPACK: model of MichelsonType.pack / MichelsonType.unpack
   (src/pytezos/michelson/types/base.py) and of PackInstruction / UnpackInstruction
   (src/pytezos/michelson/instructions/generic.py).

     pack t v          ~ v.pack()            = 0x05 ++ forge_micheline(v.to_micheline_value('optimized'))
     pack_legacy t v   ~ v.pack(legacy=True)
     unpack t bs       ~ T.unpack(bs)        = T.from_micheline_value(unforge_micheline(bs[1:])),
                                               after checking is_packable and the 0x05 head byte
     unpack_instr t bs ~ UNPACK t            (Some v, or None when anything above raised)

   The binary Micheline codec is Codec/MichelineBin.v ([enc], [dec_full]).  [dec_full] runs on
   fuel that Proofs/MichelineBin_proofs.v shows sufficient; running out of it is mapped to
   rejection here and excluded in the theorems.

   Second half: the SPECIFICATION of the optimized tree, written independently of [to_mich] as a
   relation [Opt] (what Tezos' unparse_data produces in Optimized mode: domain values in their
   binary forms of Codec/Domain.v, timestamps as integers, right combs by the rule 2 / 3 / >= 4
   leaves, lambda bodies with the literals of PUSH instructions optimized too: [opt_code]).
   pytezos leaves lambda bodies as they are (LambdaType.to_micheline_value ignores the mode —
   known finding C04/lambda-push); [lambda_plain] is the class of values not affected.
   Definitions only. *)
From Coq Require Import List ZArith NArith Bool.
From Coq.Strings Require Import Byte.
From PV Require Import Base.Bytes Base.Result Codec.Micheline Codec.MichelineBin Codec.Prims Codec.Domain Michelson.Values.
Import ListNotations.

Section Pack.
  Variable C : codec.
  Variable lam_norm : node -> result node.

  Definition pack_mode (m : mode) (t : ty) (v : val) : result bytes :=
    if packable t then Ok (x05 :: enc (to_mich C m v)) else Reject.

  Definition pack : ty -> val -> result bytes := pack_mode Optimized.
  Definition pack_legacy : ty -> val -> result bytes := pack_mode LegacyOptimized.

  Definition unpack (t : ty) (bs : bytes) : result val :=
    if packable t then
      match bs with
      | x05 :: r =>
          match dec_full r with
          | DOk n => of_mich C lam_norm t n
          | DReject | DFuel => Reject
          end
      | _ => Reject
      end
    else Reject.

  (* the instructions: PACK pushes the bytes, UNPACK pushes an option *)
  Definition pack_instr (t : ty) (v : val) : result val :=
    let* b := pack t v in Ok (VBytes b).

  Definition unpack_instr (t : ty) (bs : bytes) : val :=
    match unpack t bs with Ok v => VSome v | Reject => VNone end.
End Pack.

(* ---------------------------------------------------------------- specification of the optimized tree *)

(* Michelson type expressions (inside PUSH) *)
Definition ty_of_prim (tag : byte) (ts : list ty) : option ty :=
  match ts with
  | [] =>
      match tag with
      | x6c => Some TUnit | x78 => Some TNever | x59 => Some TBool | x5b => Some TInt | x62 => Some TNat
      | x6a => Some TMutez | x6b => Some TTimestamp | x68 => Some TString | x69 => Some TBytes
      | x82 => Some TBlsFr | x80 => Some TBlsG1 | x81 => Some TBlsG2 | x8d => Some TChest | x8e => Some TChestKey
      | x6e => Some TAddress | x94 => Some TTxr | x5c => Some TKey | x5d => Some TKeyHash
      | x67 => Some TSignature | x74 => Some TChainId | x6d => Some TOperation
      | _ => None
      end
  | [a] =>
      match tag with
      | x63 => Some (TOption a) | x5f => Some (TList a) | x66 => Some (TSet a) | x5a => Some (TContract a)
      | x87 => Some (TTicket a)
      | _ => None
      end
  | [a; b] =>
      match tag with
      | x64 => Some (TOr a b) | x65 => Some (TPair a b) | x60 => Some (TMap a b) | x5e => Some (TLambda a b)
      | x61 => Some (TBigMap a b)
      | _ => None
      end
  | a :: rest =>
      match tag with
      | x65 => Some (TPair a ((fix comb (l : list ty) : ty :=
                                 match l with
                                 | [] => TUnit
                                 | [x] => x
                                 | x :: r => TPair x (comb r)
                                 end) rest))
      | _ => None
      end
  end.

Fixpoint ty_of_node (n : node) : option ty :=
  match n with
  | NPrim tag args _ =>
      match (fix go (l : list node) : option (list ty) :=
               match l with
               | [] => Some []
               | x :: r => match ty_of_node x, go r with
                           | Some t, Some ts => Some (t :: ts)
                           | _, _ => None
                           end
               end) args with
      | Some ts => ty_of_prim tag ts
      | None => None
      end
  | _ => None
  end.

(* the leaves of a right comb, as values *)
Fixpoint spine (v : val) : list val :=
  match v with
  | VPair a b => a :: spine b
  | _ => [v]
  end.

(* "combs of four or more elements become sequences" *)
Definition comb_shape (leaves : list node) : node :=
  match leaves with
  | [a; b] => NPrim T_Pair [a; b] []
  | [a; b; c] => NPrim T_Pair [a; NPrim T_Pair [b; c] []] []
  | _ => NSeq leaves
  end.

Section Spec.
  Variable C : codec.
  Variable lam_norm : node -> result node.

  (* code in optimized form: the literal of every PUSH is parsed at the pushed type and rendered
     in optimized mode (instructions and sequences are traversed; anything else is left alone) *)
  Fixpoint opt_code (n : node) : node :=
    match n with
    | NPrim tag args annots =>
        if byte_eqb tag T_PUSH then
          match args with
          | [tyn; lit] =>
              match ty_of_node tyn with
              | Some t =>
                  match of_mich C lam_norm t lit with
                  | Ok v => NPrim tag [tyn; to_mich C Optimized v] annots
                  | Reject => n
                  end
              | None => n
              end
          | _ => n
          end
        else NPrim tag ((fix go (l : list node) : list node :=
                           match l with [] => [] | x :: r => opt_code x :: go r end) args) annots
    | NSeq l => NSeq ((fix go (l : list node) : list node :=
                         match l with [] => [] | x :: r => opt_code x :: go r end) l)
    | _ => n
    end.

  Inductive Opt : val -> node -> Prop :=
  | OUnit : Opt VUnit (NPrim T_Unit [] [])
  | OBool b : Opt (VBool b) (NPrim (if b then T_True else T_False) [] [])
  | OInt z : Opt (VInt z) (NInt z)
  | OTimestamp z : Opt (VTimestamp z) (NInt z)
  | OBlsFr z : Opt (VBlsFr z) (NByt (N_to_le 32 (Z.to_N z)))
  | OString s : Opt (VString s) (NStr s)
  | OBytes b : Opt (VBytes b) (NByt b)
  | OAddr a ep :
      Opt (VAddr a ep) (NByt (forge_contract (a, match ep with Some e => e | None => default_ep end)))
  | OKey k : Opt (VKey k) (NByt (forge_public_key k))
  | OKeyHash a : Opt (VKeyHash a) (NByt (forge_key_hash a))
  | OSig raw : Opt (VSig raw) (NByt raw)
  | OChainId c : Opt (VChainId c) (NByt (forge_chain_id c))
  | ONone : Opt VNone (NPrim T_None [] [])
  | OSome v n : Opt v n -> Opt (VSome v) (NPrim T_Some [n] [])
  | OLeft v n : Opt v n -> Opt (VLeft v) (NPrim T_Left [n] [])
  | ORight v n : Opt v n -> Opt (VRight v) (NPrim T_Right [n] [])
  | OPair a b ns : Forall2 Opt (spine (VPair a b)) ns -> Opt (VPair a b) (comb_shape ns)
  | OList l ns : Forall2 Opt l ns -> Opt (VList l) (NSeq ns)
  | OMap l ns :
      Forall2 (fun e n => exists nk nv, Opt (fst e) nk /\ Opt (snd e) nv /\ n = NPrim T_Elt [nk; nv] []) l ns ->
      Opt (VMap l) (NSeq ns)
  | OLambda c : Opt (VLambda c) (opt_code c).

  (* values whose lambda bodies are already in optimized form (complement of the class of the
     known finding: no PUSH of a literal with a distinct optimized form inside a lambda) *)
  Fixpoint lambda_plain (v : val) : bool :=
    match v with
    | VLambda c => node_eqb (opt_code c) c
    | VSome a | VLeft a | VRight a => lambda_plain a
    | VPair a b => lambda_plain a && lambda_plain b
    | VList l => (fix go (l : list val) : bool :=
                    match l with [] => true | x :: r => lambda_plain x && go r end) l
    | VMap l => (fix go (l : list (val * val)) : bool :=
                   match l with [] => true | (k, x) :: r => lambda_plain k && lambda_plain x && go r end) l
    | VTicket _ _ _ _ | VBigMapId _ => false   (* tickets / big_maps cannot be packed: no optimized tree is specified *)
    | _ => true
    end.
End Spec.
