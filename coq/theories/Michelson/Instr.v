(* Michelson/Instr.v — types, literal data, instruction AST, run-time values (C01, C02).

   Layering (so that closures can be added without a mutual inductive):
     ty    Michelson types (annotations are not modelled: pytezos' type equality ignores them)
     data  literals as they appear in PUSH (no code inside)
     instr the instruction AST; sequences are [I_SEQ a (I_SEQ b ... I_NOOP)]
     value run-time values of the REFERENCE semantics (type-free data: int and nat are both VInt, string and bytes are both VStr)
     pval  run-time values of PYTEZOS: every object carries its class, i.e. its run-time type, exactly
           where pytezos does (OptionType.none(ty), OrType.from_left(v, ty), ListType carries its
           element type, IntType vs NatType are distinct classes).

   Strings are ASCII byte strings ([bytes]); Python's order on [str] is the code point order, which
   on ASCII is the byte order.

   FULL instruction set of the property (what is not an AST constructor yet is outside every theorem):
     stage 1 (this file): DROP n, DUP n, SWAP, DIG n, DUG n, PUSH, DIP n, IF, IF_NONE, IF_LEFT, IF_CONS, LOOP,
       LOOP_LEFT, ITER(list), MAP(list), PAIR, UNPAIR, CAR, CDR, LEFT, RIGHT, SOME, NONE, UNIT, NIL, CONS,
       SIZE, ADD, SUB, MUL, NEG, ABS, ISNAT, INT, EDIV (int/nat), COMPARE, EQ..GE, AND/OR/XOR/NOT (bool),
       CONCAT (strings), FAILWITH
     stage 2a: bytes (CONCAT, SIZE, SLICE, COMPARE), SLICE on strings, AND/OR/XOR/NOT on nat/int, LSL/LSR
     stage 2b: PAIR n / UNPAIR n / GET k / UPDATE k (GET 0 / UPDATE 0 only on pairs: pytezos rejects other operands)
     stage 2c: mutez and timestamp arithmetic (ADD/SUB/MUL/EDIV overloads, SUB_MUTEZ, COMPARE), environment instructions
       AMOUNT BALANCE SENDER SOURCE SELF_ADDRESS NOW LEVEL CHAIN_ID reading an [env] record
     stage 3 (MODELS ONLY so far, outside every theorem: typecheck_nr rejects them): sets and maps (EMPTY_SET, EMPTY_MAP,
       MEM, GET, UPDATE, GET_AND_UPDATE, SIZE/ITER on sets and maps, MAP on maps, set/map literals)
     stage 3: LAMBDA, EXEC, APPLY (closures as { PUSH ty literal ; PAIR ; body }); no LAMBDA_REC, no PUSH of lambda literals
     later stages:
       environment instructions, PACK/UNPACK, hashes. *)
From Coq Require Import List ZArith NArith Bool Arith.
From Coq.Strings Require Import Byte.
From PV Require Import Base.Bytes.
Import ListNotations.

(* mutez are 63-bit: 0 <= amount < mutez_bound *)
Definition mutez_bound : Z := (2 ^ 63)%Z.

Inductive ty : Type :=
| TInt | TNat | TString | TBytes | TBool | TUnit
| TMutez | TTimestamp
| TAddress | TChainId   (* opaque in the fragment: produced by the environment instructions only, no literals, no COMPARE *)
| TOperation   (* no literal, no value in the fragment: only NIL operation occurs (contract results) *)
| TPair (a b : ty)
| TOption (a : ty)
| TOr (a b : ty)
| TList (a : ty)
| TSet (k : ty)
| TMap (k v : ty)
| TLambda (a b : ty).

Fixpoint ty_eqb (x y : ty) : bool :=
  match x, y with
  | TMutez, TMutez | TTimestamp, TTimestamp | TAddress, TAddress | TChainId, TChainId
  | TInt, TInt | TNat, TNat | TString, TString | TBytes, TBytes | TBool, TBool | TUnit, TUnit | TOperation, TOperation => true
  | TPair a b, TPair c d => ty_eqb a c && ty_eqb b d
  | TOption a, TOption c => ty_eqb a c
  | TOr a b, TOr c d => ty_eqb a c && ty_eqb b d
  | TList a, TList c => ty_eqb a c
  | TSet a, TSet c => ty_eqb a c
  | TMap a b, TMap c d => ty_eqb a c && ty_eqb b d
  | TLambda a b, TLambda c d => ty_eqb a c && ty_eqb b d
  | _, _ => false
  end.

(* literals *)
Inductive data : Type :=
| DInt (z : Z)
| DMutez (z : Z)     (* an integer literal read at type mutez (the harness renders literals type-directedly) *)
| DStr (s : bytes)
| DBytes (b : bytes)
| DBool (b : bool)
| DUnit
| DPair (a b : data)
| DNone
| DSome (d : data)
| DLeft (d : data)
| DRight (d : data)
| DList (l : list data)
| DSet (l : list data)     (* a sequence literal read at a set type (rendered type-directedly by the harness) *)
| DMap (l : list data).    (* { Elt k v ; ... }: the entries are written DPair k v *)

Inductive instr : Type :=
| I_NOOP                       (* the empty sequence {} *)
| I_SEQ (a b : instr)          (* { a ; b... } *)
| I_DROP (n : nat)             (* DROP = DROP 1 *)
| I_DUP (n : nat)              (* DUP = DUP 1 *)
| I_SWAP
| I_DIG (n : nat)
| I_DUG (n : nat)
| I_PUSH (t : ty) (d : data)
| I_DIP (n : nat) (c : instr)  (* DIP c = DIP 1 c *)
| I_IF (bt bf : instr)
| I_IF_NONE (bt bf : instr)
| I_IF_LEFT (bt bf : instr)
| I_IF_CONS (bt bf : instr)
| I_LOOP (c : instr)
| I_LOOP_LEFT (c : instr)
| I_ITER (c : instr)
| I_MAP (c : instr)
| I_PAIR | I_UNPAIR | I_CAR | I_CDR
| I_PAIRN (n : nat) | I_UNPAIRN (n : nat)   (* PAIR n / UNPAIR n, n >= 2 *)
| I_GETN (k : nat) | I_UPDATEN (k : nat)    (* GET k / UPDATE k on right combs *)
| I_LEFT (t : ty) | I_RIGHT (t : ty)
| I_SOME | I_NONE (t : ty) | I_UNIT
| I_NIL (t : ty) | I_CONS | I_SIZE
| I_EMPTY_SET (k : ty) | I_EMPTY_MAP (k v : ty) | I_MEM | I_GET | I_UPDATE | I_GET_AND_UPDATE   (* outside the proved fragment *)
| I_ADD | I_SUB | I_MUL | I_NEG | I_ABS | I_ISNAT | I_INT | I_EDIV
| I_SUB_MUTEZ
| I_AMOUNT | I_BALANCE | I_SENDER | I_SOURCE | I_SELF_ADDRESS | I_NOW | I_LEVEL | I_CHAIN_ID
| I_COMPARE | I_EQ | I_NEQ | I_LT | I_GT | I_LE | I_GE
| I_AND | I_OR | I_XOR | I_NOT   (* on bool; AND/OR/XOR also on nat (AND also int*nat), NOT on nat/int *)
| I_LSL | I_LSR
| I_SLICE
| I_CONCAT
| I_FAILWITH
| I_LAMBDA (a b : ty) (body : instr) | I_EXEC | I_APPLY.

(* The fragment for which the simulation / preservation theorems are PROVED. At stage 1 it is the whole AST;
   when the AST grows ahead of the proofs the new constructors are excluded here. *)
Fixpoint in_fragmentb (i : instr) : bool :=
  match i with
  | I_SEQ a b | I_IF a b | I_IF_NONE a b | I_IF_LEFT a b | I_IF_CONS a b => in_fragmentb a && in_fragmentb b
  | I_DIP _ c | I_LOOP c | I_LOOP_LEFT c | I_ITER c | I_MAP c => in_fragmentb c
  | I_LAMBDA _ _ c => in_fragmentb c
  | _ => true
  end.
Definition in_fragment (i : instr) : Prop := in_fragmentb i = true.

(* the execution environment read by AMOUNT, BALANCE, SENDER, SOURCE, SELF_ADDRESS, NOW, LEVEL, CHAIN_ID *)
Record env : Type := mkenv {
  e_amount : Z; e_balance : Z;
  e_sender : bytes; e_source : bytes; e_self : bytes;
  e_now : Z; e_level : Z; e_chain_id : bytes }.

(* amounts are mutez, the level is a natural number (addresses and the chain id are valid base58 texts: not modelled) *)
Definition env_okb (e : env) : bool :=
  (0 <=? e_amount e)%Z && (e_amount e <? mutez_bound)%Z && (0 <=? e_balance e)%Z && (e_balance e <? mutez_bound)%Z && (0 <=? e_level e)%Z.

(* DROP n / DUP n / DIG n / DUG n as functions on a stack (top first) of anything: used on type stacks by the
   type checker and on value stacks by the reference semantics. None = the stack is too short. *)
Definition shuffle {A} (i : instr) (s : list A) : option (list A) :=
  match i with
  | I_DROP n => if n <=? length s then Some (skipn n s) else None
  | I_DUP n => match n with
               | 0 => None
               | S d => match nth_error s d with Some t => Some (t :: s) | None => None end
               end
  | I_DIG n => match nth_error s n with
               | Some t => Some (t :: firstn n s ++ skipn (S n) s)
               | None => None
               end
  | I_DUG n => match s with
               | t :: r => if n <=? length r then Some (firstn n r ++ t :: skipn n r) else None
               | [] => None
               end
  | _ => None
  end.

Definition is_shuffle (i : instr) : bool :=
  match i with I_DROP _ | I_DUP _ | I_DIG _ | I_DUG _ => true | _ => false end.

(* run-time values of the reference semantics *)
Inductive value : Type :=
| VInt (z : Z)
| VMutez (z : Z)     (* mutez arithmetic is bounded: it needs its own constructor *)
| VStr (s : bytes)
| VBool (b : bool)
| VUnit
| VPair (a b : value)
| VNone
| VSome (v : value)
| VLeft (v : value)
| VRight (v : value)
| VList (l : list value)
| VSet (l : list value)     (* elements in strictly increasing order *)
| VMap (l : list value)     (* entries VPair k v, keys in strictly increasing order *)
| VLam (a b : ty) (body : instr).   (* a lambda value: code with its argument and result types *)

Fixpoint value_of_data (d : data) : value :=
  match d with
  | DInt z => VInt z
  | DMutez z => VMutez z
  | DStr s => VStr s
  | DBytes b => VStr b   (* strings and bytes are both byte sequences for the reference semantics *)
  | DBool b => VBool b
  | DUnit => VUnit
  | DPair a b => VPair (value_of_data a) (value_of_data b)
  | DNone => VNone
  | DSome x => VSome (value_of_data x)
  | DLeft x => VLeft (value_of_data x)
  | DRight x => VRight (value_of_data x)
  | DList l => VList (map value_of_data l)
  | DSet l => VSet (map value_of_data l)
  | DMap l => VMap (map value_of_data l)
  end.

(* lexicographic order on byte strings *)
Fixpoint bytes_cmp (a b : bytes) : comparison :=
  match a, b with
  | [], [] => Eq
  | [], _ :: _ => Lt
  | _ :: _, [] => Gt
  | x :: r, y :: s =>
      match N.compare (Byte.to_N x) (Byte.to_N y) with
      | Eq => bytes_cmp r s
      | c => c
      end
  end.

(* ---- the total order of comparable values ---- *)
Fixpoint v_compare (a b : value) {struct a} : option comparison :=
  match a, b with
  | VInt x, VInt y => Some (Z.compare x y)
  | VMutez x, VMutez y => Some (Z.compare x y)
  | VStr x, VStr y => Some (bytes_cmp x y)
  | VBool x, VBool y => Some (match x, y with
                              | false, true => Lt
                              | true, false => Gt
                              | _, _ => Eq
                              end)
  | VUnit, VUnit => Some Eq
  | VPair a1 a2, VPair b1 b2 =>
      match v_compare a1 b1 with
      | Some Eq => v_compare a2 b2
      | r => r
      end
  | VNone, VNone => Some Eq
  | VNone, VSome _ => Some Lt
  | VSome _, VNone => Some Gt
  | VSome x, VSome y => v_compare x y
  | VLeft x, VLeft y => v_compare x y
  | VLeft _, VRight _ => Some Lt
  | VRight _, VLeft _ => Some Gt
  | VRight x, VRight y => v_compare x y
  | _, _ => None
  end.


(* strictly increasing w.r.t. the order of comparable values *)
Fixpoint v_strict_sorted (l : list value) : bool :=
  match l with
  | [] => true
  | x :: r => match r with
              | [] => true
              | y :: _ => match v_compare x y with Some Lt => v_strict_sorted r | _ => false end
              end
  end.
Definition v_key (entry : value) : value := match entry with VPair k _ => k | _ => entry end.

(* ---- right combs: (a1, (a2, ... an)) ---- *)
Fixpoint ty_comb (l : list ty) : option ty :=
  match l with
  | [] => None
  | [t] => Some t
  | t :: r => option_map (TPair t) (ty_comb r)
  end.
Fixpoint v_comb (l : list value) : option value :=
  match l with
  | [] => None
  | [v] => Some v
  | v :: r => option_map (VPair v) (v_comb r)
  end.
(* split a right comb into n >= 1 components *)
Fixpoint ty_uncomb (n : nat) (t : ty) : option (list ty) :=
  match n with
  | 0 => None
  | 1 => Some [t]
  | S m => match t with TPair a b => option_map (cons a) (ty_uncomb m b) | _ => None end
  end.
Fixpoint v_uncomb (n : nat) (v : value) : option (list value) :=
  match n with
  | 0 => None
  | 1 => Some [v]
  | S m => match v with VPair a b => option_map (cons a) (v_uncomb m b) | _ => None end
  end.
(* GET k: 0 = the whole, 2i+1 = i-th component, 2i = what remains after i components *)
Fixpoint ty_get_n (k : nat) (t : ty) : option ty :=
  match k with
  | 0 => Some t
  | 1 => match t with TPair a _ => Some a | _ => None end
  | S (S k') => match t with TPair _ b => ty_get_n k' b | _ => None end
  end.
Fixpoint v_get_n (k : nat) (v : value) : option value :=
  match k with
  | 0 => Some v
  | 1 => match v with VPair a _ => Some a | _ => None end
  | S (S k') => match v with VPair _ b => v_get_n k' b | _ => None end
  end.
Fixpoint ty_update_n (k : nat) (x t : ty) : option ty :=
  match k with
  | 0 => Some x
  | 1 => match t with TPair _ b => Some (TPair x b) | _ => None end
  | S (S k') => match t with TPair a b => option_map (TPair a) (ty_update_n k' x b) | _ => None end
  end.
Fixpoint v_update_n (k : nat) (x v : value) : option value :=
  match k with
  | 0 => Some x
  | 1 => match v with VPair _ b => Some (VPair x b) | _ => None end
  | S (S k') => match v with VPair a b => option_map (VPair a) (v_update_n k' x b) | _ => None end
  end.

(* typing of literals (Michelson's parse_data restricted to the fragment) *)
Fixpoint data_has_type (t : ty) (d : data) {struct d} : bool :=
  match d, t with
  | DInt _, TInt => true
  | DInt z, TNat => (0 <=? z)%Z
  | DInt _, TTimestamp => true
  | DMutez z, TMutez => (0 <=? z)%Z && (z <? mutez_bound)%Z
  | DStr _, TString => true
  | DBytes _, TBytes => true
  | DBool _, TBool => true
  | DUnit, TUnit => true
  | DPair x y, TPair a b => data_has_type a x && data_has_type b y
  | DNone, TOption _ => true
  | DSome x, TOption a => data_has_type a x
  | DLeft x, TOr a _ => data_has_type a x
  | DRight y, TOr _ b => data_has_type b y
  | DList l, TList a => forallb (data_has_type a) l
  | DSet l, TSet a => forallb (data_has_type a) l && v_strict_sorted (map value_of_data l)
  | DMap l, TMap a b =>
      forallb (fun x => match x with DPair k v => data_has_type a k && data_has_type b v | _ => false end) l
      && v_strict_sorted (map (fun x => v_key (value_of_data x)) l)
  | _, _ => false
  end.

(* run-time values of pytezos *)
Inductive pval : Type :=
| PInt (z : Z)                 (* IntType *)
| PNat (z : Z)                 (* NatType: a subclass of IntType holding a Python int *)
| PMutez (z : Z)               (* MutezType (a NatType subclass) *)
| PTimestamp (z : Z)           (* TimestampType (an IntType subclass) *)
| PAddress (s : bytes)         (* AddressType (a StringType subclass holding the base58 text) *)
| PChainId (s : bytes)
| PStr (s : bytes)
| PBytes (b : bytes)             (* BytesType *)
| PBool (b : bool)
| PUnit
| PPair (a b : pval)           (* PairType: its class is built from the classes of the items *)
| PNone (t : ty)               (* OptionType.none(t) *)
| PSome (v : pval)
| PLeft (v : pval) (t : ty)    (* OrType.from_left(v, t): items = (v, Undefined) *)
| PRight (t : ty) (v : pval)
| PList (t : ty) (l : list pval)   (* ListType: class argument + Python list *)
| PSet (t : ty) (l : list pval)    (* SetType: class argument + sorted Python list *)
| PMap (kt vt : ty) (l : list pval)   (* MapType: items = [(key, value)...], an entry is written PPair key value *)
| PLam (a b : ty) (body : instr).     (* LambdaType(args=[a, b]) holding the body *)

(* type(v).as_micheline_expr(), annotations erased *)
Fixpoint rt_type (v : pval) : ty :=
  match v with
  | PInt _ => TInt
  | PNat _ => TNat
  | PMutez _ => TMutez
  | PTimestamp _ => TTimestamp
  | PAddress _ => TAddress
  | PChainId _ => TChainId
  | PStr _ => TString
  | PBytes _ => TBytes
  | PBool _ => TBool
  | PUnit => TUnit
  | PPair a b => TPair (rt_type a) (rt_type b)
  | PNone t => TOption t
  | PSome x => TOption (rt_type x)
  | PLeft x t => TOr (rt_type x) t
  | PRight t x => TOr t (rt_type x)
  | PList t _ => TList t
  | PSet t _ => TSet t
  | PMap kt vt _ => TMap kt vt
  | PLam a b _ => TLambda a b
  end.

(* Python's < on str restricted to ASCII *)
Fixpoint bytes_ltb (a b : bytes) : bool :=
  match a, b with
  | _, [] => false
  | [], _ :: _ => true
  | x :: r, y :: s =>
      if (Byte.to_N x <? Byte.to_N y)%N then true
      else if (Byte.to_N x =? Byte.to_N y)%N then bytes_ltb r s
      else false
  end.

(* __eq__ of the value classes (IntType.__eq__ accepts any IntType subclass; UnitType.__eq__ as repaired:
   isinstance check; mixed classes compare unequal) *)
Fixpoint py_eq (a b : pval) {struct a} : bool :=
  match a, b with
  | PInt x, PInt y | PInt x, PNat y | PNat x, PInt y | PNat x, PNat y => (x =? y)%Z
  | PMutez x, PMutez y | PTimestamp x, PTimestamp y => (x =? y)%Z
  | PAddress x, PAddress y | PChainId x, PChainId y => bytes_eqb x y
  | PStr x, PStr y => bytes_eqb x y
  | PBytes x, PBytes y => bytes_eqb x y
  | PBool x, PBool y => Bool.eqb x y
  | PUnit, PUnit => true
  | PPair a1 a2, PPair b1 b2 => py_eq a1 b1 && py_eq a2 b2
  | PNone _, PNone _ => true
  | PSome x, PSome y => py_eq x y
  | PLeft x _, PLeft y _ => py_eq x y
  | PRight _ x, PRight _ y => py_eq x y
  | PList _ l1, PList _ l2 | PSet _ l1, PSet _ l2 | PMap _ _ l1, PMap _ _ l2 =>   (* list == list; map entries are tuples *)
      (fix go (l1 l2 : list pval) : bool :=
         match l1, l2 with
         | [], [] => true
         | x :: r1, y :: r2 => py_eq x y && go r1 r2
         | _, _ => false
         end) l1 l2
  | _, _ => false
  end.

(* __lt__ of the value classes; non-comparable classes inherit MichelsonType.__lt__ which returns None (falsy) *)
Fixpoint py_lt (a b : pval) {struct a} : bool :=
  match a, b with
  | PInt x, PInt y | PInt x, PNat y | PNat x, PInt y | PNat x, PNat y => (x <? y)%Z
  | PMutez x, PMutez y | PTimestamp x, PTimestamp y => (x <? y)%Z
  | PStr x, PStr y => bytes_ltb x y
  | PBytes x, PBytes y => bytes_ltb x y
  | PBool x, PBool y => negb x && y
  | PPair a1 a2, PPair b1 b2 =>
      if py_eq a1 b1 then (if py_eq a2 b2 then false else py_lt a2 b2) else py_lt a1 b1
  | PNone _, PSome _ => true
  | PSome x, PSome y => py_lt x y
  | PLeft _ _, PRight _ _ => true
  | PLeft x _, PLeft y _ => py_lt x y
  | PRight _ x, PRight _ y => py_lt x y
  | _, _ => false
  end.


(* check_constraints of SetType / MapType: no duplicates and keys == sorted(keys) *)
Fixpoint py_strict_sorted (l : list pval) : bool :=
  match l with
  | [] => true
  | x :: r => match r with
              | [] => true
              | y :: _ => py_lt x y && py_strict_sorted r
              end
  end.
Definition py_key (entry : pval) : pval := match entry with PPair k _ => k | _ => entry end.

(* forgetting the classes: what both semantics are compared on *)
Fixpoint erase (v : pval) : value :=
  match v with
  | PInt z => VInt z
  | PNat z => VInt z
  | PMutez z => VMutez z
  | PTimestamp z => VInt z
  | PAddress s => VStr s
  | PChainId s => VStr s
  | PStr s => VStr s
  | PBytes b => VStr b
  | PBool b => VBool b
  | PUnit => VUnit
  | PPair a b => VPair (erase a) (erase b)
  | PNone _ => VNone
  | PSome x => VSome (erase x)
  | PLeft x _ => VLeft (erase x)
  | PRight _ x => VRight (erase x)
  | PList _ l => VList (map erase l)
  | PSet _ l => VSet (map erase l)
  | PMap _ _ l => VMap (map erase l)
  | PLam a b body => VLam a b body
  end.

(* MichelsonType.from_micheline_value, type-directed; None = the literal is rejected *)
Fixpoint py_of_data (t : ty) (d : data) {struct d} : option pval :=
  match d, t with
  | DInt z, TInt => Some (PInt z)
  | DInt z, TNat => if (z <? 0)%Z then None else Some (PNat z)
  | DInt z, TTimestamp => Some (PTimestamp z)
  | DMutez z, TMutez => if (z <? 0)%Z then None else if (z <? mutez_bound)%Z then Some (PMutez z) else None
  | DStr s, TString => Some (PStr s)
  | DBytes b, TBytes => Some (PBytes b)
  | DBool b, TBool => Some (PBool b)
  | DUnit, TUnit => Some PUnit
  | DPair x y, TPair a b =>
      match py_of_data a x, py_of_data b y with
      | Some u, Some v => Some (PPair u v)
      | _, _ => None
      end
  | DNone, TOption a => Some (PNone a)
  | DSome x, TOption a => option_map PSome (py_of_data a x)
  | DLeft x, TOr a b => option_map (fun u => PLeft u b) (py_of_data a x)
  | DRight y, TOr a b => option_map (fun u => PRight a u) (py_of_data b y)
  | DList l, TList a =>
      option_map (PList a)
        ((fix go (l : list data) : option (list pval) :=
            match l with
            | [] => Some []
            | x :: r => match py_of_data a x, go r with
                        | Some u, Some us => Some (u :: us)
                        | _, _ => None
                        end
            end) l)
  | DSet l, TSet a =>
      match (fix go (l : list data) : option (list pval) :=
               match l with
               | [] => Some []
               | x :: r => match py_of_data a x, go r with
                           | Some u, Some us => Some (u :: us)
                           | _, _ => None
                           end
               end) l with
      | Some us => if py_strict_sorted us then Some (PSet a us) else None
      | None => None
      end
  | DMap l, TMap a b =>
      match (fix go (l : list data) : option (list pval) :=
               match l with
               | [] => Some []
               | DPair k v :: r => match py_of_data a k, py_of_data b v, go r with
                                   | Some pk, Some pv, Some us => Some (PPair pk pv :: us)
                                   | _, _, _ => None
                                   end
               | _ :: _ => None
               end) l with
      | Some us => if py_strict_sorted (map py_key us) then Some (PMap a b us) else None
      | None => None
      end
  | _, _ => None
  end.

(* the literal denoting a run-time value (used by APPLY, which builds { PUSH ty literal ; PAIR ; body }).
   None: no literal in the fragment (lambdas, addresses, chain ids) *)
Fixpoint data_of_value (t : ty) (v : value) {struct v} : option data :=
  match v, t with
  | VInt z, (TInt | TNat | TTimestamp) => Some (DInt z)
  | VMutez z, TMutez => Some (DMutez z)
  | VStr s, TString => Some (DStr s)
  | VStr s, TBytes => Some (DBytes s)
  | VBool b, TBool => Some (DBool b)
  | VUnit, TUnit => Some DUnit
  | VPair x y, TPair a b => match data_of_value a x, data_of_value b y with
                            | Some dx, Some dy => Some (DPair dx dy)
                            | _, _ => None
                            end
  | VNone, TOption _ => Some DNone
  | VSome x, TOption a => option_map DSome (data_of_value a x)
  | VLeft x, TOr a _ => option_map DLeft (data_of_value a x)
  | VRight x, TOr _ b => option_map DRight (data_of_value b x)
  | VList l, TList a =>
      option_map DList ((fix go (l : list value) : option (list data) :=
                           match l with
                           | [] => Some []
                           | x :: r => match data_of_value a x, go r with
                                       | Some d, Some ds => Some (d :: ds)
                                       | _, _ => None
                                       end
                           end) l)
  | VSet l, TSet a =>
      option_map DSet ((fix go (l : list value) : option (list data) :=
                          match l with
                          | [] => Some []
                          | x :: r => match data_of_value a x, go r with
                                      | Some d, Some ds => Some (d :: ds)
                                      | _, _ => None
                                      end
                          end) l)
  | VMap l, TMap a b =>
      option_map DMap ((fix go (l : list value) : option (list data) :=
                          match l with
                          | [] => Some []
                          | VPair k x :: r => match data_of_value a k, data_of_value b x, go r with
                                              | Some dk, Some dx, Some ds => Some (DPair dk dx :: ds)
                                              | _, _, _ => None
                                              end
                          | _ :: _ => None
                          end) l)
  | _, _ => None
  end.

(* value.to_literal() *)
Fixpoint data_of_pval (v : pval) : option data :=
  match v with
  | PInt z | PNat z | PTimestamp z => Some (DInt z)
  | PMutez z => Some (DMutez z)
  | PStr s => Some (DStr s)
  | PBytes s => Some (DBytes s)
  | PBool b => Some (DBool b)
  | PUnit => Some DUnit
  | PPair x y => match data_of_pval x, data_of_pval y with
                 | Some dx, Some dy => Some (DPair dx dy)
                 | _, _ => None
                 end
  | PNone _ => Some DNone
  | PSome x => option_map DSome (data_of_pval x)
  | PLeft x _ => option_map DLeft (data_of_pval x)
  | PRight _ x => option_map DRight (data_of_pval x)
  | PList _ l =>
      option_map DList ((fix go (l : list pval) : option (list data) :=
                           match l with
                           | [] => Some []
                           | x :: r => match data_of_pval x, go r with
                                       | Some d, Some ds => Some (d :: ds)
                                       | _, _ => None
                                       end
                           end) l)
  | PSet _ l =>
      option_map DSet ((fix go (l : list pval) : option (list data) :=
                          match l with
                          | [] => Some []
                          | x :: r => match data_of_pval x, go r with
                                      | Some d, Some ds => Some (d :: ds)
                                      | _, _ => None
                                      end
                          end) l)
  | PMap _ _ l =>
      option_map DMap ((fix go (l : list pval) : option (list data) :=
                          match l with
                          | [] => Some []
                          | x :: r => match data_of_pval x, go r with
                                      | Some d, Some ds => Some (d :: ds)
                                      | _, _ => None
                                      end
                          end) l)
  | PAddress _ | PChainId _ | PLam _ _ _ => None
  end.

(* ---- boolean equalities (used by the correspondence harness and by run-time type checks) ---- *)
Fixpoint data_eqb (x y : data) {struct x} : bool :=
  match x, y with
  | DInt a, DInt b | DMutez a, DMutez b => Z.eqb a b
  | DStr a, DStr b | DBytes a, DBytes b => bytes_eqb a b
  | DBool a, DBool b => Bool.eqb a b
  | DUnit, DUnit => true
  | DPair a b, DPair c d => data_eqb a c && data_eqb b d
  | DNone, DNone => true
  | DSome a, DSome b | DLeft a, DLeft b | DRight a, DRight b => data_eqb a b
  | DList l1, DList l2 | DSet l1, DSet l2 | DMap l1, DMap l2 =>
      (fix go (l1 l2 : list data) : bool :=
         match l1, l2 with
         | [], [] => true
         | a :: r1, b :: r2 => data_eqb a b && go r1 r2
         | _, _ => false
         end) l1 l2
  | _, _ => false
  end.

Fixpoint instr_eqb (x y : instr) {struct x} : bool :=
  match x, y with
  | I_NOOP, I_NOOP | I_SWAP, I_SWAP | I_PAIR, I_PAIR | I_UNPAIR, I_UNPAIR | I_CAR, I_CAR | I_CDR, I_CDR
  | I_SOME, I_SOME | I_UNIT, I_UNIT | I_CONS, I_CONS | I_SIZE, I_SIZE | I_MEM, I_MEM | I_GET, I_GET | I_UPDATE, I_UPDATE
  | I_GET_AND_UPDATE, I_GET_AND_UPDATE | I_ADD, I_ADD | I_SUB, I_SUB | I_MUL, I_MUL | I_NEG, I_NEG | I_ABS, I_ABS
  | I_ISNAT, I_ISNAT | I_INT, I_INT | I_EDIV, I_EDIV | I_SUB_MUTEZ, I_SUB_MUTEZ | I_AMOUNT, I_AMOUNT | I_BALANCE, I_BALANCE
  | I_SENDER, I_SENDER | I_SOURCE, I_SOURCE | I_SELF_ADDRESS, I_SELF_ADDRESS | I_NOW, I_NOW | I_LEVEL, I_LEVEL
  | I_CHAIN_ID, I_CHAIN_ID | I_COMPARE, I_COMPARE | I_EQ, I_EQ | I_NEQ, I_NEQ | I_LT, I_LT | I_GT, I_GT | I_LE, I_LE
  | I_GE, I_GE | I_AND, I_AND | I_OR, I_OR | I_XOR, I_XOR | I_NOT, I_NOT | I_LSL, I_LSL | I_LSR, I_LSR | I_SLICE, I_SLICE
  | I_CONCAT, I_CONCAT | I_FAILWITH, I_FAILWITH | I_EXEC, I_EXEC | I_APPLY, I_APPLY => true
  | I_SEQ a b, I_SEQ c d | I_IF a b, I_IF c d | I_IF_NONE a b, I_IF_NONE c d | I_IF_LEFT a b, I_IF_LEFT c d
  | I_IF_CONS a b, I_IF_CONS c d => instr_eqb a c && instr_eqb b d
  | I_DROP n, I_DROP m | I_DUP n, I_DUP m | I_DIG n, I_DIG m | I_DUG n, I_DUG m | I_PAIRN n, I_PAIRN m
  | I_UNPAIRN n, I_UNPAIRN m | I_GETN n, I_GETN m | I_UPDATEN n, I_UPDATEN m => Nat.eqb n m
  | I_PUSH t d, I_PUSH u f => ty_eqb t u && data_eqb d f
  | I_DIP n a, I_DIP m b => Nat.eqb n m && instr_eqb a b
  | I_LOOP a, I_LOOP b | I_LOOP_LEFT a, I_LOOP_LEFT b | I_ITER a, I_ITER b | I_MAP a, I_MAP b => instr_eqb a b
  | I_LEFT t, I_LEFT u | I_RIGHT t, I_RIGHT u | I_NONE t, I_NONE u | I_NIL t, I_NIL u | I_EMPTY_SET t, I_EMPTY_SET u => ty_eqb t u
  | I_EMPTY_MAP k v, I_EMPTY_MAP k' v' => ty_eqb k k' && ty_eqb v v'
  | I_LAMBDA a b c, I_LAMBDA a' b' c' => ty_eqb a a' && ty_eqb b b' && instr_eqb c c'
  | _, _ => false
  end.

Fixpoint value_eqb (x y : value) {struct x} : bool :=
  match x, y with
  | VInt a, VInt b => Z.eqb a b
  | VMutez a, VMutez b => Z.eqb a b
  | VStr a, VStr b => bytes_eqb a b
  | VBool a, VBool b => Bool.eqb a b
  | VUnit, VUnit => true
  | VPair a b, VPair c d => value_eqb a c && value_eqb b d
  | VNone, VNone => true
  | VSome a, VSome b => value_eqb a b
  | VLeft a, VLeft b => value_eqb a b
  | VRight a, VRight b => value_eqb a b
  | VLam a b c, VLam a' b' c' => ty_eqb a a' && ty_eqb b b' && instr_eqb c c'
  | VList l1, VList l2 | VSet l1, VSet l2 | VMap l1, VMap l2 =>
      (fix go (l1 l2 : list value) : bool :=
         match l1, l2 with
         | [], [] => true
         | a :: r1, b :: r2 => value_eqb a b && go r1 r2
         | _, _ => false
         end) l1 l2
  | _, _ => false
  end.

Fixpoint pval_eqb (x y : pval) {struct x} : bool :=
  match x, y with
  | PInt a, PInt b => Z.eqb a b
  | PNat a, PNat b => Z.eqb a b
  | PMutez a, PMutez b => Z.eqb a b
  | PTimestamp a, PTimestamp b => Z.eqb a b
  | PAddress a, PAddress b => bytes_eqb a b
  | PChainId a, PChainId b => bytes_eqb a b
  | PStr a, PStr b => bytes_eqb a b
  | PBytes a, PBytes b => bytes_eqb a b
  | PBool a, PBool b => Bool.eqb a b
  | PUnit, PUnit => true
  | PPair a b, PPair c d => pval_eqb a c && pval_eqb b d
  | PNone t, PNone u => ty_eqb t u
  | PSome a, PSome b => pval_eqb a b
  | PLeft a t, PLeft b u => pval_eqb a b && ty_eqb t u
  | PRight t a, PRight u b => ty_eqb t u && pval_eqb a b
  | PLam a b c, PLam a' b' c' => ty_eqb a a' && ty_eqb b b' && instr_eqb c c'
  | PList t l1, PList u l2 | PSet t l1, PSet u l2 =>
      ty_eqb t u &&
      (fix go (l1 l2 : list pval) : bool :=
         match l1, l2 with
         | [], [] => true
         | a :: r1, b :: r2 => pval_eqb a b && go r1 r2
         | _, _ => false
         end) l1 l2
  | PMap k1 v1 l1, PMap k2 v2 l2 =>
      ty_eqb k1 k2 && ty_eqb v1 v2 &&
      (fix go (l1 l2 : list pval) : bool :=
         match l1, l2 with
         | [], [] => true
         | a :: r1, b :: r2 => pval_eqb a b && go r1 r2
         | _, _ => false
         end) l1 l2
  | _, _ => false
  end.

