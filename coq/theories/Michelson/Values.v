(* Michelson/Values.v — typed Michelson values and their Micheline forms: model of every
   to_micheline_value(mode) / from_micheline_value of src/pytezos/michelson/types/
   (core.py, domain.py, bls.py, option.py, sum.py, pair.py, list.py, set.py, map.py) and of the
   helpers parse_micheline_literal / parse_micheline_value (micheline.py).

     to_mich m v      ~ v.to_micheline_value(mode=m)          (a method of the value object:
                        the object's class says how it is rendered, so no type argument)
     of_mich t n      ~ T.from_micheline_value(n)             (T = MichelsonType.match(t))
     has_type t v     ~ "v is an instance of T as the constructors of pytezos build it"
                        (naturals non-negative, mutez < 2^63, ASCII strings, payload lengths,
                         sets / map keys strictly increasing for the order of __lt__, ...)

   Values are abstract syntax for what the Python objects hold:
     * address-like strings "tz1…%entrypoint" are (kind, 20-byte hash) + entrypoint part,
       keys are (curve, payload), chain ids 4 bytes — the (kind, payload) level of Codec/Domain.v;
     * a signature is its raw bytes: SignatureType.__eq__/__lt__/__hash__ only look at the raw
       bytes, the notation (sig/edsig/spsig/p2sig/BLsig) is spelling.  Readable rendering uses
       the generic notation; the harness normalises the notation before comparing;
     * Base58Check text is produced and read through a record [codec] of functions (an
       argument of the model; instantiated with the real Base58 functions of Codec/Base58.v by
       [real_codec], which is what the correspondence run evaluates);
     * a lambda is the Micheline of its body; Micheline.match + as_micheline_expr (the
       instruction parser) is the oracle [lam_norm].

   Comb rule (pair.py): the right spine of nested pairs is flattened (annotations play no
   role); readable: Pair a1 … an; optimized: n = 2 Pair a b, n = 3 Pair a (Pair b c),
   n >= 4 the sequence {a1; …; an}; legacy_optimized: nested binary Pairs.

   Tickets (ticket.py) are (ticketer, contents, amount), rendered as the comb pair address <contents> nat.
   A big_map value is its id (VBigMapId, rendered as an integer) or a literal (VMap), as
   from_micheline_value / to_micheline_value(lazy_diff=None) treat it (big_map.py).
   Not modelled (no values; of_mich rejects, has_type is false): operation, sapling_state,
   sapling_transaction; never has no values — see docs/C11.md.
   Behaviour after the FIXLOG repairs #3 #10 #12 #38 #40 #43.  Left as it is (#41, not fixed):
   an address string with a bare trailing '%' is kept verbatim but forged like the bare address —
   such values are outside [has_type] (known finding C11/empty-entrypoint).  Definitions only. *)
From Coq Require Import String List ZArith NArith Bool Arith.
From Coq.Strings Require Import Byte.
From PV Require Import Base.Bytes Base.Result Codec.Micheline Codec.MichelineBin Codec.Base58 Codec.Domain
  Michelson.Timestamp.
Import ListNotations.
Local Open Scope list_scope.

(* ---------------------------------------------------------------- types, values, modes *)

Inductive mode := Readable | Optimized | LegacyOptimized.

Inductive ty :=
| TUnit | TNever | TBool | TInt | TNat | TMutez | TTimestamp | TString | TBytes
| TBlsFr | TBlsG1 | TBlsG2 | TChest | TChestKey
| TAddress | TContract (p : ty) | TTxr | TKey | TKeyHash | TSignature | TChainId
| TOption (a : ty) | TOr (a b : ty) | TPair (a b : ty)
| TList (a : ty) | TSet (a : ty) | TMap (k v : ty)
| TLambda (a b : ty)
| TBigMap (k v : ty) | TOperation | TTicket (a : ty) | TSaplingState | TSaplingTx.

Inductive val :=
| VUnit
| VBool (b : bool)
| VInt (z : Z)                               (* int, nat, mutez *)
| VTimestamp (z : Z)
| VBlsFr (z : Z)
| VString (s : bytes)
| VBytes (b : bytes)                         (* bytes, bls12_381_g1/g2, chest, chest_key *)
| VAddr (a : address) (ep : option bytes)    (* address, contract, tx_rollup_l2_address *)
| VKey (k : public_key)
| VKeyHash (a : address)
| VSig (raw : bytes)
| VChainId (c : bytes)
| VNone | VSome (v : val)
| VLeft (v : val) | VRight (v : val)
| VPair (a b : val)
| VList (l : list val)                       (* list, set *)
| VMap (l : list (val * val))
| VLambda (code : node)
| VTicket (a : address) (ep : option bytes) (item : val) (amount : Z)    (* ticketer, contents, amount *)
| VBigMapId (id : Z).                         (* big_map given by its id; a big_map literal is a VMap *)

(* structural equality *)
Fixpoint val_eqb (x y : val) {struct x} : bool :=
  match x, y with
  | VUnit, VUnit => true
  | VBool a, VBool b => Bool.eqb a b
  | VInt a, VInt b => Z.eqb a b
  | VTimestamp a, VTimestamp b => Z.eqb a b
  | VBlsFr a, VBlsFr b => Z.eqb a b
  | VString a, VString b => bytes_eqb a b
  | VBytes a, VBytes b => bytes_eqb a b
  | VAddr a e, VAddr b f => address_eqb a b && option_eqb bytes_eqb e f
  | VKey a, VKey b => public_key_eqb a b
  | VKeyHash a, VKeyHash b => address_eqb a b
  | VSig a, VSig b => bytes_eqb a b
  | VChainId a, VChainId b => bytes_eqb a b
  | VNone, VNone => true
  | VSome a, VSome b => val_eqb a b
  | VLeft a, VLeft b => val_eqb a b
  | VRight a, VRight b => val_eqb a b
  | VPair a1 a2, VPair b1 b2 => val_eqb a1 b1 && val_eqb a2 b2
  | VList l1, VList l2 =>
      (fix go (l1 l2 : list val) : bool :=
         match l1, l2 with
         | [], [] => true
         | a :: r1, b :: r2 => val_eqb a b && go r1 r2
         | _, _ => false
         end) l1 l2
  | VMap l1, VMap l2 =>
      (fix go (l1 l2 : list (val * val)) : bool :=
         match l1, l2 with
         | [], [] => true
         | (k1, v1) :: r1, (k2, v2) :: r2 => val_eqb k1 k2 && val_eqb v1 v2 && go r1 r2
         | _, _ => false
         end) l1 l2
  | VLambda a, VLambda b => node_eqb a b
  | VTicket a e x z, VTicket b f y w =>
      address_eqb a b && option_eqb bytes_eqb e f && val_eqb x y && Z.eqb z w
  | VBigMapId a, VBigMapId b => Z.eqb a b
  | _, _ => false
  end.

Definition rval_eqb : result val -> result val -> bool := result_eqb val_eqb.

(* ---------------------------------------------------------------- primitive tags used by values *)

Definition T_False : byte := x03.
Definition T_Elt : byte := x04.
Definition T_Left : byte := x05.
Definition T_None : byte := x06.
Definition T_Pair : byte := x07.
Definition T_Right : byte := x08.
Definition T_Some : byte := x09.
Definition T_True : byte := x0a.
Definition T_Unit : byte := x0b.

(* ---------------------------------------------------------------- the order of __lt__ *)

Fixpoint lex_ltb (a b : bytes) : bool :=
  match a, b with
  | _, [] => false
  | [], _ :: _ => true
  | x :: a', y :: b' =>
      if (Byte.to_N x <? Byte.to_N y)%N then true
      else if (Byte.to_N y <? Byte.to_N x)%N then false
      else lex_ltb a' b'
  end.

Definition tz_idx (k : addr_kind) : N :=
  match k with Tz1 => 0 | Tz2 => 1 | Tz3 => 2 | Tz4 => 3 | KT1 => 4 | Txr1 => 5 | Sr1 => 6 end%N.

Definition key_idx (k : key_kind) : N :=
  match k with Edpk => 0 | Sppk => 1 | P2pk => 2 | BLpk => 3 end%N.

Definition default_name : bytes := Eval vm_compute in tx "default"%string.

(* `entrypoint or 'default'` of AddressType._sort_key *)
Definition sort_ep (ep : option bytes) : bytes :=
  match ep with
  | None | Some [] => default_name
  | Some e => e
  end.

(* a < b as pytezos decides it (the __lt__ methods; pairs: first component that differs by ==).
   key_hash and chain_id are compared by pytezos as Base58Check strings of one length and one
   prefix per kind, which is the order of (kind, payload bytes). *)
Fixpoint vlt (x y : val) {struct x} : bool :=
  match x, y with
  | VInt a, VInt b => (a <? b)%Z
  | VTimestamp a, VTimestamp b => (a <? b)%Z
  | VString a, VString b => lex_ltb a b
  | VBytes a, VBytes b => lex_ltb a b
  | VBool a, VBool b => negb a && b
  | VAddr a e, VAddr b f =>
      let ka := forge_address false a in
      let kb := forge_address false b in
      if bytes_eqb ka kb then lex_ltb (sort_ep e) (sort_ep f) else lex_ltb ka kb
  | VKey (ka, pa), VKey (kb, pb) =>
      if (key_idx ka <? key_idx kb)%N then true
      else if (key_idx kb <? key_idx ka)%N then false
      else match ka with
           | P2pk => (* (raw[1:], raw[:1]) < (raw'[1:], raw'[:1]) *)
               if bytes_eqb (tl pa) (tl pb) then lex_ltb (firstn 1 pa) (firstn 1 pb) else lex_ltb (tl pa) (tl pb)
           | _ => lex_ltb pa pb
           end
  | VKeyHash (ka, ha), VKeyHash (kb, hb) =>
      if (tz_idx ka <? tz_idx kb)%N then true
      else if (tz_idx kb <? tz_idx ka)%N then false
      else lex_ltb ha hb
  | VSig a, VSig b => lex_ltb a b
  | VChainId a, VChainId b => lex_ltb a b
  | VNone, VSome _ => true
  | VSome a, VSome b => vlt a b
  | VLeft _, VRight _ => true
  | VLeft a, VLeft b => vlt a b
  | VRight a, VRight b => vlt a b
  | VPair a1 a2, VPair b1 b2 => if val_eqb a1 b1 then vlt a2 b2 else vlt a1 b1
  | _, _ => false
  end.

(* check_constraints of SetType / MapType: no duplicates and `items == sorted(items)` *)
Fixpoint sorted_strict (l : list val) : bool :=
  match l with
  | a :: ((b :: _) as r) => vlt a b && sorted_strict r
  | _ => true
  end.

(* ---------------------------------------------------------------- small text helpers *)

Definition c_pct : byte := x25.
Definition is_ascii (s : bytes) : bool := forallb (fun b => (Byte.to_N b <? 128)%N) s.

(* little-endian fixed-width integers (bls12_381_fr) *)
Fixpoint N_to_le (width : nat) (n : N) : bytes :=
  match width with
  | O => []
  | S w => b8 n :: N_to_le w (n / 256)
  end.

Fixpoint le_to_N (l : bytes) : N :=
  match l with
  | [] => 0
  | b :: r => Byte.to_N b + 256 * le_to_N r
  end%N.

Definition fr_modulus : Z := 0x73EDA753299D7D483339D80809A1D80553BDA402FFFE5BFEFFFFFFFF00000001.

(* ---------------------------------------------------------------- Base58Check text *)

Record codec := {
  addr_txt : address -> bytes;              (* "tz1…", "KT1…", "sr1…", "txr1…" *)
  addr_of_txt : bytes -> result address;    (* validated text -> (kind, hash) *)
  key_txt : public_key -> bytes;
  key_of_txt : bytes -> result public_key;
  sig_txt : bytes -> bytes;                 (* raw bytes -> generic notation (sig / BLsig) *)
  sig_of_txt : bytes -> result bytes;       (* any notation -> raw bytes *)
  cid_txt : bytes -> bytes;
  cid_of_txt : bytes -> result bytes
}.

(* entrypoint part of an address value built from the string [s] by AddressType.from_value
   (value.partition('%')): an entrypoint that is exactly "default" is dropped *)
Definition norm_ep (ep : option bytes) : option bytes :=
  match ep with
  | Some e => if bytes_eqb e default_name then None else Some e
  | None => None
  end.

Definition ep_of_str (s : bytes) : option bytes := norm_ep (after_pct s).

(* forge_contract: nothing is appended for no entrypoint, "" and "default" *)
Definition ep_bytes (ep : option bytes) : bytes :=
  match ep with
  | None | Some [] => []
  | Some e => if bytes_eqb e default_name then [] else e
  end.

Definition ep_text (ep : option bytes) : bytes :=
  match ep with None => [] | Some e => c_pct :: e end.

(* which address kinds a type admits: is_address (tz, KT1, sr1) / is_txr_address *)
Inductive addr_class := AnyAddress | TxrAddress.
Definition class_admits (c : addr_class) (k : addr_kind) : bool :=
  match c with
  | AnyAddress => address_type_admits k
  | TxrAddress => negb (address_type_admits k)
  end.

(* ---------------------------------------------------------------- the model *)

Section Model.
  Variable C : codec.
  (* Micheline.match(code).as_micheline_expr(); Reject = the instruction parser raised *)
  Variable lam_norm : node -> result node.

  Definition pair_node (m : mode) (args : list node) : node :=
    match m with
    | Optimized =>
        match args with
        | [a; b] => NPrim T_Pair [a; b] []
        | [a; b; c] => NPrim T_Pair [a; NPrim T_Pair [b; c] []] []
        | _ => NSeq args
        end
    | _ => NPrim T_Pair args []
    end.

  Definition addr_node (m : mode) (a : address) (ep : option bytes) : node :=
    match m with
    | Readable => NStr (addr_txt C a ++ ep_text ep)
    | _ => NByt (forge_address false a ++ ep_bytes ep)
    end.

  (* [tm m v] = (Micheline of v, the arguments v contributes when it is the right component
     of a pair: its own comb leaves if it is a pair, itself otherwise) *)
  Fixpoint tm (m : mode) (v : val) {struct v} : node * list node :=
    let leaf (n : node) := (n, [n]) in
    match v with
    | VUnit => leaf (NPrim T_Unit [] [])
    | VBool b => leaf (NPrim (if b then T_True else T_False) [] [])
    | VInt z => leaf (NInt z)
    | VTimestamp z =>
        leaf (match m with
              | Readable => if in_rfc_range z then NStr (render_rfc z) else NInt z
              | _ => NInt z
              end)
    | VBlsFr z =>
        leaf (match m with
              | Readable => NInt z
              | _ => NByt (N_to_le 32 (Z.to_N z))
              end)
    | VString s => leaf (NStr s)
    | VBytes b => leaf (NByt b)
    | VAddr a ep => leaf (addr_node m a ep)
    | VKey k =>
        leaf (match m with Readable => NStr (key_txt C k) | _ => NByt (forge_public_key k) end)
    | VKeyHash a =>
        leaf (match m with Readable => NStr (addr_txt C a) | _ => NByt (forge_address true a) end)
    | VSig raw =>
        leaf (match m with Readable => NStr (sig_txt C raw) | _ => NByt raw end)
    | VChainId c =>
        leaf (match m with Readable => NStr (cid_txt C c) | _ => NByt c end)
    | VNone => leaf (NPrim T_None [] [])
    | VSome a => leaf (NPrim T_Some [fst (tm m a)] [])
    | VLeft a => leaf (NPrim T_Left [fst (tm m a)] [])
    | VRight a => leaf (NPrim T_Right [fst (tm m a)] [])
    | VPair a b =>
        let na := fst (tm m a) in
        let rb := tm m b in
        match m with
        | LegacyOptimized => leaf (NPrim T_Pair [na; fst rb] [])
        | _ => let args := na :: snd rb in (pair_node m args, args)
        end
    | VList l =>
        leaf (NSeq ((fix go (l : list val) : list node :=
                       match l with [] => [] | x :: r => fst (tm m x) :: go r end) l))
    | VMap l =>
        leaf (NSeq ((fix go (l : list (val * val)) : list node :=
                       match l with
                       | [] => []
                       | (k, x) :: r => NPrim T_Elt [fst (tm m k); fst (tm m x)] [] :: go r
                       end) l))
    | VLambda code => leaf code
    | VTicket a ep x z =>
        (* TicketType.to_comb(): the comb pair address <contents> nat; a ticket is not a PairType, so it is
           never flattened into an enclosing comb *)
        let na := addr_node m a ep in
        let nx := fst (tm m x) in
        leaf (match m with
              | Readable => NPrim T_Pair [na; nx; NInt z] []
              | _ => NPrim T_Pair [na; NPrim T_Pair [nx; NInt z] []] []
              end)
    | VBigMapId id => leaf (NInt id)   (* BigMapType.to_micheline_value(lazy_diff=None) with a pointer *)
    end.

  Definition to_mich (m : mode) (v : val) : node := fst (tm m v).

  (* ---- from_micheline_value *)

  Definition addr_of_text (c : addr_class) (s : bytes) : result val :=
    let* a := addr_of_txt C (before_pct s) in
    if class_admits c (fst a) then Ok (VAddr a (ep_of_str s)) else Reject.

  Definition addr_of_bytes (c : addr_class) (d : bytes) : result val :=
    let* a := unforge_address (firstn 22 d) in
    let ep := if Nat.ltb 22 (length d) then Some (skipn 22 d) else None in
    if utf8_valid (skipn 22 d) && class_admits c (fst a) then Ok (VAddr a (norm_ep ep)) else Reject.

  Definition of_addr (c : addr_class) (n : node) : result val :=
    match n with
    | NStr s => addr_of_text c s
    | NByt d => addr_of_bytes c d
    | _ => Reject
    end.

  (* parse_micheline_value with a single (prim, 0) handler *)
  Definition is_prim0 (tag : byte) (n : node) : bool :=
    match n with NPrim t [] _ => byte_eqb t tag | _ => false end.

  Definition elt_parts (n : node) : result (node * node) :=
    match n with
    | NPrim t [k; x] _ => if byte_eqb t T_Elt then Ok (k, x) else Reject
    | _ => Reject
    end.

  Fixpoint map_result {A B} (f : A -> result B) (l : list A) : result (list B) :=
    match l with
    | [] => Ok []
    | x :: r => let* y := f x in let* ys := map_result f r in Ok (y :: ys)
    end.

  (* the arguments of a pair literal: Pair a1 ... an or the sequence {a1; ...; an} *)
  Definition pair_args (n : node) : option (list node) :=
    match n with
    | NPrim tg args _ => if byte_eqb tg T_Pair then Some args else None
    | NSeq args => Some args
    | _ => None
    end.

  Definition ticket_of (va : result val) (vi : result val) (z : node) : result val :=
    let* a := va in
    let* i := vi in
    match a, z with
    | VAddr ad ep, NInt k => if (0 <=? k)%Z then Ok (VTicket ad ep i k) else Reject
    | _, _ => Reject
    end.

  Fixpoint of_mich (t : ty) (n : node) {struct t} : result val :=
    match t with
    | TUnit => if is_prim0 T_Unit n then Ok VUnit else Reject
    | TBool => if is_prim0 T_True n then Ok (VBool true)
               else if is_prim0 T_False n then Ok (VBool false) else Reject
    | TInt => match n with NInt z => Ok (VInt z) | _ => Reject end
    | TNat => match n with NInt z => if (0 <=? z)%Z then Ok (VInt z) else Reject | _ => Reject end
    | TMutez =>
        match n with
        | NInt z => if (0 <=? z)%Z && (z <? 2 ^ 63)%Z then Ok (VInt z) else Reject
        | _ => Reject
        end
    | TTimestamp =>
        match n with
        | NInt z => Ok (VTimestamp z)
        | NStr s => let* z := parse_ts s in Ok (VTimestamp z)
        | _ => Reject
        end
    | TBlsFr =>
        match n with
        | NInt z => Ok (VBlsFr (z mod fr_modulus))
        | NByt b => if Nat.leb (length b) 32 then Ok (VBlsFr (Z.of_N (le_to_N b) mod fr_modulus)) else Reject
        | _ => Reject
        end
    | TString => match n with NStr s => if is_ascii s then Ok (VString s) else Reject | _ => Reject end
    | TBytes | TBlsG1 | TBlsG2 | TChest | TChestKey =>
        match n with NByt b => Ok (VBytes b) | _ => Reject end
    | TAddress | TContract _ => of_addr AnyAddress n
    | TTxr => of_addr TxrAddress n
    | TKey =>
        match n with
        | NStr s => let* k := key_of_txt C s in Ok (VKey k)
        | NByt d => let* k := unforge_public_key d in Ok (VKey k)
        | _ => Reject
        end
    | TKeyHash =>
        match n with
        | NStr s => let* a := addr_of_txt C s in if is_implicit (fst a) then Ok (VKeyHash a) else Reject
        | NByt d => let* a := unforge_key_hash d in Ok (VKeyHash a)
        | _ => Reject
        end
    | TSignature =>
        match n with
        | NStr s => let* raw := sig_of_txt C s in Ok (VSig raw)
        | NByt d => let* s := unforge_signature d in Ok (VSig (snd s))
        | _ => Reject
        end
    | TChainId =>
        match n with
        | NStr s => let* c := cid_of_txt C s in Ok (VChainId c)
        | NByt d => let* c := unforge_chain_id d in Ok (VChainId c)
        | _ => Reject
        end
    | TOption a =>
        match n with
        | NPrim tg [] _ => if byte_eqb tg T_None then Ok VNone else Reject
        | NPrim tg [x] _ => if byte_eqb tg T_Some then let* v := of_mich a x in Ok (VSome v) else Reject
        | _ => Reject
        end
    | TOr a b =>
        match n with
        | NPrim tg [x] _ =>
            if byte_eqb tg T_Left then let* v := of_mich a x in Ok (VLeft v)
            else if byte_eqb tg T_Right then let* v := of_mich b x in Ok (VRight v)
            else Reject
        | _ => Reject
        end
    | TPair a b =>
        let args := match n with
                    | NPrim tg args _ => if byte_eqb tg T_Pair then Some args else None
                    | NSeq args => Some args
                    | _ => None
                    end in
        match args with
        | Some [x; y] => let* va := of_mich a x in let* vb := of_mich b y in Ok (VPair va vb)
        | Some (x :: ((_ :: _ :: _) as rest)) =>
            let* va := of_mich a x in let* vb := of_mich b (NSeq rest) in Ok (VPair va vb)
        | _ => Reject
        end
    | TList a =>
        match n with
        | NSeq items => let* l := map_result (of_mich a) items in Ok (VList l)
        | _ => Reject
        end
    | TSet a =>
        match n with
        | NSeq items =>
            let* l := map_result (of_mich a) items in
            if sorted_strict l then Ok (VList l) else Reject
        | _ => Reject
        end
    | TMap k v =>
        match n with
        | NSeq items =>
            let* l := map_result (fun e => let* kx := elt_parts e in
                                           let* vk := of_mich k (fst kx) in
                                           let* vx := of_mich v (snd kx) in Ok (vk, vx)) items in
            if sorted_strict (map fst l) then Ok (VMap l) else Reject
        | _ => Reject
        end
    | TLambda _ _ =>
        match n with
        | NSeq _ => let* c := lam_norm n in Ok (VLambda c)
        | _ => Reject
        end
    | TTicket a =>
        (* read at the type pair address a nat (PairType.from_micheline_value), then TicketType.from_comb *)
        match pair_args n with
        | Some [x; y] =>
            match pair_args y with
            | Some [i; z] => ticket_of (of_addr AnyAddress x) (of_mich a i) z
            | _ => Reject
            end
        | Some [x; i; z] => ticket_of (of_addr AnyAddress x) (of_mich a i) z
        | _ => Reject
        end
    | TBigMap k v =>
        (* an integer is the id of an existing big_map, a sequence is a literal read like a map *)
        match n with
        | NInt id => Ok (VBigMapId id)
        | NSeq items =>
            let* l := map_result (fun e => let* kx := elt_parts e in
                                           let* vk := of_mich k (fst kx) in
                                           let* vx := of_mich v (snd kx) in Ok (vk, vx)) items in
            if sorted_strict (map fst l) then Ok (VMap l) else Reject
        | _ => Reject
        end
    | TNever | TOperation | TSaplingState | TSaplingTx => Reject
    end.

  (* ---- well-typed values *)

  Definition ep_ok (ep : option bytes) : bool :=
    match ep with
    | None => true
    | Some e => negb (is_nil e) && negb (bytes_eqb e default_name) && utf8_valid e
    end.

  Definition addr_ok (c : addr_class) (a : address) (ep : option bytes) : bool :=
    Nat.eqb (length (snd a)) 20 && class_admits c (fst a) && ep_ok ep.

  Fixpoint has_type (t : ty) (v : val) {struct t} : bool :=
    match t, v with
    | TUnit, VUnit => true
    | TBool, VBool _ => true
    | TInt, VInt _ => true
    | TNat, VInt z => (0 <=? z)%Z
    | TMutez, VInt z => (0 <=? z)%Z && (z <? 2 ^ 63)%Z
    | TTimestamp, VTimestamp _ => true
    | TBlsFr, VBlsFr z => (0 <=? z)%Z && (z <? fr_modulus)%Z
    | TString, VString s => is_ascii s
    | (TBytes | TBlsG1 | TBlsG2 | TChest | TChestKey), VBytes _ => true
    | (TAddress | TContract _), VAddr a ep => addr_ok AnyAddress a ep
    | TTxr, VAddr a ep => addr_ok TxrAddress a ep
    | TKey, VKey k => Nat.eqb (length (snd k)) (key_len (fst k))
    | TKeyHash, VKeyHash a => Nat.eqb (length (snd a)) 20 && is_implicit (fst a)
    | TSignature, VSig raw => Nat.eqb (length raw) 64 || Nat.eqb (length raw) 96
    | TChainId, VChainId c => Nat.eqb (length c) 4
    | TOption _, VNone => true
    | TOption a, VSome x => has_type a x
    | TOr a _, VLeft x => has_type a x
    | TOr _ b, VRight x => has_type b x
    | TPair a b, VPair x y => has_type a x && has_type b y
    | TList a, VList l => forallb (has_type a) l
    | TSet a, VList l => forallb (has_type a) l && sorted_strict l
    | TMap k x, VMap l =>
        forallb (fun e => has_type k (fst e) && has_type x (snd e)) l && sorted_strict (map fst l)
    | TLambda _ _, VLambda c =>
        match c with NSeq _ => result_eqb node_eqb (lam_norm c) (Ok c) | _ => false end
    | TTicket a, VTicket ad ep x z => addr_ok AnyAddress ad ep && has_type a x && (0 <=? z)%Z
    | TBigMap _ _, VBigMapId _ => true
    | TBigMap k x, VMap l =>
        forallb (fun e => has_type k (fst e) && has_type x (snd e)) l && sorted_strict (map fst l)
    | _, _ => false
    end.

End Model.

(* is_packable (base.py) *)
Fixpoint packable (t : ty) : bool :=
  match t with
  | TBigMap _ _ | TOperation | TSaplingState | TTicket _ => false
  | TLambda _ _ => true
  | TContract p => packable p
  | TOption a | TList a | TSet a => packable a
  | TOr a b | TPair a b | TMap a b => packable a && packable b
  | _ => true
  end.

(* ---------------------------------------------------------------- the real Base58Check codec
   (Codec/Base58.v + Codec/Domain.v): what pytezos computes, given SHA-256 and the table *)

Section Real.
  Variable sha256 : bytes -> bytes.
  Variable t : list row.

  Definition unres (r : result bytes) : bytes := match r with Ok s => s | Reject => [] end.

  Definition kind_of_tpre {K} (kinds : list K) (tp : K -> bytes) (p : bytes) : option K :=
    find (fun k => bytes_eqb (tp k) p) kinds.

  (* validate against a list of kinds, then decode: (kind, payload) *)
  Definition decode_kinded {K} (kinds : list K) (tp : K -> bytes) (s : bytes) : result (K * bytes) :=
    match find_dec t s with
    | None => Reject
    | Some r =>
        match kind_of_tpre kinds tp (tpre r) with
        | None => Reject
        | Some k => let* p := base58_decode sha256 t s in Ok (k, p)
        end
    end.

  Definition generic_sig_kind (raw : bytes) : sig_kind := if Nat.eqb (length raw) 96 then BLsig else Sig.

  Definition real_codec : codec := {|
    addr_txt := fun a => unres (address_text sha256 t a);
    addr_of_txt := decode_kinded all_addr_kinds addr_tpre;
    key_txt := fun k => unres (public_key_text sha256 t k);
    key_of_txt := decode_kinded all_key_kinds key_tpre;
    sig_txt := fun raw => unres (signature_text sha256 t (generic_sig_kind raw, raw));
    sig_of_txt := fun s => let* kp := decode_kinded all_sig_kinds sig_tpre s in Ok (snd kp);
    cid_txt := fun c => unres (chain_id_text sha256 t c);
    cid_of_txt := fun s => let* kp := decode_kinded [tt] (fun _ => tx "Net"%string) s in Ok (snd kp)
  |}.
End Real.

(* oracle-as-data for lam_norm in the correspondence run *)
Fixpoint assoc_node (tbl : list (node * result node)) (n : node) : result node :=
  match tbl with
  | [] => Reject
  | (k, v) :: r => if node_eqb k n then v else assoc_node r n
  end.

(* SHA-256 as data for the correspondence run.  The model only ever uses
   firstn 4 (sha256 (sha256 x)); the run supplies a function that maps x to the 8-byte
   big-endian form of a fingerprint of x, and such an 8-byte string to the first four bytes of
   the real SHA-256(SHA-256 x) recorded by the harness (keeps the generated literals small). *)
Definition fp (x : bytes) : N :=
  fold_left (fun a b => ((a * 257 + Byte.to_N b) mod 4294967291)%N) x (N.of_nat (length x)).

Fixpoint assoc_N (tbl : list (N * bytes)) (k : N) : bytes :=
  match tbl with
  | [] => []
  | (k', v) :: r => if (k' =? k)%N then v else assoc_N r k
  end.

Definition sha_fp (tbl : list (N * bytes)) (y : bytes) : bytes :=
  if Nat.eqb (length y) 8 then assoc_N tbl (be_to_N y) else N_to_be 8 (fp y).
