(* Michelson/BigMap.v — model of pytezos' BigMapType (types/big_map.py) with the context lookups of
   context/impl.py: a big_map value is a layer of local changes ([items]: bindings set locally, kept
   sorted; [removed]: keys deleted locally) over the on-chain content, reached through
   [get_big_map_value(ptr, key_hash)] with key_hash = forge_script_expr(key.pack(legacy=True)).

   Generic in the key type K (compared with Python's == / <, as in Collections.v), the value type V
   and the hash type H.  Oracles (Section variables): [kh : K -> H] (script-expression hash of the
   packed key) and [chain : H -> option V] (the node's answer for this big_map id; None = absent /
   RpcError / fresh big_map).  No proofs here. *)
From Coq Require Import List Bool ZArith.
From PV Require Import Base.Bytes Base.Result Michelson.Compare Michelson.Collections.
Import ListNotations.

Section BigMap.
  Variables K V H : Type.
  Variable eqb : K -> K -> bool.     (* key == key *)
  Variable ltb : K -> K -> bool.     (* key < key  *)
  Variable heqb : H -> H -> bool.    (* equality of key hashes (strings) *)
  Variable kh : K -> H.
  Variable chain : H -> option V.

  Record bigmap := { bm_items : list (K * V); bm_removed : list K }.

  (* BigMapType.__iter__: the items, then (key, None) for every removed key *)
  Definition bm_iter (s : bigmap) : list (K * option V) :=
    map (fun kv => (fst kv, Some (snd kv))) (bm_items s) ++ map (fun k => (k, None)) (bm_removed s).

  (* next((v for k, v in self if k == key), Undefined) *)
  Fixpoint find_diff (k : K) (l : list (K * option V)) : option (option V) :=
    match l with
    | [] => None
    | (k', o) :: r => if eqb k' k then Some o else find_diff k r
    end.

  (* BigMapType.get: the local layer first, then the context *)
  Definition bm_get (k : K) (s : bigmap) : option V :=
    match find_diff k (bm_iter s) with
    | Some o => o
    | None => chain (kh k)
    end.

  (* MapType.contains through BigMapType.get *)
  Definition bm_mem (k : K) (s : bigmap) : bool :=
    match bm_get k s with Some _ => true | None => false end.

  (* removed_keys is handled as a Python set: set(list), .add, .remove, list(set) *)
  Fixpoint rm_set (r : list K) : list K :=
    match r with
    | [] => []
    | k :: r' => if existsb (fun y => eqb y k) r' then rm_set r' else k :: rm_set r'
    end.
  Definition rm_add (k : K) (r : list K) : list K :=
    if existsb (fun y => eqb y k) r then r else k :: r.
  Definition rm_del (k : K) (r : list K) : list K :=
    filter (fun y => negb (eqb y k)) r.

  (* BigMapType.update (after fixes 5d305cf and 5b7f104): returns (previous value, new big_map) *)
  Definition bm_update (k : K) (vo : option V) (s : bigmap) : option V * bigmap :=
    let removed := rm_set (bm_removed s) in
    let prev := bm_get k s in
    (prev,
     match prev, vo with
     | Some _, Some v =>
         {| bm_items := sorted_by ltb fst (filter (fun kv => negb (eqb (fst kv) k)) (bm_items s) ++ [(k, v)]);
            bm_removed := removed |}
     | Some _, None =>
         {| bm_items := filter (fun kv => negb (eqb (fst kv) k)) (bm_items s);
            bm_removed := rm_add k removed |}
     | None, Some v =>
         {| bm_items := sorted_by ltb fst (bm_items s ++ [(k, v)]);
            bm_removed := rm_del k removed |}
     | None, None =>
         {| bm_items := bm_items s; bm_removed := removed |}
     end).

  (* histories: UPDATE and GET_AND_UPDATE change the state; GET / MEM only observe *)
  Inductive bm_op := BUpdate (k : K) (vo : option V) | BGetAndUpdate (k : K) (vo : option V).

  Definition bm_step (s : bigmap) (op : bm_op) : bigmap :=
    match op with
    | BUpdate k vo => snd (bm_update k vo s)
    | BGetAndUpdate k vo => snd (bm_update k vo s)
    end.

  (* a big_map starts as a literal (sorted items, no id) or as an id (no local layer) *)
  Definition bm_init (lit : list (K * V)) : bigmap := {| bm_items := lit; bm_removed := [] |}.
  Definition bm_run (lit : list (K * V)) (ops : list bm_op) : bigmap := fold_left bm_step ops (bm_init lit).

  (* ---- the lazy diff: aggregate_lazy_diff / make_update *)
  Record update := { u_key : K; u_hash : H; u_val : option V }.

  Definition bm_updates (s : bigmap) : list update :=
    map (fun kv => {| u_key := fst kv; u_hash := kh (fst kv); u_val := Some (snd kv) |}) (bm_items s)
    ++ map (fun k => {| u_key := k; u_hash := kh k; u_val := None |}) (bm_removed s).

  (* ---- specification side *)

  (* the layered dictionary: the on-chain content with the history's updates applied pointwise *)
  Definition eff0 (lit : list (K * V)) : K -> option V :=
    fun k => match map_get eqb k lit with Some v => Some v | None => chain (kh k) end.
  Definition eff_step (d : K -> option V) (op : bm_op) : K -> option V :=
    match op with
    | BUpdate k vo => d_update eqb k vo d
    | BGetAndUpdate k vo => d_update eqb k vo d
    end.
  Definition eff (lit : list (K * V)) (ops : list bm_op) : K -> option V :=
    fold_left eff_step ops (eff0 lit).

  (* applying a diff to the on-chain content (a store indexed by key hash), update after update *)
  Definition apply_update (st : H -> option V) (u : update) : H -> option V :=
    fun h => if heqb h (u_hash u) then u_val u else st h.
  Definition apply_updates (us : list update) (st : H -> option V) : H -> option V :=
    fold_left apply_update us st.
End BigMap.

Arguments bm_items {K V} b.
Arguments bm_removed {K V} b.
Arguments Build_bigmap {K V} bm_items bm_removed.
Arguments bm_iter {K V} s.
Arguments find_diff {K V} eqb k l.
Arguments bm_get {K V H} eqb kh chain k s.
Arguments bm_mem {K V H} eqb kh chain k s.
Arguments rm_set {K} eqb r.
Arguments rm_add {K} eqb k r.
Arguments rm_del {K} eqb k r.
Arguments bm_update {K V H} eqb ltb kh chain k vo s.
Arguments BUpdate {K V} k vo.
Arguments BGetAndUpdate {K V} k vo.
Arguments bm_step {K V H} eqb ltb kh chain s op.
Arguments bm_init {K V} lit.
Arguments bm_run {K V H} eqb ltb kh chain lit ops.
Arguments u_key {K V H} u.
Arguments u_hash {K V H} u.
Arguments u_val {K V H} u.
Arguments Build_update {K V H} u_key u_hash u_val.
Arguments bm_updates {K V H} kh s.
Arguments eff0 {K V H} eqb kh chain lit.
Arguments eff_step {K V} eqb d op.
Arguments eff {K V H} eqb kh chain lit ops.
Arguments apply_update {K V H} heqb st u.
Arguments apply_updates {K V H} heqb us st.

(* ---------------------------------------------------------------- interface for the correspondence run:
   keys = Michelson values (pytezos' == and <), values = int, hashes = "expr…" texts;
   the oracles come as tables *)

Inductive bm_instr :=
| BIUpdate (k : val) (vo : option Z)
| BIGetAndUpdate (k : val) (vo : option Z)
| BIGet (k : val)
| BIMem (k : val).

Inductive bm_obs := BOOpt (o : option Z) | BOBool (b : bool).

Fixpoint lookup_val (tbl : list (val * bytes)) (k : val) : bytes :=
  match tbl with
  | [] => []
  | (k', h) :: r => if val_eqb k' k then h else lookup_val r k
  end.

Fixpoint lookup_hash (tbl : list (bytes * Z)) (h : bytes) : option Z :=
  match tbl with
  | [] => None
  | (h', v) :: r => if bytes_eqb h' h then Some v else lookup_hash r h
  end.

Section BMScript.
  Variable T : texts.
  Variable khtbl : list (val * bytes).
  Variable chtbl : list (bytes * Z).
  Let eqb := py_eq T.
  Let ltb := py_lt T.
  Let kh := lookup_val khtbl.
  Let chain := lookup_hash chtbl.

  Fixpoint bm_script (s : bigmap val Z) (is : list bm_instr) : list bm_obs * bigmap val Z :=
    match is with
    | [] => ([], s)
    | BIUpdate k vo :: r => bm_script (snd (bm_update eqb ltb kh chain k vo s)) r
    | BIGetAndUpdate k vo :: r =>
        let pu := bm_update eqb ltb kh chain k vo s in
        let res := bm_script (snd pu) r in (BOOpt (fst pu) :: fst res, snd res)
    | BIGet k :: r => let res := bm_script s r in (BOOpt (bm_get eqb kh chain k s) :: fst res, snd res)
    | BIMem k :: r => let res := bm_script s r in (BOBool (bm_mem eqb kh chain k s) :: fst res, snd res)
    end.
End BMScript.

(* the history an instruction list stands for (GET / MEM only observe) *)
Fixpoint bm_ops_of (is : list bm_instr) : list (bm_op val Z) :=
  match is with
  | [] => []
  | BIUpdate k vo :: r => BUpdate k vo :: bm_ops_of r
  | BIGetAndUpdate k vo :: r => BGetAndUpdate k vo :: bm_ops_of r
  | _ :: r => bm_ops_of r
  end.

(* what one run shows: the observations in order, and the emitted diff as
   (sorted set entries, removed keys) each with its key hash *)
Definition bm_case_out : Type := list bm_obs * list (val * bytes * Z) * list (val * bytes).

Definition bm_case (x : text_tables * list (val * bytes) * list (bytes * Z) * list (val * Z) * list bm_instr) : bm_case_out :=
  let '(tb, khtbl, chtbl, lit, is) := x in
  let res := bm_script (texts_of tb) khtbl chtbl (bm_init lit) is in
  let s := snd res in
  (fst res,
   map (fun kv => (fst kv, lookup_val khtbl (fst kv), snd kv)) (bm_items s),
   map (fun k => (k, lookup_val khtbl k)) (bm_removed s)).

Definition bm_obs_eqb (a b : bm_obs) : bool :=
  match a, b with
  | BOOpt x, BOOpt y => option_eqb Z.eqb x y
  | BOBool x, BOBool y => Bool.eqb x y
  | _, _ => false
  end.

(* removed keys come out of a Python set: compare them up to order *)
Definition rem_eqb (a b : val * bytes) : bool := val_eqb (fst a) (fst b) && bytes_eqb (snd a) (snd b).
Definition sub_list (a b : list (val * bytes)) : bool := forallb (fun x => existsb (rem_eqb x) b) a.

Definition bm_case_eqb (a b : bm_case_out) : bool :=
  let '(o1, i1, r1) := a in let '(o2, i2, r2) := b in
  list_eqb bm_obs_eqb o1 o2 &&
  list_eqb (fun x y => val_eqb (fst (fst x)) (fst (fst y)) && bytes_eqb (snd (fst x)) (snd (fst y)) && Z.eqb (snd x) (snd y)) i1 i2 &&
  Nat.eqb (length r1) (length r2) && sub_list r1 r2 && sub_list r2 r1.

(* ================================================================ a store of big_map values
   Several big_map values live on the stack / in the storage at once: DUP copies a value, every value
   carries its own id and reads the on-chain content of THAT id.  [chain] now takes the id. *)
Section Store.
  Variables K V H : Type.
  Variable eqb : K -> K -> bool.
  Variable ltb : K -> K -> bool.
  Variable kh : K -> H.
  Variable chain : Z -> H -> option V.

  Record bmv := { bv_id : Z; bv_map : bigmap K V }.

  Fixpoint set_nth {A} (i : nat) (x : A) (l : list A) : list A :=
    match l, i with
    | [], _ => []
    | _ :: r, O => x :: r
    | y :: r, S j => y :: set_nth j x r
    end.

  Fixpoint del_nth {A} (i : nat) (l : list A) : list A :=
    match l, i with
    | [], _ => []
    | _ :: r, O => r
    | y :: r, S j => y :: del_nth j r
    end.

  Inductive s_op :=
  | SOUpdate (i : nat) (k : K) (vo : option V)    (* UPDATE / GET_AND_UPDATE on the value in slot i *)
  | SODup (i : nat)                               (* DUP: a copy of slot i is appended *)
  | SODrop (i : nat).                             (* DROP of slot i *)

  Definition bv_update (k : K) (vo : option V) (b : bmv) : option V * bmv :=
    let r := bm_update eqb ltb kh (chain (bv_id b)) k vo (bv_map b) in
    (fst r, {| bv_id := bv_id b; bv_map := snd r |}).

  Definition s_step (st : list bmv) (op : s_op) : list bmv :=
    match op with
    | SOUpdate i k vo => match nth_error st i with Some b => set_nth i (snd (bv_update k vo b)) st | None => st end
    | SODup i => match nth_error st i with Some b => st ++ [b] | None => st end
    | SODrop i => del_nth i st
    end.

  Definition bv_get (k : K) (b : bmv) : option V := bm_get eqb kh (chain (bv_id b)) k (bv_map b).
  Definition bv_mem (k : K) (b : bmv) : bool := bm_mem eqb kh (chain (bv_id b)) k (bv_map b).

  (* the reference: one dictionary per slot, copied by DUP, each layered over its own id's content *)
  Definition sdict : Type := Z * (K -> option V).
  Definition sd_init (id : Z) (lit : list (K * V)) : sdict := (id, eff0 eqb kh (chain id) lit).
  Definition sd_step (sp : list sdict) (op : s_op) : list sdict :=
    match op with
    | SOUpdate i k vo => match nth_error sp i with Some d => set_nth i (fst d, d_update eqb k vo (snd d)) sp | None => sp end
    | SODup i => match nth_error sp i with Some d => sp ++ [d] | None => sp end
    | SODrop i => del_nth i sp
    end.
End Store.

Arguments bv_id {K V} b.
Arguments bv_map {K V} b.
Arguments Build_bmv {K V} bv_id bv_map.
Arguments set_nth {A} i x l.
Arguments del_nth {A} i l.
Arguments SOUpdate {K V} i k vo.
Arguments SODup {K V} i.
Arguments SODrop {K V} i.
Arguments bv_update {K V H} eqb ltb kh chain k vo b.
Arguments s_step {K V H} eqb ltb kh chain st op.
Arguments bv_get {K V H} eqb kh chain k b.
Arguments bv_mem {K V H} eqb kh chain k b.
Arguments sd_init {K V H} eqb kh chain id lit.
Arguments sd_step {K V} eqb sp op.

(* ---- script form for the correspondence run *)
Inductive xs_instr :=
| XUpdate (i : nat) (k : val) (vo : option Z)
| XGetAndUpdate (i : nat) (k : val) (vo : option Z)
| XGet (i : nat) (k : val)
| XMem (i : nat) (k : val)
| XDup (i : nat)
| XDrop (i : nat).

Fixpoint lookup_chain (tbl : list (Z * list (bytes * Z))) (id : Z) (h : bytes) : option Z :=
  match tbl with
  | [] => None
  | (id', t) :: r => if Z.eqb id' id then lookup_hash t h else lookup_chain r id h
  end.

Section XScript.
  Variable T : texts.
  Variable khtbl : list (val * bytes).
  Variable chains : list (Z * list (bytes * Z)).
  Let eqb := py_eq T.
  Let ltb := py_lt T.
  Let kh := lookup_val khtbl.
  Let chain := lookup_chain chains.

  Definition xs_op (i : xs_instr) : option (s_op val Z) :=
    match i with
    | XUpdate s k vo => Some (SOUpdate s k vo)
    | XGetAndUpdate s k vo => Some (SOUpdate s k vo)
    | XDup s => Some (SODup s)
    | XDrop s => Some (SODrop s)
    | _ => None
    end.

  Definition xs_obs (st : list (bmv val Z)) (i : xs_instr) : list bm_obs :=
    match i with
    | XGetAndUpdate s k vo => match nth_error st s with Some b => [BOOpt (fst (bv_update eqb ltb kh chain k vo b))] | None => [] end
    | XGet s k => match nth_error st s with Some b => [BOOpt (bv_get eqb kh chain k b)] | None => [] end
    | XMem s k => match nth_error st s with Some b => [BOBool (bv_mem eqb kh chain k b)] | None => [] end
    | _ => []
    end.

  Fixpoint xs_script (st : list (bmv val Z)) (is : list xs_instr) : list bm_obs * list (bmv val Z) :=
    match is with
    | [] => ([], st)
    | i :: r =>
        let st' := match xs_op i with Some o => s_step eqb ltb kh chain st o | None => st end in
        let res := xs_script st' r in
        (xs_obs st i ++ fst res, snd res)
    end.
End XScript.

(* one run: observations in order, and for every big_map value left at the end its id and its diff *)
Definition xs_case_out : Type := list bm_obs * list (Z * list (val * bytes * Z) * list (val * bytes)).

Definition xs_case (x : text_tables * list (val * bytes) * list (Z * list (bytes * Z)) * list (Z * list (val * Z)) * list xs_instr)
  : xs_case_out :=
  let '(tb, khtbl, chains, init, is) := x in
  let st0 := map (fun il => {| bv_id := fst il; bv_map := bm_init (snd il) |}) init in
  let res := xs_script (texts_of tb) khtbl chains st0 is in
  (fst res,
   map (fun b => (bv_id b,
                  map (fun kv => (fst kv, lookup_val khtbl (fst kv), snd kv)) (bm_items (bv_map b)),
                  map (fun k => (k, lookup_val khtbl k)) (bm_removed (bv_map b)))) (snd res)).

Definition xs_slot_eqb (a b : Z * list (val * bytes * Z) * list (val * bytes)) : bool :=
  let '(ia, i1, r1) := a in let '(ib, i2, r2) := b in
  Z.eqb ia ib &&
  list_eqb (fun x y => val_eqb (fst (fst x)) (fst (fst y)) && bytes_eqb (snd (fst x)) (snd (fst y)) && Z.eqb (snd x) (snd y)) i1 i2 &&
  Nat.eqb (length r1) (length r2) && sub_list r1 r2 && sub_list r2 r1.

Definition xs_case_eqb (a b : xs_case_out) : bool :=
  list_eqb bm_obs_eqb (fst a) (fst b) && list_eqb xs_slot_eqb (snd a) (snd b).
