(* Michelson/Bls.v — model of the BLS12-381 support of pytezos
   (src/pytezos/michelson/types/bls.py, the BLS rows of ADD / MUL / NEG / INT in
   instructions/arithmetic.py, PAIRING_CHECK in instructions/crypto.py).

   Fr is concrete: integers modulo the curve order, 32-byte little-endian codec.
   The curve groups, the pairing and the map between group elements and affine coordinates
   live in py_ecc; they are Section variables here (never axioms).  What pytezos itself does —
   the 48-byte big-endian coordinate layout, the order im/re of G2 coordinates, the infinity
   flag 0x40 of the first byte, the encoding 2^382 of infinity, the dispatch tables, the reduction
   of scalars, the product fold of PAIRING_CHECK — is modelled concretely.
   No proofs here (Proofs/Bls_proofs.v). *)
From Coq Require Import List ZArith Bool.
From Coq.Strings Require Import Byte.
From PV Require Import Base.Bytes Base.Result Michelson.Arith.
Import ListNotations.
Local Open Scope Z_scope.

(* ------------------------------------------------------------------------------------------ *)
(* Fr                                                                                          *)
(* ------------------------------------------------------------------------------------------ *)

Definition FR_MODULUS : Z := 0x73EDA753299D7D483339D80809A1D80553BDA402FFFE5BFEFFFFFFFF00000001.
Definition FQ_MODULUS : Z :=
  0x1a0111ea397fe69a4b1ba7b6434bacd764774b84f38512bf6730d2a0f6b0f6241eabfffeb153ffffb9feffffffffaaab.
Definition POW_2_382 : Z := 2 ^ 382.

(* BLS12_381_FrType.from_value *)
Definition fr (z : Z) : Z := z mod FR_MODULUS.

(* int.from_bytes(b, 'little') and int.to_bytes(n, 'little') *)
Definition le_val (l : bytes) : Z := be_val 0 (rev l).
Definition le_digits (n : nat) (z : Z) : bytes := rev (be_digits n z).

(* bytes_to_int + from_value: at most 32 bytes, little-endian, reduced *)
Definition fr_of_bytes (b : bytes) : result Z :=
  if (length b <=? 32)%nat then Ok (fr (le_val b)) else Reject.

(* to_micheline_value(optimized): value.to_bytes(32, 'little') *)
Definition fr_to_bytes (x : Z) : result bytes :=
  if (0 <=? x) && (x <? 256 ^ 32) then Ok (le_digits 32 x) else Reject.

Definition fr_add (a b : Z) : Z := fr (a + b).
Definition fr_mul (a b : Z) : Z := fr (a * b).
Definition fr_neg (a : Z) : Z := fr (- a).

(* ------------------------------------------------------------------------------------------ *)
(* point codecs over an abstract curve                                                         *)
(* ------------------------------------------------------------------------------------------ *)

Inductive affine1 := Inf1 | Aff1 (x y : Z).
Inductive affine2 := Inf2 | Aff2 (x_re x_im y_re y_im : Z).

Definition chunk (n : nat) (k : nat) (b : bytes) : bytes := firstn n (skipn (k * n) b).

(* value[0] & 0x40 *)
Definition inf_flag (b : bytes) : result bool :=
  match b with
  | [] => Reject                               (* IndexError *)
  | b0 :: _ => Ok (Z.testbit (byte_Z b0) 6)
  end.

Definition coord_bytes (z : Z) : result bytes := py_to_bytes 48 false z.

Inductive bval :=
| BFr (x : Z) | BG1 (v : bytes) | BG2 (v : bytes)
| BInt (z : Z) | BNat (z : Z) | BBool (b : bool)
| BPairs (l : list (bytes * bytes)).          (* list (pair bls12_381_g1 bls12_381_g2) *)

Inductive bop := BADD | BMUL | BNEG | BINT | BPAIRING_CHECK.

Section Curve.
  Variables G1 G2 GT : Type.
  (* py_ecc: group operations *)
  Variable add1 : G1 -> G1 -> G1.
  Variable neg1 : G1 -> G1.
  Variable mul1 : G1 -> Z -> G1.
  Variable zero1 : G1.
  Variable add2 : G2 -> G2 -> G2.
  Variable neg2 : G2 -> G2.
  Variable mul2 : G2 -> Z -> G2.
  Variable zero2 : G2.
  (* py_ecc: is_inf + normalize, and the constructor (FQ(x), FQ(y), FQ(1)) *)
  Variable coords1 : G1 -> affine1.
  Variable point1 : Z -> Z -> G1.
  Variable coords2 : G2 -> affine2.
  Variable point2 : Z -> Z -> Z -> Z -> G2.
  (* py_ecc: pairing and FQ12 *)
  Variable pairing : G2 -> G1 -> GT.
  Variable gt_mul : GT -> GT -> GT.
  Variable gt_one : GT.
  Variable gt_eqb : GT -> GT -> bool.

  (* BLS12_381_G1Type.from_point (+ from_value: 96 bytes) *)
  Definition g1_from_point (p : G1) : result bytes :=
    let '(x, y) := match coords1 p with Inf1 => (POW_2_382, 0) | Aff1 x y => (x, y) end in
    let* bx := coord_bytes x in
    let* by_ := coord_bytes y in
    let v := bx ++ by_ in
    if (length v =? 96)%nat then Ok v else Reject.

  (* BLS12_381_G1Type.to_point (after fix 0447043: the infinity flag is honoured) *)
  Definition g1_to_point (v : bytes) : result G1 :=
    let* inf := inf_flag v in
    if inf then Ok zero1
    else Ok (point1 (be_val 0 (firstn 48 v)) (be_val 0 (skipn 48 v))).

  (* BLS12_381_G2Type.from_point: x_im, x_re, y_im, y_re *)
  Definition g2_from_point (p : G2) : result bytes :=
    let '(x_re, x_im, y_re, y_im) :=
      match coords2 p with Inf2 => (0, POW_2_382, 0, 0) | Aff2 a b c d => (a, b, c, d) end in
    let* b1 := coord_bytes x_im in
    let* b2 := coord_bytes x_re in
    let* b3 := coord_bytes y_im in
    let* b4 := coord_bytes y_re in
    Ok (b1 ++ b2 ++ b3 ++ b4).

  Definition g2_to_point (v : bytes) : result G2 :=
    let* inf := inf_flag v in
    if inf then Ok zero2
    else
      let x_im := be_val 0 (chunk 48 0 v) in
      let x_re := be_val 0 (chunk 48 1 v) in
      let y_im := be_val 0 (chunk 48 2 v) in
      let y_re := be_val 0 (chunk 48 3 v) in
      Ok (point2 x_re x_im y_re y_im).

  (* ---------------------------------------------------------------------------------------- *)
  (* instructions                                                                              *)
  (* ---------------------------------------------------------------------------------------- *)

  Definition exec_add (a b : bval) : result bval :=
    match a, b with
    | BFr x, BFr y => Ok (BFr (fr_add x y))
    | BG1 u, BG1 v =>
        let* p := g1_to_point u in let* q := g1_to_point v in
        let* r := g1_from_point (add1 p q) in Ok (BG1 r)
    | BG2 u, BG2 v =>
        let* p := g2_to_point u in let* q := g2_to_point v in
        let* r := g2_from_point (add2 p q) in Ok (BG2 r)
    | _, _ => Reject
    end.

  (* MUL rows: (nat|int, fr) (fr, nat|int) (fr, fr) -> fr ; (g1, fr) -> g1 ; (g2, fr) -> g2 *)
  Definition exec_mul (a b : bval) : result bval :=
    match a, b with
    | BNat x, BFr y | BInt x, BFr y | BFr x, BNat y | BFr x, BInt y | BFr x, BFr y => Ok (BFr (fr_mul x y))
    | BG1 u, BFr s => let* p := g1_to_point u in let* r := g1_from_point (mul1 p s) in Ok (BG1 r)
    | BG2 u, BFr s => let* p := g2_to_point u in let* r := g2_from_point (mul2 p s) in Ok (BG2 r)
    | _, _ => Reject
    end.

  Definition exec_neg (a : bval) : result bval :=
    match a with
    | BFr x => Ok (BFr (fr_neg x))                 (* after fix 6bc14ff *)
    | BG1 u => let* p := g1_to_point u in let* r := g1_from_point (neg1 p) in Ok (BG1 r)
    | BG2 u => let* p := g2_to_point u in let* r := g2_from_point (neg2 p) in Ok (BG2 r)
    | _ => Reject
    end.

  (* INT: Fr -> its representative; the isinstance(a, BytesType) branch of IntInstruction also
     catches g1/g2 values (subclasses of BytesType) and reads them as signed big-endian numbers *)
  Definition exec_int (a : bval) : result bval :=
    match a with
    | BFr x => Ok (BInt x)
    | BG1 v | BG2 v => Ok (BInt (py_from_bytes true v))
    | _ => Reject
    end.

  (* prod = FQ12.one(); for (g1, g2) in points: prod *= pairing(g2.to_point(), g1.to_point()) *)
  Fixpoint pairing_fold (prod : GT) (l : list (bytes * bytes)) : result GT :=
    match l with
    | [] => Ok prod
    | (u, v) :: r =>
        let* q := g2_to_point v in
        let* p := g1_to_point u in
        pairing_fold (gt_mul prod (pairing q p)) r
    end.

  Definition exec_pairing_check (a : bval) : result bval :=
    match a with
    | BPairs l => let* prod := pairing_fold gt_one l in Ok (BBool (gt_eqb gt_one prod))
    | _ => Reject
    end.

  Definition bexec (o : bop) (st : list bval) : result bval :=
    match o, st with
    | BADD, [a; b] => exec_add a b
    | BMUL, [a; b] => exec_mul a b
    | BNEG, [a] => exec_neg a
    | BINT, [a] => exec_int a
    | BPAIRING_CHECK, [a] => exec_pairing_check a
    | _, _ => Reject
    end.
End Curve.


(* ------------------------------------------------------------------------------------------ *)
(* PUSH literals of the correspondence programs                                                *)
(* ------------------------------------------------------------------------------------------ *)

(* bls12_381_fr literal: an int or a byte string *)
Inductive frlit := FrInt (z : Z) | FrBytes (b : bytes).
Definition push_fr (l : frlit) : result Z :=
  match l with FrInt z => Ok (fr z) | FrBytes b => fr_of_bytes b end.

(* ------------------------------------------------------------------------------------------ *)
(* the instance used by the correspondence check: points are given by their discrete            *)
(* logarithms modulo r (every point the harness uses is a multiple of the generator);           *)
(* coordinates come from a finite table computed with py_ecc by the harness                     *)
(* ------------------------------------------------------------------------------------------ *)

Definition dl_add (a b : Z) : Z := (a + b) mod FR_MODULUS.
Definition dl_neg (a : Z) : Z := (- a) mod FR_MODULUS.
Definition dl_mul (a s : Z) : Z := (a * s) mod FR_MODULUS.

Fixpoint lookup1 (t : list (Z * (Z * Z))) (k : Z) : affine1 :=
  match t with
  | [] => Aff1 (-1) (-1)
  | (k', (x, y)) :: r => if k =? k' then Aff1 x y else lookup1 r k
  end.
Definition tcoords1 (t : list (Z * (Z * Z))) (k : Z) : affine1 := if k =? 0 then Inf1 else lookup1 t k.
Fixpoint tpoint1 (t : list (Z * (Z * Z))) (x y : Z) : Z :=
  match t with
  | [] => -1
  | (k, (x', y')) :: r => if (x =? x') && (y =? y') then k else tpoint1 r x y
  end.

Fixpoint lookup2 (t : list (Z * (Z * Z * Z * Z))) (k : Z) : affine2 :=
  match t with
  | [] => Aff2 (-1) (-1) (-1) (-1)
  | (k', (a, b, c, d)) :: r => if k =? k' then Aff2 a b c d else lookup2 r k
  end.
Definition tcoords2 (t : list (Z * (Z * Z * Z * Z))) (k : Z) : affine2 := if k =? 0 then Inf2 else lookup2 t k.
Fixpoint tpoint2 (t : list (Z * (Z * Z * Z * Z))) (a b c d : Z) : Z :=
  match t with
  | [] => -1
  | (k, (a', b', c', d')) :: r =>
      if (a =? a') && (b =? b') && (c =? c') && (d =? d') then k else tpoint2 r a b c d
  end.

(* pairing(k2*G2, k1*G1) = gt^(k1*k2): GT as exponents modulo r, written additively *)
Definition dl_pairing (q p : Z) : Z := (q * p) mod FR_MODULUS.

Definition texec (t1 : list (Z * (Z * Z))) (t2 : list (Z * (Z * Z * Z * Z))) : bop -> list (bval) -> result bval :=
  bexec Z Z Z dl_add dl_neg dl_mul 0 dl_add dl_neg dl_mul 0
        (tcoords1 t1) (tpoint1 t1) (tcoords2 t2) (tpoint2 t2)
        dl_pairing dl_add 0 Z.eqb.

(* boolean equality of observations *)
Definition pairs_eqb : list (bytes * bytes) -> list (bytes * bytes) -> bool :=
  list_eqb (prod_eqb bytes_eqb bytes_eqb).
Definition bval_eqb (a b : bval) : bool :=
  match a, b with
  | BFr x, BFr y | BInt x, BInt y | BNat x, BNat y => x =? y
  | BG1 u, BG1 v | BG2 u, BG2 v => bytes_eqb u v
  | BBool x, BBool y => Bool.eqb x y
  | BPairs x, BPairs y => pairs_eqb x y
  | _, _ => false
  end.
Definition bres_eqb : result bval -> result bval -> bool := result_eqb bval_eqb.
