(* Michelson/Constants.v — global constants: registration and expansion, as implemented by
   /repo/src/pytezos/context/impl.py (ExecutionContext.register_global_constant,
   resolve_global_constants, reset) and used by ContractInterface.from_micheline.

   A constant reference is the Micheline node   constant "expr..."   (primitive tag 0x92 whose
   first argument is the string naming the Tezos script-expression hash of the registered
   expression).  The registry maps hash text to expression.

   [hash] abstracts  forge_script_expr : bytes -> text  (base58check "expr" of blake2b-32); it is
   applied to the binary Micheline encoding [enc] of Codec/MichelineBin.v (the C05 model), exactly
   as  forge_script_expr(forge_micheline(expression)).  It is a Section variable: nothing is
   assumed about it in the model, and the theorems that need something say so.

   [resolve] follows _resolve/_resolve_constant: children are expanded structurally; looking a
   reference up continues with the *registered expression* (so constants may mention constants).
   pytezos recurses without bound there; the model spends one unit of [fuel] per lookup and
   returns the distinguished [RFuel] when it runs out (only possible for cyclic registries, see
   Proofs/Constants_proofs.v).  Definitions only. *)
From Coq Require Import List NArith ZArith Bool.
From Coq.Strings Require Import Byte.
From PV Require Import Base.Bytes Codec.Micheline Codec.Prims Codec.MichelineBin.
Import ListNotations.

Inductive rres (A : Type) : Type :=
| ROk (a : A)
| RReject          (* pytezos raises: unknown hash / malformed constant node *)
| RFuel.           (* model only: lookup budget exhausted *)
Arguments ROk {A} a.
Arguments RReject {A}.
Arguments RFuel {A}.

Definition rres_eqb {A} (eqb : A -> A -> bool) (a b : rres A) : bool :=
  match a, b with
  | ROk x, ROk y => eqb x y
  | RReject, RReject => true
  | RFuel, RFuel => true
  | _, _ => false
  end.

Definition registry := list (bytes * node).

Fixpoint lookup (h : bytes) (reg : registry) : option node :=
  match reg with
  | [] => None
  | (k, e) :: r => if bytes_eqb k h then Some e else lookup h r
  end.

Definition is_constant (t : byte) : bool := byte_eqb t T_constant.

(* sequential map with the first failure winning (Python: list(map(_resolve, ...)) raising) *)
Definition rcons (x : rres node) (xs : rres (list node)) : rres (list node) :=
  match x with
  | ROk a => match xs with ROk l => ROk (a :: l) | RReject => RReject | RFuel => RFuel end
  | RReject => RReject
  | RFuel => RFuel
  end.

Definition rmap {A B} (f : A -> B) (r : rres A) : rres B :=
  match r with ROk a => ROk (f a) | RReject => RReject | RFuel => RFuel end.

Section Resolve.
  Variable reg : registry.

  Fixpoint resolve (fuel : nat) : node -> rres node :=
    fix go (n : node) : rres node :=
      match n with
      | NPrim t args annots =>
          if is_constant t then
            match args with
            | NStr h :: _ =>
                match lookup h reg with
                | Some e => match fuel with O => RFuel | S f => resolve f e end
                | None => RReject
                end
            | _ => RReject
            end
          else
            rmap (fun args' => NPrim t args' annots)
              ((fix gol (l : list node) : rres (list node) :=
                  match l with [] => ROk [] | x :: r => rcons (go x) (gol r) end) args)
      | NSeq items =>
          rmap NSeq
            ((fix gol (l : list node) : rres (list node) :=
                match l with [] => ROk [] | x :: r => rcons (go x) (gol r) end) items)
      | _ => ROk n
      end.

  Definition resolve_list (fuel : nat) (l : list node) : rres (list node) :=
    (fix gol (l : list node) : rres (list node) :=
       match l with [] => ROk [] | x :: r => rcons (resolve fuel x) (gol r) end) l.
End Resolve.

(* the budget used when the model is run: one lookup level per registered entry (enough for
   every registry whose reference graph is acyclic and, in any case, never the reason for
   an ROk / RReject answer: Constants_proofs.resolve_fuel_mono) *)
Definition resolve_top (reg : registry) (n : node) : rres node := resolve reg (length reg) n.

(* ---------------------------------------------------------------- registration, histories *)

Section Register.
  Variable hash : bytes -> bytes.

  Definition key_of (e : node) : bytes := hash (enc e).

  (* dict assignment: a later binding of the same key shadows the earlier one *)
  Definition register (reg : registry) (e : node) : registry := (key_of e, e) :: reg.

  Inductive op : Type :=
  | Register (e : node)
  | Resolve (n : node)
  | Reset.

  (* one call on an ExecutionContext: new registry and what the call returned (if anything) *)
  Definition step (reg : registry) (o : op) : registry * option (rres node) :=
    match o with
    | Register e => (register reg e, None)
    | Resolve n => (reg, Some (resolve_top reg n))
    | Reset => ([], None)
    end.

  Fixpoint run (reg : registry) (ops : list op) : list (rres node) :=
    match ops with
    | [] => []
    | o :: r =>
        let '(reg', out) := step reg o in
        match out with Some x => x :: run reg' r | None => run reg' r end
    end.

  Fixpoint final (reg : registry) (ops : list op) : registry :=
    match ops with [] => reg | o :: r => final (fst (step reg o)) r end.
End Register.

(* ---------------------------------------------------------------- syntactic predicates *)

(* no constant node anywhere *)
Fixpoint no_constant (n : node) : bool :=
  match n with
  | NPrim t args _ =>
      negb (is_constant t) &&
      (fix go (l : list node) : bool :=
         match l with [] => true | x :: r => no_constant x && go r end) args
  | NSeq items =>
      (fix go (l : list node) : bool :=
         match l with [] => true | x :: r => no_constant x && go r end) items
  | _ => true
  end.

(* the hashes referenced by the constant nodes of a tree (not looking inside constant nodes:
   pytezos never does) *)
Fixpoint refs (n : node) : list bytes :=
  match n with
  | NPrim t args _ =>
      if is_constant t then
        match args with NStr h :: _ => [h] | _ => [] end
      else
        (fix go (l : list node) : list bytes :=
           match l with [] => [] | x :: r => refs x ++ go r end) args
  | NSeq items =>
      (fix go (l : list node) : list bytes :=
         match l with [] => [] | x :: r => refs x ++ go r end) items
  | _ => []
  end.

(* association list used by the harness to hand the implementation's hash values to the model *)
Fixpoint table_hash (tbl : list (bytes * bytes)) (x : bytes) : bytes :=
  match tbl with
  | [] => []
  | (k, v) :: r => if bytes_eqb k x then v else table_hash r x
  end.

Definition rres_node_eqb : rres node -> rres node -> bool := rres_eqb node_eqb.
