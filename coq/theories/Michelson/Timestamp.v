(* Michelson/Timestamp.v — text forms of Michelson timestamps, model of

     format_timestamp        (src/pytezos/michelson/format.py)  ~ [format_timestamp]
     optimize_timestamp      (src/pytezos/michelson/forge.py)   ~ [parse_ts]
     MIN/MAX_RFC3339_TIMESTAMP                                   ~ [MIN_TS], [MAX_TS]

   and of the library behaviour they rely on:
     datetime.fromtimestamp(ts, utc).strftime('%Y-%m-%dT%H:%M:%SZ')  ~ [render_rfc]
       (proleptic Gregorian calendar: [civil_from_days], floor division of the seconds)
     strict_rfc3339.rfc3339_to_timestamp                             ~ [parse_rfc]
       (regex ^\d{4}-\d\d-\d\dT\d\d:\d\d:\d\d(\.\d+)?(Z|[+-]\d\d:\d\d)$, range checks with
        calendar.monthrange, calendar.timegm = [days_from_civil] * 86400 + time of day,
        offset subtracted)
     str(int) / int(str)                                             ~ [dec_of_Z] / [parse_int]

   Text is ASCII [bytes].  Not modelled: non-ASCII digits/whitespace that Python's \d and int()
   also accept; a fractional part of the seconds goes through binary floating
   point in Python — the model is exact when the fraction is zero or the sum is not rounded
   (the harness only uses <= 3 fractional digits on |timestamps| < 2^32).

   The calendar algorithms are the era-based ones (400-year eras of 146097 days, years
   starting in March); Proofs/Timestamp_proofs.v shows they invert each other for ALL day
   numbers.  Definitions only. *)
From Coq Require Import List ZArith NArith Bool Decimal DecimalZ.
From Coq.Strings Require Import Byte.
From PV Require Import Base.Bytes Base.Result.
Import ListNotations.
Local Open Scope Z_scope.

Definition MIN_TS : Z := -30610224000.   (* 1000-01-01T00:00:00Z *)
Definition MAX_TS : Z := 253402300799.   (* 9999-12-31T23:59:59Z *)

Definition in_rfc_range (z : Z) : bool := (MIN_TS <=? z) && (z <=? MAX_TS).

(* ---------------------------------------------------------------- calendar *)

(* day number inside a 400-year era, from the March-based year of era, month and day *)
Definition doe_of (yoe m d : Z) : Z :=
  let mp := if 2 <? m then m - 3 else m + 9 in
  let doy := (153 * mp + 2) / 5 + d - 1 in
  yoe * 365 + yoe / 4 - yoe / 100 + doy.

(* calendar.timegm's date part: days since 1970-01-01 of the civil date y-m-d *)
Definition days_from_civil (y m d : Z) : Z :=
  let y' := if m <=? 2 then y - 1 else y in
  (y' / 400) * 146097 + doe_of (y' mod 400) m d - 719468.

(* (March-based year of era, month, day) of a day number inside an era *)
Definition civ_doe (doe : Z) : Z * Z * Z :=
  let yoe := (doe - doe / 1460 + doe / 36524 - doe / 146096) / 365 in
  let doy := doe - (365 * yoe + yoe / 4 - yoe / 100) in
  let mp := (5 * doy + 2) / 153 in
  let d := doy - (153 * mp + 2) / 5 + 1 in
  let m := if mp <? 10 then mp + 3 else mp - 9 in
  (yoe, m, d).

(* datetime's date part: civil date of a day number (days since 1970-01-01), any integer *)
Definition civil_from_days (z : Z) : Z * Z * Z :=
  let z' := z + 719468 in
  let '(yoe, m, d) := civ_doe (z' mod 146097) in
  (yoe + 400 * (z' / 146097) + (if m <=? 2 then 1 else 0), m, d).

(* calendar.isleap, calendar.monthrange(y, m)[1] *)
Definition is_leap (y : Z) : bool :=
  (y mod 4 =? 0) && (negb (y mod 100 =? 0) || (y mod 400 =? 0)).

Definition month_days (y m : Z) : Z :=
  match m with
  | 1 => 31 | 2 => if is_leap y then 29 else 28 | 3 => 31 | 4 => 30 | 5 => 31 | 6 => 30
  | 7 => 31 | 8 => 31 | 9 => 30 | 10 => 31 | 11 => 30 | 12 => 31
  | _ => 0
  end.

(* ---------------------------------------------------------------- digits *)

Definition c_dash : byte := x2d.
Definition c_plus : byte := x2b.
Definition c_colon : byte := x3a.
Definition c_T : byte := x54.
Definition c_Z : byte := x5a.
Definition c_dot : byte := x2e.
Definition c_us : byte := x5f.      (* '_' *)
Definition c_nl : byte := x0a.

Definition digit_char (d : Z) : byte := b8 (Z.to_N (48 + d)).

Definition char_digit (c : byte) : option Z :=
  let n := Z.of_N (Byte.to_N c) in
  if (48 <=? n) && (n <=? 57) then Some (n - 48) else None.

Definition is_digit (c : byte) : bool :=
  match char_digit c with Some _ => true | None => false end.

Definition digits2 (n : Z) : bytes := [digit_char (n / 10 mod 10); digit_char (n mod 10)].
Definition digits4 (n : Z) : bytes :=
  [digit_char (n / 1000 mod 10); digit_char (n / 100 mod 10);
   digit_char (n / 10 mod 10); digit_char (n mod 10)].

Definition num2 (a b : byte) : option Z :=
  match char_digit a, char_digit b with
  | Some x, Some y => Some (10 * x + y)
  | _, _ => None
  end.

Definition num4 (a b c d : byte) : option Z :=
  match num2 a b, num2 c d with
  | Some x, Some y => Some (100 * x + y)
  | _, _ => None
  end.

(* ---------------------------------------------------------------- rendering *)

(* strftime('%Y-%m-%dT%H:%M:%SZ') of the UTC datetime (used for years 1000..9999 only) *)
Definition render_rfc (z : Z) : bytes :=
  let tod := z mod 86400 in
  let '(y, m, d) := civil_from_days (z / 86400) in
  digits4 y ++ c_dash :: digits2 m ++ c_dash :: digits2 d ++ c_T ::
  digits2 (tod / 3600) ++ c_colon :: digits2 (tod mod 3600 / 60) ++ c_colon :: digits2 (tod mod 60) ++ [c_Z].

(* str(int) *)
Fixpoint uint_bytes (u : Decimal.uint) : bytes :=
  match u with
  | Nil => []
  | D0 r => x30 :: uint_bytes r | D1 r => x31 :: uint_bytes r | D2 r => x32 :: uint_bytes r
  | D3 r => x33 :: uint_bytes r | D4 r => x34 :: uint_bytes r | D5 r => x35 :: uint_bytes r
  | D6 r => x36 :: uint_bytes r | D7 r => x37 :: uint_bytes r | D8 r => x38 :: uint_bytes r
  | D9 r => x39 :: uint_bytes r
  end.

Definition dec_of_Z (z : Z) : bytes :=
  match Z.to_int z with
  | Pos u => uint_bytes u
  | Neg u => c_dash :: uint_bytes u
  end.

(* format_timestamp *)
Definition format_timestamp (z : Z) : bytes :=
  if in_rfc_range z then render_rfc z else dec_of_Z z.

(* ---------------------------------------------------------------- int(str) *)

(* the ASCII whitespace int(str) ignores at both ends: \t \n \v \f \r and space *)
Definition py_space (b : byte) : bool :=
  match b with
  | x09 | x0a | x0b | x0c | x0d | x20 => true
  | _ => false
  end.

Fixpoint lstrip_sp (s : bytes) : bytes :=
  match s with
  | c :: r => if py_space c then lstrip_sp r else s
  | [] => []
  end.

Fixpoint rstrip_sp (s : bytes) : bytes :=
  match s with
  | [] => []
  | c :: r => match rstrip_sp r with
              | [] => if py_space c then [] else [c]
              | r' => c :: r'
              end
  end.

Definition push_digit (c : byte) (u : Decimal.uint) : option Decimal.uint :=
  match c with
  | x30 => Some (D0 u) | x31 => Some (D1 u) | x32 => Some (D2 u) | x33 => Some (D3 u)
  | x34 => Some (D4 u) | x35 => Some (D5 u) | x36 => Some (D6 u) | x37 => Some (D7 u)
  | x38 => Some (D8 u) | x39 => Some (D9 u)
  | _ => None
  end.

(* digits with single underscores between them; [after_digit]: the previous character was a digit *)
Fixpoint digits_us (after_digit : bool) (s : bytes) : option Decimal.uint :=
  match s with
  | [] => if after_digit then Some Nil else None
  | c :: r =>
      if byte_eqb c c_us then (if after_digit then digits_us false r else None)
      else match digits_us true r with
           | Some u => push_digit c u
           | None => None
           end
  end.

Definition parse_int (s : bytes) : result Z :=
  let t := rstrip_sp (lstrip_sp s) in
  let '(neg, body) := match t with
                      | c :: r => if byte_eqb c c_dash then (true, r)
                                  else if byte_eqb c c_plus then (false, r) else (false, t)
                      | [] => (false, [])
                      end in
  match body with
  | [] => Reject
  | _ => match digits_us false body with
         | Some u => Ok (Z.of_int (if neg then Neg u else Pos u))
         | None => Reject
         end
  end.

(* ---------------------------------------------------------------- RFC 3339 parsing *)

(* after the seconds: optional fraction, then "Z" or "+hh:mm" / "-hh:mm", then (regex `$`)
   optionally one final newline.  Result: (fraction has a non-zero digit, offset seconds). *)
Fixpoint skip_digits (s : bytes) : bytes :=
  match s with
  | c :: r => if is_digit c then skip_digits r else s
  | [] => []
  end.

Fixpoint any_nonzero_digit (s : bytes) : bool :=
  match s with
  | c :: r => if is_digit c then negb (byte_eqb c x30) || any_nonzero_digit r else false
  | [] => false
  end.

Definition end_ok (s : bytes) : bool :=
  match s with [] => true | [c] => byte_eqb c c_nl | _ => false end.

Definition parse_zone (s : bytes) : option Z :=
  match s with
  | c :: r =>
      if byte_eqb c c_Z then (if end_ok r then Some 0 else None)
      else if byte_eqb c c_plus || byte_eqb c c_dash then
        match r with
        | h1 :: h2 :: c1 :: m1 :: m2 :: e =>
            match num2 h1 h2, num2 m1 m2 with
            | Some h, Some m =>
                if byte_eqb c1 c_colon && end_ok e && (h <=? 23) && (m <=? 59)
                then Some ((if byte_eqb c c_dash then -1 else 1) * (h * 3600 + m * 60))
                else None
            | _, _ => None
            end
        | _ => None
        end
      else None
  | [] => None
  end.

Definition parse_tail (s : bytes) : option (bool * Z) :=
  match s with
  | c :: r =>
      if byte_eqb c c_dot then
        match r with
        | d :: _ => if is_digit d then
                      match parse_zone (skip_digits r) with
                      | Some off => Some (any_nonzero_digit r, off)
                      | None => None
                      end
                    else None
        | [] => None
        end
      else match parse_zone s with Some off => Some (false, off) | None => None end
  | [] => None
  end.

Definition valid_fields (y m d h mi s : Z) : bool :=
  (1 <=? y) && (y <=? 9999) && (1 <=? m) && (m <=? 12) && (1 <=? d) && (d <=? month_days y m)
  && (h <=? 23) && (mi <=? 59) && (s <=? 59).

(* int(strict_rfc3339.rfc3339_to_timestamp(s)); None = InvalidRFC3339Error *)
Definition parse_rfc (str : bytes) : option Z :=
  match str with
  | y1 :: y2 :: y3 :: y4 :: c1 :: m1 :: m2 :: c2 :: d1 :: d2 :: c3 ::
    h1 :: h2 :: c4 :: i1 :: i2 :: c5 :: s1 :: s2 :: rest =>
      if byte_eqb c1 c_dash && byte_eqb c2 c_dash && byte_eqb c3 c_T
         && byte_eqb c4 c_colon && byte_eqb c5 c_colon then
        match num4 y1 y2 y3 y4, num2 m1 m2, num2 d1 d2, num2 h1 h2, num2 i1 i2, num2 s1 s2,
              parse_tail rest with
        | Some y, Some m, Some d, Some h, Some mi, Some s, Some (frac, off) =>
            if valid_fields y m d h mi s then
              let t := days_from_civil y m d * 86400 + h * 3600 + mi * 60 + s - off in
              (* int() truncates towards zero *)
              Some (if frac && (t <? 0) then t + 1 else t)
            else None
        | _, _, _, _, _, _, _ => None
        end
      else None
  | _ => None
  end.

(* optimize_timestamp *)
Definition parse_ts (s : bytes) : result Z :=
  match parse_rfc s with
  | Some z => Ok z
  | None => parse_int s
  end.
