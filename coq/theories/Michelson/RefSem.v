(* Michelson/RefSem.v — REFERENCE semantics of the fragment: a transcription of the rules of the Michelson
   reference (https://tezos.gitlab.io/michelson-reference/): the stack is a list whose head is the top,
   DIP is recursive on the tail, values are untyped data. Nothing here looks at pytezos.

   [ref_eval fuel code stack]: [Done s] normal termination, [Failed v] FAILWITH with value v, [OutOfFuel]
   (only LOOP / LOOP_LEFT can diverge, but every nesting level consumes fuel), [Stuck] = no rule applies
   (impossible for well-typed code: theorem C01_ref_progress). *)
From Coq Require Import List ZArith Bool Arith.
From PV Require Import Base.Bytes Michelson.Instr.
Import ListNotations.

Inductive outcome : Type :=
| Done (s : list value)
| Failed (v : value)
| RtError      (* a run-time failure other than FAILWITH that the reference prescribes: shift by more than 256 *)
| OutOfFuel
| Stuck.

Definition Z_of_comparison (c : comparison) : Z :=
  match c with Lt => (-1)%Z | Eq => 0%Z | Gt => 1%Z end.

(* EDIV: Euclidean division: a = b * q + r with 0 <= r < |b| (lemma euclid_spec in Proofs/RefSem_proofs.v) *)
Definition euclid_q (a b : Z) : Z := (Z.sgn b * (a / Z.abs b))%Z.
Definition euclid_r (a b : Z) : Z := (a mod Z.abs b)%Z.
Definition ref_ediv (a b : Z) : value :=
  if (b =? 0)%Z then VNone
  else VSome (VPair (VInt (euclid_q a b)) (VInt (euclid_r a b))).
(* mutez / nat -> (mutez, mutez);  mutez / mutez -> (nat, mutez) *)
Definition ref_ediv_mutez_nat (a b : Z) : value :=
  if (b =? 0)%Z then VNone
  else VSome (VPair (VMutez (euclid_q a b)) (VMutez (euclid_r a b))).
Definition ref_ediv_mutez_mutez (a b : Z) : value :=
  if (b =? 0)%Z then VNone
  else VSome (VPair (VInt (euclid_q a b)) (VMutez (euclid_r a b))).
(* mutez results must fit in 63 bits, otherwise the instruction fails *)
Definition mutez_result (z : Z) (r : list value) : outcome :=
  if (z <? mutez_bound)%Z then Done (VMutez z :: r) else RtError.

Fixpoint concat_strs (l : list value) : option bytes :=
  match l with
  | [] => Some []
  | VStr s :: r => option_map (fun t => s ++ t) (concat_strs r)
  | _ => None
  end.

(* ---- sets and maps: strictly sorted lists (of elements / of entries VPair key value) ---- *)
Fixpoint v_set_mem (x : value) (l : list value) : option bool :=
  match l with
  | [] => Some false
  | y :: r => match v_compare x y with
              | Some Eq => Some true
              | Some _ => v_set_mem x r
              | None => None
              end
  end.
Fixpoint v_set_add (x : value) (l : list value) : option (list value) :=
  match l with
  | [] => Some [x]
  | y :: r => match v_compare x y with
              | Some Lt => Some (x :: y :: r)
              | Some Eq => Some (y :: r)
              | Some Gt => option_map (cons y) (v_set_add x r)
              | None => None
              end
  end.
Fixpoint v_set_remove (x : value) (l : list value) : option (list value) :=
  match l with
  | [] => Some []
  | y :: r => match v_compare x y with
              | Some Eq => Some r
              | Some _ => option_map (cons y) (v_set_remove x r)
              | None => None
              end
  end.
Fixpoint v_map_get (k : value) (l : list value) : option (option value) :=
  match l with
  | [] => Some None
  | VPair k' v :: r => match v_compare k k' with
                       | Some Eq => Some (Some v)
                       | Some _ => v_map_get k r
                       | None => None
                       end
  | _ :: _ => None
  end.
Fixpoint v_map_set (k v : value) (l : list value) : option (list value) :=
  match l with
  | [] => Some [VPair k v]
  | VPair k' v' :: r => match v_compare k k' with
                        | Some Lt => Some (VPair k v :: VPair k' v' :: r)
                        | Some Eq => Some (VPair k v :: r)
                        | Some Gt => option_map (cons (VPair k' v')) (v_map_set k v r)
                        | None => None
                        end
  | _ :: _ => None
  end.
Fixpoint v_map_remove (k : value) (l : list value) : option (list value) :=
  match l with
  | [] => Some []
  | VPair k' v' :: r => match v_compare k k' with
                        | Some Eq => Some r
                        | Some _ => option_map (cons (VPair k' v')) (v_map_remove k r)
                        | None => None
                        end
  | _ :: _ => None
  end.
Definition v_map_update (k : value) (ov : value) (l : list value) : option (list value) :=
  match ov with
  | VSome v => v_map_set k v l
  | VNone => v_map_remove k l
  | _ => None
  end.
Definition v_of_option (o : option value) : value := match o with Some v => VSome v | None => VNone end.
(* MAP on a map keeps the keys *)
Fixpoint v_rekey (entries ys : list value) : list value :=
  match entries, ys with
  | e :: r, y :: s => VPair (v_key e) y :: v_rekey r s
  | _, _ => []
  end.

Definition zcmp (i : instr) (z : Z) : bool :=
  match i with
  | I_EQ => (z =? 0)%Z
  | I_NEQ => negb (z =? 0)%Z
  | I_LT => (z <? 0)%Z
  | I_GT => (0 <? z)%Z
  | I_LE => (z <=? 0)%Z
  | _ => (0 <=? z)%Z  (* I_GE *)
  end.

(* rules  I / a : b : S  =>  c : S  of the instructions without sub-programs *)
Definition ref_simple (e : env) (i : instr) (s : list value) : outcome :=
  match i with
  | I_DROP _ | I_DUP _ | I_DIG _ | I_DUG _ => match shuffle i s with Some s' => Done s' | None => Stuck end
  | I_SWAP => match s with a :: b :: r => Done (b :: a :: r) | _ => Stuck end
  | I_PUSH _ d => Done (value_of_data d :: s)
  | I_PAIR => match s with a :: b :: r => Done (VPair a b :: r) | _ => Stuck end
  | I_UNPAIR => match s with VPair a b :: r => Done (a :: b :: r) | _ => Stuck end
  | I_CAR => match s with VPair a _ :: r => Done (a :: r) | _ => Stuck end
  | I_CDR => match s with VPair _ b :: r => Done (b :: r) | _ => Stuck end
  | I_PAIRN n => if (2 <=? n) && (n <=? length s)
                 then match v_comb (firstn n s) with Some v => Done (v :: skipn n s) | None => Stuck end
                 else Stuck
  | I_UNPAIRN n => match s with
                   | v :: r => if 2 <=? n then match v_uncomb n v with Some l => Done (l ++ r) | None => Stuck end else Stuck
                   | [] => Stuck
                   end
  | I_GETN k => match s with
                | v :: r => match v_get_n k v with Some x => Done (x :: r) | None => Stuck end
                | [] => Stuck
                end
  | I_UPDATEN k => match s with
                   | x :: v :: r => match v_update_n k x v with Some y => Done (y :: r) | None => Stuck end
                   | _ => Stuck
                   end
  | I_LEFT _ => match s with a :: r => Done (VLeft a :: r) | _ => Stuck end
  | I_RIGHT _ => match s with a :: r => Done (VRight a :: r) | _ => Stuck end
  | I_SOME => match s with a :: r => Done (VSome a :: r) | _ => Stuck end
  | I_NONE _ => Done (VNone :: s)
  | I_UNIT => Done (VUnit :: s)
  | I_NIL _ => Done (VList [] :: s)
  | I_CONS => match s with a :: VList l :: r => Done (VList (a :: l) :: r) | _ => Stuck end
  | I_SIZE => match s with
              | VStr x :: r => Done (VInt (Z.of_nat (length x)) :: r)
              | VList l :: r | VSet l :: r | VMap l :: r => Done (VInt (Z.of_nat (length l)) :: r)
              | _ => Stuck
              end
  | I_LAMBDA a b body => Done (VLam a b body :: s)
  (* APPLY / a : f : S  =>  { PUSH 'a a ; PAIR ; code f } : S *)
  | I_APPLY => match s with
               | x :: VLam (TPair ta tb) c body :: r =>
                   match data_of_value ta x with
                   | Some d => Done (VLam tb c (I_SEQ (I_PUSH ta d) (I_SEQ I_PAIR (I_SEQ body I_NOOP))) :: r)
                   | None => Stuck
                   end
               | _ => Stuck
               end
  | I_EMPTY_SET _ => Done (VSet [] :: s)
  | I_EMPTY_MAP _ _ => Done (VMap [] :: s)
  | I_MEM => match s with
             | x :: VSet l :: r => match v_set_mem x l with Some b => Done (VBool b :: r) | None => Stuck end
             | x :: VMap l :: r => match v_map_get x l with
                                   | Some o => Done (VBool (match o with Some _ => true | None => false end) :: r)
                                   | None => Stuck
                                   end
             | _ => Stuck
             end
  | I_GET => match s with
             | x :: VMap l :: r => match v_map_get x l with Some o => Done (v_of_option o :: r) | None => Stuck end
             | _ => Stuck
             end
  | I_UPDATE => match s with
                | x :: VBool b :: VSet l :: r =>
                    match (if b then v_set_add x l else v_set_remove x l) with Some l' => Done (VSet l' :: r) | None => Stuck end
                | x :: ov :: VMap l :: r =>
                    match v_map_update x ov l with Some l' => Done (VMap l' :: r) | None => Stuck end
                | _ => Stuck
                end
  | I_GET_AND_UPDATE => match s with
                        | x :: ov :: VMap l :: r =>
                            match v_map_get x l, v_map_update x ov l with
                            | Some o, Some l' => Done (v_of_option o :: VMap l' :: r)
                            | _, _ => Stuck
                            end
                        | _ => Stuck
                        end
  | I_ADD => match s with
             | VInt a :: VInt b :: r => Done (VInt (a + b) :: r)
             | VMutez a :: VMutez b :: r => mutez_result (a + b) r
             | _ => Stuck
             end
  | I_SUB => match s with VInt a :: VInt b :: r => Done (VInt (a - b) :: r) | _ => Stuck end
  | I_MUL => match s with
             | VInt a :: VInt b :: r => Done (VInt (a * b) :: r)
             | VMutez a :: VInt b :: r | VInt a :: VMutez b :: r => mutez_result (a * b) r
             | _ => Stuck
             end
  | I_SUB_MUTEZ => match s with
                   | VMutez a :: VMutez b :: r => Done ((if (b <=? a)%Z then VSome (VMutez (a - b)) else VNone) :: r)
                   | _ => Stuck
                   end
  | I_AMOUNT => Done (VMutez (e_amount e) :: s)
  | I_BALANCE => Done (VMutez (e_balance e) :: s)
  | I_SENDER => Done (VStr (e_sender e) :: s)
  | I_SOURCE => Done (VStr (e_source e) :: s)
  | I_SELF_ADDRESS => Done (VStr (e_self e) :: s)
  | I_NOW => Done (VInt (e_now e) :: s)
  | I_LEVEL => Done (VInt (e_level e) :: s)
  | I_CHAIN_ID => Done (VStr (e_chain_id e) :: s)
  | I_EDIV => match s with
              | VInt a :: VInt b :: r => Done (ref_ediv a b :: r)
              | VMutez a :: VInt b :: r => Done (ref_ediv_mutez_nat a b :: r)
              | VMutez a :: VMutez b :: r => Done (ref_ediv_mutez_mutez a b :: r)
              | _ => Stuck
              end
  | I_NEG => match s with VInt a :: r => Done (VInt (- a) :: r) | _ => Stuck end
  | I_ABS => match s with VInt a :: r => Done (VInt (Z.abs a) :: r) | _ => Stuck end
  | I_ISNAT => match s with
               | VInt a :: r => Done ((if (0 <=? a)%Z then VSome (VInt a) else VNone) :: r)
               | _ => Stuck
               end
  | I_INT => match s with VInt a :: r => Done (VInt a :: r) | _ => Stuck end
  | I_COMPARE => match s with
                 | a :: b :: r => match v_compare a b with
                                  | Some c => Done (VInt (Z_of_comparison c) :: r)
                                  | None => Stuck
                                  end
                 | _ => Stuck
                 end
  | I_EQ | I_NEQ | I_LT | I_GT | I_LE | I_GE =>
      match s with VInt a :: r => Done (VBool (zcmp i a) :: r) | _ => Stuck end
  | I_AND => match s with
             | VBool a :: VBool b :: r => Done (VBool (a && b) :: r)
             | VInt a :: VInt b :: r => Done (VInt (Z.land a b) :: r)
             | _ => Stuck
             end
  | I_OR => match s with
            | VBool a :: VBool b :: r => Done (VBool (a || b) :: r)
            | VInt a :: VInt b :: r => Done (VInt (Z.lor a b) :: r)
            | _ => Stuck
            end
  | I_XOR => match s with
             | VBool a :: VBool b :: r => Done (VBool (xorb a b) :: r)
             | VInt a :: VInt b :: r => Done (VInt (Z.lxor a b) :: r)
             | _ => Stuck
             end
  | I_NOT => match s with
             | VBool a :: r => Done (VBool (negb a) :: r)
             | VInt a :: r => Done (VInt (- a - 1) :: r)      (* two's complement *)
             | _ => Stuck
             end
  | I_LSL => match s with
             | VInt a :: VInt b :: r => if (b <=? 256)%Z then Done (VInt (a * 2 ^ b) :: r) else RtError
             | _ => Stuck
             end
  | I_LSR => match s with
             | VInt a :: VInt b :: r => if (b <=? 256)%Z then Done (VInt (a / 2 ^ b) :: r) else RtError
             | _ => Stuck
             end
  | I_SLICE => match s with
               | VInt o :: VInt l :: VStr x :: r =>
                   Done ((if (o <? Z.of_nat (length x))%Z && (o + l <=? Z.of_nat (length x))%Z
                          then VSome (VStr (firstn (Z.to_nat l) (skipn (Z.to_nat o) x)))
                          else VNone) :: r)
               | _ => Stuck
               end
  | I_CONCAT => match s with
                | VStr a :: VStr b :: r => Done (VStr (a ++ b) :: r)
                | VList l :: r => match concat_strs l with
                                  | Some x => Done (VStr x :: r)
                                  | None => Stuck
                                  end
                | _ => Stuck
                end
  | I_FAILWITH => match s with a :: _ => Failed a | [] => Stuck end
  | _ => Stuck
  end.

(* ITER body / {hd ; tl} : S  =>  ITER body / tl : S'   where body / hd : S => S' *)
Fixpoint ref_iter (run : list value -> outcome) (l : list value) (s : list value) : outcome :=
  match l with
  | [] => Done s
  | x :: r => match run (x :: s) with
              | Done s1 => ref_iter run r s1
              | o => o
              end
  end.

(* MAP body / {hd ; tl} : S  =>  {hd' ; tl'} : S''   where body / hd : S => hd' : S'  and  MAP body / tl : S' => tl' : S'' *)
Inductive mapres : Type :=
| MDone (ys : list value) (s : list value)
| MStop (o : outcome).

Fixpoint ref_map (run : list value -> outcome) (l : list value) (s : list value) : mapres :=
  match l with
  | [] => MDone [] s
  | x :: r => match run (x :: s) with
              | Done (y :: s1) => match ref_map run r s1 with
                                  | MDone ys s2 => MDone (y :: ys) s2
                                  | m => m
                                  end
              | Done [] => MStop Stuck
              | o => MStop o
              end
  end.

Fixpoint ref_eval (e : env) (fuel : nat) (i : instr) (s : list value) {struct fuel} : outcome :=
  match fuel with
  | 0 => OutOfFuel
  | S f =>
      match i with
      | I_NOOP => Done s
      | I_SEQ a b => match ref_eval e f a s with
                     | Done s1 => ref_eval e f b s1
                     | o => o
                     end
      | I_DIP n c =>
          if n <=? length s then
            match ref_eval e f c (skipn n s) with
            | Done r => Done (firstn n s ++ r)
            | o => o
            end
          else Stuck
      | I_IF bt bf => match s with
                      | VBool true :: r => ref_eval e f bt r
                      | VBool false :: r => ref_eval e f bf r
                      | _ => Stuck
                      end
      | I_IF_NONE bt bf => match s with
                           | VNone :: r => ref_eval e f bt r
                           | VSome a :: r => ref_eval e f bf (a :: r)
                           | _ => Stuck
                           end
      | I_IF_LEFT bt bf => match s with
                           | VLeft a :: r => ref_eval e f bt (a :: r)
                           | VRight b :: r => ref_eval e f bf (b :: r)
                           | _ => Stuck
                           end
      | I_IF_CONS bt bf => match s with
                           | VList (h :: t) :: r => ref_eval e f bt (h :: VList t :: r)
                           | VList [] :: r => ref_eval e f bf r
                           | _ => Stuck
                           end
      | I_LOOP c => match s with
                    | VBool true :: r => match ref_eval e f c r with
                                         | Done s1 => ref_eval e f (I_LOOP c) s1
                                         | o => o
                                         end
                    | VBool false :: r => Done r
                    | _ => Stuck
                    end
      | I_LOOP_LEFT c => match s with
                         | VLeft a :: r => match ref_eval e f c (a :: r) with
                                           | Done s1 => ref_eval e f (I_LOOP_LEFT c) s1
                                           | o => o
                                           end
                         | VRight b :: r => Done (b :: r)
                         | _ => Stuck
                         end
      | I_ITER c => match s with
                    | VList l :: r | VSet l :: r | VMap l :: r => ref_iter (ref_eval e f c) l r   (* a map yields its entries as pairs *)
                    | _ => Stuck
                    end
      | I_MAP c => match s with
                   | VList l :: r => match ref_map (ref_eval e f c) l r with
                                     | MDone ys s1 => Done (VList ys :: s1)
                                     | MStop o => o
                                     end
                   | VMap l :: r => match ref_map (ref_eval e f c) l r with
                                    | MDone ys s1 => Done (VMap (v_rekey l ys) :: s1)
                                    | MStop o => o
                                    end
                   | _ => Stuck
                   end
      (* EXEC / a : f : S  =>  r : S   where code f / a : [] => r : [] *)
      | I_EXEC => match s with
                  | x :: VLam _ _ body :: r => match ref_eval e f body [x] with
                                               | Done [y] => Done (y :: r)
                                               | Done _ => Stuck
                                               | o => o
                                               end
                  | _ => Stuck
                  end
      | _ => ref_simple e i s
      end
  end.

(* a session of cells on one stack: a cell that does not terminate normally leaves the stack as it was *)
Fixpoint ref_session (e : env) (fuel : nat) (cells : list instr) (s : list value) : list (outcome * list value) :=
  match cells with
  | [] => []
  | c :: r => match ref_eval e fuel c s with
              | Done s' => (Done s', s') :: ref_session e fuel r s'
              | o => (o, s) :: ref_session e fuel r s
              end
  end.

(* ---- equalities for the harness ---- *)
Definition outcome_eqb (a b : outcome) : bool :=
  match a, b with
  | Done x, Done y => list_eqb value_eqb x y
  | Failed x, Failed y => value_eqb x y
  | RtError, RtError => true
  | OutOfFuel, OutOfFuel => true
  | Stuck, Stuck => true
  | _, _ => false
  end.
