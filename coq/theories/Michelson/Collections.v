(* Michelson/Collections.v — model of pytezos' set and map values
   (types/set.py, types/map.py) and of the instructions that act on them
   (instructions/struct.py UPDATE / GET / GET_AND_UPDATE / MEM, generic.py SIZE,
   control.py MAP / ITER), over an arbitrary key type with the two Python relations
   [eqb] (== , __eq__) and [ltb] (< , __lt__) the code really uses.
   A set is its [items] list, a map its [items] list of pairs.  No proofs here. *)
From Coq Require Import List Bool Arith.
From PV Require Import Base.Bytes Base.Result Michelson.Compare.
Import ListNotations.

Section Coll.
  Variables K V : Type.
  Variable eqb : K -> K -> bool.   (* a == b *)
  Variable ltb : K -> K -> bool.   (* a < b  *)

  (* ---- sorted(items, key=...): a stable sort that only calls [<] on keys.
     Modelled as stable insertion (fold from the right; an element goes in front of the first
     element that is not smaller than it). Python's Timsort is tied to this by the
     correspondence run. *)
  Fixpoint insert_by {A} (key : A -> K) (x : A) (l : list A) : list A :=
    match l with
    | [] => [x]
    | y :: r => if ltb (key y) (key x) then y :: insert_by key x r else x :: l
    end.

  Definition sorted_by {A} (key : A -> K) (l : list A) : list A :=
    fold_right (insert_by key) [] l.

  Definition py_sorted (l : list K) : list K := sorted_by (fun x => x) l.

  (* len(set(xs)) == len(xs): no two elements are == *)
  Fixpoint nodupb (l : list K) : bool :=
    match l with
    | [] => true
    | x :: r => negb (existsb (fun y => eqb x y) r) && nodupb r
    end.

  (* check_constraints (set.py:47-50, map.py:56-60): no duplicates and keys == sorted(keys) *)
  Definition check_constraints (keys : list K) : bool :=
    nodupb keys && list_eqb eqb keys (py_sorted keys).

  (* ================================================================ sets *)

  (* SetType.contains: item in self.items *)
  Definition set_contains (x : K) (s : list K) : bool := existsb (fun y => eqb y x) s.

  (* SetType.add: copy if present, else sorted([item] + items) *)
  Definition set_add (x : K) (s : list K) : list K :=
    if set_contains x s then s else py_sorted (x :: s).

  (* SetType.remove: filter(lambda y: y != item) if present *)
  Definition set_remove (x : K) (s : list K) : list K :=
    if set_contains x s then filter (fun y => negb (eqb y x)) s else s.

  (* UPDATE on a set *)
  Definition set_update (x : K) (b : bool) (s : list K) : list K :=
    if b then set_add x s else set_remove x s.

  (* PUSH (set k) { ... } / from_micheline_value *)
  Definition set_literal (l : list K) : result (list K) :=
    if check_constraints l then Ok l else Reject.

  Definition set_size (s : list K) : nat := length s.

  (* ================================================================ maps *)

  Definition keys (m : list (K * V)) : list K := map fst m.

  (* MapType.get: next((v for k, v in items if k == key), None) *)
  Fixpoint map_get (k : K) (m : list (K * V)) : option V :=
    match m with
    | [] => None
    | (k', v) :: r => if eqb k' k then Some v else map_get k r
    end.

  Definition map_mem (k : K) (m : list (K * V)) : bool :=
    match map_get k m with Some _ => true | None => false end.

  (* MapType.update: the four branches; returns (previous value, new map) *)
  Definition map_update (k : K) (vo : option V) (m : list (K * V)) : option V * list (K * V) :=
    let prev := map_get k m in
    (prev,
     match prev, vo with
     | Some _, Some v => map (fun kv => (fst kv, if negb (eqb (fst kv) k) then snd kv else v)) m
     | Some _, None => filter (fun kv => negb (eqb (fst kv) k)) m
     | None, Some v => sorted_by fst (m ++ [(k, v)])
     | None, None => m
     end).

  (* PUSH (map k v) { Elt ... } / from_micheline_value / from_items *)
  Definition map_literal (l : list (K * V)) : result (list (K * V)) :=
    if check_constraints (keys l) then Ok l else Reject.

  (* MAP { body } over a map: body sees (key, value), the key is kept; a non-empty result
     goes through MapType.from_items (constraints re-checked), an empty map is returned as is *)
  Definition map_map (f : K -> V -> V) (m : list (K * V)) : result (list (K * V)) :=
    match m with
    | [] => Ok m
    | _ => map_literal (map (fun kv => (fst kv, f (fst kv) (snd kv))) m)
    end.

  Definition map_size (m : list (K * V)) : nat := length m.

  (* ================================================================ histories *)

  Inductive set_op :=
  | SUpdate (x : K) (b : bool)        (* PUSH k x; PUSH bool b; UPDATE *)
  | SLiteral (l : list K).            (* DROP; PUSH (set k) l  (state unchanged when the literal is rejected) *)

  Definition set_step (s : list K) (op : set_op) : list K :=
    match op with
    | SUpdate x b => set_update x b s
    | SLiteral l => match set_literal l with Ok s' => s' | Reject => s end
    end.

  Definition set_run (ops : list set_op) : list K := fold_left set_step ops [].

  Inductive map_op :=
  | MUpdate (k : K) (vo : option V)           (* UPDATE *)
  | MGetAndUpdate (k : K) (vo : option V)     (* GET_AND_UPDATE (the previous value is an observation) *)
  | MMap (f : K -> V -> V)                    (* MAP { body } *)
  | MLiteral (l : list (K * V)).              (* DROP; PUSH (map k v) l *)

  Definition map_step (m : list (K * V)) (op : map_op) : list (K * V) :=
    match op with
    | MUpdate k vo => snd (map_update k vo m)
    | MGetAndUpdate k vo => snd (map_update k vo m)
    | MMap f => match map_map f m with Ok m' => m' | Reject => m end
    | MLiteral l => match map_literal l with Ok m' => m' | Reject => m end
    end.

  Definition map_run (ops : list map_op) : list (K * V) := fold_left map_step ops [].

  (* ================================================================ the reference dictionary *)

  (* a finite map as a function; a set as a membership function *)
  Definition dict := K -> option V.
  Definition d_empty : dict := fun _ => None.
  Definition d_update (k : K) (vo : option V) (d : dict) : dict :=
    fun k' => if eqb k' k then vo else d k'.
  Definition d_map (f : K -> V -> V) (d : dict) : dict :=
    fun k => match d k with Some v => Some (f k v) | None => None end.
  Definition d_of_list (l : list (K * V)) : dict := fun k => map_get k l.

  (* strictly increasing by [ltb] (boolean, for the literal rule of the reference) *)
  Fixpoint incr (l : list K) : bool :=
    match l with
    | [] => true
    | x :: r => match r with [] => true | y :: _ => ltb x y && incr r end
    end.

  Definition d_step (d : dict) (op : map_op) : dict :=
    match op with
    | MUpdate k vo => d_update k vo d
    | MGetAndUpdate k vo => d_update k vo d
    | MMap f => d_map f d
    | MLiteral l => if incr (keys l) then d_of_list l else d
    end.

  Definition d_run (ops : list map_op) : dict := fold_left d_step ops d_empty.

  Definition mset := K -> bool.
  Definition ms_step (s : mset) (op : set_op) : mset :=
    match op with
    | SUpdate x b => fun y => if eqb y x then b else s y
    | SLiteral l => if incr l then (fun y => existsb (fun z => eqb z y) l) else s
    end.
  Definition ms_run (ops : list set_op) : mset := fold_left ms_step ops (fun _ => false).
End Coll.

Arguments insert_by {K} ltb {A} key x l.
Arguments sorted_by {K} ltb {A} key l.
Arguments py_sorted {K} ltb l.
Arguments nodupb {K} eqb l.
Arguments check_constraints {K} eqb ltb keys.
Arguments set_contains {K} eqb x s.
Arguments set_add {K} eqb ltb x s.
Arguments set_remove {K} eqb x s.
Arguments set_update {K} eqb ltb x b s.
Arguments set_literal {K} eqb ltb l.
Arguments set_size {K} s.
Arguments keys {K V} m.
Arguments map_get {K V} eqb k m.
Arguments map_mem {K V} eqb k m.
Arguments map_update {K V} eqb ltb k vo m.
Arguments map_literal {K V} eqb ltb l.
Arguments map_map {K V} eqb ltb f m.
Arguments map_size {K V} m.
Arguments SUpdate {K} x b.
Arguments SLiteral {K} l.
Arguments set_step {K} eqb ltb s op.
Arguments set_run {K} eqb ltb ops.
Arguments MUpdate {K V} k vo.
Arguments MGetAndUpdate {K V} k vo.
Arguments MMap {K V} f.
Arguments MLiteral {K V} l.
Arguments map_step {K V} eqb ltb m op.
Arguments map_run {K V} eqb ltb ops.
Arguments dict K V : clear implicits.
Arguments d_empty {K V}.
Arguments d_update {K V} eqb k vo d.
Arguments d_map {K V} f d.
Arguments d_of_list {K V} eqb l.
Arguments incr {K} ltb l.
Arguments d_step {K V} eqb ltb d op.
Arguments d_run {K V} eqb ltb ops.
Arguments mset K : clear implicits.
Arguments ms_step {K} eqb ltb s op.
Arguments ms_run {K} eqb ltb ops.

(* ---------------------------------------------------------------- interface for the correspondence runs
   (keys are Michelson values compared with pytezos' == and <, Michelson/Compare.v) *)

Definition accepted {A} (r : result A) : bool := match r with Ok _ => true | Reject => false end.

(* C03: a set built by UPDATEs, and a set literal: (final items, literal accepted?) *)
Definition set_order_case (x : text_tables * list (val * bool) * list val) : list val * bool :=
  let '(tb, ups, lit) := x in
  let T := texts_of tb in
  (set_run (py_eq T) (py_lt T) (map (fun vb => SUpdate (fst vb) (snd vb)) ups),
   accepted (set_literal (py_eq T) (py_lt T) lit)).

Definition set_order_eqb (a b : list val * bool) : bool :=
  list_eqb val_eqb (fst a) (fst b) && Bool.eqb (snd a) (snd b).

(* C14: instruction-level scripts over one set / one map (map values: int), observing the whole
   collection after every instruction. Generic in the key type like the rest of the file. *)
From Coq Require Import ZArith.

Section Scripts.
  Variable K : Type.
  Variable eqb : K -> K -> bool.
  Variable ltb : K -> K -> bool.

  Inductive obs :=
  | ONone                              (* the instruction leaves nothing but the collection *)
  | OFail                              (* the instruction failed; the collection is unchanged *)
  | OBool (b : bool)                   (* MEM *)
  | ONat (n : nat)                     (* SIZE *)
  | OOpt (o : option Z)                (* GET, GET_AND_UPDATE *)
  | OKeys (l : list K)                 (* ITER { CONS } over a set, in iteration order *)
  | OElts (l : list (K * Z)).          (* ITER { CONS } over a map *)

  Inductive set_instr :=
  | SIUpdate (v : K) (b : bool) | SIMem (v : K) | SISize | SIIter | SIPush (l : list K).

  Inductive map_instr :=
  | MIUpdate (k : K) (vo : option Z) | MIGetAndUpdate (k : K) (vo : option Z)
  | MIGet (k : K) | MIMem (k : K) | MISize | MIIter
  | MIMapAdd (c : Z)        (* MAP { CDR; PUSH int c; ADD } *)
  | MIMapConst (c : Z)      (* MAP { DROP; PUSH int c } *)
  | MIPush (l : list (K * Z)).

  Definition set_instr_step (s : list K) (i : set_instr) : list K * obs :=
    match i with
    | SIUpdate v b => (set_update eqb ltb v b s, ONone)
    | SIMem v => (s, OBool (set_contains eqb v s))
    | SISize => (s, ONat (set_size s))
    | SIIter => (s, OKeys s)
    | SIPush l => match set_literal eqb ltb l with Ok s' => (s', ONone) | Reject => (s, OFail) end
    end.

  Fixpoint set_script (s : list K) (is : list set_instr) : list (list K * obs) :=
    match is with
    | [] => []
    | i :: r => let so := set_instr_step s i in so :: set_script (fst so) r
    end.

  Definition map_instr_step (m : list (K * Z)) (i : map_instr) : list (K * Z) * obs :=
    match i with
    | MIUpdate k vo => (snd (map_update eqb ltb k vo m), ONone)
    | MIGetAndUpdate k vo => let r := map_update eqb ltb k vo m in (snd r, OOpt (fst r))
    | MIGet k => (m, OOpt (map_get eqb k m))
    | MIMem k => (m, OBool (map_mem eqb k m))
    | MISize => (m, ONat (map_size m))
    | MIIter => (m, OElts m)
    | MIMapAdd c => match map_map eqb ltb (fun _ v => (v + c)%Z) m with Ok m' => (m', ONone) | Reject => (m, OFail) end
    | MIMapConst c => match map_map eqb ltb (fun _ _ => c) m with Ok m' => (m', ONone) | Reject => (m, OFail) end
    | MIPush l => match map_literal eqb ltb l with Ok m' => (m', ONone) | Reject => (m, OFail) end
    end.

  Fixpoint map_script (m : list (K * Z)) (is : list map_instr) : list (list (K * Z) * obs) :=
    match is with
    | [] => []
    | i :: r => let mo := map_instr_step m i in mo :: map_script (fst mo) r
    end.

  (* the history (Collections ops) an instruction stands for; observers stand for no op *)
  Definition set_instr_op (i : set_instr) : option (set_op K) :=
    match i with
    | SIUpdate v b => Some (SUpdate v b)
    | SIPush l => Some (SLiteral l)
    | _ => None
    end.

  Definition map_instr_op (i : map_instr) : option (map_op K Z) :=
    match i with
    | MIUpdate k vo => Some (MUpdate k vo)
    | MIGetAndUpdate k vo => Some (MGetAndUpdate k vo)
    | MIMapAdd c => Some (MMap (fun _ v => (v + c)%Z))
    | MIMapConst c => Some (MMap (fun _ _ => c))
    | MIPush l => Some (MLiteral l)
    | _ => None
    end.

  Fixpoint ops_of {I O} (f : I -> option O) (is : list I) : list O :=
    match is with
    | [] => []
    | i :: r => match f i with Some o => o :: ops_of f r | None => ops_of f r end
    end.
End Scripts.

Arguments ONone {K}. Arguments OFail {K}. Arguments OBool {K} b. Arguments ONat {K} n. Arguments OOpt {K} o.
Arguments OKeys {K} l. Arguments OElts {K} l.
Arguments SIUpdate {K} v b. Arguments SIMem {K} v. Arguments SISize {K}. Arguments SIIter {K}. Arguments SIPush {K} l.
Arguments MIUpdate {K} k vo. Arguments MIGetAndUpdate {K} k vo. Arguments MIGet {K} k. Arguments MIMem {K} k.
Arguments MISize {K}. Arguments MIIter {K}. Arguments MIMapAdd {K} c. Arguments MIMapConst {K} c. Arguments MIPush {K} l.
Arguments set_instr_step {K} eqb ltb s i.
Arguments set_script {K} eqb ltb s is.
Arguments map_instr_step {K} eqb ltb m i.
Arguments map_script {K} eqb ltb m is.
Arguments set_instr_op {K} i.
Arguments map_instr_op {K} i.

(* ---- keys = Michelson values compared with pytezos' == and < *)

Definition elt_eqb (a b : val * Z) : bool := val_eqb (fst a) (fst b) && Z.eqb (snd a) (snd b).

Definition obs_eqb (a b : obs val) : bool :=
  match a, b with
  | ONone, ONone => true
  | OFail, OFail => true
  | OBool x, OBool y => Bool.eqb x y
  | ONat x, ONat y => Nat.eqb x y
  | OOpt x, OOpt y => option_eqb Z.eqb x y
  | OKeys x, OKeys y => list_eqb val_eqb x y
  | OElts x, OElts y => list_eqb elt_eqb x y
  | _, _ => false
  end.

Definition set_script_case (x : text_tables * list (set_instr val)) : list (list val * obs val) :=
  let T := texts_of (fst x) in set_script (py_eq T) (py_lt T) [] (snd x).
Definition set_script_eqb : list (list val * obs val) -> list (list val * obs val) -> bool :=
  list_eqb (fun a b => list_eqb val_eqb (fst a) (fst b) && obs_eqb (snd a) (snd b)).

Definition map_script_case (x : text_tables * list (map_instr val)) : list (list (val * Z) * obs val) :=
  let T := texts_of (fst x) in map_script (py_eq T) (py_lt T) [] (snd x).
Definition map_script_eqb : list (list (val * Z) * obs val) -> list (list (val * Z) * obs val) -> bool :=
  list_eqb (fun a b => list_eqb elt_eqb (fst a) (fst b) && obs_eqb (snd a) (snd b)).
