(* Michelson/Repl.v — model of a REPL session of pytezos' Interpreter (src/pytezos/michelson/repl.py):
   Interpreter.execute = backup (deepcopy of stack and context), run the cell, on failure restore.

   What is modelled, and where it lives in /repo/src/pytezos:
   * the session state: the stack (michelson/stack.py), whose big_maps hold a *reference* to an
     ExecutionContext (types/big_map.py: self.context), the interpreter's current context and the
     contexts that are only reachable through big_maps ("stale" ones);
   * ExecutionContext (context/impl.py): declared parameter / storage / code, tmp_big_map_index,
     alloc_big_map_index, the big_maps table, with get_tmp_big_map_id, register_big_map,
     get_big_map_diff, get_big_map_value (no shell);
   * BigMapType: attach_context, get, update, aggregate_lazy_diff, and __deepcopy__ as it is:
     the copy keeps the context reference, except that a context copied under the same memo is followed
     ([Rebind], /repo commit 26d2050); the behaviour before that commit is the mode [Alias];
   * the cell alphabet of property C22: type declarations (parameter / storage / code), pushes and
     stack shuffling, big_map creation and updates, BEGIN / COMMIT / RUN, BIG_MAP_DIFF, RESET;
     every instruction fails exactly when the Python code raises (stack underflow, ill-typed operand or
     literal, mutez overflow, FAILWITH, undeclared sections, network access without a shell);
     a cell that does not parse / match fails before executing anything ([CBad], invalid types).
   * control instructions with nested bodies: DIP, DIP n, IF, IF_NONE, IF_CONS, LOOP, ITER and MAP over
     lists of atoms, nested sequences; lambdas as values carrying code with LAMBDA / APPLY / EXEC; CONS;
     PATCH AMOUNT / BALANCE / NOW.  Failures occur at any position inside the bodies, also inside a
     lambda stored on the stack by an earlier cell.  LOOP iterations and EXEC depth are bounded by fuel;
     running out of it is the distinguished result [RFuel], which the theorems exclude.
   Not modelled: stdout text, debug mode (re-raises by design), annotations, n-ary pair literals, lists
   of non-atoms, or / set / map and their instructions, LOOP_LEFT, LAMBDA_REC, lambda literals in PUSH,
   PATCH of sender / source / chain_id, big_map *values* that themselves contain a big_map (pytezos'
   type check tests the key type by mistake; Tezos forbids them; the model's UPDATE rejects them), and
   nested DIPs that reach below the bottom of the stack (pytezos' stack.protect only checks the total
   length; see [mexec]). *)
From Coq Require Import List ZArith Bool Arith Lia.
From Coq.Strings Require Import Byte.
From Coq Require Import String.
From PV Require Import Base.Bytes Codec.Micheline.
Import ListNotations.
Local Open Scope Z_scope.

(* ------------------------------------------------------------------------------------------ *)
(* types                                                                                      *)
(* ------------------------------------------------------------------------------------------ *)

Inductive ty :=
| TUnit | TInt | TNat | TString | TMutez | TOperation
| TPair (a b : ty) | TOption (a : ty) | TList (a : ty) | TBigMap (k v : ty)
| TBool | TLambda (a r : ty).

Fixpoint ty_eqb (a b : ty) : bool :=
  match a, b with
  | TUnit, TUnit | TInt, TInt | TNat, TNat | TString, TString | TMutez, TMutez
  | TOperation, TOperation => true
  | TPair a1 a2, TPair b1 b2 => ty_eqb a1 b1 && ty_eqb a2 b2
  | TOption a1, TOption b1 => ty_eqb a1 b1
  | TList a1, TList b1 => ty_eqb a1 b1
  | TBigMap a1 a2, TBigMap b1 b2 => ty_eqb a1 b1 && ty_eqb a2 b2
  | TBool, TBool => true
  | TLambda a1 a2, TLambda b1 b2 => ty_eqb a1 b1 && ty_eqb a2 b2
  | _, _ => false
  end.

(* MichelsonType.is_comparable / is_pushable / is_big_map_friendly *)
Fixpoint comparable (t : ty) : bool :=
  match t with
  | TUnit | TInt | TNat | TString | TMutez | TBool => true
  | TPair a b => comparable a && comparable b
  | TOption a => comparable a
  | TOperation | TList _ | TBigMap _ _ | TLambda _ _ => false
  end.

Fixpoint pushable (t : ty) : bool :=
  match t with
  | TUnit | TInt | TNat | TString | TMutez | TBool => true
  | TPair a b => pushable a && pushable b
  | TOption a => pushable a
  | TList a => pushable a
  | TLambda _ _ => true
  | TOperation | TBigMap _ _ => false
  end.

(* MichelsonType.create_type: "big_map key type has to be comparable" (the big_map-friendliness
   assertion is applied to the key type there, which comparability already implies) *)
Fixpoint valid_ty (t : ty) : bool :=
  match t with
  | TPair a b => valid_ty a && valid_ty b
  | TOption a => valid_ty a
  | TList a => valid_ty a
  | TBigMap k v => comparable k && valid_ty k && valid_ty v
  | TLambda a r => valid_ty a && valid_ty r
  | _ => true
  end.

(* ------------------------------------------------------------------------------------------ *)
(* Michelson instructions (syntax); lambdas are values that carry code                        *)
(* ------------------------------------------------------------------------------------------ *)

(* context fields PATCH can set (the integer-valued ones) *)
Inductive pfield := PAmount | PBalance | PNow.

Inductive minstr :=
| MPush (t : ty) (lit : node)
| MDrop | MDup | MSwap | MPair | MUnpair | MCar | MCdr
| MSome | MNone (t : ty) | MNil (t : ty) | MUnit
| MEmptyBigMap (k v : ty) | MUpdate | MGet | MGetAndUpdate
| MAdd | MFailwith
| MDip (body : list minstr)            (* DIP { body } *)
| MIfNone (bt bf : list minstr)        (* IF_NONE { bt } { bf } *)
| MDipN (n : nat) (body : list minstr) (* DIP n { body } *)
| MIf (bt bf : list minstr)            (* IF { bt } { bf } *)
| MLoop (body : list minstr)           (* LOOP { body } *)
| MLambda (a r : ty) (body : list minstr)  (* LAMBDA a r { body } *)
| MExec
| MPatch (f : pfield) (v : option Z)   (* PATCH AMOUNT 5 / PATCH AMOUNT *)
| MSeq (body : list minstr)            (* { body } as an instruction (APPLY builds it) *)
| MApply
| MCons
| MIter (body : list minstr)           (* ITER { body } over a list *)
| MIfCons (bt bf : list minstr)        (* IF_CONS { bt } { bf } *)
| MMap (body : list minstr).           (* MAP { body } over a list *)

(* ------------------------------------------------------------------------------------------ *)
(* values; [H] is what a big_map carries                                                      *)
(* ------------------------------------------------------------------------------------------ *)

(* elements of (non-empty) list values: lists of atomic values only *)
Inductive atom := AUnit | AInt (z : Z) | ANat (z : Z) | AStr (s : bytes) | AMutez (z : Z) | ABool (b : bool).

Definition atom_ty (a : atom) : ty :=
  match a with AUnit => TUnit | AInt _ => TInt | ANat _ => TNat | AStr _ => TString | AMutez _ => TMutez | ABool _ => TBool end.

Inductive gval (H : Type) : Type :=
| GUnit
| GInt (z : Z)
| GNat (z : Z)
| GStr (s : bytes)
| GMutez (z : Z)
| GPair (a b : gval H)
| GNone (t : ty)
| GSome (a : gval H)
| GNil (t : ty)
| GBig (k v : ty) (h : H)
| GBool (b : bool)
| GLam (a r : ty) (body : list minstr)    (* LambdaType value: the code *)
| GList (t : ty) (l : list atom).         (* a non-empty list of atoms ([GNil] is the empty list) *)
Arguments GBool {H} b. Arguments GLam {H} a r body. Arguments GList {H} t l.
Arguments GUnit {H}. Arguments GInt {H} z. Arguments GNat {H} z. Arguments GStr {H} s.
Arguments GMutez {H} z. Arguments GPair {H} a b. Arguments GNone {H} t. Arguments GSome {H} a.
Arguments GNil {H} t. Arguments GBig {H} k v h.

(* values without big_maps: keys and values stored inside a big_map *)
Definition sval := gval Empty_set.

Fixpoint gmap {A B} (f : A -> B) (v : gval A) : gval B :=
  match v with
  | GUnit => GUnit | GInt z => GInt z | GNat z => GNat z | GStr s => GStr s | GMutez z => GMutez z
  | GPair a b => GPair (gmap f a) (gmap f b)
  | GNone t => GNone t
  | GSome a => GSome (gmap f a)
  | GNil t => GNil t
  | GBig k v h => GBig k v (f h)
  | GBool b => GBool b
  | GLam a r body => GLam a r body
  | GList t l => GList t l
  end.

Definition inj {H} (v : sval) : gval H := gmap (fun e : Empty_set => match e with end) v.

Fixpoint proj {H} (v : gval H) : option sval :=
  match v with
  | GUnit => Some GUnit | GInt z => Some (GInt z) | GNat z => Some (GNat z)
  | GStr s => Some (GStr s) | GMutez z => Some (GMutez z)
  | GPair a b => match proj a, proj b with Some a', Some b' => Some (GPair a' b') | _, _ => None end
  | GNone t => Some (GNone t)
  | GSome a => match proj a with Some a' => Some (GSome a') | None => None end
  | GNil t => Some (GNil t)
  | GBig _ _ _ => None
  | GBool b => Some (GBool b)
  | GLam a r body => Some (GLam a r body)
  | GList t l => Some (GList t l)
  end.

Fixpoint type_of {H} (v : gval H) : ty :=
  match v with
  | GUnit => TUnit | GInt _ => TInt | GNat _ => TNat | GStr _ => TString | GMutez _ => TMutez
  | GPair a b => TPair (type_of a) (type_of b)
  | GNone t => TOption t
  | GSome a => TOption (type_of a)
  | GNil t => TList t
  | GBig k v _ => TBigMap k v
  | GBool _ => TBool
  | GLam a r _ => TLambda a r
  | GList t _ => TList t
  end.

Definition inj_atom {H} (a : atom) : gval H :=
  match a with
  | AUnit => GUnit | AInt z => GInt z | ANat z => GNat z | AStr s => GStr s | AMutez z => GMutez z | ABool b => GBool b
  end.

Definition proj_atom {H} (v : gval H) : option atom :=
  match v with
  | GUnit => Some AUnit | GInt z => Some (AInt z) | GNat z => Some (ANat z) | GStr s => Some (AStr s)
  | GMutez z => Some (AMutez z) | GBool b => Some (ABool b)
  | _ => None
  end.

(* the list with elements [l]: [GNil] when empty *)
Definition mklist {H} (t : ty) (l : list atom) : gval H := match l with [] => GNil t | _ => GList t l end.

Fixpoint handles_of {H} (v : gval H) : list H :=
  match v with
  | GPair a b => handles_of a ++ handles_of b
  | GSome a => handles_of a
  | GBig _ _ h => [h]
  | _ => []
  end.

Fixpoint sval_eqb (a b : sval) : bool :=
  match a, b with
  | GUnit, GUnit => true
  | GInt x, GInt y | GNat x, GNat y | GMutez x, GMutez y => Z.eqb x y
  | GStr x, GStr y => bytes_eqb x y
  | GPair a1 a2, GPair b1 b2 => sval_eqb a1 b1 && sval_eqb a2 b2
  | GNone t1, GNone t2 => ty_eqb t1 t2
  | GSome x, GSome y => sval_eqb x y
  | GNil t1, GNil t2 => ty_eqb t1 t2
  | GBool x, GBool y => Bool.eqb x y
  | _, _ => false
  end.

(* the order used by sorted(...) on keys: __lt__ of the comparable types *)
Fixpoint bytes_cmp (a b : bytes) : comparison :=
  match a, b with
  | [], [] => Eq
  | [], _ :: _ => Lt
  | _ :: _, [] => Gt
  | x :: a', y :: b' =>
      match N.compare (Byte.to_N x) (Byte.to_N y) with Eq => bytes_cmp a' b' | c => c end
  end.

Fixpoint key_cmp (a b : sval) : comparison :=
  match a, b with
  | GInt x, GInt y | GNat x, GNat y | GMutez x, GMutez y => Z.compare x y
  | GStr x, GStr y => bytes_cmp x y
  | GPair a1 a2, GPair b1 b2 => match key_cmp a1 b1 with Eq => key_cmp a2 b2 | c => c end
  | GNone _, GSome _ => Lt
  | GSome _, GNone _ => Gt
  | GSome x, GSome y => key_cmp x y
  | GBool false, GBool true => Lt
  | GBool true, GBool false => Gt
  | _, _ => Eq
  end.

Definition key_lt (a b : sval) : bool := match key_cmp a b with Lt => true | _ => false end.

(* ------------------------------------------------------------------------------------------ *)
(* big_map handles and contexts                                                               *)
(* ------------------------------------------------------------------------------------------ *)

(* BigMapType instance: ptr, the context it is attached to (identity of an ExecutionContext
   object), the pending diff: items (sorted by key) and removed keys *)
Record handle := mkH { h_ptr : Z; h_ctx : nat; h_items : list (sval * sval); h_removed : list sval }.

Definition value := gval handle.

Definition set_ctx (c : nat) (h : handle) : handle := mkH (h_ptr h) c (h_items h) (h_removed h).

(* the memo lookup of __deepcopy__: a big_map attached to [old] follows it to [new] *)
Definition rebind (old new : nat) (h : handle) : handle :=
  if Nat.eqb (h_ctx h) old then set_ctx new h else h.

Record ctxrec := mkC {
  c_param : option ty;            (* parameter_expr *)
  c_storage : option ty;          (* storage_expr *)
  c_code : option (list minstr);  (* code_expr *)
  c_tmp : Z;                      (* tmp_big_map_index *)
  c_alloc : Z;                    (* alloc_big_map_index *)
  c_table : list (Z * (Z * bool)); (* big_maps: ptr -> (source ptr, copy), kept sorted by ptr *)
  c_amount : option Z;            (* amount / balance / now as set by PATCH *)
  c_balance : option Z;
  c_now : option Z
}.

Definition ctx0 : ctxrec := mkC None None None 0 0 [] None None None.

Fixpoint table_find (p : Z) (t : list (Z * (Z * bool))) : option (Z * bool) :=
  match t with
  | [] => None
  | (q, e) :: r => if Z.eqb p q then Some e else table_find p r
  end.

Fixpoint table_set (p : Z) (e : Z * bool) (t : list (Z * (Z * bool))) : list (Z * (Z * bool)) :=
  match t with
  | [] => [(p, e)]
  | (q, e') :: r =>
      if Z.eqb p q then (p, e) :: r
      else if Z.ltb p q then (p, e) :: t
      else (q, e') :: table_set p e r
  end.

(* ------------------------------------------------------------------------------------------ *)
(* session                                                                                    *)
(* ------------------------------------------------------------------------------------------ *)

Record session := mkS {
  s_stack : list value;           (* Interpreter.stack, top first *)
  s_cur : nat;                    (* identity of Interpreter.context *)
  s_ctx : ctxrec;                 (* its contents *)
  s_stale : list (nat * ctxrec);  (* contexts no longer the interpreter's, reachable from big_maps only *)
  s_next : nat                    (* next fresh identity *)
}.

Definition init : session := mkS [] 0%nat ctx0 [] 1%nat.

Fixpoint assoc (i : nat) (l : list (nat * ctxrec)) : option ctxrec :=
  match l with
  | [] => None
  | (j, c) :: r => if Nat.eqb i j then Some c else assoc i r
  end.

Fixpoint assoc_set (i : nat) (c : ctxrec) (l : list (nat * ctxrec)) : list (nat * ctxrec) :=
  match l with
  | [] => [(i, c)]
  | (j, c') :: r => if Nat.eqb i j then (i, c) :: r else (j, c') :: assoc_set i c r
  end.

Definition lookup (s : session) (i : nat) : option ctxrec :=
  if Nat.eqb i (s_cur s) then Some (s_ctx s) else assoc i (s_stale s).

Definition store (s : session) (i : nat) (c : ctxrec) : session :=
  if Nat.eqb i (s_cur s) then mkS (s_stack s) (s_cur s) c (s_stale s) (s_next s)
  else mkS (s_stack s) (s_cur s) (s_ctx s) (assoc_set i c (s_stale s)) (s_next s).

Definition with_stack (s : session) (st : list value) : session :=
  mkS st (s_cur s) (s_ctx s) (s_stale s) (s_next s).

Definition with_ctx (s : session) (c : ctxrec) : session :=
  mkS (s_stack s) (s_cur s) c (s_stale s) (s_next s).

(* ------------------------------------------------------------------------------------------ *)
(* literals                                                                                   *)
(* ------------------------------------------------------------------------------------------ *)

Definition tag_Elt : byte := x04.
Definition tag_None : byte := x06.
Definition tag_Pair : byte := x07.
Definition tag_Some : byte := x09.
Definition tag_Unit : byte := x0b.
Definition tag_int : byte := x5b.
Definition tag_list : byte := x5f.
Definition tag_big_map : byte := x61.
Definition tag_nat : byte := x62.
Definition tag_option : byte := x63.
Definition tag_pair : byte := x65.
Definition tag_string : byte := x68.
Definition tag_mutez : byte := x6a.
Definition tag_unit : byte := x6c.
Definition tag_operation : byte := x6d.
Definition tag_False : byte := x03.
Definition tag_True : byte := x0a.
Definition tag_bool : byte := x59.
Definition tag_lambda : byte := x5e.

Definition tag_table : list (bytes * byte) :=
  [ (tx "Elt"%string, tag_Elt); (tx "None"%string, tag_None); (tx "Pair"%string, tag_Pair); (tx "Some"%string, tag_Some);
    (tx "Unit"%string, tag_Unit); (tx "int"%string, tag_int); (tx "list"%string, tag_list); (tx "big_map"%string, tag_big_map);
    (tx "nat"%string, tag_nat); (tx "option"%string, tag_option); (tx "pair"%string, tag_pair); (tx "string"%string, tag_string);
    (tx "mutez"%string, tag_mutez); (tx "unit"%string, tag_unit); (tx "operation"%string, tag_operation);
    (tx "False"%string, tag_False); (tx "True"%string, tag_True); (tx "bool"%string, tag_bool); (tx "lambda"%string, tag_lambda) ].

Definition MUTEZ_LIMIT : Z := 9223372036854775808.   (* 2^63 *)

(* big_map literal before attach_context: an id, or a diff *)
Inductive rawbig := RPtr (p : Z) | RItems (its : list (sval * sval)).

(* <Type>.from_micheline_value on pushable types *)
Fixpoint parse_s (t : ty) (n : node) {struct t} : option sval :=
  match t, n with
  | TUnit, NPrim tag [] _ => if byte_eqb tag tag_Unit then Some GUnit else None
  | TInt, NInt z => Some (GInt z)
  | TBool, NPrim tag [] _ =>
      if byte_eqb tag tag_True then Some (GBool true) else if byte_eqb tag tag_False then Some (GBool false) else None
  | TNat, NInt z => if Z.leb 0 z then Some (GNat z) else None
  | TMutez, NInt z => if Z.leb 0 z && Z.ltb z MUTEZ_LIMIT then Some (GMutez z) else None
  | TString, NStr s => Some (GStr s)
  | TPair a b, NPrim tag [x; y] _ =>
      if byte_eqb tag tag_Pair then
        match parse_s a x, parse_s b y with Some u, Some v => Some (GPair u v) | _, _ => None end
      else None
  | TPair a b, NSeq [x; y] =>
      match parse_s a x, parse_s b y with Some u, Some v => Some (GPair u v) | _, _ => None end
  | TOption a, NPrim tag [] _ => if byte_eqb tag tag_None then Some (GNone a) else None
  | TOption a, NPrim tag [x] _ =>
      if byte_eqb tag tag_Some then
        match parse_s a x with Some u => Some (GSome u) | None => None end
      else None
  | TList a, NSeq [] => Some (GNil a)
  | TList a, NSeq l =>
      (* atoms only *)
      match a with
      | TUnit | TInt | TNat | TString | TMutez | TBool =>
          (fix go (l : list node) (acc : list atom) : option sval :=
             match l with
             | [] => Some (GList a (rev acc))
             | x :: r =>
                 match parse_s a x with
                 | Some v => match proj_atom v with Some at' => go r (at' :: acc) | None => None end
                 | None => None
                 end
             end) l []
      | _ => None
      end
  | _, _ => None
  end.

Fixpoint parse_elts (k v : ty) (l : list node) : option (list (sval * sval)) :=
  match l with
  | [] => Some []
  | NPrim tag [x; y] _ :: r =>
      if byte_eqb tag tag_Elt then
        match parse_s k x, parse_s v y, parse_elts k v r with
        | Some a, Some b, Some r' => Some ((a, b) :: r')
        | _, _, _ => None
        end
      else None
  | _ :: _ => None
  end.

(* MapType.check_constraints: keys strictly ascending *)
Fixpoint keys_ascending (l : list (sval * sval)) : bool :=
  match l with
  | [] => true
  | (a, _) :: r =>
      match r with
      | [] => true
      | (b, _) :: _ => key_lt a b && keys_ascending r
      end
  end.

(* from_micheline_value on parameter / storage types (big_maps allowed) *)
Fixpoint parse_v (t : ty) (n : node) {struct t} : option (gval rawbig) :=
  match t, n with
  | TBigMap k v, NInt p => Some (GBig k v (RPtr p))
  | TBigMap k v, NSeq l =>
      match parse_elts k v l with
      | Some its => if keys_ascending its then Some (GBig k v (RItems its)) else None
      | None => None
      end
  | TPair a b, NPrim tag [x; y] _ =>
      if byte_eqb tag tag_Pair then
        match parse_v a x, parse_v b y with Some u, Some v => Some (GPair u v) | _, _ => None end
      else None
  | TPair a b, NSeq [x; y] =>
      match parse_v a x, parse_v b y with Some u, Some v => Some (GPair u v) | _, _ => None end
  | TOption a, NPrim tag [] _ => if byte_eqb tag tag_None then Some (GNone a) else None
  | TOption a, NPrim tag [x] _ =>
      if byte_eqb tag tag_Some then
        match parse_v a x with Some u => Some (GSome u) | None => None end
      else None
  | TList a, NSeq [] => Some (GNil a)
  | TList _, _ => None
  | TOperation, _ => None
  | _, _ => match parse_s t n with Some u => Some (inj u) | None => None end
  end.

 (* <value>.to_literal(): what APPLY captures in the PUSH it prepends; a big_map shows as its id, which PUSH then
   refuses.  Lambdas inside a captured value are not modelled (placeholder). *)
Definition lit_atom (a : atom) : node :=
  match a with
  | AUnit => NPrim tag_Unit [] []
  | AInt z | ANat z | AMutez z => NInt z
  | AStr s => NStr s
  | ABool b => NPrim (if b then tag_True else tag_False) [] []
  end.

Fixpoint lit_of (v : value) : node :=
  match v with
  | GUnit => NPrim tag_Unit [] []
  | GInt z | GNat z | GMutez z => NInt z
  | GStr s => NStr s
  | GPair a b => NPrim tag_Pair [lit_of a; lit_of b] []
  | GNone _ => NPrim tag_None [] []
  | GSome a => NPrim tag_Some [lit_of a] []
  | GNil _ => NSeq []
  | GBig _ _ h => NInt (h_ptr h)
  | GBool b => NPrim (if b then tag_True else tag_False) [] []
  | GLam _ _ _ => NSeq []
  | GList _ l => NSeq (map lit_atom l)
  end.

(* ------------------------------------------------------------------------------------------ *)
(* context primitives                                                                         *)
(* ------------------------------------------------------------------------------------------ *)

(* get_tmp_big_map_id *)
Definition tmp_id (c : ctxrec) : Z * ctxrec :=
  (- (c_tmp c + 1), mkC (c_param c) (c_storage c) (c_code c) (c_tmp c + 1) (c_alloc c) (c_table c) (c_amount c) (c_balance c) (c_now c)).

Definition set_table (c : ctxrec) (t : list (Z * (Z * bool))) : ctxrec :=
  mkC (c_param c) (c_storage c) (c_code c) (c_tmp c) (c_alloc c) t (c_amount c) (c_balance c) (c_now c).

Definition patch (c : ctxrec) (f : pfield) (v : option Z) : ctxrec :=
  match f with
  | PAmount => mkC (c_param c) (c_storage c) (c_code c) (c_tmp c) (c_alloc c) (c_table c) v (c_balance c) (c_now c)
  | PBalance => mkC (c_param c) (c_storage c) (c_code c) (c_tmp c) (c_alloc c) (c_table c) (c_amount c) v (c_now c)
  | PNow => mkC (c_param c) (c_storage c) (c_code c) (c_tmp c) (c_alloc c) (c_table c) (c_amount c) (c_balance c) v
  end.

Definition bump_alloc (c : ctxrec) : ctxrec :=
  mkC (c_param c) (c_storage c) (c_code c) (c_tmp c) (c_alloc c + 1) (c_table c) (c_amount c) (c_balance c) (c_now c).

(* BigMapType.attach_context over a parsed value, left to right; [cp] = big_map_copy *)
Fixpoint attach (cp : bool) (cur : nat) (v : gval rawbig) (c : ctxrec) : value * ctxrec :=
  match v with
  | GUnit => (GUnit, c) | GInt z => (GInt z, c) | GNat z => (GNat z, c) | GStr s => (GStr s, c)
  | GMutez z => (GMutez z, c) | GNone t => (GNone t, c) | GNil t => (GNil t, c)
  | GBool b => (GBool b, c) | GLam a r body => (GLam a r body, c) | GList t l => (GList t l, c)
  | GPair a b =>
      let '(a', c1) := attach cp cur a c in
      let '(b', c2) := attach cp cur b c1 in
      (GPair a' b', c2)
  | GSome a => let '(a', c1) := attach cp cur a c in (GSome a', c1)
  | GBig k v (RItems its) =>
      let '(i, c1) := tmp_id c in (GBig k v (mkH i cur its []), c1)
  | GBig k v (RPtr p) =>
      if cp then
        let '(i, c1) := tmp_id c in
        (GBig k v (mkH i cur [] []), set_table c1 (table_set i (p, true) (c_table c1)))
      else (GBig k v (mkH p cur [] []), set_table c (table_set p (p, false) (c_table c)))
  end.

Inductive action := AAlloc | AUpdate | ACopy.

(* one entry of a lazy diff: id, action, updates (key, value or removal), and for alloc the types *)
Record diff := mkD { d_id : Z; d_action : action; d_updates : list (sval * option sval);
                     d_types : option (ty * ty) }.

(* ExecutionContext.get_big_map_diff *)
Definition big_map_diff (p : Z) (c : ctxrec) : Z * action * ctxrec :=
  match table_find p (c_table c) with
  | Some (src, true) => (c_alloc c, ACopy, bump_alloc c)
  | Some (src, false) => (src, AUpdate, c)
  | None => (c_alloc c, AAlloc, bump_alloc c)
  end.

(* BigMapType.aggregate_lazy_diff; the context consulted is the one the big_map is attached to *)
Definition aggregate_h (k v : ty) (h : handle) (s : session) : option (handle * diff * session) :=
  match lookup s (h_ctx h) with
  | None => None
  | Some c =>
      let '(dst, act, c') := big_map_diff (h_ptr h) c in
      let ups := map (fun kv => (fst kv, Some (snd kv))) (h_items h) ++ map (fun k => (k, None)) (h_removed h) in
      let d := mkD dst act ups (match act with AAlloc => Some (k, v) | _ => None end) in
      Some (mkH dst (h_ctx h) [] [], d, store s (h_ctx h) c')
  end.

Fixpoint aggregate (v : value) (s : session) : option (value * list diff * session) :=
  match v with
  | GPair a b =>
      match aggregate a s with
      | Some (a', d1, s1) =>
          match aggregate b s1 with
          | Some (b', d2, s2) => Some (GPair a' b', d1 ++ d2, s2)
          | None => None
          end
      | None => None
      end
  | GSome a =>
      match aggregate a s with
      | Some (a', d1, s1) => Some (GSome a', d1, s1)
      | None => None
      end
  | GBig k t h =>
      match aggregate_h k t h s with
      | Some (h', d, s1) => Some (GBig k t h', [d], s1)
      | None => None
      end
  | _ => Some (v, [], s)
  end.

(* ------------------------------------------------------------------------------------------ *)
(* BigMapType.get / update                                                                    *)
(* ------------------------------------------------------------------------------------------ *)

Fixpoint find_item (k : sval) (l : list (sval * sval)) : option sval :=
  match l with
  | [] => None
  | (a, b) :: r => if sval_eqb a k then Some b else find_item k r
  end.

Definition mem_key (k : sval) (l : list sval) : bool := existsb (fun a => sval_eqb a k) l.

Inductive fetched := FVal (o : option sval) | FNet.  (* FNet: the code would query the node *)

(* ExecutionContext.get_big_map_value without a shell *)
Definition ctx_value (p : Z) (c : ctxrec) : fetched :=
  match table_find p (c_table c) with
  | None => FVal None
  | Some (src, _) => if Z.ltb src 0 then FVal None else FNet
  end.

Definition bm_get (s : session) (h : handle) (k : sval) : option (option sval) :=
  match find_item k (h_items h) with
  | Some v => Some (Some v)
  | None =>
      if mem_key k (h_removed h) then Some None
      else match lookup s (h_ctx h) with
           | None => None
           | Some c => match ctx_value (h_ptr h) c with FVal o => Some o | FNet => None end
           end
  end.

Fixpoint replace_item (k v : sval) (l : list (sval * sval)) : list (sval * sval) :=
  match l with
  | [] => []
  | (a, b) :: r => (a, if sval_eqb a k then v else b) :: replace_item k v r
  end.

Fixpoint remove_item (k : sval) (l : list (sval * sval)) : list (sval * sval) :=
  match l with
  | [] => []
  | (a, b) :: r => if sval_eqb a k then remove_item k r else (a, b) :: remove_item k r
  end.

(* sorted(items + [(k, v)]): stable, the new element goes behind everything not greater *)
Fixpoint insert_item (k v : sval) (l : list (sval * sval)) : list (sval * sval) :=
  match l with
  | [] => [(k, v)]
  | (a, b) :: r => if key_lt k a then (k, v) :: l else (a, b) :: insert_item k v r
  end.

(* removed_keys is a Python set; the model keeps it ascending *)
Fixpoint add_key (k : sval) (l : list sval) : list sval :=
  match l with
  | [] => [k]
  | a :: r => if sval_eqb a k then l else if key_lt k a then k :: l else a :: add_key k r
  end.

Fixpoint del_key (k : sval) (l : list sval) : list sval :=
  match l with
  | [] => []
  | a :: r => if sval_eqb a k then del_key k r else a :: del_key k r
  end.

Definition bm_update (s : session) (h : handle) (k : sval) (v : option sval) : option (option sval * handle) :=
  match bm_get s h k with
  | None => None
  | Some prev =>
      let '(its, rem) :=
        match prev, v with
        | Some _, Some x => (insert_item k x (remove_item k (h_items h)), h_removed h)   (* as of /repo bfc6932 *)
        | Some _, None => (remove_item k (h_items h), add_key k (h_removed h))
        | None, Some x => (insert_item k x (h_items h), del_key k (h_removed h))
        | None, None => (h_items h, h_removed h)
        end in
      Some (prev, mkH (h_ptr h) (h_ctx h) its rem)
  end.

(* ------------------------------------------------------------------------------------------ *)
(* Michelson instructions                                                                     *)
(* ------------------------------------------------------------------------------------------ *)

(* the value argument of UPDATE / GET_AND_UPDATE: an option *)
Definition opt_arg (v : value) : option (option value) :=
  match v with GNone _ => Some None | GSome a => Some (Some a) | _ => None end.

Definition proj_opt (o : option value) : option (option sval) :=
  match o with
  | None => Some None
  | Some a => match proj a with Some a' => Some (Some a') | None => None end
  end.

Definition add_vals (a b : value) : option value :=
  match a, b with
  | GInt x, GInt y | GInt x, GNat y | GNat x, GInt y => Some (GInt (x + y))
  | GNat x, GNat y => Some (GNat (x + y))
  | GMutez x, GMutez y => if Z.ltb (x + y) MUTEZ_LIMIT then Some (GMutez (x + y)) else None
  | _, _ => None
  end.

Definition as_option_val (vt : ty) (o : option sval) : value :=
  match o with Some x => GSome (inj x) | None => GNone vt end.

(* operands of GET: a key of the big_map's key type *)
Definition get_args (key : value) (k : ty) : option sval :=
  match proj key with
  | Some key' => if ty_eqb (type_of key) k then Some key' else None
  | None => None
  end.

(* operands of UPDATE / GET_AND_UPDATE: key of the key type, an option (its content is not type-checked) *)
Definition upd_args (key val : value) (k : ty) : option (sval * option sval) :=
  match opt_arg val with
  | Some o =>
      match get_args key k, proj_opt o with
      | Some key', Some o' => Some (key', o')
      | _, _ => None
      end
  | None => None
  end.

(* one instruction on the session; None = the Python code raises. No instruction of this group
   touches a context before it can fail. *)
Definition mstep (i : minstr) (s : session) : option session :=
  let st := s_stack s in
  match i with
  | MPush t lit =>
      if pushable t then
        match parse_s t lit with Some v => Some (with_stack s (inj v :: st)) | None => None end
      else None
  | MDrop => match st with _ :: r => Some (with_stack s r) | _ => None end
  | MDup => match st with a :: r => Some (with_stack s (a :: a :: r)) | _ => None end
  | MSwap => match st with a :: b :: r => Some (with_stack s (b :: a :: r)) | _ => None end
  | MPair => match st with a :: b :: r => Some (with_stack s (GPair a b :: r)) | _ => None end
  | MUnpair => match st with GPair a b :: r => Some (with_stack s (a :: b :: r)) | _ => None end
  | MCar => match st with GPair a b :: r => Some (with_stack s (a :: r)) | _ => None end
  | MCdr => match st with GPair a b :: r => Some (with_stack s (b :: r)) | _ => None end
  | MSome => match st with a :: r => Some (with_stack s (GSome a :: r)) | _ => None end
  | MNone t => Some (with_stack s (GNone t :: st))
  | MNil t => Some (with_stack s (GNil t :: st))
  | MUnit => Some (with_stack s (GUnit :: st))
  | MEmptyBigMap k v =>
      (* BigMapType.empty creates the type when the instruction runs: the key check is dynamic *)
      if comparable k then
        let '(i, c) := tmp_id (s_ctx s) in
        Some (mkS (GBig k v (mkH i (s_cur s) [] []) :: st) (s_cur s) c (s_stale s) (s_next s))
      else None
  | MUpdate =>
      match st with
      | key :: val :: GBig k v h :: r =>
          match upd_args key val k with
          | Some (key', o') =>
              match bm_update s h key' o' with
              | Some (_, h') => Some (with_stack s (GBig k v h' :: r))
              | None => None
              end
          | None => None
          end
      | _ => None
      end
  | MGet =>
      match st with
      | key :: GBig k v h :: r =>
          match get_args key k with
          | Some key' =>
              match bm_get s h key' with
              | Some o => Some (with_stack s (as_option_val v o :: r))
              | None => None
              end
          | None => None
          end
      | _ => None
      end
  | MGetAndUpdate =>
      match st with
      | key :: val :: GBig k v h :: r =>
          match upd_args key val k with
          | Some (key', o') =>
              match bm_update s h key' o' with
              | Some (prev, h') => Some (with_stack s (as_option_val v prev :: GBig k v h' :: r))
              | None => None
              end
          | None => None
          end
      | _ => None
      end
  | MAdd =>
      match st with
      | a :: b :: r => match add_vals a b with Some c => Some (with_stack s (c :: r)) | None => None end
      | _ => None
      end
  | MFailwith => None
  | MLambda a r body => Some (with_stack s (GLam a r body :: st))
  | MPatch f v => Some (with_ctx s (patch (s_ctx s) f v))
  | MApply =>
      (* APPLY: the new lambda's code is { PUSH <captured type> <captured literal> ; PAIR ; { old code } } *)
      match st with
      | cap :: GLam (TPair lt rt) r body :: rest =>
          if ty_eqb (type_of cap) lt then
            Some (with_stack s (GLam rt r [MPush lt (lit_of cap); MPair; MSeq body] :: rest))
          else None
      | _ => None
      end
  | MCons =>
      (* CONS: the element must have the list's element type (model: and be an atom) *)
      match st with
      | x :: GNil t :: rest =>
          match proj_atom x with
          | Some a => if ty_eqb (type_of x) t then Some (with_stack s (GList t [a] :: rest)) else None
          | None => None
          end
      | x :: GList t l :: rest =>
          match proj_atom x with
          | Some a => if ty_eqb (type_of x) t then Some (with_stack s (GList t (a :: l) :: rest)) else None
          | None => None
          end
      | _ => None
      end
  | MDip _ | MIfNone _ _ | MDipN _ _ | MIf _ _ | MLoop _ | MExec | MSeq _ | MIter _ | MIfCons _ _ | MMap _ => None   (* see [mexec] *)
  end.

(* outcome of running code: finished, or raised leaving the contexts as they were at that moment.
   [out_of_fuel] marks a run that the model cut off (LOOP iterations and EXEC depth are bounded by
   the fuel); the theorems exclude such runs. *)
Inductive outcome (A : Type) := Done (a : A) | Failed (out_of_fuel : bool) (at_failure : session).
Arguments Done {A} a. Arguments Failed {A} out_of_fuel at_failure.

Section RunList.
  Variable ex : minstr -> session -> outcome session.
  Fixpoint runl (l : list minstr) (s : session) : outcome session :=
    match l with
    | [] => Done s
    | x :: r => match ex x s with Done s' => runl r s' | Failed b f => Failed b f end
    end.
End RunList.

(* instructions with nested code, loops and lambdas.  Every LOOP iteration and every EXEC consumes
   one unit of fuel.  DIP hides the top elements while the body runs (stack.protect(n)); modelled
   for the case that the body finds its operands on the visible part of the stack — pytezos' protect()
   only checks the total length, so `DIP { DIP { PUSH .. } }` on a one-element stack succeeds there
   (Tezos rejects it) while the model fails: outside the modelled domain. *)
Section IterList.
  Variable ex : minstr -> session -> outcome session.
  Variable body : list minstr.
  (* ITER: push each element in turn and run the body *)
  Fixpoint iterl (l : list atom) (s : session) : outcome session :=
    match l with
    | [] => Done s
    | x :: r =>
        match runl ex body (with_stack s (inj_atom x :: s_stack s)) with
        | Done s' => iterl r s'
        | Failed b f => Failed b f
        end
    end.
  (* MAP: push each element, run the body, collect what it leaves on top (model: an atom); at the end
     ListType.from_items demands one element type *)
  Fixpoint mapl (l : list atom) (acc : list atom) (s : session) : outcome session :=
    match l with
    | [] =>
        match acc with
        | [] => Done s
        | a0 :: _ =>
            if forallb (fun a => ty_eqb (atom_ty a) (atom_ty a0)) acc
            then Done (with_stack s (GList (atom_ty a0) acc :: s_stack s))
            else Failed false s
        end
    | x :: r =>
        match runl ex body (with_stack s (inj_atom x :: s_stack s)) with
        | Done s' =>
            match s_stack s' with
            | res :: st' =>
                match proj_atom res with
                | Some a => mapl r (acc ++ [a]) (with_stack s' st')
                | None => Failed false s'
                end
            | [] => Failed false s'
            end
        | Failed b f => Failed b f
        end
    end.
End IterList.

Fixpoint mexec (fuel : nat) : minstr -> session -> outcome session :=
  match fuel with
  | O => fun _ s => Failed true s
  | S f =>
      fix me (i : minstr) (s : session) {struct i} : outcome session :=
        match i with
        | MDip body =>
            match s_stack s with
            | a :: r =>
                match runl me body (with_stack s r) with
                | Done s' => Done (with_stack s' (a :: s_stack s'))
                | Failed b x => Failed b x
                end
            | [] => Failed false s
            end
        | MDipN n body =>
            if Nat.leb n (List.length (s_stack s)) then
              match runl me body (with_stack s (skipn n (s_stack s))) with
              | Done s' => Done (with_stack s' (firstn n (s_stack s) ++ s_stack s'))
              | Failed b x => Failed b x
              end
            else Failed false s
        | MIfNone bt bf =>
            match s_stack s with
            | GNone _ :: r => runl me bt (with_stack s r)
            | GSome a :: r => runl me bf (with_stack s (a :: r))
            | _ => Failed false s
            end
        | MSeq body => runl me body s
        | MIter body =>
            match s_stack s with
            | GNil _ :: r => Done (with_stack s r)
            | GList _ l :: r => iterl me body l (with_stack s r)
            | _ => Failed false s
            end
        | MMap body =>
            match s_stack s with
            | GNil t :: r => Done s          (* MAP over the empty list leaves the list as it is *)
            | GList _ l :: r => mapl me body l [] (with_stack s r)
            | _ => Failed false s
            end
        | MIfCons bt bf =>
            match s_stack s with
            | GList t (x :: l) :: r => runl me bt (with_stack s (inj_atom x :: mklist t l :: r))
            | GNil _ :: r => runl me bf (with_stack s r)
            | _ => Failed false s
            end
        | MIf bt bf =>
            match s_stack s with
            | GBool true :: r => runl me bt (with_stack s r)
            | GBool false :: r => runl me bf (with_stack s r)
            | _ => Failed false s
            end
        | MLoop body =>
            match s_stack s with
            | GBool true :: r =>
                match runl me body (with_stack s r) with
                | Done s' => mexec f (MLoop body) s'
                | Failed b x => Failed b x
                end
            | GBool false :: r => Done (with_stack s r)
            | _ => Failed false s
            end
        | MExec =>
            (* pop the argument and the lambda, run the code on a fresh stack holding the argument,
               exactly one value of the return type must remain *)
            match s_stack s with
            | arg :: GLam a r body :: rest =>
                if ty_eqb (type_of arg) a then
                  match runl (mexec f) body (with_stack s [arg]) with
                  | Done s' =>
                      match s_stack s' with
                      | [res] => if ty_eqb (type_of res) r then Done (with_stack s' (res :: rest)) else Failed false s'
                      | _ => Failed false s'
                      end
                  | Failed b x => Failed b x
                  end
                else Failed false s
            | _ => Failed false s
            end
        | _ => match mstep i s with Some s' => Done s' | None => Failed false s end
        end
  end.

Definition mrun (fuel : nat) (l : list minstr) (s : session) : outcome session := runl (mexec fuel) l s.

(* ------------------------------------------------------------------------------------------ *)
(* REPL helpers (instructions/jupyter.py) and sections                                        *)
(* ------------------------------------------------------------------------------------------ *)

Inductive instr :=
| IM (m : minstr)
| IParameter (t : ty) | IStorage (t : ty) | ICode (body : list minstr)
| IBegin (p s : node) | ICommit | IRun (p s : node) | IBigMapDiff | IReset.

(* results are observed through to_micheline_value: a big_map shows as its id *)
Inductive output :=
| OCommit (d : list diff) (result : gval Z)   (* CommitInstruction.lazy_diff / .result *)
| ORun (d : list diff) (result : gval Z)      (* RunInstruction.lazy_diff / .result *)
| ODiff (d : list diff).                      (* BigMapDiffInstruction.lazy_diff *)

Definition set_param (c : ctxrec) (t : ty) := mkC (Some t) (c_storage c) (c_code c) (c_tmp c) (c_alloc c) (c_table c) (c_amount c) (c_balance c) (c_now c).
Definition set_storage (c : ctxrec) (t : ty) := mkC (c_param c) (Some t) (c_code c) (c_tmp c) (c_alloc c) (c_table c) (c_amount c) (c_balance c) (c_now c).
Definition set_code (c : ctxrec) (b : list minstr) := mkC (c_param c) (c_storage c) (Some b) (c_tmp c) (c_alloc c) (c_table c) (c_amount c) (c_balance c) (c_now c).

(* BEGIN: parse both literals, attach parameter (copy) then storage, the stack becomes the pair *)
Definition begin (p st : node) (s : session) : option session :=
  match c_param (s_ctx s), c_storage (s_ctx s) with
  | Some pt, Some stt =>
      match parse_v pt p, parse_v stt st with
      | Some pv, Some sv =>
          let '(pv', c1) := attach true (s_cur s) pv (s_ctx s) in
          let '(sv', c2) := attach false (s_cur s) sv c1 in
          Some (mkS [GPair pv' sv'] (s_cur s) c2 (s_stale s) (s_next s))
      | _, _ => None
      end
  | _, _ => None
  end.

(* COMMIT / MichelsonProgram.end: the stack must be exactly [pair (list operation) storage] *)
Definition commit (s : session) : option (list diff * value * value * session) :=
  match s_stack s, c_storage (s_ctx s) with
  | [GPair ops stv], Some stt =>
      if ty_eqb (type_of (GPair ops stv)) (TPair (TList TOperation) stt) then
        match aggregate stv (with_stack s []) with
        | Some (stv', d, s') => Some (d, GPair ops stv, GPair ops stv', s')
        | None => None
        end
      else None
  | _, _ => None
  end.

Definition istep (fuel : nat) (i : instr) (s : session) : outcome (session * list output) :=
  match i with
  | IM m => match mexec fuel m s with Done s' => Done (s', []) | Failed b f => Failed b f end
  | IParameter t => Done (with_ctx s (set_param (s_ctx s) t), [])
  | IStorage t => Done (with_ctx s (set_storage (s_ctx s) t), [])
  | ICode b => Done (with_ctx s (set_code (s_ctx s) b), [])
  | IBegin p st => match begin p st s with Some s' => Done (s', []) | None => Failed false s end
  | ICommit =>
      match commit s with
      | Some (d, _, res, s') => Done (s', [OCommit d (gmap h_ptr res)])
      | None => Failed false s
      end
  | IRun p st =>
      match c_code (s_ctx s) with
      | Some body =>
          match begin p st (with_stack s []) with
          | Some s1 =>
              match mrun fuel body s1 with
              | Done s2 =>
                  match commit s2 with
                  | Some (d, raw, _, s3) => Done (s3, [ORun d (gmap h_ptr raw)])
                  | None => Failed false s2
                  end
              | Failed b sf => Failed b sf
              end
          | None => Failed false s
          end
      | None => Failed false s
      end
  | IBigMapDiff =>
      match s_stack s with
      | top :: _ =>
          match aggregate top s with
          | Some (_, d, s') => Done (with_stack s' (s_stack s), [ODiff d])
          | None => Failed false s
          end
      | [] => Failed false s
      end
  | IReset => Done (mkS [] (s_cur s) (set_table (s_ctx s) []) (s_stale s) (s_next s), [])
  end.

Fixpoint irun (fuel : nat) (l : list instr) (s : session) (acc : list output) : outcome (session * list output) :=
  match l with
  | [] => Done (s, acc)
  | i :: r =>
      match istep fuel i s with
      | Done (s', o) => irun fuel r s' (acc ++ o)
      | Failed b sf => Failed b sf
      end
  end.

(* ------------------------------------------------------------------------------------------ *)
(* cells and Interpreter.execute                                                              *)
(* ------------------------------------------------------------------------------------------ *)

(* a cell: text that fails to parse or to match (CBad: MichelsonParserError / MichelsonRuntimeError
   before anything runs), text on which the parser's own error report crashes (CCrash: unexpected end
   of input; the AttributeError escapes [execute] before the session is touched, nothing is restored),
   or a sequence of instructions *)
Inductive cell := CBad | CCrash | CCode (l : list instr).

Fixpoint minstr_valid (m : minstr) : bool :=
  match m with
  | MPush t _ | MNone t | MNil t => valid_ty t
  | MEmptyBigMap k v => valid_ty k && valid_ty v
  | MDip b => forallb minstr_valid b
  | MIfNone bt bf | MIf bt bf | MIfCons bt bf => forallb minstr_valid bt && forallb minstr_valid bf
  | MDipN _ b | MLoop b | MSeq b | MIter b | MMap b => forallb minstr_valid b
  | MLambda a r b => valid_ty a && valid_ty r && forallb minstr_valid b
  | _ => true
  end.

Definition instr_valid (i : instr) : bool :=
  match i with
  | IM m => minstr_valid m
  | IParameter t | IStorage t => valid_ty t
  | ICode b => forallb minstr_valid b
  | _ => true
  end.

(* what deepcopy does with the big_maps of the stack backup *)
Inductive mode :=
| Alias    (* __deepcopy__ keeps the context reference (the code before commit 26d2050) *)
| Rebind.  (* ... unless that context was copied under the same memo: follow the copy *)

(* on failure: self.stack = stack_backup; self.context = context_backup (a new object).
   [s0] is the session when the cell started, [sf] the session at the moment of the failure. *)
Definition restore (m : mode) (s0 sf : session) : session :=
  let st := match m with
            | Alias => s_stack s0
            | Rebind => map (gmap (rebind (s_cur s0) (s_next sf))) (s_stack s0)
            end in
  mkS st (s_next sf) (s_ctx s0) ((s_cur sf, s_ctx sf) :: s_stale sf) (S (s_next sf)).

(* RFuel: the model ran out of fuel in this cell (no statement about the code is made for such runs) *)
Inductive cellres := RDone (o : list output) | RFail | RFuel.

Definition exec_cell (m : mode) (fuel : nat) (s : session) (c : cell) : session * cellres :=
  match c with
  | CBad => (restore m s s, RFail)
  | CCrash => (s, RFail)
  | CCode l =>
      if forallb instr_valid l then
        match irun fuel l s [] with
        | Done (s', o) => (s', RDone o)
        | Failed b sf => (restore m s sf, if b then RFuel else RFail)
        end
      else (restore m s s, RFail)
  end.

Fixpoint run (m : mode) (fuel : nat) (s : session) (cells : list cell) : session * list cellres :=
  match cells with
  | [] => (s, [])
  | c :: r =>
      let '(s1, o) := exec_cell m fuel s c in
      let '(s2, os) := run m fuel s1 r in
      (s2, o :: os)
  end.

Definition is_done (r : cellres) : bool := match r with RDone _ => true | _ => false end.
Definition fuel_ok (r : cellres) : bool := match r with RFuel => false | _ => true end.

(* the session with the failing cells removed *)
Fixpoint keep_done (cells : list cell) (rs : list cellres) : list cell :=
  match cells, rs with
  | c :: cs, r :: rs' => if is_done r then c :: keep_done cs rs' else keep_done cs rs'
  | _, _ => []
  end.

(* what an observer of the session sees: the stack (big_maps with id and pending diff, but not the
   identity of the context object behind them) and the interpreter's context *)
Definition view (s : session) : list value * ctxrec :=
  (map (gmap (set_ctx 0%nat)) (s_stack s), s_ctx s).

(* ------------------------------------------------------------------------------------------ *)
(* rendering of observations as Micheline trees, for the correspondence run                   *)
(* ------------------------------------------------------------------------------------------ *)

(* the code section is shown by the index the harness gave to that body *)
Fixpoint minstr_eqb (a b : minstr) {struct a} : bool :=
  let fix go (l1 l2 : list minstr) {struct l1} : bool :=
      match l1, l2 with
      | [], [] => true
      | x :: r1, y :: r2 => minstr_eqb x y && go r1 r2
      | _, _ => false
      end in
  match a, b with
  | MPush t1 l1, MPush t2 l2 => ty_eqb t1 t2 && node_eqb l1 l2
  | MDrop, MDrop | MDup, MDup | MSwap, MSwap | MPair, MPair | MUnpair, MUnpair | MCar, MCar
  | MCdr, MCdr | MSome, MSome | MUnit, MUnit | MUpdate, MUpdate | MGet, MGet
  | MGetAndUpdate, MGetAndUpdate | MAdd, MAdd | MFailwith, MFailwith => true
  | MNone t1, MNone t2 | MNil t1, MNil t2 => ty_eqb t1 t2
  | MEmptyBigMap k1 v1, MEmptyBigMap k2 v2 => ty_eqb k1 k2 && ty_eqb v1 v2
  | MDip b1, MDip b2 => go b1 b2
  | MIfNone t1 f1, MIfNone t2 f2 | MIf t1 f1, MIf t2 f2 => go t1 t2 && go f1 f2
  | MDipN n1 b1, MDipN n2 b2 => Nat.eqb n1 n2 && go b1 b2
  | MLoop b1, MLoop b2 | MSeq b1, MSeq b2 | MIter b1, MIter b2 | MMap b1, MMap b2 => go b1 b2
  | MApply, MApply | MCons, MCons => true
  | MIfCons t1 f1, MIfCons t2 f2 => go t1 t2 && go f1 f2
  | MLambda a1 r1 b1, MLambda a2 r2 b2 => ty_eqb a1 a2 && ty_eqb r1 r2 && go b1 b2
  | MExec, MExec => true
  | MPatch PAmount v1, MPatch PAmount v2 | MPatch PBalance v1, MPatch PBalance v2 | MPatch PNow v1, MPatch PNow v2 =>
      option_eqb Z.eqb v1 v2
  | _, _ => false
  end.

Fixpoint index_of (b : list minstr) (bodies : list (list minstr)) (i : nat) : nat :=
  match bodies with
  | [] => i
  | x :: r => if list_eqb minstr_eqb x b then i else index_of b r (S i)
  end.

(* a lambda value is shown by the index the harness gave to its body *)
Definition lamf (bodies : list (list minstr)) (b : list minstr) : node := NSeq [NInt (Z.of_nat (index_of b bodies 0%nat))].

Fixpoint render_ty (t : ty) : node :=
  match t with
  | TUnit => NPrim tag_unit [] [] | TInt => NPrim tag_int [] [] | TNat => NPrim tag_nat [] []
  | TString => NPrim tag_string [] [] | TMutez => NPrim tag_mutez [] []
  | TOperation => NPrim tag_operation [] []
  | TPair a b => NPrim tag_pair [render_ty a; render_ty b] []
  | TOption a => NPrim tag_option [render_ty a] []
  | TList a => NPrim tag_list [render_ty a] []
  | TBigMap k v => NPrim tag_big_map [render_ty k; render_ty v] []
  | TBool => NPrim tag_bool [] []
  | TLambda a r => NPrim tag_lambda [render_ty a; render_ty r] []
  end.

(* to_micheline_value(lazy_diff=False): a big_map shows its id *)
Fixpoint render_g {H} (fl : list minstr -> node) (f : H -> node) (v : gval H) : node :=
  match v with
  | GUnit => NPrim tag_Unit [] []
  | GInt z | GNat z | GMutez z => NInt z
  | GStr s => NStr s
  | GPair a b =>
      (* readable mode flattens right combs: Pair a (Pair b c) shows as Pair a b c *)
      NPrim tag_Pair (render_g fl f a ::
        (fix tail (w : gval H) : list node :=
           match w with
           | GPair x y => render_g fl f x :: tail y
           | _ => [render_g fl f w]
           end) b) []
  | GNone _ => NPrim tag_None [] []
  | GSome a => NPrim tag_Some [render_g fl f a] []
  | GNil _ => NSeq []
  | GBig _ _ h => f h
  | GBool b => NPrim (if b then tag_True else tag_False) [] []
  | GLam _ _ body => fl body
  | GList _ l => NSeq (map lit_atom l)
  end.

Definition render_s (fl : list minstr -> node) (v : sval) : node := render_g fl (fun e : Empty_set => match e with end) v.
Definition render_v (fl : list minstr -> node) (v : value) : node := render_g fl (fun h => NInt (h_ptr h)) v.

Definition nbool (b : bool) : node := NInt (if b then 1 else 0).
Definition nnat (n : nat) : node := NInt (Z.of_nat n).
Definition nopt (o : option node) : node := match o with Some x => NSeq [x] | None => NSeq [] end.

Definition render_handle (fl : list minstr -> node) (h : handle) : node :=
  NSeq [NInt (h_ptr h); nnat (h_ctx h);
        NSeq (map (fun kv => NSeq [render_s fl (fst kv); render_s fl (snd kv)]) (h_items h));
        NSeq (map (render_s fl) (h_removed h))].

Definition render_item (fl : list minstr -> node) (v : value) : node :=
  NSeq [render_ty (type_of v); render_v fl v; NSeq (map (render_handle fl) (handles_of v))].

Definition render_action (a : action) : node :=
  NInt (match a with AAlloc => 0 | AUpdate => 1 | ACopy => 2 end).

Definition render_diff (fl : list minstr -> node) (d : diff) : node :=
  NSeq [NInt (d_id d); render_action (d_action d);
        NSeq (map (fun u => NSeq [render_s fl (fst u); nopt (option_map (render_s fl) (snd u))]) (d_updates d));
        nopt (option_map (fun kv => NSeq [render_ty (fst kv); render_ty (snd kv)]) (d_types d))].

Definition render_output (fl : list minstr -> node) (o : output) : node :=
  match o with
  | OCommit d r => NSeq [NInt 0; NSeq (map (render_diff fl) d); render_g fl NInt r]
  | ORun d r => NSeq [NInt 1; NSeq (map (render_diff fl) d); render_g fl NInt r]
  | ODiff d => NSeq [NInt 2; NSeq (map (render_diff fl) d)]
  end.

Definition render_ctx (bodies : list (list minstr)) (c : ctxrec) : node :=
  NSeq [nopt (option_map render_ty (c_param c)); nopt (option_map render_ty (c_storage c));
        nopt (option_map (fun b => nnat (index_of b bodies 0%nat)) (c_code c));
        NInt (c_tmp c); NInt (c_alloc c);
        NSeq (map (fun e => NSeq [NInt (fst e); NInt (fst (snd e)); nbool (snd (snd e))]) (c_table c));
        nopt (option_map NInt (c_amount c)); nopt (option_map NInt (c_balance c)); nopt (option_map NInt (c_now c))].

Definition render_res (fl : list minstr -> node) (r : cellres) : node :=
  match r with
  | RDone o => NSeq [NInt 1; NSeq (map (render_output fl) o)]
  | RFail => NSeq [NInt 0]
  | RFuel => NSeq [NInt 2]
  end.

(* after every cell: its result, the stack, the identity and contents of the interpreter's context *)
Definition render_step (bodies : list (list minstr)) (s : session) (r : cellres) : node :=
  NSeq [render_res (lamf bodies) r; NSeq (map (render_item (lamf bodies)) (s_stack s)); nnat (s_cur s);
        render_ctx bodies (s_ctx s)].

Fixpoint run_obs (m : mode) (fuel : nat) (bodies : list (list minstr)) (s : session) (cells : list cell) : list node :=
  match cells with
  | [] => [NSeq (map (fun e => NSeq [nnat (fst e); render_ctx bodies (snd e)]) (s_stale s))]
  | c :: r =>
      let '(s1, o) := exec_cell m fuel s c in
      render_step bodies s1 o :: run_obs m fuel bodies s1 r
  end.

(* entry point of the correspondence run: all observations of a session as one tree *)
(* fuel of the correspondence run: generated sessions loop and nest EXEC far below it *)
Definition FUEL : nat := 64.

Definition session_obs (m : mode) (bodies : list (list minstr)) (cells : list cell) : node :=
  NSeq (run_obs m FUEL bodies init cells).

(* compact serialisation of a tree (a big nested list literal takes coqc many seconds to elaborate,
   a hex string does not); the harness serialises the implementation's observation the same way *)
Definition len4 {A} (l : list A) : bytes := N_to_be 4 (N.of_nat (List.length l)).
Definition nat_bytes (n : N) : bytes := N_to_be (N.to_nat ((N.size n + 7) / 8)) n.

Fixpoint ser (n : node) : bytes :=
  match n with
  | NInt z =>
      let m := nat_bytes (Z.abs_N z) in
      x69 :: (if Z.ltb z 0 then x01 else x00) :: len4 m ++ m
  | NStr s => x73 :: len4 s ++ s
  | NByt b => x62 :: len4 b ++ b
  | NPrim tag args annots =>
      x70 :: tag :: len4 args ++ flat_map ser args ++ len4 annots ++ flat_map (fun a => len4 a ++ a) annots
  | NSeq items => x6c :: len4 items ++ flat_map ser items
  end.

Definition session_ser (m : mode) (bodies : list (list minstr)) (cells : list cell) : bytes :=
  ser (session_obs m bodies cells).

(* 128-bit polynomial fingerprint of the serialisation (multiplier odd, arithmetic modulo 2^128):
   even the hex string of a whole observation costs coqc seconds to elaborate, so the harness passes the
   fingerprint of the implementation's observation (same formula) and the comparison is on fingerprints;
   on a mismatch both observations are printed in full in the replay file *)
Definition FP_MASK : N := 340282366920938463463374607431768211455%N.      (* 2^128 - 1 *)
Definition FP_MUL : N := 6364136223846793005%N.
(* the bytes are consumed as 8-byte big-endian words (a shorter last group is prefixed with 01);
   the accumulator starts from the length *)
Fixpoint words (l : bytes) : list N :=
  match l with
  | [] => []
  | a :: b :: c :: d :: e :: f :: g :: h :: r => be_to_N [a; b; c; d; e; f; g; h] :: words r
  | rest => [be_to_N (x01 :: rest)]
  end.

Definition fingerprint (b : bytes) : N :=
  fold_left (fun acc w => N.land (acc * FP_MUL + w + 1) FP_MASK) (words b) (N.of_nat (List.length b)).

Definition session_fp (m : mode) (bodies : list (list minstr)) (cells : list cell) : N :=
  fingerprint (session_ser m bodies cells).
