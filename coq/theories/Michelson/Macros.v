(* Michelson/Macros.v — model of src/pytezos/michelson/macros.py (expand_macro and its handlers),
   the reference definitions of the macros transcribed from the Michelson reference
   ("Macros" chapter of the Michelson language documentation), and a reference evaluator for the
   instruction fragment the macros expand to.  Code is a Micheline [node] (Codec/Micheline.v),
   exactly what expand_macro returns; macro names are Coq [string]s.
   No proofs here (Proofs/Macros_proofs.v). *)
From Coq Require Import List ZArith Bool String Ascii Arith.
From Coq.Strings Require Import Byte.
From PV Require Import Base.Bytes Codec.Micheline.
Import ListNotations.
Local Open Scope string_scope.
Local Open Scope list_scope.

(* ------------------------------------------------------------------------------------------ *)
(* primitive tags used by the expansions (compared with pytezos.michelson.tags.prim_tags on    *)
(* every run, table "macro-prim-tags")                                                         *)
Definition T_COMPARE := x19. Definition T_EQ := x25. Definition T_NEQ := x3c. Definition T_LT := x37.
Definition T_GT := x2a. Definition T_LE := x32. Definition T_GE := x28. Definition T_IF := x2c.
Definition T_IF_NONE := x2f. Definition T_IF_LEFT := x2e. Definition T_DIP := x1f. Definition T_DUP := x21.
Definition T_SWAP := x4c. Definition T_PAIR := x42. Definition T_UNPAIR := x7a. Definition T_CAR := x16.
Definition T_CDR := x17. Definition T_DROP := x20. Definition T_UNIT := x4f. Definition T_FAILWITH := x27.
Definition T_RENAME := x58. Definition T_UPDATE := x50. Definition T_GET := x29. Definition T_DIG := x70.
Definition T_DUG := x71.

Definition tag_table : list (string * byte) :=
  [("COMPARE", T_COMPARE); ("EQ", T_EQ); ("NEQ", T_NEQ); ("LT", T_LT); ("GT", T_GT); ("LE", T_LE);
   ("GE", T_GE); ("IF", T_IF); ("IF_NONE", T_IF_NONE); ("IF_LEFT", T_IF_LEFT); ("DIP", T_DIP);
   ("DUP", T_DUP); ("SWAP", T_SWAP); ("PAIR", T_PAIR); ("UNPAIR", T_UNPAIR); ("CAR", T_CAR);
   ("CDR", T_CDR); ("DROP", T_DROP); ("UNIT", T_UNIT); ("FAILWITH", T_FAILWITH); ("RENAME", T_RENAME);
   ("UPDATE", T_UPDATE); ("GET", T_GET); ("DIG", T_DIG); ("DUG", T_DUG)].

Definition prim0 (t : byte) : node := NPrim t [] [].
Definition primA (t : byte) (annots : list bytes) : node := NPrim t [] annots.

Definition I_COMPARE := prim0 T_COMPARE.
Definition I_UNIT := prim0 T_UNIT.
Definition I_FAILWITH := prim0 T_FAILWITH.
Definition I_DUP := prim0 T_DUP.
Definition I_SWAP := prim0 T_SWAP.
Definition I_CAR := prim0 T_CAR.
Definition I_CDR := prim0 T_CDR.
Definition I_PAIR := prim0 T_PAIR.
Definition I_UNPAIR := prim0 T_UNPAIR.
Definition A_pp : bytes := [x40; x25; x25].          (* "@%%" *)
Definition A_pa : bytes := [x25; x40].               (* "%@"  *)
Definition A_p : bytes := [x25].                     (* "%"   *)
Definition I_CAR__ := primA T_CAR [A_pp].
Definition I_CDR__ := primA T_CDR [A_pp].
(* FAIL = [[UNIT, FAILWITH]]  (module constant of macros.py, used as a branch) *)
Definition FAIL_branch : node := NSeq [NSeq [I_UNIT; I_FAILWITH]].

(* ------------------------------------------------------------------------------------------ *)
(* helpers of macros.py                                                                        *)

Definition starts_with (c : byte) (a : bytes) : bool :=
  match a with x :: _ => byte_eqb x c | [] => false end.
Definition field_annots (annots : list bytes) : list bytes := filter (starts_with x25) annots.
Definition var_annots (annots : list bytes) : list bytes := filter (starts_with x40) annots.

Definition is_seq (n : node) : bool := match n with NSeq _ => true | _ => false end.
(* seq(instr) for a single node *)
Definition seqn (n : node) : node := if is_seq n then n else NSeq [n].

(* dip_n(instr, depth) *)
Definition dip_n (body : node) (depth : nat) : node :=
  match depth with
  | O => body
  | S O => NPrim T_DIP [seqn body] []
  | _ => NPrim T_DIP [NInt (Z.of_nat depth); seqn body] []
  end.

(* ---- name parsing --------------------------------------------------------------------------*)
Fixpoint strip (p s : string) : option string :=
  match p with
  | EmptyString => Some s
  | String a p' => match s with
                   | String b s' => if Ascii.eqb a b then strip p' s' else None
                   | EmptyString => None
                   end
  end.

Definition cmp_ops : list (string * byte) :=
  [("EQ", T_EQ); ("NEQ", T_NEQ); ("LT", T_LT); ("GT", T_GT); ("LE", T_LE); ("GE", T_GE)].

Fixpoint assoc (k : string) (l : list (string * byte)) : option byte :=
  match l with
  | [] => None
  | (k', v) :: r => if String.eqb k k' then Some v else assoc k r
  end.
Definition op_tag (s : string) : option byte := assoc s cmp_ops.

(* [run c s] = (n, rest): s = c^n ++ rest, rest does not start with c *)
Fixpoint run (c : ascii) (s : string) : nat * string :=
  match s with
  | String a r => if Ascii.eqb a c then let '(n, rest) := run c r in (S n, rest) else (O, s)
  | EmptyString => (O, s)
  end.

(* letters [AD]+ followed by the final "R": the CAR/CDR path, true = A *)
Fixpoint parse_ad (s : string) : option (list bool) :=
  match s with
  | String a r =>
      if Ascii.eqb a "R" then (match r with EmptyString => Some [] | _ => None end)
      else if Ascii.eqb a "A" then option_map (cons true) (parse_ad r)
      else if Ascii.eqb a "D" then option_map (cons false) (parse_ad r)
      else None
  | EmptyString => None
  end.

(* regex [PAI]{n}R$ : number of letters before the final R *)
Fixpoint count_pai (s : string) : option nat :=
  match s with
  | String a r =>
      if Ascii.eqb a "R" then (match r with EmptyString => Some O | _ => None end)
      else if Ascii.eqb a "P" || Ascii.eqb a "A" || Ascii.eqb a "I" then option_map S (count_pai r)
      else None
  | EmptyString => None
  end.

(* ---- PAIR trees as build_pxr_tree builds them ------------------------------------------------*)
Inductive pxr :=
| PLeaf (annot : option bytes)
| PNode (depth : nat) (l r : pxr).

(* parse(prim, annots, depth): returns (tree, rest of name, rest of annots, depth).
   None = Python's IndexError on an exhausted name. One letter is consumed per call, so the
   fuel [length name + 1] is never the reason for None. *)
Fixpoint parse_pxr (fuel : nat) (s : string) (annots : list bytes) (depth : nat)
  : option (pxr * string * list bytes * nat) :=
  match fuel with
  | O => None
  | S f =>
      match s with
      | EmptyString => None
      | String c r =>
          if Ascii.eqb c "P" then
            match parse_pxr f r annots depth with
            | None => None
            | Some (lt, r1, a1, d1) =>
                match parse_pxr f r1 a1 d1 with
                | None => None
                | Some (rt, r2, a2, d2) => Some (PNode depth lt rt, r2, a2, d2)
                end
            end
          else Some (PLeaf (hd_error annots), r, tl annots, S depth)
      end
  end.

Definition build_pxr_tree (name : string) (annots : list bytes) : option pxr :=
  match parse_pxr (S (String.length name)) name annots 0 with
  | Some (t, _, _, _) => Some t
  | None => None
  end.

Definition child_annot (t : pxr) : option bytes :=
  match t with PLeaf a => a | PNode _ _ _ => None end.

(* pre-order list of produce(node) wrapped by dip_n; [root] marks the first node *)
Fixpoint pxr_preorder (produce : bool -> option bytes -> option bytes -> node) (root : bool) (t : pxr)
  : list node :=
  match t with
  | PLeaf _ => []
  | PNode d l r =>
      dip_n (produce root (child_annot l) (child_annot r)) d
        :: pxr_preorder produce false l ++ pxr_preorder produce false r
  end.

Definition truthy (a : option bytes) : bool :=
  match a with Some (_ :: _) => true | _ => false end.
Definition skip_nones (l : list (option bytes)) : list bytes :=
  flat_map (fun o => match o with Some a => [a] | None => [] end) l.

Definition produce_pair (vars : list bytes) (root : bool) (la ra : option bytes) : node :=
  let pa := if truthy la || truthy ra
            then [Some (if truthy la then match la with Some a => a | None => A_p end else A_p); ra]
            else [] in
  primA T_PAIR (skip_nones pa ++ (if root then vars else [])).

Definition produce_unpair (root : bool) (la ra : option bytes) : node :=
  NSeq [primA T_UNPAIR (skip_nones [la; ra])].

(* ---- C[AD]+R, SET_C[AD]+R, MAP_C[AD]+R (recursion of the handlers through expand_macro
        turned into recursion on the path) ------------------------------------------------------*)
Definition cxr_tag (b : bool) : byte := if b then T_CAR else T_CDR.

Fixpoint cxr (path : list bool) (annots : list bytes) : list node :=
  match path with
  | [] => []
  | [b] => [primA (cxr_tag b) annots]
  | b :: r => prim0 (cxr_tag b) :: cxr r annots
  end.

Definition pair_pa (annots : list bytes) : node := primA T_PAIR ([A_pa; A_pa] ++ var_annots annots).

Fixpoint set_cxr (path : list bool) (annots : list bytes) : list node :=
  match path with
  | [] => []
  | [b] => [I_SWAP; NPrim T_UPDATE [NInt (if b then 1 else 2)%Z] annots]
  | true :: r =>
      [I_DUP; dip_n (NSeq [I_CAR__; NSeq (set_cxr r (field_annots annots))]) 1; I_CDR__; I_SWAP; pair_pa annots]
  | false :: r =>
      [I_DUP; dip_n (NSeq [I_CDR__; NSeq (set_cxr r (field_annots annots))]) 1; I_CAR__; pair_pa annots]
  end.

(* get_map_cxr_annots: None = the assertion "exactly one field annotation" fails *)
Definition map_cxr_annots (annots : list bytes) : option (bytes * list bytes) :=
  match field_annots annots with
  | [] => Some (A_p, [])
  | [fa] => Some (fa, [x40 :: tl fa])
  | _ => None
  end.

Fixpoint map_cxr (path : list bool) (annots : list bytes) (args : list node) : option (list node) :=
  match path with
  | [] => None
  | [true] =>
      match map_cxr_annots annots with
      | Some (ca, va) =>
          Some [I_DUP; I_CDR__; dip_n (NSeq (primA T_CAR va :: args)) 1; I_SWAP; primA T_PAIR [ca; A_pa]]
      | None => None
      end
  | [false] =>
      match map_cxr_annots annots with
      | Some (cd, va) =>
          Some ([I_DUP; primA T_CDR va] ++ args ++ [I_SWAP; I_CAR__; primA T_PAIR [A_pa; cd]])
      | None => None
      end
  | true :: r =>
      match map_cxr r (field_annots annots) args with
      | Some inner => Some [I_DUP; dip_n (NSeq [I_CAR__; NSeq inner]) 1; I_CDR__; I_SWAP; pair_pa annots]
      | None => None
      end
  | false :: r =>
      match map_cxr r (field_annots annots) args with
      | Some inner => Some [I_DUP; dip_n (NSeq [I_CDR__; NSeq inner]) 1; I_CAR__; pair_pa annots]
      | None => None
      end
  end.

(* ---- the handlers ------------------------------------------------------------------------------*)
Definition nil_b {A} (l : list A) : bool := match l with [] => true | _ => false end.
Definition guard (b : bool) (r : option (list node)) : option (list node) := if b then r else None.

Definition expand_cmpx (t : byte) annots (args : list node) : option (list node) :=
  guard (nil_b args) (Some [I_COMPARE; primA t annots]).
Definition expand_ifx (t : byte) annots (args : list node) : option (list node) :=
  match args with [_; _] => Some [primA t annots; NPrim T_IF args []] | _ => None end.
Definition expand_ifcmpx (t : byte) annots (args : list node) : option (list node) :=
  match args with [_; _] => Some [NSeq [I_COMPARE; primA t annots]; NPrim T_IF args []] | _ => None end.

(* a pattern that matches gives [Some result] (result None = an assertion of the handler failed,
   or IndexError in the tree parser); a pattern that does not match gives None *)
Definition m_fixed (name : string) (annots : list bytes) (args : list node) : option (option (list node)) :=
  if String.eqb name "FAIL" then Some (guard (nil_b annots && nil_b args) (Some [I_UNIT; I_FAILWITH]))
  else if String.eqb name "ASSERT" then
    Some (guard (nil_b annots && nil_b args) (Some [NPrim T_IF [NSeq []; FAIL_branch] []]))
  else if String.eqb name "ASSERT_NONE" then
    Some (guard (nil_b annots && nil_b args) (Some [NPrim T_IF_NONE [NSeq []; FAIL_branch] []]))
  else if String.eqb name "ASSERT_SOME" then
    Some (guard (nil_b args) (Some [NPrim T_IF_NONE [FAIL_branch; NSeq [primA T_RENAME annots]] []]))
  else if String.eqb name "ASSERT_LEFT" then
    Some (guard (nil_b args) (Some [NPrim T_IF_LEFT [NSeq [primA T_RENAME annots]; FAIL_branch] []]))
  else if String.eqb name "ASSERT_RIGHT" then
    Some (guard (nil_b args) (Some [NPrim T_IF_LEFT [FAIL_branch; NSeq [primA T_RENAME annots]] []]))
  else if String.eqb name "IF_SOME" then
    Some (match args with [a; b] => guard (nil_b annots) (Some [NPrim T_IF_NONE [b; a] []]) | _ => None end)
  else if String.eqb name "IF_RIGHT" then
    Some (match args with [a; b] => guard (nil_b annots) (Some [NPrim T_IF_LEFT [b; a] []]) | _ => None end)
  else None.

Definition m_op (prefix : string) (h : byte -> list bytes -> list node -> option (list node))
           (name : string) annots args : option (option (list node)) :=
  match strip prefix name with
  | Some r => match op_tag r with Some t => Some (h t annots args) | None => None end
  | None => None
  end.

Definition h_assert_x (t : byte) (annots : list bytes) (args : list node) : option (list node) :=
  guard (nil_b args && nil_b annots) (expand_ifx t [] [NSeq []; FAIL_branch]).
Definition h_assert_cmpx (t : byte) (annots : list bytes) (args : list node) : option (list node) :=
  guard (nil_b args && nil_b annots) (expand_ifcmpx t [] [NSeq []; FAIL_branch]).

(* D(II+)P and D(UU+)P *)
Definition m_dxp (name : string) annots (args : list node) : option (option (list node)) :=
  match name with
  | String "D" r =>
      let '(ni, ri) := run "I" r in
      if (2 <=? ni)%nat && String.eqb ri "P" then
        Some (match args with
              | [_] => guard (nil_b annots) (Some [NPrim T_DIP [NInt (Z.of_nat ni); NSeq args] []])
              | _ => None end)
      else
        let '(nu, ru) := run "U" r in
        if (2 <=? nu)%nat && String.eqb ru "P" then
          Some (guard (nil_b args) (Some [NPrim T_DUP [NInt (Z.of_nat nu)] annots]))
        else None
  | _ => None
  end.

Definition expand_pxr (name : string) annots (args : list node) : option (list node) :=
  if nil_b args then
    match build_pxr_tree name (field_annots annots) with
    | Some t => Some (rev (pxr_preorder (produce_pair (var_annots annots)) true t))
    | None => None
    end
  else None.

Definition expand_unpxr (name : string) annots (args : list node) : option (list node) :=
  if nil_b args then
    match build_pxr_tree name annots with
    | Some t => Some (pxr_preorder produce_unpair true t)
    | None => None
    end
  else None.

Definition is_pxr_name (name : string) : bool :=
  match name with
  | String "P" r => match count_pai r with Some n => (3 <=? n)%nat | None => false end
  | _ => false
  end.

Definition m_pxr (name : string) annots args : option (option (list node)) :=
  if is_pxr_name name then Some (expand_pxr name annots args)
  else match strip "UN" name with
       | Some r => if is_pxr_name r then Some (expand_unpxr r annots args) else None
       | None => None
       end.

(* C[AD]{2,}R, SET_C[AD]+R, MAP_C[AD]+R *)
Definition m_cxr (name : string) annots (args : list node) : option (option (list node)) :=
  match strip "C" name with
  | Some r => match parse_ad r with
              | Some path => if (2 <=? List.length path)%nat then Some (guard (nil_b args) (Some (cxr path annots))) else None
              | None => None
              end
  | None =>
      match strip "SET_C" name with
      | Some r => match parse_ad r with
                  | Some path => if (1 <=? List.length path)%nat then Some (guard (nil_b args) (Some (set_cxr path annots))) else None
                  | None => None
                  end
      | None =>
          match strip "MAP_C" name with
          | Some r => match parse_ad r with
                      | Some path => if (1 <=? List.length path)%nat then Some (map_cxr path annots args) else None
                      | None => None
                      end
          | None => None
          end
      end
  end.

Definition orelse {A} (a : option A) (b : option A) : option A := match a with Some _ => a | None => b end.

(* expand_macro(prim, annots, args) for a name that is not a primitive: Some code / None (any
   exception: unknown name, handler assertion, IndexError) *)
Definition expand (name : string) (annots : list bytes) (args : list node) : option (list node) :=
  match
    orelse (m_op "CMP" expand_cmpx name annots args)
   (orelse (m_op "IFCMP" expand_ifcmpx name annots args)
   (orelse (m_op "IF" expand_ifx name annots args)
   (orelse (m_fixed name annots args)
   (orelse (m_op "ASSERT_CMP" h_assert_cmpx name annots args)
   (orelse (m_op "ASSERT_" h_assert_x name annots args)
   (orelse (m_dxp name annots args)
   (orelse (m_pxr name annots args)
           (m_cxr name annots args))))))))
  with
  | Some r => r
  | None => None
  end.

(* ============================================================================================ *)
(* Reference evaluator for the instruction fragment                                              *)
(* ============================================================================================ *)

Inductive val :=
| VInt (z : Z) | VBool (b : bool) | VUnit
| VPair (a b : val)
| VNone | VSome (v : val)
| VLeft (v : val) | VRight (v : val).

Definition stack := list val.

Inductive res :=
| ROk (s : stack)
| RFailed (v : val)      (* FAILWITH *)
| RErr.                  (* ill-typed / stack too short / unknown instruction *)

Fixpoint val_eqb (a b : val) : bool :=
  match a, b with
  | VInt x, VInt y => Z.eqb x y
  | VBool x, VBool y => Bool.eqb x y
  | VUnit, VUnit => true
  | VPair a1 a2, VPair b1 b2 => val_eqb a1 b1 && val_eqb a2 b2
  | VNone, VNone => true
  | VSome x, VSome y => val_eqb x y
  | VLeft x, VLeft y => val_eqb x y
  | VRight x, VRight y => val_eqb x y
  | _, _ => false
  end.

Definition res_eqb (a b : res) : bool :=
  match a, b with
  | ROk s, ROk t => list_eqb val_eqb s t
  | RFailed v, RFailed w => val_eqb v w
  | RErr, RErr => true
  | _, _ => false
  end.

(* COMPARE on values of one comparable type (None: shapes differ) *)
Fixpoint vcmp (a b : val) : option comparison :=
  match a, b with
  | VInt x, VInt y => Some (Z.compare x y)
  | VBool x, VBool y => Some (match x, y with false, true => Lt | true, false => Gt | _, _ => Eq end)
  | VUnit, VUnit => Some Eq
  | VPair a1 a2, VPair b1 b2 =>
      match vcmp a1 b1, vcmp a2 b2 with
      | Some Eq, Some c => Some c
      | Some c, Some _ => Some c
      | _, _ => None
      end
  | VNone, VNone => Some Eq
  | VNone, VSome _ => Some Lt
  | VSome _, VNone => Some Gt
  | VSome x, VSome y => vcmp x y
  | VLeft x, VLeft y => vcmp x y
  | VLeft _, VRight _ => Some Lt
  | VRight _, VLeft _ => Some Gt
  | VRight x, VRight y => vcmp x y
  | _, _ => None
  end.

Definition cmp_Z (c : comparison) : Z := match c with Lt => (-1)%Z | Eq => 0%Z | Gt => 1%Z end.

Definition zero_test (t : byte) : option (Z -> bool) :=
  if byte_eqb t T_EQ then Some (fun z => Z.eqb z 0)
  else if byte_eqb t T_NEQ then Some (fun z => negb (Z.eqb z 0))
  else if byte_eqb t T_LT then Some (fun z => Z.ltb z 0)
  else if byte_eqb t T_GT then Some (fun z => Z.ltb 0 z)
  else if byte_eqb t T_LE then Some (fun z => Z.leb z 0)
  else if byte_eqb t T_GE then Some (fun z => Z.leb 0 z)
  else None.

(* right combs *)
Fixpoint mk_comb (l : list val) : option val :=
  match l with
  | [] => None
  | [v] => Some v
  | v :: r => match mk_comb r with Some c => Some (VPair v c) | None => None end
  end.

Fixpoint un_comb (n : nat) (v : val) : option (list val) :=   (* n >= 1 leaves *)
  match n with
  | O => None
  | S O => Some [v]
  | S m => match v with
           | VPair a b => match un_comb m b with Some l => Some (a :: l) | None => None end
           | _ => None
           end
  end.

Fixpoint get_n (n : nat) (v : val) : option val :=
  match n with
  | O => Some v
  | S O => match v with VPair a _ => Some a | _ => None end
  | S (S m) => match v with VPair _ b => get_n m b | _ => None end
  end.

Fixpoint update_n (n : nat) (x v : val) : option val :=
  match n with
  | O => Some x
  | S O => match v with VPair _ b => Some (VPair x b) | _ => None end
  | S (S m) => match v with
               | VPair a b => match update_n m x b with Some b' => Some (VPair a b') | None => None end
               | _ => None
               end
  end.

Definition nat_arg (args : list node) : option nat :=
  match args with
  | [NInt z] => if (z <? 0)%Z then None else Some (Z.to_nat z)
  | _ => None
  end.

Definition dip (k : nat) (f : stack -> res) (s : stack) : res :=
  if (List.length s <? k)%nat then RErr
  else match f (skipn k s) with
       | ROk s' => ROk (firstn k s ++ s')
       | e => e
       end.

Section Eval.
  (* meaning of every primitive outside the fragment (a deterministic stack function) *)
  Variable ext : byte -> list node -> stack -> res.

  (* instructions without code arguments *)
  Definition step (t : byte) (args : list node) (s : stack) : res :=
    if byte_eqb t T_DROP then
      match args with
      | [] => match s with _ :: s' => ROk s' | [] => RErr end
      | _ => match nat_arg args with
             | Some k => if (List.length s <? k)%nat then RErr else ROk (skipn k s)
             | None => RErr end
      end
    else if byte_eqb t T_DUP then
      match args with
      | [] => match s with v :: _ => ROk (v :: s) | [] => RErr end
      | _ => match nat_arg args with
             | Some (S k) => match nth_error s k with Some v => ROk (v :: s) | None => RErr end
             | _ => RErr end
      end
    else if byte_eqb t T_SWAP then
      match args, s with [], a :: b :: s' => ROk (b :: a :: s') | _, _ => RErr end
    else if byte_eqb t T_PAIR then
      match args with
      | [] => match s with a :: b :: s' => ROk (VPair a b :: s') | _ => RErr end
      | _ => match nat_arg args with
             | Some k => if ((k <? 2) || (List.length s <? k))%nat then RErr
                         else match mk_comb (firstn k s) with
                              | Some c => ROk (c :: skipn k s)
                              | None => RErr end
             | None => RErr end
      end
    else if byte_eqb t T_UNPAIR then
      match args with
      | [] => match s with VPair a b :: s' => ROk (a :: b :: s') | _ => RErr end
      | _ => match nat_arg args, s with
             | Some k, v :: s' => if (k <? 2)%nat then RErr
                                  else match un_comb k v with Some l => ROk (l ++ s') | None => RErr end
             | _, _ => RErr end
      end
    else if byte_eqb t T_CAR then
      match args, s with [], VPair a _ :: s' => ROk (a :: s') | _, _ => RErr end
    else if byte_eqb t T_CDR then
      match args, s with [], VPair _ b :: s' => ROk (b :: s') | _, _ => RErr end
    else if byte_eqb t T_UNIT then
      match args with [] => ROk (VUnit :: s) | _ => RErr end
    else if byte_eqb t T_FAILWITH then
      match args, s with [], v :: _ => RFailed v | _, _ => RErr end
    else if byte_eqb t T_RENAME then
      match args with [] => ROk s | _ => RErr end
    else if byte_eqb t T_COMPARE then
      match args, s with
      | [], a :: b :: s' => match vcmp a b with Some c => ROk (VInt (cmp_Z c) :: s') | None => RErr end
      | _, _ => RErr end
    else if byte_eqb t T_GET then
      match nat_arg args, s with
      | Some k, v :: s' => match get_n k v with Some x => ROk (x :: s') | None => RErr end
      | _, _ => RErr end
    else if byte_eqb t T_UPDATE then
      match nat_arg args, s with
      | Some k, x :: v :: s' => match update_n k x v with Some v' => ROk (v' :: s') | None => RErr end
      | _, _ => RErr end
    else if byte_eqb t T_DIG then
      match nat_arg args with
      | Some k => match nth_error s k with
                  | Some v => ROk (v :: firstn k s ++ skipn (S k) s)
                  | None => RErr end
      | None => RErr end
    else if byte_eqb t T_DUG then
      match nat_arg args, s with
      | Some k, v :: s' => if (List.length s' <? k)%nat then RErr else ROk (firstn k s' ++ v :: skipn k s')
      | _, _ => RErr end
    else match zero_test t with
         | Some f => match args, s with [], VInt z :: s' => ROk (VBool (f z) :: s') | _, _ => RErr end
         | None => ext t args s
         end.

  Fixpoint eval (n : node) (s : stack) {struct n} : res :=
    match n with
    | NSeq items =>
        (fix go (l : list node) (s : stack) {struct l} : res :=
           match l with
           | [] => ROk s
           | i :: r => match eval i s with ROk s' => go r s' | e => e end
           end) items s
    | NPrim t args _ =>
        if byte_eqb t T_DIP then
          match args with
          | [body] => dip 1 (eval body) s
          | [kn; body] => match kn with
                          | NInt k => if (k <? 0)%Z then RErr else dip (Z.to_nat k) (eval body) s
                          | _ => RErr
                          end
          | _ => RErr
          end
        else if byte_eqb t T_IF then
          match args, s with
          | [bt; bf], VBool b :: s' => if b then eval bt s' else eval bf s'
          | _, _ => RErr
          end
        else if byte_eqb t T_IF_NONE then
          match args, s with
          | [bn; bs], VNone :: s' => eval bn s'
          | [bn; bs], VSome v :: s' => eval bs (v :: s')
          | _, _ => RErr
          end
        else if byte_eqb t T_IF_LEFT then
          match args, s with
          | [bl; br], VLeft v :: s' => eval bl (v :: s')
          | [bl; br], VRight v :: s' => eval br (v :: s')
          | _, _ => RErr
          end
        else step t args s
    | _ => RErr
    end.

  Fixpoint eval_list (l : list node) (s : stack) : res :=
    match l with
    | [] => ROk s
    | i :: r => match eval i s with ROk s' => eval_list r s' | e => e end
    end.
End Eval.

(* the evaluator used by the correspondence run: nothing outside the fragment *)
Definition ext_none (t : byte) (args : list node) (s : stack) : res := RErr.
Definition run_code (code : list node) (s : stack) : res := eval ext_none (NSeq code) s.

(* ============================================================================================ *)
(* Reference definitions (Michelson reference, chapter "Macros")                                  *)
(* ============================================================================================ *)

(* CMP{op} = COMPARE ; op          IF{op} bt bf = op ; IF bt bf
   IFCMP{op} bt bf = COMPARE ; op ; IF bt bf *)
Definition ref_cmp (t : byte) : list node := [I_COMPARE; prim0 t].
Definition ref_if (t : byte) (bt bf : node) : list node := [prim0 t; NPrim T_IF [bt; bf] []].
Definition ref_ifcmp (t : byte) (bt bf : node) : list node := [I_COMPARE; prim0 t; NPrim T_IF [bt; bf] []].
(* FAIL = UNIT ; FAILWITH *)
Definition ref_fail : list node := [I_UNIT; I_FAILWITH].
Definition ref_fail_b : node := NSeq ref_fail.
(* ASSERT = IF {} {FAIL}; ASSERT_{op} = IF{op} {} {FAIL}; ASSERT_CMP{op} = IFCMP{op} {} {FAIL} *)
Definition ref_assert : list node := [NPrim T_IF [NSeq []; ref_fail_b] []].
Definition ref_assert_op (t : byte) : list node := ref_if t (NSeq []) ref_fail_b.
Definition ref_assert_cmp (t : byte) : list node := ref_ifcmp t (NSeq []) ref_fail_b.
(* ASSERT_NONE = IF_NONE {} {FAIL}; ASSERT_SOME = IF_NONE {FAIL} {};
   ASSERT_LEFT = IF_LEFT {} {FAIL}; ASSERT_RIGHT = IF_LEFT {FAIL} {} *)
Definition ref_assert_none : list node := [NPrim T_IF_NONE [NSeq []; ref_fail_b] []].
Definition ref_assert_some : list node := [NPrim T_IF_NONE [ref_fail_b; NSeq []] []].
Definition ref_assert_left : list node := [NPrim T_IF_LEFT [NSeq []; ref_fail_b] []].
Definition ref_assert_right : list node := [NPrim T_IF_LEFT [ref_fail_b; NSeq []] []].
(* IF_SOME bt bf = IF_NONE bf bt; IF_RIGHT bt bf = IF_LEFT bf bt *)
Definition ref_if_some (bt bf : node) : list node := [NPrim T_IF_NONE [bf; bt] []].
Definition ref_if_right (bt bf : node) : list node := [NPrim T_IF_LEFT [bf; bt] []].

(* DIP code is the base; DII+P code = DIP (DI+P code).  [ref_dixp n] has n letters I, n >= 1 *)
Fixpoint ref_dixp (n : nat) (code : node) : node :=
  match n with
  | O => code
  | S O => NPrim T_DIP [code] []
  | S m => NPrim T_DIP [NSeq [ref_dixp m code]] []
  end.

(* DUP is the base; DUU+P = DIP (DU+P) ; SWAP.  [ref_duxp n] has n letters U, n >= 1 *)
Fixpoint ref_duxp (n : nat) : list node :=
  match n with
  | O => []
  | S O => [I_DUP]
  | S m => [NPrim T_DIP [NSeq (ref_duxp m)] []; I_SWAP]
  end.

(* PAIR trees: a leaf is the letter A in left position, I in right position *)
Inductive tree := L | N (l r : tree).

Fixpoint leaves (t : tree) : nat := match t with L => 1 | N l r => leaves l + leaves r end.

(* the letters of a subtree in left (A) or right (I) position *)
Fixpoint letters (left : bool) (t : tree) : string :=
  match t with
  | L => if left then "A" else "I"
  | N l r => ("P" ++ letters true l ++ letters false r)%string
  end.
(* the macro names *)
Definition pair_name (t : tree) : string := (letters true t ++ "R")%string.      (* for t = N _ _ : "P…R" *)
Definition unpair_name (t : tree) : string := ("UN" ++ pair_name t)%string.

(* PA(right)R = DIP ((right)R) ; PAIR      P(left)IR = (left)R ; PAIR
   P(left)(right)R = (left)R ; DIP ((right)R) ; PAIR       (PAIR itself for P A I R) *)
Fixpoint ref_pair (t : tree) : list node :=
  match t with
  | L => []
  | N l r => ref_pair l ++ (match r with L => [] | _ => [NPrim T_DIP [NSeq (ref_pair r)] []] end) ++ [I_PAIR]
  end.

(* UNPA(right)R = UNPAIR ; DIP (UN(right)R)     UNP(left)IR = UNPAIR ; UN(left)R
   UNP(left)(right)R = UNPAIR ; DIP (UN(right)R) ; UN(left)R *)
Fixpoint ref_unpair (t : tree) : list node :=
  match t with
  | L => []
  | N l r => [I_UNPAIR] ++ (match r with L => [] | _ => [NPrim T_DIP [NSeq (ref_unpair r)] []] end) ++ ref_unpair l
  end.

(* denotation of a PAIR tree: consume the leaves from the top of the stack, left to right *)
Fixpoint build (t : tree) (s : stack) : option (val * stack) :=
  match t with
  | L => match s with v :: s' => Some (v, s') | [] => None end
  | N l r => match build l s with
             | Some (a, s1) => match build r s1 with
                               | Some (b, s2) => Some (VPair a b, s2)
                               | None => None end
             | None => None end
  end.

(* denotation of an UNPAIR tree: the leaves of the value, left to right *)
Fixpoint split (t : tree) (v : val) : option (list val) :=
  match t with
  | L => Some [v]
  | N l r => match v with
             | VPair a b => match split l a, split r b with
                            | Some x, Some y => Some (x ++ y)
                            | _, _ => None end
             | _ => None end
  end.

(* CA(rest)R = CAR ; C(rest)R      CD(rest)R = CDR ; C(rest)R *)
Definition ref_cxr (path : list bool) : list node := map (fun b => prim0 (cxr_tag b)) path.
Fixpoint access (path : list bool) (v : val) : option val :=
  match path with
  | [] => Some v
  | b :: r => match v with VPair x y => access r (if b then x else y) | _ => None end
  end.

(* SET_CAR = CDR ; SWAP ; PAIR        SET_CDR = CAR ; PAIR
   SET_CA(rest)R = { DUP ; DIP { CAR ; SET_C(rest)R } ; CDR ; SWAP ; PAIR }
   SET_CD(rest)R = { DUP ; DIP { CDR ; SET_C(rest)R } ; CAR ; PAIR } *)
Fixpoint ref_set_cxr (path : list bool) : list node :=
  match path with
  | [] => []
  | [true] => [I_CDR; I_SWAP; I_PAIR]
  | [false] => [I_CAR; I_PAIR]
  | true :: r => [I_DUP; NPrim T_DIP [NSeq [I_CAR; NSeq (ref_set_cxr r)]] []; I_CDR; I_SWAP; I_PAIR]
  | false :: r => [I_DUP; NPrim T_DIP [NSeq [I_CDR; NSeq (ref_set_cxr r)]] []; I_CAR; I_PAIR]
  end.
Fixpoint set_path (path : list bool) (v x : val) : option val :=   (* replace the component at [path] by x *)
  match path with
  | [] => Some x
  | b :: r => match v with
              | VPair p q =>
                  if b then match set_path r p x with Some p' => Some (VPair p' q) | None => None end
                  else match set_path r q x with Some q' => Some (VPair p q') | None => None end
              | _ => None end
  end.

(* MAP_CAR code = DUP ; CDR ; DIP { CAR ; code } ; SWAP ; PAIR
   MAP_CDR code = DUP ; CDR ; code ; SWAP ; CAR ; PAIR
   MAP_CA(rest)R code = { DUP ; DIP { CAR ; MAP_C(rest)R code } ; CDR ; SWAP ; PAIR }
   MAP_CD(rest)R code = { DUP ; DIP { CDR ; MAP_C(rest)R code } ; CAR ; PAIR } *)
Fixpoint ref_map_cxr (path : list bool) (code : node) : list node :=
  match path with
  | [] => []
  | [true] => [I_DUP; I_CDR; NPrim T_DIP [NSeq [I_CAR; code]] []; I_SWAP; I_PAIR]
  | [false] => [I_DUP; I_CDR; code; I_SWAP; I_CAR; I_PAIR]
  | true :: r => [I_DUP; NPrim T_DIP [NSeq [I_CAR; NSeq (ref_map_cxr r code)]] []; I_CDR; I_SWAP; I_PAIR]
  | false :: r => [I_DUP; NPrim T_DIP [NSeq [I_CDR; NSeq (ref_map_cxr r code)]] []; I_CAR; I_PAIR]
  end.

(* names of the path macros *)
Fixpoint ad_letters (path : list bool) : string :=
  match path with [] => "" | b :: r => ((if b then "A" else "D") ++ ad_letters r)%string end.
Definition cxr_name (path : list bool) : string := ("C" ++ ad_letters path ++ "R")%string.
Definition set_cxr_name (path : list bool) : string := ("SET_C" ++ ad_letters path ++ "R")%string.
Definition map_cxr_name (path : list bool) : string := ("MAP_C" ++ ad_letters path ++ "R")%string.
Fixpoint rep (c : string) (n : nat) : string := match n with O => "" | S m => (c ++ rep c m)%string end.
Definition dixp_name (n : nat) : string := ("D" ++ rep "I" n ++ "P")%string.
Definition duxp_name (n : nat) : string := ("D" ++ rep "U" n ++ "P")%string.

(* ---- interface for the correspondence cases ---------------------------------------------------*)
Definition code_eqb (a b : option (list node)) : bool :=
  option_eqb (fun x y => node_eqb (NSeq x) (NSeq y)) a b.

(* expansion followed by evaluation: None = the name/arguments are rejected *)
Definition expand_run (name : string) (annots : list bytes) (args : list node) (s : stack) : option res :=
  match expand name annots args with
  | Some code => Some (run_code code s)
  | None => None
  end.
Definition ores_eqb (a b : option res) : bool := option_eqb res_eqb a b.
