(* Michelson/Comb.v — model of the pair / right-comb operations of pytezos on values that carry their
   ANNOTATED type, as pytezos values do (the class of a value is its type, with field_name/type_name):
     PairType.iter_comb / unpairn_comb / access_comb / update_comb / from_comb / to_micheline_value
     (src/pytezos/michelson/types/pair.py) and GET n, UPDATE n, PAIR n, UNPAIR n, PAIR, UNPAIR, CAR, CDR,
     COMPARE, PACK, DUP, SWAP, DROP, PUSH (src/pytezos/michelson/instructions/{adt,compare,stack}.py).
   Everything is polymorphic in the annotation type [A]: [gval ann] are pytezos values, [gval unit] are the
   erased ones, [gmap f] re-annotates.  No proofs here (Proofs/Comb_proofs.v). *)
From Coq Require Import List ZArith Bool Arith.
From Coq.Strings Require Import Byte.
From PV Require Import Base.Bytes Base.Result Codec.Micheline.
Import ListNotations.

(* a type annotation pair: %field and :type *)
Record ann := { fld : option bytes; tyn : option bytes }.
Definition no_ann : ann := {| fld := None; tyn := None |}.

Section Poly.
Context {A : Type}.

Inductive gty : Type :=
| TyPrim (a : A) (p : byte)                 (* int nat string bytes bool unit mutez … (prim tag) *)
| TyPair (a : A) (l r : gty)
| TyOption (a : A) (t : gty)
| TyOr (a : A) (l r : gty)
| TyList (a : A) (t : gty)
| TyLambda (a : A) (p r : gty).

Inductive gval : Type :=
| GInt (a : A) (p : byte) (z : Z)           (* int / nat / mutez / timestamp: tag p *)
| GStr (a : A) (s : bytes)
| GByt (a : A) (b : bytes)
| GBool (a : A) (b : bool)
| GUnit (a : A)
| GPair (a : A) (x y : gval)
| GNone (a : A) (t : gty)
| GSome (a : A) (v : gval)
| GLeft (a : A) (v : gval) (rt : gty)
| GRight (a : A) (lt : gty) (v : gval)
| GPacked (a : A) (m : node)                (* the bytes value 0x05 ++ forge m produced by PACK *)
(* lists as chains of cells; every cell repeats the annotation and the item type of the list's class *)
| GNil (a : A) (t : gty)
| GCons (a : A) (t : gty) (h tl : gval)
(* a lambda value: parameter type, result type, code *)
| GLam (a : A) (p r : gty) (body : cinstr)
with cinstr : Type :=
| IPush (v : gval)                 (* PUSH with the literal already read *)
| IPushT (t : gty) (lit : node)    (* PUSH ty literal *)
| IUnpack (t : gty)                (* UNPACK ty, on the result of a PACK *)
| IGet (n : nat) | IUpdate (n : nat) | IPairN (n : nat) | IUnpairN (n : nat)
| ICar | ICdr | IPair | IUnpair | ICompare | IPack
| IDup | ISwap | IDrop
| ISome | INone (t : gty) | ILeft (t : gty) | IRight (t : gty) | IUnit
| ICmpOp (op : byte)                 (* EQ NEQ LT GT LE GE: int -> bool *)
| IArith (op : byte)                 (* ADD SUB MUL on int / nat *)
| INil (t : gty) | ICons
| ISeq (a b : cinstr) | INop
| IIf (a b : cinstr) | IIfNone (a b : cinstr) | IIfLeft (a b : cinstr) | IIfCons (a b : cinstr)
| IDip (n : nat) (a : cinstr)
| IIter (a : cinstr) | IMap (a : cinstr) | ILoop (a : cinstr)
| ILambda (p r : gty) (body : cinstr) | IExec | IApply.

End Poly.
Arguments gty A : clear implicits.
Arguments gval A : clear implicits.
Arguments cinstr A : clear implicits.

Definition aty := gty ann.
Definition aval := gval ann.
Definition ty := gty unit.
Definition val := gval unit.

(* ---- re-annotation / erasure -------------------------------------------------------------------*)
Section Map.
Context {A B : Type} (f : A -> B).
Fixpoint tmap (t : gty A) : gty B :=
  match t with
  | TyPrim a p => TyPrim (f a) p
  | TyPair a l r => TyPair (f a) (tmap l) (tmap r)
  | TyOption a t => TyOption (f a) (tmap t)
  | TyOr a l r => TyOr (f a) (tmap l) (tmap r)
  | TyList a t => TyList (f a) (tmap t)
  | TyLambda a p r => TyLambda (f a) (tmap p) (tmap r)
  end.
Fixpoint gmap (v : gval A) : gval B :=
  match v with
  | GInt a p z => GInt (f a) p z
  | GStr a s => GStr (f a) s
  | GByt a b => GByt (f a) b
  | GBool a b => GBool (f a) b
  | GUnit a => GUnit (f a)
  | GPair a x y => GPair (f a) (gmap x) (gmap y)
  | GNone a t => GNone (f a) (tmap t)
  | GSome a v => GSome (f a) (gmap v)
  | GLeft a v rt => GLeft (f a) (gmap v) (tmap rt)
  | GRight a lt v => GRight (f a) (tmap lt) (gmap v)
  | GPacked a m => GPacked (f a) m
  | GNil a t => GNil (f a) (tmap t)
  | GCons a t h tl => GCons (f a) (tmap t) (gmap h) (gmap tl)
  | GLam a p r body => GLam (f a) (tmap p) (tmap r) (imap body)
  end
with imap (i : cinstr A) : cinstr B :=
  match i with
  | IPush v => IPush (gmap v)
  | IPushT t lit => IPushT (tmap t) lit
  | IUnpack t => IUnpack (tmap t)
  | IGet n => IGet n | IUpdate n => IUpdate n | IPairN n => IPairN n | IUnpairN n => IUnpairN n
  | ICar => ICar | ICdr => ICdr | IPair => IPair | IUnpair => IUnpair | ICompare => ICompare
  | IPack => IPack | IDup => IDup | ISwap => ISwap | IDrop => IDrop
  | ISome => ISome | INone t => INone (tmap t) | ILeft t => ILeft (tmap t) | IRight t => IRight (tmap t)
  | IUnit => IUnit | ICmpOp op => ICmpOp op | IArith op => IArith op
  | INil t => INil (tmap t) | ICons => ICons
  | ISeq a b => ISeq (imap a) (imap b) | INop => INop
  | IIf a b => IIf (imap a) (imap b)
  | IIfNone a b => IIfNone (imap a) (imap b)
  | IIfLeft a b => IIfLeft (imap a) (imap b)
  | IIfCons a b => IIfCons (imap a) (imap b)
  | IDip n a => IDip n (imap a)
  | IIter a => IIter (imap a) | IMap a => IMap (imap a) | ILoop a => ILoop (imap a)
  | ILambda p r body => ILambda (tmap p) (tmap r) (imap body) | IExec => IExec | IApply => IApply
  end.

End Map.

Definition erase_ty : aty -> ty := tmap (fun _ => tt).
Definition erase : aval -> val := gmap (fun _ => tt).

(* ---- the comb operations of PairType -------------------------------------------------------------*)
Section Ops.
Context {A : Type}.
Variable d : A.        (* annotation of freshly built nodes: pytezos builds them unannotated *)

Definition is_pair (v : gval A) : bool := match v with GPair _ _ _ => true | _ => false end.

(* iter_comb(): the leaves of the right spine; for a non-pair [v] itself *)
Fixpoint leaves_of (v : gval A) : list (gval A) :=
  match v with GPair _ x y => x :: leaves_of y | _ => [v] end.

(* iter_comb(include_nodes=True) *)
Fixpoint nodes_of (v : gval A) : list (gval A) :=
  match v with GPair _ x y => v :: x :: nodes_of y | _ => [v] end.

(* unpairn_comb(count) *)
Fixpoint unpairn (c : nat) (v : gval A) {struct v} : list (gval A) :=
  match v with
  | GPair _ x y =>
      x :: (match c with
            | S c' => if is_pair y then unpairn c' y else [y]
            | O => [y]
            end)
  | _ => [v]
  end.

(* PairType.from_comb(leaves): None = the assertion "unexpected number of args" *)
Fixpoint from_comb (l : list (gval A)) : option (gval A) :=
  match l with
  | [] => None
  | [x] => None
  | [x; y] => Some (GPair d x y)
  | x :: r => match from_comb r with Some c => Some (GPair d x c) | None => None end
  end.

(* access_comb(idx) *)
Definition access_comb (idx : nat) (v : gval A) : option (gval A) := nth_error (nodes_of v) idx.

Fixpoint replace_nth (i : nat) (e : gval A) (l : list (gval A)) : list (gval A) :=
  match l with
  | [] => []
  | x :: r => match i with O => e :: r | S i' => x :: replace_nth i' e r end
  end.

(* update_comb(idx, element) on a pair *)
Definition update_comb (idx : nat) (e v : gval A) : option (gval A) :=
  if idx =? 0 then Some e
  else if Nat.odd idx then from_comb (replace_nth (Nat.div2 idx) e (leaves_of v))
  else from_comb (firstn (Nat.div2 idx) (leaves_of v) ++ leaves_of e).

(* ---- Micheline rendering (PairType.to_micheline_value and the leaves') ---------------------------*)
Inductive mode := Readable | Optimized | LegacyOptimized.

Definition P_Pair := x07. Definition P_Some := x09. Definition P_None := x06. Definition P_Left := x05.
Definition P_Right := x08. Definition P_True := x0a. Definition P_False := x03. Definition P_Unit := x0b.

Definition comb_node (m : mode) (args : list node) : node :=
  match m with
  | Readable | LegacyOptimized => NPrim P_Pair args []
  | Optimized =>
      match args with
      | [a; b] => NPrim P_Pair [a; b] []
      | [a; b; c] => NPrim P_Pair [a; NPrim P_Pair [b; c] []] []
      | _ => NSeq args                                 (* four leaves and more *)
      end
  end.

(* structural on the value: the spine is walked by an inner fixpoint *)
Fixpoint to_mich (m : mode) (v : gval A) : node :=
  match v with
  | GInt _ _ z => NInt z
  | GStr _ s => NStr s
  | GByt _ b => NByt b
  | GBool _ b => NPrim (if b then P_True else P_False) [] []
  | GUnit _ => NPrim P_Unit [] []
  | GPair _ x y =>
      match m with
      | LegacyOptimized => NPrim P_Pair [to_mich m x; to_mich m y] []
      | _ =>
          comb_node m (to_mich m x ::
            (fix spine (w : gval A) : list node :=
               match w with
               | GPair _ x' y' => to_mich m x' :: spine y'
               | _ => [to_mich m w]
               end) y)
      end
  | GNone _ _ => NPrim P_None [] []
  | GSome _ w => NPrim P_Some [to_mich m w] []
  | GLeft _ w _ => NPrim P_Left [to_mich m w] []
  | GRight _ _ w => NPrim P_Right [to_mich m w] []
  | GPacked _ _ => NByt []            (* not rendered by the model (bytes of a PACK result) *)
  | GLam _ _ _ _ => NSeq []          (* not rendered by the model (code of a lambda) *)
  | GNil _ _ => NSeq []
  | GCons _ _ h tl =>
      NSeq (to_mich m h ::
        (fix els (w : gval A) : list node :=
           match w with
           | GCons _ _ h' tl' => to_mich m h' :: els tl'
           | _ => []
           end) tl)
  end.

(* the rendered elements of a list value *)
Fixpoint elems_of (m : mode) (v : gval A) : list node :=
  match v with
  | GCons _ _ h tl => to_mich m h :: elems_of m tl
  | _ => []
  end.

(* the rendered leaves of the right spine (what the inner fixpoint of [to_mich] computes) *)
Fixpoint spine_of (m : mode) (v : gval A) : list node :=
  match v with
  | GPair _ x y => to_mich m x :: spine_of m y
  | _ => [to_mich m v]
  end.

(* ---- comparison (types are checked ignoring annotations: Micheline.assert_type_equal) -----------*)
Fixpoint list_cmp (l1 l2 : bytes) : comparison :=
  match l1, l2 with
  | [], [] => Eq
  | [], _ => Lt
  | _, [] => Gt
  | a :: r1, b :: r2 => match N.compare (Byte.to_N a) (Byte.to_N b) with Eq => list_cmp r1 r2 | c => c end
  end.

Fixpoint vcmp (a b : gval A) : option comparison :=
  match a, b with
  | GInt _ p x, GInt _ q y => if byte_eqb p q then Some (Z.compare x y) else None
  | GStr _ x, GStr _ y => Some (list_cmp x y)
  | GByt _ x, GByt _ y => Some (list_cmp x y)
  | GBool _ x, GBool _ y => Some (match x, y with false, true => Lt | true, false => Gt | _, _ => Eq end)
  | GUnit _, GUnit _ => Some Eq
  | GPair _ a1 a2, GPair _ b1 b2 =>
      match vcmp a1 b1, vcmp a2 b2 with
      | Some Eq, Some c => Some c
      | Some c, Some _ => Some c
      | _, _ => None
      end
  | GNone _ _, GNone _ _ => Some Eq
  | GNone _ _, GSome _ _ => Some Lt
  | GSome _ _, GNone _ _ => Some Gt
  | GSome _ x, GSome _ y => vcmp x y
  | GLeft _ x _, GLeft _ y _ => vcmp x y
  | GLeft _ _ _, GRight _ _ _ => Some Lt
  | GRight _ _ _, GLeft _ _ _ => Some Gt
  | GRight _ _ x, GRight _ _ y => vcmp x y
  | _, _ => None
  end.

(* the type of a value as far as Micheline.assert_type_equal looks at it (prims and arity, no annotations) *)
Fixpoint ty_shape_eqb (t u : gty A) : bool :=
  match t, u with
  | TyPrim _ p, TyPrim _ q => byte_eqb p q
  | TyPair _ l r, TyPair _ l' r' => ty_shape_eqb l l' && ty_shape_eqb r r'
  | TyOption _ x, TyOption _ y => ty_shape_eqb x y
  | TyOr _ l r, TyOr _ l' r' => ty_shape_eqb l l' && ty_shape_eqb r r'
  | TyList _ x, TyList _ y => ty_shape_eqb x y
  | TyLambda _ p r, TyLambda _ p' r' => ty_shape_eqb p p' && ty_shape_eqb r r'
  | _, _ => false
  end.

Definition T_bytes0 := x69. Definition T_string0 := x68. Definition T_bool0 := x59. Definition T_unit0 := x6c.

Fixpoint type_of (v : gval A) : gty A :=
  match v with
  | GInt a p _ => TyPrim a p
  | GStr a _ => TyPrim a T_string0
  | GByt a _ => TyPrim a T_bytes0
  | GBool a _ => TyPrim a T_bool0
  | GUnit a => TyPrim a T_unit0
  | GPair a x y => TyPair a (type_of x) (type_of y)
  | GNone a t => TyOption a t
  | GSome a w => TyOption a (type_of w)
  | GLeft a w rt => TyOr a (type_of w) rt
  | GRight a lt w => TyOr a lt (type_of w)
  | GPacked a _ => TyPrim a T_bytes0
  | GNil a t => TyList a t
  | GCons a t _ _ => TyList a t
  | GLam a p r _ => TyLambda a p r
  end.

(* get_anon_type(): the same type without the annotations of its root *)
Definition anon (t : gty A) : gty A :=
  match t with
  | TyPrim _ p => TyPrim d p
  | TyPair _ l r => TyPair d l r
  | TyOption _ x => TyOption d x
  | TyOr _ l r => TyOr d l r
  | TyList _ x => TyList d x
  | TyLambda _ p r => TyLambda d p r
  end.

(* strip_type_annots(): every annotation of the type dropped, recursively *)
Definition strip (t : gty A) : gty A := tmap (fun _ => d) t.

(* COMPARE: a.assert_type_equal(type(b)) first, then the comparison *)
Definition compare_checked (a b : gval A) : option comparison :=
  if ty_shape_eqb (type_of a) (type_of b) then vcmp a b else None.

Definition cmp_Z (c : comparison) : Z := match c with Lt => (-1)%Z | Eq => 0%Z | Gt => 1%Z end.
Definition T_int := x5b.

(* ---- reading a Micheline literal at an annotated type (from_micheline_value; PUSH and UNPACK) -----*)
Definition T_nat := x62. Definition T_mutez := x6a. Definition T_string := x68. Definition T_bytes := x69.
Definition T_bool := x59. Definition T_unit := x6c.

Definition read_prim (a : A) (p : byte) (n : node) : option (gval A) :=
  if byte_eqb p T_int then match n with NInt z => Some (GInt a p z) | _ => None end
  else if byte_eqb p T_nat then
    match n with NInt z => if (z <? 0)%Z then None else Some (GInt a p z) | _ => None end
  else if byte_eqb p T_mutez then
    match n with NInt z => if (z <? 0)%Z || (9223372036854775807 <? z)%Z then None else Some (GInt a p z) | _ => None end
  else if byte_eqb p T_string then match n with NStr s => Some (GStr a s) | _ => None end
  else if byte_eqb p T_bytes then match n with NByt b => Some (GByt a b) | _ => None end
  else if byte_eqb p T_bool then
    match n with
    | NPrim q [] _ => if byte_eqb q P_True then Some (GBool a true)
                      else if byte_eqb q P_False then Some (GBool a false) else None
    | _ => None end
  else if byte_eqb p T_unit then
    match n with NPrim q [] _ => if byte_eqb q P_Unit then Some (GUnit a) else None | _ => None end
  else None.

(* the arguments of a Pair literal / a sequence standing for a pair *)
Definition pair_args (n : node) : option (list node) :=
  match n with
  | NPrim q args _ => if byte_eqb q P_Pair then Some args else None
  | NSeq args => Some args
  | _ => None
  end.

Fixpoint read (t : gty A) (n : node) {struct t} : option (gval A) :=
  match t with
  | TyPrim a p => read_prim a p n
  | TyPair a l r =>
      match pair_args n with
      | Some [x; y] =>
          match read l x, read r y with Some vx, Some vy => Some (GPair a vx vy) | _, _ => None end
      | Some (x :: ((_ :: _ :: _) as rest)) =>         (* more than two: the tail is the right component *)
          match read l x, read r (NSeq rest) with Some vx, Some vy => Some (GPair a vx vy) | _, _ => None end
      | _ => None
      end
  | TyOption a u =>
      match n with
      | NPrim q [] _ => if byte_eqb q P_None then Some (GNone a u) else None
      | NPrim q [x] _ => if byte_eqb q P_Some then match read u x with Some v => Some (GSome a v) | None => None end else None
      | _ => None
      end
  | TyOr a l r =>
      match n with
      | NPrim q [x] _ =>
          if byte_eqb q P_Left then match read l x with Some v => Some (GLeft a v r) | None => None end
          else if byte_eqb q P_Right then match read r x with Some v => Some (GRight a l v) | None => None end
          else None
      | _ => None
      end
  | TyList a u =>
      match n with
      | NSeq items =>
          (fix rd (l : list node) : option (gval A) :=
             match l with
             | [] => Some (GNil a u)
             | x :: r => match read u x, rd r with
                         | Some v, Some tl => Some (GCons a u v tl)
                         | _, _ => None end
             end) items
      | _ => None
      end
  | TyLambda _ _ _ => None             (* lambda literals are not read by the model (LAMBDA builds them) *)
  end.

(* ---- the instruction fragment ---------------------------------------------------------------------*)
Definition gstack := list (gval A).

Definition O_EQ := x25. Definition O_NEQ := x3c. Definition O_LT := x37. Definition O_GT := x2a.
Definition O_LE := x32. Definition O_GE := x28.
Definition O_ADD := x12. Definition O_SUB := x4b. Definition O_MUL := x3a.

Definition zero_test (op : byte) : option (Z -> bool) :=
  if byte_eqb op O_EQ then Some (fun z => Z.eqb z 0)
  else if byte_eqb op O_NEQ then Some (fun z => negb (Z.eqb z 0))
  else if byte_eqb op O_LT then Some (fun z => Z.ltb z 0)
  else if byte_eqb op O_GT then Some (fun z => Z.ltb 0 z)
  else if byte_eqb op O_LE then Some (fun z => Z.leb z 0)
  else if byte_eqb op O_GE then Some (fun z => Z.leb 0 z)
  else None.

(* ADD / SUB / MUL on int and nat operands: result prim and value (annotation-free by construction) *)
Definition arith (op : byte) (p : byte) (x : Z) (q : byte) (y : Z) : option (byte * Z) :=
  let intnat r := byte_eqb r T_int || byte_eqb r T_nat in
  if intnat p && intnat q then
    let both_nat := byte_eqb p T_nat && byte_eqb q T_nat in
    if byte_eqb op O_ADD then Some (if both_nat then T_nat else T_int, (x + y)%Z)
    else if byte_eqb op O_SUB then Some (T_int, (x - y)%Z)
    else if byte_eqb op O_MUL then Some (if both_nat then T_nat else T_int, (x * y)%Z)
    else None
  else None.

(* the class of a list value: annotation and item type *)
Definition list_class (v : gval A) : option (A * gty A) :=
  match v with GNil a t => Some (a, t) | GCons a t _ _ => Some (a, t) | _ => None end.

(* ListType.from_items(results) of MAP: a fresh list class whose item type is the anonymous type of the first
   result; every result must have that type (annotations ignored); [acc] is in reverse order *)
Fixpoint build_list (t : gty A) (acc : list (gval A)) (tail : gval A) : option (gval A) :=
  match acc with
  | [] => Some tail
  | v :: r => if ty_shape_eqb t (type_of v) then build_list t r (GCons d t v tail) else None
  end.
Definition from_items (acc : list (gval A)) : option (gval A) :=
  match rev acc with
  | [] => None
  | v0 :: _ => let t := anon (type_of v0) in build_list t acc (GNil d t)
  end.

(* instructions without code arguments *)
Definition step (i : cinstr A) (s : gstack) : result gstack :=
  match i, s with
  | IPush v, _ => Ok (v :: s)
  | IPushT t lit, _ => match read t lit with Some v => Ok (v :: s) | None => Reject end
  | IUnpack t, GPacked _ m :: s' =>
      Ok (match read t m with Some v => GSome d v | None => GNone d (anon t) end :: s')   (* OptionType.none strips the root (fix #53) *)
  | IGet n, GPair a x y :: s' =>
      match access_comb n (GPair a x y) with Some r => Ok (r :: s') | None => Reject end
  | IUpdate n, e :: GPair a x y :: s' =>
      match update_comb n e (GPair a x y) with Some r => Ok (r :: s') | None => Reject end
  | IPairN n, _ =>
      if (n <? 2) || (length s <? n) then Reject
      else match from_comb (firstn n s) with Some c => Ok (c :: skipn n s) | None => Reject end
  | IUnpairN n, GPair a x y :: s' =>
      if n <? 2 then Reject else Ok (unpairn (n - 2) (GPair a x y) ++ s')
  | ICar, GPair _ x _ :: s' => Ok (x :: s')
  | ICdr, GPair _ _ y :: s' => Ok (y :: s')
  | IPair, x :: y :: s' => Ok (GPair d x y :: s')
  | IUnpair, GPair _ x y :: s' => Ok (x :: y :: s')
  | ICompare, a :: b :: s' =>
      match compare_checked a b with Some c => Ok (GInt d T_int (cmp_Z c) :: s') | None => Reject end
  | IPack, v :: s' => Ok (GPacked d (to_mich Optimized v) :: s')
  | IDup, v :: _ => Ok (v :: s)
  | ISwap, a :: b :: s' => Ok (b :: a :: s')
  | IDrop, _ :: s' => Ok s'
  | ISome, v :: s' => Ok (GSome d v :: s')
  | INone t, _ => Ok (GNone d (anon t) :: s)
  | ILeft t, v :: s' => Ok (GLeft d v t :: s')
  | IRight t, v :: s' => Ok (GRight d t v :: s')
  | IUnit, _ => Ok (GUnit d :: s)
  | ICmpOp op, GInt _ p z :: s' =>
      match zero_test op with
      | Some tst => if byte_eqb p T_int then Ok (GBool d (tst z) :: s') else Reject
      | None => Reject
      end
  | IArith op, GInt _ p x :: GInt _ q y :: s' =>
      match arith op p x q y with Some (r, z) => Ok (GInt d r z :: s') | None => Reject end
  | INil t, _ => Ok (GNil d t :: s)
  | ICons, e :: l :: s' =>
      match list_class l with
      | Some (a, t) => if ty_shape_eqb t (type_of e) then Ok (GCons a t e l :: s') else Reject
      | None => Reject
      end
  | ILambda p r body, _ => Ok (GLam d p r body :: s)
  (* APPLY: the new code pushes the captured value at the STRIPPED left type (fix #52), the remaining parameter type is
     anonymous (fix #51) *)
  | IApply, x :: GLam _ (TyPair _ lt rt) r body :: s' =>
      if ty_shape_eqb (type_of x) lt
      then Ok (GLam d (anon rt) r (ISeq (IPushT (strip lt) (to_mich LegacyOptimized x)) (ISeq IPair body)) :: s')
      else Reject
  | _, _ => Reject
  end.

(* outcome of running code with a fuel bound on LOOP iterations *)
Inductive outcome : Type := Done (s : gstack) | Fail | OutOfFuel.
Definition of_result (r : result gstack) : outcome := match r with Ok s => Done s | Reject => Fail end.

(* [run n]: n bounds the nesting/number of LOOP iterations only; everything else is structural in the code *)
Fixpoint run (n : nat) : cinstr A -> gstack -> outcome :=
  match n with
  | O => fun _ _ => OutOfFuel
  | S n' =>
      fix go (i : cinstr A) (s : gstack) {struct i} : outcome :=
        match i with
        | ISeq a b => match go a s with Done s' => go b s' | o => o end
        | INop => Done s
        | IIf a b => match s with GBool _ c :: s' => if c then go a s' else go b s' | _ => Fail end
        | IIfNone a b =>
            match s with
            | GNone _ _ :: s' => go a s'
            | GSome _ v :: s' => go b (v :: s')
            | _ => Fail
            end
        | IIfLeft a b =>
            match s with
            | GLeft _ v _ :: s' => go a (v :: s')
            | GRight _ _ v :: s' => go b (v :: s')
            | _ => Fail
            end
        | IIfCons a b =>
            match s with
            | GCons _ _ h tl :: s' => go a (h :: tl :: s')
            | GNil _ _ :: s' => go b s'
            | _ => Fail
            end
        | IDip k a =>
            if length s <? k then Fail
            else match go a (skipn k s) with Done s' => Done (firstn k s ++ s') | o => o end
        | IIter a =>
            match s with
            | l :: s' =>
                (fix iter (l : gval A) (s : gstack) {struct l} : outcome :=
                   match l with
                   | GNil _ _ => Done s
                   | GCons _ _ h tl => match go a (h :: s) with Done s1 => iter tl s1 | o => o end
                   | _ => Fail
                   end) l s'
            | [] => Fail
            end
        | IMap a =>
            match s with
            | l :: s' =>
                (fix iter (l : gval A) (acc : list (gval A)) (s : gstack) {struct l} : outcome :=
                   match l with
                   | GNil _ _ =>
                       match acc with
                       | [] => Done (l :: s)                    (* empty list: the source is pushed back *)
                       | _ => match from_items acc with Some r => Done (r :: s) | None => Fail end
                       end
                   | GCons _ _ h tl =>
                       match go a (h :: s) with
                       | Done (r :: s1) => iter tl (r :: acc) s1
                       | Done [] => Fail
                       | o => o
                       end
                   | _ => Fail
                   end) l [] s'
            | [] => Fail
            end
        | ILoop a =>
            match s with
            | GBool _ true :: s' => match go a s' with Done s1 => run n' (ILoop a) s1 | o => o end
            | GBool _ false :: s' => Done s'
            | _ => Fail
            end
        | IExec =>
            match s with
            | x :: GLam _ p r body :: s' =>
                if ty_shape_eqb (type_of x) p then
                  match run n' body [x] with
                  | Done [res] => if ty_shape_eqb (type_of res) r then Done (res :: s') else Fail
                  | Done _ => Fail
                  | o => o
                  end
                else Fail
            | _ => Fail
            end
        | _ => of_result (step i s)
        end
  end.

Fixpoint exec (n : nat) (p : list (cinstr A)) (s : gstack) : outcome :=
  match p with
  | [] => Done s
  | i :: r => match run n i s with Done s' => exec n r s' | o => o end
  end.
End Ops.

Arguments outcome A : clear implicits.

Definition omap {A B} (g : gstack (A:=A) -> gstack (A:=B)) (o : outcome A) : outcome B :=
  match o with Done s => Done (g s) | Fail => Fail | OutOfFuel => OutOfFuel end.

(* ---- boolean equalities for the correspondence cases ---------------------------------------------*)
Definition ann_eqb (a b : ann) : bool :=
  option_eqb bytes_eqb (fld a) (fld b) && option_eqb bytes_eqb (tyn a) (tyn b).

Fixpoint ty_eqb (a b : aty) : bool :=
  match a, b with
  | TyPrim x p, TyPrim y q => ann_eqb x y && byte_eqb p q
  | TyPair x l r, TyPair y l' r' => ann_eqb x y && ty_eqb l l' && ty_eqb r r'
  | TyOption x t, TyOption y t' => ann_eqb x y && ty_eqb t t'
  | TyOr x l r, TyOr y l' r' => ann_eqb x y && ty_eqb l l' && ty_eqb r r'
  | TyList x t, TyList y t' => ann_eqb x y && ty_eqb t t'
  | TyLambda x p r, TyLambda y p' r' => ann_eqb x y && ty_eqb p p' && ty_eqb r r'
  | _, _ => false
  end.

Fixpoint val_eqb (a b : aval) : bool :=
  match a, b with
  | GInt x p z, GInt y q w => ann_eqb x y && byte_eqb p q && Z.eqb z w
  | GStr x s, GStr y t => ann_eqb x y && bytes_eqb s t
  | GByt x s, GByt y t => ann_eqb x y && bytes_eqb s t
  | GBool x s, GBool y t => ann_eqb x y && Bool.eqb s t
  | GUnit x, GUnit y => ann_eqb x y
  | GPair x a1 a2, GPair y b1 b2 => ann_eqb x y && val_eqb a1 b1 && val_eqb a2 b2
  | GNone x t, GNone y u => ann_eqb x y && ty_eqb t u
  | GSome x v, GSome y w => ann_eqb x y && val_eqb v w
  | GLeft x v t, GLeft y w u => ann_eqb x y && val_eqb v w && ty_eqb t u
  | GRight x t v, GRight y u w => ann_eqb x y && ty_eqb t u && val_eqb v w
  | GPacked x m, GPacked y n => ann_eqb x y && node_eqb m n
  | GNil x t, GNil y u => ann_eqb x y && ty_eqb t u
  | GCons x t h tl, GCons y u h' tl' => ann_eqb x y && ty_eqb t u && val_eqb h h' && val_eqb tl tl'
  | _, _ => false
  end.

Definition rmap {X Y} (g : X -> Y) (r : result X) : result Y :=
  match r with Ok x => Ok (g x) | Reject => Reject end.

Fixpoint iseq {A} (l : list (cinstr A)) : cinstr A :=
  match l with [] => INop | i :: r => ISeq i (iseq r) end.

(* the correspondence runs give every program 64 units of fuel (generated loops iterate at most a few times);
   fuel exhaustion is a distinguished outcome *)
Definition FUEL : nat := 64.
Definition run_prog (p : list (cinstr ann)) : outcome ann := exec no_ann FUEL p [].
Definition out_eqb (a b : outcome ann) : bool :=
  match a, b with
  | Done s, Done t => list_eqb val_eqb s t
  | Fail, Fail => true
  | OutOfFuel, OutOfFuel => true
  | _, _ => false
  end.
Definition mk_ann (f t : option bytes) : ann := {| fld := f; tyn := t |}.
