(* Michelson/Arith.v — model of the arithmetic / bitwise / numeric-conversion instructions
   of pytezos (src/pytezos/michelson/instructions/arithmetic.py, boolean.py) and of the value
   constructors they call (types/core.py NatType.from_value, types/domain.py MutezType.from_value).

   Layer 1: the Python integer primitives the code uses (divmod, bit_length, <<, >>, &, |, ^, ~,
            int.to_bytes, int.from_bytes) over unbounded Z.
   Layer 2: the instructions, written as the Python code computes them (dispatch tables,
            from_value checks, sign repair in EDIV, length formula in BYTES).
   Layer 3: the reference semantics of the Michelson documentation, written independently over Z.
   No proofs here (Proofs/Arith_proofs.v). BLS overloads live in Michelson/Bls.v. *)
From Coq Require Import List ZArith Bool.
From Coq.Strings Require Import Byte.
From PV Require Import Base.Bytes Base.Result.
Import ListNotations.
Local Open Scope Z_scope.

(* ------------------------------------------------------------------------------------------ *)
(* types and values                                                                            *)
(* ------------------------------------------------------------------------------------------ *)

Inductive ty := TInt | TNat | TMutez | TTimestamp | TBytes | TBool
              | TPair (a b : ty) | TOption (a : ty).

(* numbers are Python ints: Z.  VNat/VMutez carry a Z as well; well-formedness is [wf_val]. *)
Inductive val :=
| VInt (z : Z) | VNat (z : Z) | VMutez (z : Z) | VTs (z : Z)
| VBytes (b : bytes) | VBool (b : bool)
| VPair (a b : val) | VSome (v : val) | VNone (t : ty).

Inductive op := ADD | SUB | SUB_MUTEZ | MUL | EDIV | ABS | NEG | ISNAT | INT | NAT | BYTES
              | LSL | LSR | AND | OR | XOR | NOT.

Definition all_ops : list op :=
  [ADD; SUB; SUB_MUTEZ; MUL; EDIV; ABS; NEG; ISNAT; INT; NAT; BYTES; LSL; LSR; AND; OR; XOR; NOT].

(* ------------------------------------------------------------------------------------------ *)
(* Layer 1: Python int primitives                                                              *)
(* ------------------------------------------------------------------------------------------ *)

(* int.bit_length(): number of bits of |z|, 0 for 0 *)
Definition py_bit_length (z : Z) : Z := if z =? 0 then 0 else Z.log2 (Z.abs z) + 1.

(* divmod(a, b) for b <> 0: floor division, remainder has the sign of b (Coq's Z.div / Z.modulo) *)
Definition py_divmod (a b : Z) : Z * Z := (a / b, a mod b).

Definition py_lshift (a n : Z) : Z := Z.shiftl a n.
Definition py_rshift (a n : Z) : Z := Z.shiftr a n.
Definition py_and : Z -> Z -> Z := Z.land.
Definition py_or : Z -> Z -> Z := Z.lor.
Definition py_xor : Z -> Z -> Z := Z.lxor.
Definition py_invert (a : Z) : Z := Z.lnot a.

Definition byte_Z (b : byte) : Z := Z.of_N (Byte.to_N b).
Definition Z_byte (z : Z) : byte := b8 (Z.to_N z).

(* the [len] low base-256 digits of z, most significant first.  Digits are taken with >> 8 and
   & 255 — the floor quotient and remainder by 256 (lemma be_digits_step), so negative numbers come
   out in two's complement; shifts keep the evaluation inside coqc linear in the size of z *)
Fixpoint be_digits (len : nat) (z : Z) : bytes :=
  match len with
  | O => []
  | S k => be_digits k (Z.shiftr z 8) ++ [Z_byte (Z.land z 255)]
  end.

(* int.to_bytes(len, 'big', signed=...): OverflowError (Reject) when the value does not fit *)
Definition py_to_bytes (len : nat) (signed : bool) (z : Z) : result bytes :=
  let w := 256 ^ Z.of_nat len in
  if signed then
    match len with
    | O => if z =? 0 then Ok [] else Reject
    | S _ => if (- (w / 2) <=? z) && (z <? w / 2) then Ok (be_digits len z) else Reject
    end
  else if (0 <=? z) && (z <? w) then Ok (be_digits len z) else Reject.

(* int.from_bytes(b, 'big'): Horner accumulation *)
Fixpoint be_val (acc : Z) (l : bytes) : Z :=
  match l with
  | [] => acc
  | b :: r => be_val (acc * 256 + byte_Z b) r
  end.

Definition py_from_bytes (signed : bool) (l : bytes) : Z :=
  let n := be_val 0 l in
  if signed then
    match l with
    | [] => 0
    | b0 :: _ => if 128 <=? byte_Z b0 then n - 256 ^ Z.of_nat (length l) else n
    end
  else n.

(* ------------------------------------------------------------------------------------------ *)
(* Layer 2: constructors and instructions as pytezos computes them                             *)
(* ------------------------------------------------------------------------------------------ *)

(* <Type>.from_value(z) for the numeric classes *)
Definition mk (t : ty) (z : Z) : result val :=
  match t with
  | TInt => Ok (VInt z)
  | TTimestamp => Ok (VTs z)
  | TNat => if z <? 0 then Reject else Ok (VNat z)                      (* assert value >= 0 *)
  | TMutez => if z <? 0 then Reject                                      (* assert value >= 0 *)
              else if py_bit_length z >? 63 then Reject                  (* OverflowError *)
              else Ok (VMutez z)
  | _ => Reject
  end.

(* (class prim, int(a)) of a numeric stack item *)
Definition num (v : val) : option (ty * Z) :=
  match v with
  | VInt z => Some (TInt, z) | VNat z => Some (TNat, z)
  | VMutez z => Some (TMutez, z) | VTs z => Some (TTimestamp, z)
  | _ => None
  end.

(* dispatch tables (arithmetic.py / boolean.py), BLS rows omitted *)
Definition add_table (a b : ty) : option ty :=
  match a, b with
  | TNat, TNat => Some TNat | TNat, TInt => Some TInt | TInt, TNat => Some TInt | TInt, TInt => Some TInt
  | TTimestamp, TInt => Some TTimestamp | TInt, TTimestamp => Some TTimestamp
  | TMutez, TMutez => Some TMutez
  | _, _ => None
  end.

Definition sub_table (a b : ty) : option ty :=
  match a, b with
  | TNat, TNat => Some TInt | TNat, TInt => Some TInt | TInt, TNat => Some TInt | TInt, TInt => Some TInt
  | TTimestamp, TInt => Some TTimestamp | TTimestamp, TTimestamp => Some TInt
  | TMutez, TMutez => Some TMutez
  | _, _ => None
  end.

Definition mul_table (a b : ty) : option ty :=
  match a, b with
  | TNat, TNat => Some TNat | TNat, TInt => Some TInt | TInt, TNat => Some TInt | TInt, TInt => Some TInt
  | TMutez, TNat => Some TMutez | TNat, TMutez => Some TMutez
  | _, _ => None
  end.

Definition ediv_table (a b : ty) : option (ty * ty) :=
  match a, b with
  | TNat, TNat => Some (TNat, TNat) | TNat, TInt => Some (TInt, TNat)
  | TInt, TNat => Some (TInt, TNat) | TInt, TInt => Some (TInt, TNat)
  | TMutez, TNat => Some (TMutez, TMutez) | TMutez, TMutez => Some (TNat, TMutez)
  | _, _ => None
  end.

Definition binop (table : ty -> ty -> option ty) (f : Z -> Z -> Z) (a b : val) : result val :=
  match num a, num b with
  | Some (ta, x), Some (tb, y) =>
      match table ta tb with
      | Some t => mk t (f x y)
      | None => Reject
      end
  | _, _ => Reject
  end.

(* EDIV: divmod, then "if r < 0: r += abs(b); q += 1" *)
Definition py_ediv (a b : Z) : option (Z * Z) :=
  if b =? 0 then None
  else let '(q, r) := py_divmod a b in
       if r <? 0 then Some (q + 1, r + Z.abs b) else Some (q, r).

Definition exec_ediv (a b : val) : result val :=
  match num a, num b with
  | Some (ta, x), Some (tb, y) =>
      match ediv_table ta tb with
      | Some (tq, tr) =>
          match py_ediv x y with
          | None => Ok (VNone (TPair tq tr))
          | Some (q, r) =>
              let* vq := mk tq q in
              let* vr := mk tr r in
              Ok (VSome (VPair vq vr))
          end
      | None => Reject
      end
  | _, _ => Reject
  end.

Definition exec_shift (f : Z -> Z -> Z) (a b : val) : result val :=
  match a, b with
  | VNat x, VNat y => if y <? 257 then mk TNat (f x y) else Reject
  | _, _ => Reject
  end.

(* OR / XOR: (bool,bool) and (nat,nat) only *)
Definition exec_boolean_add (fb : bool -> bool -> bool) (fz : Z -> Z -> Z) (a b : val) : result val :=
  match a, b with
  | VBool x, VBool y => Ok (VBool (fb x y))
  | VNat x, VNat y => mk TNat (fz x y)
  | _, _ => Reject
  end.

(* AND additionally accepts (nat,int) and (int,nat), result nat *)
Definition exec_and (a b : val) : result val :=
  match a, b with
  | VBool x, VBool y => Ok (VBool (x && y))
  | VNat x, VNat y | VNat x, VInt y | VInt x, VNat y => mk TNat (py_and x y)
  | _, _ => Reject
  end.

Definition exec_not (a : val) : result val :=
  match a with
  | VNat x | VInt x => Ok (VInt (py_invert x))
  | VBool b => Ok (VBool (negb b))
  | _ => Reject
  end.

(* BYTES: assert_type_in(NatType, IntType) is an issubclass test, so every IntType subclass passes;
   signed = not isinstance(a, NatType)  (mutez is a NatType subclass, timestamp is not) *)
Definition bytes_len (signed : bool) (v : Z) : Z :=
  if v =? 0 then 0
  else if signed then (8 + py_bit_length (v + (if v <? 0 then 1 else 0))) / 8
  else (7 + py_bit_length v) / 8.

Definition py_bytes (signed : bool) (v : Z) : result bytes :=
  py_to_bytes (Z.to_nat (bytes_len signed v)) signed v.

Definition exec_bytes (a : val) : result val :=
  match a with
  | VInt z | VTs z => let* b := py_bytes true z in Ok (VBytes b)
  | VNat z | VMutez z => let* b := py_bytes false z in Ok (VBytes b)
  | _ => Reject
  end.

(* INT: bytes -> signed big-endian; otherwise assert_type_in(NatType, Fr) (mutez passes issubclass) *)
Definition exec_int (a : val) : result val :=
  match a with
  | VBytes b => Ok (VInt (py_from_bytes true b))
  | VNat z | VMutez z => Ok (VInt z)
  | _ => Reject
  end.

Definition exec_nat (a : val) : result val :=
  match a with
  | VBytes b => mk TNat (py_from_bytes false b)
  | _ => Reject
  end.

Definition exec_sub_mutez (a b : val) : result val :=
  match a, b with
  | VMutez x, VMutez y =>
      let diff := x - y in
      if diff >=? 0 then let* m := mk TMutez diff in Ok (VSome m) else Ok (VNone TMutez)
  | _, _ => Reject
  end.

Definition exec_abs (a : val) : result val :=
  match a with VInt z => mk TNat (Z.abs z) | _ => Reject end.

Definition exec_neg (a : val) : result val :=
  match a with VInt z | VNat z => Ok (VInt (- z)) | _ => Reject end.

Definition exec_isnat (a : val) : result val :=
  match a with
  | VInt z => if z >=? 0 then let* n := mk TNat z in Ok (VSome n) else Ok (VNone TNat)
  | _ => Reject
  end.

(* [exec o st]: the instruction applied to the operands [st] (top of the stack first);
   the value it pushes, or Reject when the Python code raises *)
Definition exec (o : op) (st : list val) : result val :=
  match o, st with
  | ADD, [a; b] => binop add_table Z.add a b
  | SUB, [a; b] => binop sub_table Z.sub a b
  | MUL, [a; b] => binop mul_table Z.mul a b
  | SUB_MUTEZ, [a; b] => exec_sub_mutez a b
  | EDIV, [a; b] => exec_ediv a b
  | LSL, [a; b] => exec_shift py_lshift a b
  | LSR, [a; b] => exec_shift py_rshift a b
  | AND, [a; b] => exec_and a b
  | OR, [a; b] => exec_boolean_add orb py_or a b
  | XOR, [a; b] => exec_boolean_add xorb py_xor a b
  | ABS, [a] => exec_abs a
  | NEG, [a] => exec_neg a
  | ISNAT, [a] => exec_isnat a
  | INT, [a] => exec_int a
  | NAT, [a] => exec_nat a
  | BYTES, [a] => exec_bytes a
  | NOT, [a] => exec_not a
  | _, _ => Reject
  end.

(* PUSH of an operand literal: <Type>.from_micheline_value validates nat and mutez *)
Definition push (v : val) : result val :=
  match v with
  | VNat z => mk TNat z
  | VMutez z => mk TMutez z
  | VInt _ | VTs _ | VBytes _ | VBool _ => Ok v
  | _ => Reject
  end.

Fixpoint push_all (l : list val) : result (list val) :=
  match l with
  | [] => Ok []
  | v :: r => let* v' := push v in let* r' := push_all r in Ok (v' :: r')
  end.

(* the program  PUSH operands ; o  — what the correspondence check runs *)
Definition run (o : op) (lits : list val) : result val :=
  let* st := push_all lits in exec o st.

(* ------------------------------------------------------------------------------------------ *)
(* Layer 3: reference semantics (Michelson documentation), written over Z                      *)
(* ------------------------------------------------------------------------------------------ *)

Definition MUTEZ_LIMIT : Z := 2 ^ 63.
Definition in_mutez (z : Z) : bool := (0 <=? z) && (z <? MUTEZ_LIMIT).

Fixpoint wf_val (v : val) : bool :=
  match v with
  | VNat z => 0 <=? z
  | VMutez z => in_mutez z
  | VPair a b => wf_val a && wf_val b
  | VSome a => wf_val a
  | _ => true
  end.

Definition ref_mutez (z : Z) : result val := if in_mutez z then Ok (VMutez z) else Reject.

(* Euclidean division: the (q, r) with a = b*q + r and 0 <= r < |b|, written with a
   non-negative divisor so that it does not share the sign-repair step of the implementation *)
Definition euclid (a b : Z) : Z * Z := (Z.sgn b * (a / Z.abs b), a mod Z.abs b).

(* positional value of a big-endian byte string, and its two's-complement reading *)
Fixpoint unsigned_value (l : bytes) : Z :=
  match l with
  | [] => 0
  | b :: r => byte_Z b * 256 ^ Z.of_nat (length r) + unsigned_value r
  end.

Definition signed_value (l : bytes) : Z :=
  let n := unsigned_value l in
  let bits := 8 * Z.of_nat (length l) in
  if Z.testbit n (bits - 1) then n - 2 ^ bits else n.

(* b is a shortest big-endian encoding of z (two's complement when signed) *)
Definition min_encoding (signed : bool) (z : Z) (b : bytes) : Prop :=
  let value := if signed then signed_value else unsigned_value in
  value b = z /\ forall b', value b' = z -> (length b <= length b')%nat.

(* [ref o st = None]: the operand types are not an overload of the Michelson reference.
   [Some Reject]: run-time failure (mutez overflow/underflow, shift > 256).
   BYTES is specified relationally ([Ref] below). *)
Definition ref (o : op) (st : list val) : option (result val) :=
  match o, st with
  | ADD, [VNat a; VNat b] => Some (Ok (VNat (a + b)))
  | ADD, [VNat a; VInt b] | ADD, [VInt a; VNat b] | ADD, [VInt a; VInt b] => Some (Ok (VInt (a + b)))
  | ADD, [VTs a; VInt b] | ADD, [VInt a; VTs b] => Some (Ok (VTs (a + b)))
  | ADD, [VMutez a; VMutez b] => Some (ref_mutez (a + b))
  | SUB, [VNat a; VNat b] | SUB, [VNat a; VInt b] | SUB, [VInt a; VNat b] | SUB, [VInt a; VInt b] =>
      Some (Ok (VInt (a - b)))
  | SUB, [VTs a; VInt b] => Some (Ok (VTs (a - b)))
  | SUB, [VTs a; VTs b] => Some (Ok (VInt (a - b)))
  | SUB, [VMutez a; VMutez b] => Some (ref_mutez (a - b))
  | SUB_MUTEZ, [VMutez a; VMutez b] =>
      Some (Ok (if a <? b then VNone TMutez else VSome (VMutez (a - b))))
  | MUL, [VNat a; VNat b] => Some (Ok (VNat (a * b)))
  | MUL, [VNat a; VInt b] | MUL, [VInt a; VNat b] | MUL, [VInt a; VInt b] => Some (Ok (VInt (a * b)))
  | MUL, [VMutez a; VNat b] | MUL, [VNat a; VMutez b] => Some (ref_mutez (a * b))
  | EDIV, [VNat a; VNat b] =>
      Some (Ok (if b =? 0 then VNone (TPair TNat TNat)
                else let '(q, r) := euclid a b in VSome (VPair (VNat q) (VNat r))))
  | EDIV, [VNat a; VInt b] | EDIV, [VInt a; VNat b] | EDIV, [VInt a; VInt b] =>
      Some (Ok (if b =? 0 then VNone (TPair TInt TNat)
                else let '(q, r) := euclid a b in VSome (VPair (VInt q) (VNat r))))
  | EDIV, [VMutez a; VNat b] =>
      Some (Ok (if b =? 0 then VNone (TPair TMutez TMutez)
                else let '(q, r) := euclid a b in VSome (VPair (VMutez q) (VMutez r))))
  | EDIV, [VMutez a; VMutez b] =>
      Some (Ok (if b =? 0 then VNone (TPair TNat TMutez)
                else let '(q, r) := euclid a b in VSome (VPair (VNat q) (VMutez r))))
  | ABS, [VInt a] => Some (Ok (VNat (Z.abs a)))
  | NEG, [VInt a] | NEG, [VNat a] => Some (Ok (VInt (- a)))
  | ISNAT, [VInt a] => Some (Ok (if a <? 0 then VNone TNat else VSome (VNat a)))
  | INT, [VNat a] => Some (Ok (VInt a))
  | INT, [VBytes b] => Some (Ok (VInt (signed_value b)))
  | NAT, [VBytes b] => Some (Ok (VNat (unsigned_value b)))
  | LSL, [VNat a; VNat s] => Some (if s <=? 256 then Ok (VNat (a * 2 ^ s)) else Reject)
  | LSR, [VNat a; VNat s] => Some (if s <=? 256 then Ok (VNat (a / 2 ^ s)) else Reject)
  | AND, [VBool a; VBool b] => Some (Ok (VBool (a && b)))
  | AND, [VNat a; VNat b] | AND, [VInt a; VNat b] => Some (Ok (VNat (Z.land a b)))
  | OR, [VBool a; VBool b] => Some (Ok (VBool (a || b)))
  | OR, [VNat a; VNat b] => Some (Ok (VNat (Z.lor a b)))
  | XOR, [VBool a; VBool b] => Some (Ok (VBool (xorb a b)))
  | XOR, [VNat a; VNat b] => Some (Ok (VNat (Z.lxor a b)))
  | NOT, [VBool a] => Some (Ok (VBool (negb a)))
  | NOT, [VNat a] | NOT, [VInt a] => Some (Ok (VInt (- a - 1)))
  | _, _ => None
  end.

Definition Ref (o : op) (st : list val) (r : result val) : Prop :=
  match o, st with
  | BYTES, [VInt z] => exists b, r = Ok (VBytes b) /\ min_encoding true z b
  | BYTES, [VNat z] => exists b, r = Ok (VBytes b) /\ min_encoding false z b
  | _, _ => ref o st = Some r
  end.

(* overloads pytezos accepts although the reference has no such typing (issubclass tests,
   a symmetric AND row); the computed number is still the natural one *)
Definition lenient (o : op) (st : list val) : bool :=
  match o, st with
  | AND, [VNat _; VInt _] => true
  | INT, [VMutez _] => true
  | BYTES, [VMutez _] | BYTES, [VTs _] => true
  | _, _ => false
  end.

(* ------------------------------------------------------------------------------------------ *)
(* boolean equalities for the correspondence check                                             *)
(* ------------------------------------------------------------------------------------------ *)

Fixpoint ty_eqb (a b : ty) : bool :=
  match a, b with
  | TInt, TInt | TNat, TNat | TMutez, TMutez | TTimestamp, TTimestamp | TBytes, TBytes | TBool, TBool => true
  | TPair a1 a2, TPair b1 b2 => ty_eqb a1 b1 && ty_eqb a2 b2
  | TOption a1, TOption b1 => ty_eqb a1 b1
  | _, _ => false
  end.

Fixpoint val_eqb (a b : val) : bool :=
  match a, b with
  | VInt x, VInt y | VNat x, VNat y | VMutez x, VMutez y | VTs x, VTs y => x =? y
  | VBytes x, VBytes y => bytes_eqb x y
  | VBool x, VBool y => Bool.eqb x y
  | VPair a1 a2, VPair b1 b2 => val_eqb a1 b1 && val_eqb a2 b2
  | VSome x, VSome y => val_eqb x y
  | VNone x, VNone y => ty_eqb x y
  | _, _ => false
  end.

Definition res_eqb : result val -> result val -> bool := result_eqb val_eqb.

(* the tables as data, compared exhaustively with the dispatch dictionaries of /repo *)
Definition scalar_tys : list ty := [TInt; TNat; TMutez; TTimestamp; TBytes; TBool].
Definition table_rows {A} (t : ty -> ty -> option A) : list (ty * ty * A) :=
  flat_map (fun a => flat_map (fun b => match t a b with Some r => [(a, b, r)] | None => [] end) scalar_tys) scalar_tys.
