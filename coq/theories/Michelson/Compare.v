(* Michelson/Compare.v — comparable types and values, the Tezos order [cmp] (Script_comparable),
   and the model [py_compare] of how pytezos compares two values:
   instructions/compare.py:compare = [a == b] then [a < b], with the [__eq__]/[__lt__] of
   types/core.py, domain.py, pair.py, option.py, sum.py.

   Values are abstract syntax: what the Python objects denote (payload bytes of base58check
   strings, not the strings).  Where pytezos compares the *strings* (key_hash, chain_id: order;
   key, address: equality) the model goes through a record [texts] of oracle functions
   payload -> base58check text, supplied as data by the correspondence run and constrained by
   hypotheses in the theorems (Proofs/Compare_proofs.v).  No proofs here. *)
From Coq Require Import List ZArith NArith Bool String.
From Coq.Strings Require Import Byte.
From PV Require Import Base.Bytes.
Import ListNotations.
Local Open Scope list_scope.

(* ---------------------------------------------------------------- types and values *)

Inductive cty :=
| TInt | TNat | TString | TBytes | TMutez | TBool | TTimestamp | TUnit | TNever
| TKeyHash | TKey | TSignature | TChainId | TAddress
| TPair (a b : cty) | TOption (a : cty) | TOr (a b : cty).

(* signature schemes, in Tezos' order: tz1/edpk < tz2/sppk < tz3/p2pk < tz4/BLpk *)
Inductive curve := Ed | Secp | P256 | Bls.

(* address kinds in Tezos' order: implicit (by scheme) < originated KT1 < tx rollup txr1 < smart rollup sr1 *)
Inductive akind := AImpl (c : curve) | AKT | ATxr | ASr.

Inductive val :=
| VInt (z : Z)                                   (* int, nat, mutez, timestamp *)
| VStr (s : bytes)                               (* string (ASCII) *)
| VByt (b : bytes)
| VBool (b : bool)
| VUnit
| VKeyHash (c : curve) (h : bytes)               (* 20-byte hash *)
| VKey (c : curve) (p : bytes)                   (* compressed public key: 32 / 33 / 33 / 48 bytes *)
| VSig (b : bytes)                               (* decoded signature bytes (notation-independent) *)
| VChainId (b : bytes)                           (* 4 bytes *)
| VAddr (k : akind) (h : bytes) (ep : option bytes) (* 20-byte hash, entrypoint after '%' if any *)
| VPair (a b : val)
| VNone | VSome (a : val)
| VLeft (a : val) | VRight (b : val).

Definition curve_idx (c : curve) : N := match c with Ed => 0 | Secp => 1 | P256 => 2 | Bls => 3 end.
Definition akind_idx (k : akind) : N :=
  match k with AImpl c => curve_idx c | AKT => 4 | ATxr => 5 | ASr => 6 end.
Definition key_len (c : curve) : nat := match c with Ed => 32 | Secp => 33 | P256 => 33 | Bls => 48 end.

Definition default_ep : bytes := tx "default"%string.

Definition len_is (n : nat) (b : bytes) : bool := Nat.eqb (List.length b) n.

(* the entrypoint part of an address value as AddressType.from_value leaves it:
   '%default' and a bare trailing '%' are stripped, so neither occurs *)
Definition ep_ok (ep : option bytes) : bool :=
  match ep with
  | None => true
  | Some e => negb (bytes_eqb e default_ep) && negb (bytes_eqb e [])
  end.

Fixpoint has_type (t : cty) (v : val) : bool :=
  match t, v with
  | TInt, VInt _ => true
  | TTimestamp, VInt _ => true
  | TNat, VInt z => (0 <=? z)%Z
  | TMutez, VInt z => (0 <=? z)%Z && (z <? 2 ^ 63)%Z
  | TString, VStr _ => true
  | TBytes, VByt _ => true
  | TBool, VBool _ => true
  | TUnit, VUnit => true
  | TKeyHash, VKeyHash _ h => len_is 20 h
  | TKey, VKey c p => len_is (key_len c) p
  | TSignature, VSig _ => true
  | TChainId, VChainId b => len_is 4 b
  | TAddress, VAddr _ h ep => len_is 20 h && ep_ok ep
  | TPair ta tb, VPair a b => has_type ta a && has_type tb b
  | TOption _, VNone => true
  | TOption ta, VSome a => has_type ta a
  | TOr ta _, VLeft a => has_type ta a
  | TOr _ tb, VRight b => has_type tb b
  | _, _ => false
  end.

(* ---------------------------------------------------------------- the specification order *)

Fixpoint lex_cmp (a b : bytes) : comparison :=
  match a, b with
  | [], [] => Eq
  | [], _ :: _ => Lt
  | _ :: _, [] => Gt
  | x :: a', y :: b' =>
      match N.compare (Byte.to_N x) (Byte.to_N y) with
      | Eq => lex_cmp a' b'
      | c => c
      end
  end.

Definition then_cmp (c : comparison) (d : comparison) : comparison :=
  match c with Eq => d | _ => c end.

Definition bool_cmp (x y : bool) : comparison :=
  match x, y with false, true => Lt | true, false => Gt | _, _ => Eq end.

(* public keys of one scheme: bytewise; for P-256 the X coordinate first and the parity byte
   last (the reading pytezos documents for Tezos' P-256 comparison, made total) *)
Definition key_cmp (c : curve) (p q : bytes) : comparison :=
  match c with
  | P256 => then_cmp (lex_cmp (tl p) (tl q)) (lex_cmp (firstn 1 p) (firstn 1 q))
  | _ => lex_cmp p q
  end.

Definition ep_name (ep : option bytes) : bytes :=
  match ep with None => default_ep | Some e => e end.

Fixpoint cmp (t : cty) (a b : val) : comparison :=
  match t, a, b with
  | TInt, VInt x, VInt y => Z.compare x y
  | TNat, VInt x, VInt y => Z.compare x y
  | TMutez, VInt x, VInt y => Z.compare x y
  | TTimestamp, VInt x, VInt y => Z.compare x y
  | TString, VStr x, VStr y => lex_cmp x y
  | TBytes, VByt x, VByt y => lex_cmp x y
  | TBool, VBool x, VBool y => bool_cmp x y
  | TUnit, VUnit, VUnit => Eq
  | TKeyHash, VKeyHash c h, VKeyHash c' h' =>
      then_cmp (N.compare (curve_idx c) (curve_idx c')) (lex_cmp h h')
  | TKey, VKey c p, VKey c' p' =>
      then_cmp (N.compare (curve_idx c) (curve_idx c')) (key_cmp c p p')
  | TSignature, VSig x, VSig y => lex_cmp x y
  | TChainId, VChainId x, VChainId y => lex_cmp x y
  | TAddress, VAddr k h e, VAddr k' h' e' =>
      then_cmp (N.compare (akind_idx k) (akind_idx k'))
        (then_cmp (lex_cmp h h') (lex_cmp (ep_name e) (ep_name e')))
  | TPair ta tb, VPair a1 a2, VPair b1 b2 => then_cmp (cmp ta a1 b1) (cmp tb a2 b2)
  | TOption _, VNone, VNone => Eq
  | TOption _, VNone, VSome _ => Lt
  | TOption _, VSome _, VNone => Gt
  | TOption ta, VSome x, VSome y => cmp ta x y
  | TOr ta _, VLeft x, VLeft y => cmp ta x y
  | TOr _ _, VLeft _, VRight _ => Lt
  | TOr _ _, VRight _, VLeft _ => Gt
  | TOr _ tb, VRight x, VRight y => cmp tb x y
  | _, _, _ => Eq   (* ill-typed arguments: excluded by [has_type] in every theorem *)
  end.

Definition is_eq (c : comparison) : bool := match c with Eq => true | _ => false end.
Definition is_lt (c : comparison) : bool := match c with Lt => true | _ => false end.

(* ---------------------------------------------------------------- the model of pytezos *)

(* base58check texts of the string-valued domain classes (oracle, supplied as data) *)
Record texts := {
  kh_txt : curve -> bytes -> bytes;     (* "tz1…" … "tz4…" *)
  key_txt : curve -> bytes -> bytes;    (* "edpk…" "sppk…" "p2pk…" "BLpk…" *)
  cid_txt : bytes -> bytes;             (* "Net…" *)
  addr_txt : akind -> bytes -> bytes    (* "tz1…" "KT1…" "txr1…" "sr1…" *)
}.

(* Python str/bytes [<] : lexicographic *)
Definition lex_ltb (a b : bytes) : bool := is_lt (lex_cmp a b).

Definition pct : byte := x25.   (* '%' *)

(* AddressType.value: text, then '%' entrypoint when present *)
Definition addr_str (T : texts) (k : akind) (h : bytes) (ep : option bytes) : bytes :=
  addr_txt T k h ++ match ep with None => [] | Some e => pct :: e end.

Definition curve_byte (c : curve) : byte :=
  match c with Ed => x00 | Secp => x01 | P256 => x02 | Bls => x03 end.

(* forge_address(address) as used by AddressType._sort_key *)
Definition forge_addr (k : akind) (h : bytes) : bytes :=
  match k with
  | AImpl c => x00 :: curve_byte c :: h
  | AKT => x01 :: h ++ [x00]
  | ATxr => x02 :: h ++ [x00]
  | ASr => x03 :: h ++ [x00]
  end.

(* `entrypoint or 'default'` *)
Definition sort_ep (ep : option bytes) : bytes :=
  match ep with
  | None => default_ep
  | Some [] => default_ep
  | Some e => e
  end.

(* Python tuple [<] on 2-tuples: first differing component (by ==) decides *)
Definition tuple2_ltb (a1 a2 b1 b2 : bytes) : bool :=
  if bytes_eqb a1 b1 then lex_ltb a2 b2 else lex_ltb a1 b1.

Section Py.
  Variable T : texts.

  (* __eq__ *)
  Fixpoint py_eq (a b : val) : bool :=
    match a, b with
    | VInt x, VInt y => Z.eqb x y                          (* IntType.__eq__ (nat, mutez, timestamp inherit) *)
    | VStr x, VStr y => bytes_eqb x y                      (* StringType.__eq__ *)
    | VByt x, VByt y => bytes_eqb x y
    | VBool x, VBool y => Bool.eqb x y
    | VUnit, VUnit => true
    | VKeyHash c h, VKeyHash c' h' => bytes_eqb (kh_txt T c h) (kh_txt T c' h')     (* inherits StringType *)
    | VKey c p, VKey c' p' => bytes_eqb (key_txt T c p) (key_txt T c' p')           (* inherits StringType *)
    | VSig x, VSig y => bytes_eqb x y                                               (* raw == raw *)
    | VChainId x, VChainId y => bytes_eqb (cid_txt T x) (cid_txt T y)               (* inherits StringType *)
    | VAddr k h e, VAddr k' h' e' => bytes_eqb (addr_str T k h e) (addr_str T k' h' e')
    | VPair a1 a2, VPair b1 b2 => py_eq a1 b1 && py_eq a2 b2                        (* all(...) *)
    | VNone, VNone => true
    | VSome x, VSome y => py_eq x y
    | VLeft x, VLeft y => py_eq x y                        (* (x == y) and (Undefined == Undefined) *)
    | VRight x, VRight y => py_eq x y
    | _, _ => false
    end.

  (* KeyType.__lt__ within one scheme (after fix c532287):
     offset = curves[prefix][1];  (raw[offset:], raw[:offset]) < (other.raw[offset:], other.raw[:offset]) *)
  Definition key_off (c : curve) : nat := match c with P256 => 1 | _ => 0 end.
  Definition py_key_lt (c : curve) (p q : bytes) : bool :=
    tuple2_ltb (skipn (key_off c) p) (firstn (key_off c) p) (skipn (key_off c) q) (firstn (key_off c) q).

  (* __lt__ *)
  Fixpoint py_lt (a b : val) : bool :=
    match a, b with
    | VInt x, VInt y => Z.ltb x y
    | VStr x, VStr y => lex_ltb x y
    | VByt x, VByt y => lex_ltb x y
    | VBool x, VBool y => negb x && y                       (* False < True *)
    | VUnit, VUnit => false
    | VKeyHash c h, VKeyHash c' h' => lex_ltb (kh_txt T c h) (kh_txt T c' h')
    | VKey c p, VKey c' p' =>
        if (curve_idx c <? curve_idx c')%N then true
        else if (curve_idx c' <? curve_idx c)%N then false
        else py_key_lt c p p'
    | VSig x, VSig y => lex_ltb x y
    | VChainId x, VChainId y => lex_ltb (cid_txt T x) (cid_txt T y)
    | VAddr k h e, VAddr k' h' e' =>
        tuple2_ltb (forge_addr k h) (sort_ep e) (forge_addr k' h') (sort_ep e')
    | VPair a1 a2, VPair b1 b2 =>
        if py_eq a1 b1 then (if py_eq a2 b2 then false else py_lt a2 b2) else py_lt a1 b1
    | VNone, VNone => false
    | VSome _, VNone => false
    | VNone, VSome _ => true
    | VSome x, VSome y => py_lt x y
    | VLeft _, VRight _ => true
    | VLeft x, VLeft y => py_lt x y
    | VRight x, VRight y => py_lt x y
    | VRight _, VLeft _ => false
    | _, _ => false
    end.

  (* compare(a, b) *)
  Definition py_compare (a b : val) : comparison :=
    if py_eq a b then Eq else if py_lt a b then Lt else Gt.
End Py.

(* ---------------------------------------------------------------- interface for the correspondence run *)

Definition cmp_Z (c : comparison) : Z := match c with Lt => (-1)%Z | Eq => 0%Z | Gt => 1%Z end.

Definition curve_eqb (a b : curve) : bool := N.eqb (curve_idx a) (curve_idx b).
Definition akind_eqb (a b : akind) : bool := N.eqb (akind_idx a) (akind_idx b).

(* structural equality of values (used to compare observed collections) *)
Fixpoint val_eqb (a b : val) : bool :=
  match a, b with
  | VInt x, VInt y => Z.eqb x y
  | VStr x, VStr y => bytes_eqb x y
  | VByt x, VByt y => bytes_eqb x y
  | VBool x, VBool y => Bool.eqb x y
  | VUnit, VUnit => true
  | VKeyHash c h, VKeyHash c' h' => curve_eqb c c' && bytes_eqb h h'
  | VKey c p, VKey c' p' => curve_eqb c c' && bytes_eqb p p'
  | VSig x, VSig y => bytes_eqb x y
  | VChainId x, VChainId y => bytes_eqb x y
  | VAddr k h e, VAddr k' h' e' => akind_eqb k k' && bytes_eqb h h' && option_eqb bytes_eqb e e'
  | VPair a1 a2, VPair b1 b2 => val_eqb a1 b1 && val_eqb a2 b2
  | VNone, VNone => true
  | VSome x, VSome y => val_eqb x y
  | VLeft x, VLeft y => val_eqb x y
  | VRight x, VRight y => val_eqb x y
  | _, _ => false
  end.

(* texts from tables (one per class): (kind, payload, text) *)
Fixpoint lookup3 {K} (keqb : K -> K -> bool) (tbl : list (K * bytes * bytes)) (k : K) (p : bytes) : bytes :=
  match tbl with
  | [] => []
  | (k', p', t) :: r => if keqb k k' && bytes_eqb p p' then t else lookup3 keqb r k p
  end.

Fixpoint lookup2 (tbl : list (bytes * bytes)) (p : bytes) : bytes :=
  match tbl with
  | [] => []
  | (p', t) :: r => if bytes_eqb p p' then t else lookup2 r p
  end.

Record text_tables := {
  t_kh : list (curve * bytes * bytes);
  t_key : list (curve * bytes * bytes);
  t_cid : list (bytes * bytes);
  t_addr : list (akind * bytes * bytes)
}.

Definition texts_of (tb : text_tables) : texts :=
  {| kh_txt := lookup3 curve_eqb (t_kh tb);
     key_txt := lookup3 curve_eqb (t_key tb);
     cid_txt := lookup2 (t_cid tb);
     addr_txt := lookup3 akind_eqb (t_addr tb) |}.

(* ---------------------------------------------------------------- concrete base58check texts
   A base58check text of fixed width is the big-endian number of prefix ++ payload ++ checksum
   written with [len] base-58 digits.  Only the 4-byte checksum (double SHA-256) stays an oracle.
   Proofs/Compare_proofs.v shows that these texts satisfy the order laws of [texts_ok]; the
   correspondence run compares them with the real strings. *)
Definition b58_alphabet : bytes :=
  tx "123456789ABCDEFGHJKLMNPQRSTUVWXYZabcdefghijkmnopqrstuvwxyz"%string.

Definition b58_char (d : N) : byte := nth (N.to_nat d) b58_alphabet x00.

Fixpoint b58_fixed (len : nat) (n : N) : bytes :=
  match len with
  | O => []
  | S l => b58_char (n / 58 ^ N.of_nat l) :: b58_fixed l (n mod 58 ^ N.of_nat l)
  end.

(* big-endian value of a byte string *)
Fixpoint nb (l : bytes) : N :=
  match l with
  | [] => 0%N
  | x :: r => (Byte.to_N x * 256 ^ N.of_nat (List.length r) + nb r)%N
  end.

Definition kh_prefix (c : curve) : bytes :=
  match c with
  | Ed => [x06; xa1; x9f] | Secp => [x06; xa1; xa1] | P256 => [x06; xa1; xa4] | Bls => [x06; xa1; xa6]
  end.
Definition cid_prefix : bytes := [x57; x52; x00].

Definition kh_text (ck : bytes -> bytes) (c : curve) (h : bytes) : bytes :=
  let body := kh_prefix c ++ h in b58_fixed 36 (nb (body ++ ck body)).
Definition cid_text (ck : bytes -> bytes) (x : bytes) : bytes :=
  let body := cid_prefix ++ x in b58_fixed 15 (nb (body ++ ck body)).

(* checksum oracle from a table body -> 4 bytes (supplied by the run) *)
Definition ck_of (tbl : list (bytes * bytes)) : bytes -> bytes := lookup2 tbl.

(* do the concrete texts reproduce the real strings of the tables? *)
Definition texts_match (cks : list (bytes * bytes)) (tb : text_tables) : bool :=
  forallb (fun e => let '(c, h, t) := e in bytes_eqb (kh_text (ck_of cks) c h) t) (t_kh tb) &&
  forallb (fun e => let '(x, t) := e in bytes_eqb (cid_text (ck_of cks) x) t) (t_cid tb).

(* one COMPARE case: checksums, tables, type, two values ->
   (well-typed?, pytezos result, spec result, do the concrete key_hash / chain_id texts equal the real ones?) *)
Definition compare_case (x : list (bytes * bytes) * text_tables * cty * val * val) : bool * Z * Z * bool :=
  let '(cks, tb, t, a, b) := x in
  let w := has_type t a && has_type t b in
  (w, cmp_Z (py_compare (texts_of tb) a b), if w then cmp_Z (cmp t a b) else 0%Z, texts_match cks tb).

Definition compare_case_eqb (x y : bool * Z * Z * bool) : bool :=
  let '(w1, p1, s1, m1) := x in let '(w2, p2, s2, m2) := y in
  Bool.eqb w1 w2 && Z.eqb p1 p2 && Z.eqb s1 s2 && Bool.eqb m1 m2.
