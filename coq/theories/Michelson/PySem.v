(* Michelson/PySem.v — model of the pytezos interpreter (instructions/*.py executed on stack.py).

   Every instruction's [execute] is mirrored on the flat protected-prefix stack of PyStack.v with
   dynamically typed values ([pval], Instr.v): run-time class checks ([assert_type_equal],
   [assert_type_in], [dispatch_types] on the prims of the operands) are part of the model and lead to
   [PError] (any Python exception other than FAILWITH; the interpreter then restores the previous stack).

   Instructions that only pop k operands, compute, and push results are factored as
   [py_simple i = Some (k, f)]: [f] maps the popped operands (top first) to the pushed results (top first;
   pytezos pushes them in reverse order). DROP/DUP/DIG/DUG/DIP use protect/restore exactly as
   instructions/stack.py and control.py do; CONCAT pops its second operand only after looking at the first.

   Deviations from the code, all on ill-typed programs only: DUP 0 (Python would protect(-1)); MAP/ITER on a
   non-list operand (Python iterates pairs/ors and fails later). *)
From Coq Require Import List ZArith Bool Arith.
From PV Require Import Base.Bytes Michelson.Instr Michelson.PyStack.
Import ListNotations.

Inductive pres : Type :=
| POk (outs : list pval)
| PFail (v : pval)   (* FAILWITH *)
| PErr.

Inductive poutcome : Type :=
| PDone (st : pstack)
| PFailed (v : pval)
| PError
| POutOfFuel.

(* NatType.from_value: assert value >= 0 *)
Definition nat_from (z : Z) : option pval := if (z <? 0)%Z then None else Some (PNat z).

(* MutezType.from_value: assert value >= 0; more than 63 bits -> OverflowError *)
Definition mutez_from (z : Z) : option pval :=
  if (z <? 0)%Z then None else if (z <? mutez_bound)%Z then Some (PMutez z) else None.

(* the prim of a numeric class (the key used by dispatch_types) and int(a) *)
Inductive nkind := KInt | KNat | KMutez | KTimestamp.
Definition num_val (v : pval) : option (nkind * Z) :=
  match v with
  | PInt z => Some (KInt, z)
  | PNat z => Some (KNat, z)
  | PMutez z => Some (KMutez, z)
  | PTimestamp z => Some (KTimestamp, z)
  | _ => None
  end.

(* res_type.from_value(z) *)
Definition from_kind (k : nkind) (z : Z) : option pval :=
  match k with
  | KInt => Some (PInt z)
  | KNat => nat_from z
  | KMutez => mutez_from z
  | KTimestamp => Some (PTimestamp z)
  end.

(* the dispatch tables of ADD / SUB / MUL in arithmetic.py *)
Definition add_kind (a b : nkind) : option nkind :=
  match a, b with
  | KNat, KNat => Some KNat
  | KNat, KInt | KInt, KNat | KInt, KInt => Some KInt
  | KTimestamp, KInt | KInt, KTimestamp => Some KTimestamp
  | KMutez, KMutez => Some KMutez
  | _, _ => None
  end.
Definition sub_kind (a b : nkind) : option nkind :=
  match a, b with
  | KNat, KNat | KNat, KInt | KInt, KNat | KInt, KInt => Some KInt
  | KTimestamp, KInt => Some KTimestamp
  | KTimestamp, KTimestamp => Some KInt
  | KMutez, KMutez => Some KMutez
  | _, _ => None
  end.
Definition mul_kind (a b : nkind) : option nkind :=
  match a, b with
  | KNat, KNat => Some KNat
  | KNat, KInt | KInt, KNat | KInt, KInt => Some KInt
  | KMutez, KNat | KNat, KMutez => Some KMutez
  | _, _ => None
  end.

Definition py_arith (op : Z -> Z -> Z) (table : nkind -> nkind -> option nkind) (a b : pval) : pres :=
  match num_val a, num_val b with
  | Some (ka, x), Some (kb, y) =>
      match table ka kb with
      | Some k => match from_kind k (op x y) with Some v => POk [v] | None => PErr end
      | None => PErr
      end
  | _, _ => PErr
  end.

(* EDIV: q, r = divmod(a, b); if r < 0: r += abs(b); q += 1 *)
Definition ediv_kinds (a b : nkind) : option (nkind * nkind) :=
  match a, b with
  | KNat, KNat => Some (KNat, KNat)
  | KNat, KInt | KInt, KNat | KInt, KInt => Some (KInt, KNat)
  | KMutez, KNat => Some (KMutez, KMutez)
  | KMutez, KMutez => Some (KNat, KMutez)
  | _, _ => None
  end.
Definition kind_ty (k : nkind) : ty :=
  match k with KInt => TInt | KNat => TNat | KMutez => TMutez | KTimestamp => TTimestamp end.

Definition py_ediv (a b : pval) : pres :=
  match num_val a, num_val b with
  | Some (ka, x), Some (kb, y) =>
      match ediv_kinds ka kb with
      | None => PErr
      | Some (kq, kr) =>
          if (y =? 0)%Z then POk [PNone (TPair (kind_ty kq) (kind_ty kr))]
          else
            let q := (x / y)%Z in
            let r := (x mod y)%Z in
            let q' := if (r <? 0)%Z then (q + 1)%Z else q in
            let r' := if (r <? 0)%Z then (r + Z.abs y)%Z else r in
            match from_kind kq q', from_kind kr r' with
            | Some qv, Some rv => POk [PSome (PPair qv rv)]
            | _, _ => PErr
            end
      end
  | _, _ => PErr
  end.

(* instructions/compare.py: compare(a, b) *)
Definition py_compare (a b : pval) : Z :=
  if py_eq a b then 0%Z else if py_lt a b then (-1)%Z else 1%Z.

Definition py_zcmp (i : instr) (z : Z) : bool :=
  match i with
  | I_EQ => (z =? 0)%Z
  | I_NEQ => negb (z =? 0)%Z
  | I_LT => (z <? 0)%Z
  | I_GT => (z >? 0)%Z
  | I_LE => (z <=? 0)%Z
  | _ => (z >=? 0)%Z
  end.

(* boolean.py: dispatch on (bool, bool) / (nat, nat) [AND also (nat, int) and (int, nat)], result through from_value *)
Definition py_logic (bop : bool -> bool -> bool) (zop : Z -> Z -> Z) (mixed : bool) (a b : pval) : pres :=
  match a, b with
  | PBool x, PBool y => POk [PBool (bop x y)]
  | PNat x, PNat y => match nat_from (zop x y) with Some v => POk [v] | None => PErr end
  | PNat x, PInt y | PInt x, PNat y =>
      if mixed then match nat_from (zop x y) with Some v => POk [v] | None => PErr end else PErr
  | _, _ => PErr
  end.

(* execute_shift: both operands nat, assert int(b) < 257 *)
Definition py_shift (op : Z -> Z -> Z) (a b : pval) : pres :=
  match a, b with
  | PNat x, PNat y => if (y <? 257)%Z then match nat_from (op x y) with Some v => POk [v] | None => PErr end else PErr
  | _, _ => PErr
  end.

(* SLICE: start, stop = offset, offset + length; if start < len(s) and stop <= len(s): Some s[start:stop] else None *)
Definition py_slice (o l : Z) (x : bytes) : option bytes :=
  if (o <? Z.of_nat (length x))%Z && (o + l <=? Z.of_nat (length x))%Z
  then Some (firstn (Z.to_nat (o + l) - Z.to_nat o) (skipn (Z.to_nat o) x))
  else None.

(* ''.join(map(str, a)) for a list whose class says "list string" *)
Fixpoint py_join (l : list pval) : option bytes :=
  match l with
  | [] => Some []
  | PStr s :: r => option_map (fun t => s ++ t) (py_join r)
  | _ => None
  end.

(* b''.join(map(bytes, a)) *)
Fixpoint py_join_bytes (l : list pval) : option bytes :=
  match l with
  | [] => Some []
  | PBytes s :: r => option_map (fun t => s ++ t) (py_join_bytes r)
  | _ => None
  end.

(* ---- types/pair.py ---- *)
(* PairType.iter_comb(): the leaves along the right spine *)
Fixpoint py_spine (v : pval) : list pval :=
  match v with
  | PPair a b => a :: py_spine b
  | _ => [v]
  end.

(* PairType.from_comb(leaves) *)
Fixpoint py_from_comb (l : list pval) : option pval :=
  match l with
  | [] => None
  | [v] => Some v
  | v :: r => option_map (PPair v) (py_from_comb r)
  end.

(* list(pair.unpairn_comb(count)) *)
Fixpoint py_unpairn (count : nat) (v : pval) : list pval :=
  match v with
  | PPair a b =>
      a :: match count with
           | 0 => [b]
           | S c => match b with PPair _ _ => py_unpairn c b | _ => [b] end
           end
  | _ => [v]
  end.

(* pair.access_comb(idx): the idx-th element of iter_comb(include_nodes=True) *)
Fixpoint py_access_comb (k : nat) (v : pval) : option pval :=
  match k with
  | 0 => Some v
  | 1 => match v with PPair a _ => Some a | _ => None end
  | S (S k') => match v with PPair _ b => py_access_comb k' b | _ => None end
  end.

Fixpoint replace_nth {A} (i : nat) (x : A) (l : list A) : list A :=
  match l with
  | [] => []
  | y :: r => match i with 0 => x :: r | S j => y :: replace_nth j x r end
  end.

(* pair.update_comb(idx, element) *)
Definition py_update_comb (k : nat) (x v : pval) : option pval :=
  if k =? 0 then Some x
  else if Nat.odd k then py_from_comb (replace_nth (Nat.div2 k) x (py_spine v))
  else py_from_comb (firstn (Nat.div2 k) (py_spine v) ++ py_spine x).

(* ---- types/set.py, types/map.py (entries are written PPair key value) ---- *)
(* sorted(items + [x]) for x not in items: x goes before the first greater element *)
Fixpoint py_insert (x : pval) (l : list pval) : list pval :=
  match l with
  | [] => [x]
  | y :: r => if py_lt x y then x :: y :: r else y :: py_insert x r
  end.
Fixpoint py_insert_entry (k v : pval) (l : list pval) : list pval :=
  match l with
  | [] => [PPair k v]
  | y :: r => if py_lt k (py_key y) then PPair k v :: y :: r else y :: py_insert_entry k v r
  end.
(* SetType.add / remove (after `self.args[0].assert_type_equal(type(item))`) *)
Definition py_set_contains (x : pval) (l : list pval) : bool := existsb (fun y => py_eq x y) l.
Definition py_set_add (x : pval) (l : list pval) : list pval := if py_set_contains x l then l else py_insert x l.
Definition py_set_remove (x : pval) (l : list pval) : list pval :=
  if py_set_contains x l then filter (fun y => negb (py_eq y x)) l else l.
(* MapType.get: next((v for k, v in items if k == key), None) *)
Fixpoint py_map_get (k : pval) (l : list pval) : option pval :=
  match l with
  | [] => None
  | PPair k' v :: r => if py_eq k' k then Some v else py_map_get k r
  | _ :: r => py_map_get k r
  end.
(* MapType.update(key, val) -> items of the new map *)
Definition py_map_update (k : pval) (ov : option pval) (l : list pval) : list pval :=
  match py_map_get k l, ov with
  | Some _, Some v => map (fun y => if negb (py_eq (py_key y) k) then y else PPair (py_key y) v) l
  | Some _, None => filter (fun y => negb (py_eq (py_key y) k)) l
  | None, Some v => py_insert_entry k v l
  | None, None => l
  end.
Definition py_opt (t : ty) (o : option pval) : pval := match o with Some v => PSome v | None => PNone t end.

Definition py_simple (e : env) (i : instr) : option (nat * (list pval -> pres)) :=
  match i with
  | I_SWAP => Some (2, fun a => match a with [x; y] => POk [y; x] | _ => PErr end)
  | I_PUSH t d => Some (0, fun _ => match py_of_data t d with Some v => POk [v] | None => PErr end)
  | I_PAIR => Some (2, fun a => match a with [x; y] => POk [PPair x y] | _ => PErr end)
  | I_UNPAIR => Some (1, fun a => match a with [PPair x y] => POk [x; y] | _ => PErr end)
  | I_CAR => Some (1, fun a => match a with [PPair x _] => POk [x] | _ => PErr end)
  | I_CDR => Some (1, fun a => match a with [PPair _ y] => POk [y] | _ => PErr end)
  | I_PAIRN n => Some (n, fun a => if 2 <=? n then match py_from_comb a with Some v => POk [v] | None => PErr end else PErr)
  | I_UNPAIRN n => Some (1, fun a => match a with
                                     | [PPair x y] => if 2 <=? n then POk (py_unpairn (n - 2) (PPair x y)) else PErr
                                     | _ => PErr
                                     end)
  | I_GETN k => Some (1, fun a => match a with
                                  | [PPair x y] => match py_access_comb k (PPair x y) with Some v => POk [v] | None => PErr end
                                  | _ => PErr
                                  end)
  | I_UPDATEN k => Some (2, fun a => match a with
                                     | [e; PPair x y] => match py_update_comb k e (PPair x y) with Some v => POk [v] | None => PErr end
                                     | _ => PErr
                                     end)
  | I_LEFT t => Some (1, fun a => match a with [x] => POk [PLeft x t] | _ => PErr end)
  | I_RIGHT t => Some (1, fun a => match a with [x] => POk [PRight t x] | _ => PErr end)
  | I_SOME => Some (1, fun a => match a with [x] => POk [PSome x] | _ => PErr end)
  | I_NONE t => Some (0, fun _ => POk [PNone t])
  | I_UNIT => Some (0, fun _ => POk [PUnit])
  | I_NIL t => Some (0, fun _ => POk [PList t []])
  | I_LAMBDA a b body => Some (0, fun _ => POk [PLam a b body])
  | I_APPLY => Some (2, fun x => match x with
                                 | [lft; PLam (TPair ta tb) c body] =>
                                     if ty_eqb (rt_type lft) ta
                                     then match data_of_pval lft with
                                          | Some d => POk [PLam tb c (I_SEQ (I_PUSH ta d) (I_SEQ I_PAIR (I_SEQ body I_NOOP)))]
                                          | None => PErr
                                          end
                                     else PErr
                                 | _ => PErr
                                 end)
  | I_EMPTY_SET k => Some (0, fun _ => POk [PSet k []])
  | I_EMPTY_MAP k v => Some (0, fun _ => POk [PMap k v []])
  | I_MEM => Some (2, fun a => match a with
                               | [x; PSet t l] => if ty_eqb t (rt_type x) then POk [PBool (py_set_contains x l)] else PErr
                               | [x; PMap kt _ l] =>
                                   if ty_eqb kt (rt_type x)
                                   then POk [PBool (match py_map_get x l with Some _ => true | None => false end)] else PErr
                               | _ => PErr
                               end)
  | I_GET => Some (2, fun a => match a with
                               | [x; PMap kt vt l] => if ty_eqb kt (rt_type x) then POk [py_opt vt (py_map_get x l)] else PErr
                               | _ => PErr
                               end)
  | I_UPDATE => Some (3, fun a => match a with
                                  | [x; PBool b; PSet t l] =>
                                      if ty_eqb t (rt_type x) then POk [PSet t (if b then py_set_add x l else py_set_remove x l)] else PErr
                                  | [x; PNone _; PMap kt vt l] =>
                                      if ty_eqb kt (rt_type x) then POk [PMap kt vt (py_map_update x None l)] else PErr
                                  | [x; PSome v; PMap kt vt l] =>
                                      if ty_eqb kt (rt_type x) then POk [PMap kt vt (py_map_update x (Some v) l)] else PErr
                                  | _ => PErr
                                  end)
  | I_GET_AND_UPDATE =>
      Some (3, fun a => match a with
                        | [x; PNone _; PMap kt vt l] =>
                            if ty_eqb kt (rt_type x)
                            then POk [py_opt vt (py_map_get x l); PMap kt vt (py_map_update x None l)] else PErr
                        | [x; PSome v; PMap kt vt l] =>
                            if ty_eqb kt (rt_type x)
                            then POk [py_opt vt (py_map_get x l); PMap kt vt (py_map_update x (Some v) l)] else PErr
                        | _ => PErr
                        end)
  | I_CONS => Some (2, fun a => match a with
                                | [x; PList t l] => if ty_eqb t (rt_type x) then POk [PList t (x :: l)] else PErr
                                | _ => PErr
                                end)
  | I_SIZE => Some (1, fun a => match a with
                                | [PStr s] | [PBytes s] => POk [PNat (Z.of_nat (length s))]
                                | [PList _ l] | [PSet _ l] | [PMap _ _ l] => POk [PNat (Z.of_nat (length l))]
                                | _ => PErr
                                end)
  | I_ADD => Some (2, fun a => match a with [x; y] => py_arith Z.add add_kind x y | _ => PErr end)
  | I_MUL => Some (2, fun a => match a with [x; y] => py_arith Z.mul mul_kind x y | _ => PErr end)
  | I_SUB => Some (2, fun a => match a with [x; y] => py_arith Z.sub sub_kind x y | _ => PErr end)
  | I_SUB_MUTEZ => Some (2, fun a => match a with
                                     | [PMutez x; PMutez y] =>
                                         if (x - y >=? 0)%Z
                                         then match mutez_from (x - y) with Some v => POk [PSome v] | None => PErr end
                                         else POk [PNone TMutez]
                                     | _ => PErr
                                     end)
  | I_AMOUNT => Some (0, fun _ => match mutez_from (e_amount e) with Some v => POk [v] | None => PErr end)
  | I_BALANCE => Some (0, fun _ => match mutez_from (e_balance e) with Some v => POk [v] | None => PErr end)
  | I_SENDER => Some (0, fun _ => POk [PAddress (e_sender e)])
  | I_SOURCE => Some (0, fun _ => POk [PAddress (e_source e)])
  | I_SELF_ADDRESS => Some (0, fun _ => POk [PAddress (e_self e)])
  | I_NOW => Some (0, fun _ => POk [PTimestamp (e_now e)])
  | I_LEVEL => Some (0, fun _ => match nat_from (e_level e) with Some v => POk [v] | None => PErr end)
  | I_CHAIN_ID => Some (0, fun _ => POk [PChainId (e_chain_id e)])
  | I_EDIV => Some (2, fun a => match a with [x; y] => py_ediv x y | _ => PErr end)
  | I_NEG => Some (1, fun a => match a with
                               | [PInt z] | [PNat z] => POk [PInt (- z)]
                               | _ => PErr
                               end)
  | I_ABS => Some (1, fun a => match a with
                               | [PInt z] => match nat_from (Z.abs z) with Some v => POk [v] | None => PErr end
                               | _ => PErr
                               end)
  | I_ISNAT => Some (1, fun a => match a with
                                 | [PInt z] => if (z >=? 0)%Z
                                               then match nat_from z with Some v => POk [PSome v] | None => PErr end
                                               else POk [PNone TNat]
                                 | _ => PErr
                                 end)
  | I_INT => Some (1, fun a => match a with
                               | [PNat z] | [PMutez z] => POk [PInt z]   (* assert_type_in(NatType): MutezType is a subclass *)
                               | _ => PErr
                               end)
  | I_COMPARE => Some (2, fun a => match a with
                                   | [x; y] => if ty_eqb (rt_type x) (rt_type y) then POk [PInt (py_compare x y)] else PErr
                                   | _ => PErr
                                   end)
  | I_EQ | I_NEQ | I_LT | I_GT | I_LE | I_GE =>
      Some (1, fun a => match a with [PInt z] => POk [PBool (py_zcmp i z)] | _ => PErr end)
  | I_AND => Some (2, fun a => match a with [x; y] => py_logic andb Z.land true x y | _ => PErr end)
  | I_OR => Some (2, fun a => match a with [x; y] => py_logic orb Z.lor false x y | _ => PErr end)
  | I_XOR => Some (2, fun a => match a with [x; y] => py_logic xorb Z.lxor false x y | _ => PErr end)
  | I_NOT => Some (1, fun a => match a with
                               | [PBool x] => POk [PBool (negb x)]
                               | [PNat z] | [PInt z] => POk [PInt (Z.lnot z)]     (* ~int(x) *)
                               | _ => PErr
                               end)
  | I_LSL => Some (2, fun a => match a with [x; y] => py_shift Z.shiftl x y | _ => PErr end)
  | I_LSR => Some (2, fun a => match a with [x; y] => py_shift Z.shiftr x y | _ => PErr end)
  | I_SLICE => Some (3, fun a => match a with
                                 | [PNat o; PNat l; PStr x] =>
                                     POk [match py_slice o l x with Some y => PSome (PStr y) | None => PNone TString end]
                                 | [PNat o; PNat l; PBytes x] =>
                                     POk [match py_slice o l x with Some y => PSome (PBytes y) | None => PNone TBytes end]
                                 | _ => PErr
                                 end)
  | I_FAILWITH => Some (1, fun a => match a with [x] => PFail x | _ => PErr end)
  | _ => None
  end.

(* push the results so that the first one ends on top *)
Definition push_all (outs : list pval) (st : pstack) : pstack := fold_right push st outs.

Definition py_exec_simple (k : nat) (f : list pval -> pres) (st : pstack) : poutcome :=
  match pop k st with
  | None => PError
  | Some (args, st1) =>
      match f args with
      | POk outs => PDone (push_all outs st1)
      | PFail v => PFailed v
      | PErr => PError
      end
  end.

(* for elt in src: stack.push(elt); body.execute(...) *)
Fixpoint py_iter (run : pstack -> poutcome) (l : list pval) (st : pstack) : poutcome :=
  match l with
  | [] => PDone st
  | x :: r => match run (push x st) with
              | PDone st1 => py_iter run r st1
              | o => o
              end
  end.

(* MAP: for elt in src: push(elt); body; items.append(stack.pop1()) *)
Inductive pmapres : Type :=
| PMDone (ys : list pval) (st : pstack)
| PMStop (o : poutcome).

Fixpoint py_map (run : pstack -> poutcome) (l : list pval) (st : pstack) : pmapres :=
  match l with
  | [] => PMDone [] st
  | x :: r => match run (push x st) with
              | PDone st1 =>
                  match pop1 st1 with
                  | Some (y, st2) => match py_map run r st2 with
                                     | PMDone ys st3 => PMDone (y :: ys) st3
                                     | m => m
                                     end
                  | None => PMStop PError
                  end
              | o => PMStop o
              end
  end.

(* ListType.from_items (items non-empty): the class comes from the first item, the others are checked against it *)
(* MapType.from_items (items non-empty): classes from the first entry, the others checked, then check_constraints *)
Definition map_from_items (entries : list pval) : option pval :=
  match entries with
  | PPair k v :: r =>
      if forallb (fun x => match x with
                           | PPair k' v' => ty_eqb (rt_type k) (rt_type k') && ty_eqb (rt_type v) (rt_type v')
                           | _ => false
                           end) r
         && py_strict_sorted (map py_key entries)
      then Some (PMap (rt_type k) (rt_type v) entries) else None
  | _ => None
  end.
(* items.append((elt.items[0], new_elt)) *)
Fixpoint py_rekey (entries ys : list pval) : list pval :=
  match entries, ys with
  | x :: r, y :: s => PPair (py_key x) y :: py_rekey r s
  | _, _ => []
  end.

Definition list_from_items (ys : list pval) : option pval :=
  match ys with
  | [] => None
  | y :: r => if forallb (fun x => ty_eqb (rt_type y) (rt_type x)) r then Some (PList (rt_type y) ys) else None
  end.

Fixpoint py_eval (e : env) (fuel : nat) (i : instr) (st : pstack) {struct fuel} : poutcome :=
  match fuel with
  | 0 => POutOfFuel
  | S f =>
      match i with
      | I_NOOP => PDone st
      | I_SEQ a b => match py_eval e f a st with
                     | PDone st1 => py_eval e f b st1
                     | o => o
                     end
      | I_DROP n => match pop n st with Some (_, st1) => PDone st1 | None => PError end
      | I_DUP n =>
          match n with
          | 0 => PError
          | S d =>
              match protect d st with
              | None => PError
              | Some st1 =>
                  match peek st1 with
                  | None => PError
                  | Some x => match restore d st1 with
                              | Some st2 => PDone (push x st2)
                              | None => PError
                              end
                  end
              end
          end
      | I_DIG n =>
          match protect n st with
          | None => PError
          | Some st1 =>
              match pop1 st1 with
              | None => PError
              | Some (x, st2) => match restore n st2 with
                                 | Some st3 => PDone (push x st3)
                                 | None => PError
                                 end
              end
          end
      | I_DUG n =>
          match pop1 st with
          | None => PError
          | Some (x, st1) =>
              match protect n st1 with
              | None => PError
              | Some st2 => match restore n (push x st2) with
                            | Some st3 => PDone st3
                            | None => PError
                            end
              end
          end
      | I_DIP n c =>
          match protect n st with
          | None => PError
          | Some st1 =>
              match py_eval e f c st1 with
              | PDone st2 => match restore n st2 with
                             | Some st3 => PDone st3
                             | None => PError
                             end
              | o => o
              end
          end
      | I_IF bt bf =>
          match pop1 st with
          | Some (PBool b, st1) => py_eval e f (if b then bt else bf) st1
          | _ => PError
          end
      | I_IF_NONE bt bf =>
          match pop1 st with
          | Some (PNone _, st1) => py_eval e f bt st1
          | Some (PSome x, st1) => py_eval e f bf (push x st1)
          | _ => PError
          end
      | I_IF_LEFT bt bf =>
          match pop1 st with
          | Some (PLeft x _, st1) => py_eval e f bt (push x st1)
          | Some (PRight _ y, st1) => py_eval e f bf (push y st1)
          | _ => PError
          end
      | I_IF_CONS bt bf =>
          match pop1 st with
          | Some (PList t (h :: tl), st1) => py_eval e f bt (push h (push (PList t tl) st1))
          | Some (PList _ [], st1) => py_eval e f bf st1
          | _ => PError
          end
      | I_LOOP c =>
          match pop1 st with
          | Some (PBool true, st1) => match py_eval e f c st1 with
                                      | PDone st2 => py_eval e f (I_LOOP c) st2
                                      | o => o
                                      end
          | Some (PBool false, st1) => PDone st1
          | _ => PError
          end
      | I_LOOP_LEFT c =>
          match pop1 st with
          | Some (PLeft x _, st1) => match py_eval e f c (push x st1) with
                                     | PDone st2 => py_eval e f (I_LOOP_LEFT c) st2
                                     | o => o
                                     end
          | Some (PRight _ y, st1) => PDone (push y st1)
          | _ => PError
          end
      | I_ITER c =>
          match pop1 st with
          | Some (PList _ l, st1) | Some (PSet _ l, st1) | Some (PMap _ _ l, st1) => py_iter (py_eval e f c) l st1
          | _ => PError
          end
      | I_MAP c =>
          match pop1 st with
          | Some (PList t l, st1) =>
              match py_map (py_eval e f c) l st1 with
              | PMDone ys st2 =>
                  match ys with
                  | [] => PDone (push (PList t l) st2)     (* res = src  # TODO: need to deduce argument types *)
                  | _ => match list_from_items ys with
                         | Some res => PDone (push res st2)
                         | None => PError
                         end
                  end
              | PMStop o => o
              end
          | Some (PMap kt vt l, st1) =>
              match py_map (py_eval e f c) l st1 with
              | PMDone ys st2 =>
                  match ys with
                  | [] => PDone (push (PMap kt vt l) st2)     (* res = src *)
                  | _ => match map_from_items (py_rekey l ys) with
                         | Some res => PDone (push res st2)
                         | None => PError
                         end
                  end
              | PMStop o => o
              end
          | _ => PError
          end
      | I_CONCAT =>
          match pop1 st with
          | Some (PStr a, st1) =>
              match pop1 st1 with
              | Some (PStr b, st2) => PDone (push (PStr (a ++ b)) st2)
              | _ => PError
              end
          | Some (PBytes a, st1) =>
              match pop1 st1 with
              | Some (PBytes b, st2) => PDone (push (PBytes (a ++ b)) st2)
              | _ => PError
              end
          | Some (PList TString l, st1) =>
              match py_join l with
              | Some s => PDone (push (PStr s) st1)
              | None => PError
              end
          | Some (PList TBytes l, st1) =>
              match py_join_bytes l with
              | Some s => PDone (push (PBytes s) st1)
              | None => PError
              end
          | _ => PError
          end
      | I_EXEC =>
          match pop 2 st with
          | Some ([param; PLam a b body], st1) =>
              if ty_eqb (rt_type param) a then
                match py_eval e f body (mkstack [param] 0) with      (* a fresh MichelsonStack holding the argument *)
                | PDone ls =>
                    match pop1 ls with
                    | Some (res, ls') =>
                        if ty_eqb (rt_type res) b && (length (items ls') =? 0) then PDone (push res st1) else PError
                    | None => PError
                    end
                | o => o
                end
              else PError
          | _ => PError
          end
      | _ => match py_simple e i with
             | Some (k, fn) => py_exec_simple k fn st
             | None => PError
             end
      end
  end.

(* Interpreter.execute(code) on a REPL session (repl.py): the stack is copied first; on any exception the copy is
   put back (self.stack = stack_backup), otherwise the mutated stack stays. Returns the session stack afterwards. *)
Definition py_execute (e : env) (fuel : nat) (code : instr) (st : pstack) : pstack * poutcome :=
  match py_eval e fuel code st with
  | PDone st' => (st', PDone st')
  | o => (st, o)
  end.

(* ---- observation interface for the correspondence harness ---- *)
Inductive obs : Type :=
| ODone (s : list pval)      (* final stack, top first *)
| OFailed (v : pval)         (* FAILWITH value *)
| OError                     (* any other exception *)
| OOutOfFuel.

Fixpoint inputs_of (l : list (ty * data)) : option (list pval) :=
  match l with
  | [] => Some []
  | (t, d) :: r => match py_of_data t d, inputs_of r with
                   | Some v, Some vs => Some (v :: vs)
                   | _, _ => None
                   end
  end.

Definition obs_of (o : poutcome) : obs :=
  match o with
  | PDone st => ODone (items st)
  | PFailed v => OFailed v
  | PError => OError
  | POutOfFuel => OOutOfFuel
  end.

(* run the model on an input stack given as typed literals (top first) *)
Definition py_run (e : env) (fuel : nat) (code : instr) (inputs : list (ty * data)) : obs :=
  match inputs_of inputs with
  | Some vs => obs_of (py_eval e fuel code (mkstack vs 0))
  | None => OError
  end.

Definition obs_eqb (a b : obs) : bool :=
  match a, b with
  | ODone x, ODone y => list_eqb pval_eqb x y
  | OFailed x, OFailed y => pval_eqb x y
  | OError, OError => true
  | OOutOfFuel, OOutOfFuel => true
  | _, _ => false
  end.

(* a session: several cells executed one after the other on the same Interpreter; per cell the outcome and the
   session stack afterwards (items and the `protected` counter) *)
Fixpoint py_session (e : env) (fuel : nat) (cells : list instr) (st : pstack) : list (obs * (list pval * nat)) :=
  match cells with
  | [] => []
  | c :: r => let (st', o) := py_execute e fuel c st in
              (obs_of o, (items st', prot st')) :: py_session e fuel r st'
  end.

Definition py_run_session (e : env) (fuel : nat) (cells : list instr) (inputs : list (ty * data)) : list (obs * (list pval * nat)) :=
  match inputs_of inputs with
  | Some vs => py_session e fuel cells (mkstack vs 0)
  | None => []
  end.

Definition session_obs_eqb (a b : list (obs * (list pval * nat))) : bool :=
  list_eqb (fun x y => obs_eqb (fst x) (fst y) && list_eqb pval_eqb (fst (snd x)) (fst (snd y)) && Nat.eqb (snd (snd x)) (snd (snd y))) a b.
