(* Michelson/PyObj.v — model of the conversion between Michelson values and "documented Python objects":
     src/pytezos/michelson/types/adt.py    get_type_layout (entrypoints=False), wrap_pair, wrap_or, get_flat_values
     src/pytezos/michelson/types/pair.py   PairType.iter_type_args / iter_values / to_python_object / from_python_object
     src/pytezos/michelson/types/sum.py    OrType.iter_type_args / to_python_object / from_python_object, is_enum
     src/pytezos/michelson/types/option.py, list.py, set.py, map.py, big_map.py, core.py (nat,int,string,bytes,bool,unit)
   as used by ContractData.decode (= to_python_object(lazy_diff=None) after from_micheline_value) and
   ContractData.encode (= from_python_object before to_micheline_value).

   Design notes
   * Python dict = association list in insertion order with overwrite-in-place ([pydict_set]).
   * The flat argument list of nested pairs / unions (iter_type_args) is produced by structural recursion with
     a context flag [ctxk]: a pair is merged into its parent pair iff it has neither field nor type annotation
     (Python truthiness: "%" and ":" alone count as absent there), a union is always merged into its parent union.
   * wrap_pair / wrap_or address leaves by binary paths; paths and flat indices are in bijection, the conversion
     functions below work with indices, [pair_layout]/[or_layout] still produce the path-keyed tables for the
     direct comparison with get_type_layout.
   * set.from_python_object sorts `set(py_obj)`, whose iteration order is arbitrary; the model sorts the list
     in the order given — the same result whenever the Michelson order is total on the elements (C03).
   * bytes.from_python_object also accepts hex strings; not modelled (the harness never sends a str there).
   No proofs in this file. *)
From Coq Require Import List ZArith NArith Bool Arith.
From Coq.Strings Require Import Byte String.
From PV Require Import Base.Bytes Base.Result.
Import ListNotations.
Local Open Scope list_scope.

Definition name := bytes.
Definition annot := option name.       (* None = absent, Some s = "%s" / ":s" (Some [] = bare "%" / ":") *)

Inductive scalar := KNat | KInt | KString | KBytes | KBool | KUnit.

Inductive aty : Type :=
| TScalar (fn tn : annot) (k : scalar)
| TPair (fn tn : annot) (a b : aty)
| TOr (fn tn : annot) (a b : aty)
| TOption (fn tn : annot) (a : aty)
| TList (fn tn : annot) (a : aty)
| TSet (fn tn : annot) (a : aty)
| TMap (fn tn : annot) (k v : aty)
| TBigMap (fn tn : annot) (k v : aty).

(* Michelson values (what the MichelsonType instances hold) *)
Inductive mval : Type :=
| VInt (z : Z) | VStr (s : bytes) | VBytes (b : bytes) | VBool (b : bool) | VUnit
| VPair (a b : mval)
| VLeft (a : mval) | VRight (b : mval)
| VSome (a : mval) | VNone
| VSeq (l : list mval)                 (* list and set *)
| VMap (l : list (mval * mval))        (* map and big_map literal *)
| VBigPtr (p : Z).                     (* big_map id *)

(* documented Python objects *)
Inductive pyobj : Type :=
| PInt (z : Z) | PStr (s : bytes) | PBytes (b : bytes) | PBool (b : bool) | PNone | PUnit
| PTuple (l : list pyobj)
| PList (l : list pyobj)
| PDict (l : list (pyobj * pyobj)).

(* ---- equalities --------------------------------------------------------------------------------------- *)
Fixpoint pyobj_eqb (a b : pyobj) {struct a} : bool :=
  match a, b with
  | PInt x, PInt y => Z.eqb x y
  | PStr x, PStr y => bytes_eqb x y
  | PBytes x, PBytes y => bytes_eqb x y
  | PBool x, PBool y => Bool.eqb x y
  | PNone, PNone => true
  | PUnit, PUnit => true
  | PTuple l1, PTuple l2 | PList l1, PList l2 =>
      (fix go (l1 l2 : list pyobj) : bool :=
         match l1, l2 with
         | [], [] => true
         | x :: r1, y :: r2 => pyobj_eqb x y && go r1 r2
         | _, _ => false
         end) l1 l2
  | PDict l1, PDict l2 =>
      (fix go (l1 l2 : list (pyobj * pyobj)) : bool :=
         match l1, l2 with
         | [], [] => true
         | (k1, v1) :: r1, (k2, v2) :: r2 => pyobj_eqb k1 k2 && pyobj_eqb v1 v2 && go r1 r2
         | _, _ => false
         end) l1 l2
  | _, _ => false
  end.

Fixpoint mval_eqb (a b : mval) {struct a} : bool :=
  match a, b with
  | VInt x, VInt y => Z.eqb x y
  | VStr x, VStr y => bytes_eqb x y
  | VBytes x, VBytes y => bytes_eqb x y
  | VBool x, VBool y => Bool.eqb x y
  | VUnit, VUnit => true
  | VPair a1 b1, VPair a2 b2 => mval_eqb a1 a2 && mval_eqb b1 b2
  | VLeft x, VLeft y | VRight x, VRight y | VSome x, VSome y => mval_eqb x y
  | VNone, VNone => true
  | VSeq l1, VSeq l2 =>
      (fix go (l1 l2 : list mval) : bool :=
         match l1, l2 with
         | [], [] => true
         | x :: r1, y :: r2 => mval_eqb x y && go r1 r2
         | _, _ => false
         end) l1 l2
  | VMap l1, VMap l2 =>
      (fix go (l1 l2 : list (mval * mval)) : bool :=
         match l1, l2 with
         | [], [] => true
         | (k1, v1) :: r1, (k2, v2) :: r2 => mval_eqb k1 k2 && mval_eqb v1 v2 && go r1 r2
         | _, _ => false
         end) l1 l2
  | VBigPtr x, VBigPtr y => Z.eqb x y
  | _, _ => false
  end.

(* ---- annotations --------------------------------------------------------------------------------------- *)
Definition t_fn (t : aty) : annot :=
  match t with
  | TScalar fn _ _ | TPair fn _ _ _ | TOr fn _ _ _ | TOption fn _ _ | TList fn _ _ | TSet fn _ _
  | TMap fn _ _ _ | TBigMap fn _ _ _ => fn
  end.
Definition t_tn (t : aty) : annot :=
  match t with
  | TScalar _ tn _ | TPair _ tn _ _ | TOr _ tn _ _ | TOption _ tn _ | TList _ tn _ | TSet _ tn _
  | TMap _ tn _ _ | TBigMap _ tn _ _ => tn
  end.

(* Python truthiness of an Optional[str] *)
Definition truthy (a : annot) : bool := match a with Some (_ :: _) => true | _ => false end.
(* `not (arg.field_name or arg.type_name)` *)
Definition unnamed (fn tn : annot) : bool := negb (truthy fn) && negb (truthy tn).

Definition prim_name (t : aty) : name :=
  match t with
  | TScalar _ _ KNat => tx "nat" | TScalar _ _ KInt => tx "int" | TScalar _ _ KString => tx "string"
  | TScalar _ _ KBytes => tx "bytes" | TScalar _ _ KBool => tx "bool" | TScalar _ _ KUnit => tx "unit"
  | TPair _ _ _ _ => tx "pair" | TOr _ _ _ _ => tx "or" | TOption _ _ _ => tx "option"
  | TList _ _ _ => tx "list" | TSet _ _ _ => tx "set" | TMap _ _ _ _ => tx "map" | TBigMap _ _ _ _ => tx "big_map"
  end.

(* decimal rendering of an index, str(i) *)
Definition digit (n : nat) : byte := b8 (48 + N.of_nat n).
Fixpoint dec_digits (fuel n : nat) (acc : bytes) : bytes :=
  match fuel with
  | O => acc
  | S f => let acc' := digit (n mod 10) :: acc in
           if n / 10 =? 0 then acc' else dec_digits f (n / 10) acc'
  end.
Definition str_of_nat (n : nat) : bytes := dec_digits (S n) n [].

(* f'{arg.prim}_{i}' *)
Definition gen_name (t : aty) (i : nat) : name := prim_name t ++ x5f :: str_of_nat i.

(* ---- flat argument lists (iter_type_args, entrypoints=False) ---------------------------------------------- *)
Definition path := list bool.

(* arguments contributed by [t] sitting at [p] below a pair *)
Fixpoint pair_leaves_at (p : path) (t : aty) : list (path * aty) :=
  match t with
  | TPair fn tn a b =>
      if unnamed fn tn then pair_leaves_at (p ++ [false]) a ++ pair_leaves_at (p ++ [true]) b
      else [(p, t)]
  | _ => [(p, t)]
  end.
Definition pair_leaves (a b : aty) : list (path * aty) := pair_leaves_at [false] a ++ pair_leaves_at [true] b.

Fixpoint or_leaves_at (p : path) (t : aty) : list (path * aty) :=
  match t with
  | TOr _ _ a b => or_leaves_at (p ++ [false]) a ++ or_leaves_at (p ++ [true]) b
  | _ => [(p, t)]
  end.
Definition or_leaves (a b : aty) : list (path * aty) := or_leaves_at [false] a ++ or_leaves_at [true] b.

Fixpoint or_count (t : aty) : nat :=
  match t with TOr _ _ a b => or_count a + or_count b | _ => 1 end.

Fixpoint pair_count (t : aty) : nat :=
  match t with
  | TPair fn tn a b => if unnamed fn tn then pair_count a + pair_count b else 1
  | _ => 1
  end.

(* ---- adt.get_type_layout(flat_args, infer_names, entrypoints=False) ------------------------------------------ *)
Fixpoint mem_name (k : name) (l : list name) : bool :=
  match l with [] => false | x :: r => bytes_eqb k x || mem_name k r end.

(* key = arg.field_name; if key is None: key = arg.type_name *)
Definition explicit_key (t : aty) : option name :=
  match t_fn t with Some k => Some k | None => t_tn t end.

(* keys in argument order together with the final `reserved` set *)
Fixpoint layout_keys (i : nat) (reserved : list name) (args : list aty) : list name * list name :=
  match args with
  | [] => ([], reserved)
  | t :: rest =>
      match explicit_key t with
      | Some k =>
          if mem_name k reserved
          then let r := layout_keys (S i) reserved rest in (gen_name t i :: fst r, snd r)
          else let r := layout_keys (S i) (k :: reserved) rest in (k :: fst r, snd r)
      | None => let r := layout_keys (S i) reserved rest in (gen_name t i :: fst r, snd r)
      end
  end.

(* None = "path_to_key is None" (positional mode) *)
Definition layout_names (infer : bool) (args : list aty) : option (list name) :=
  let r := layout_keys 0 [] args in
  match snd r with
  | [] => if infer then Some (fst r) else None
  | _ :: _ => Some (fst r)
  end.

Definition all_names (args : list aty) : list name := fst (layout_keys 0 [] args).

(* the three tables returned by get_type_layout: path_to_key, key_to_path (None, None in positional mode), idx_to_path *)
Fixpoint kdict_set {V} (d : list (name * V)) (k : name) (v : V) : list (name * V) :=
  match d with
  | [] => [(k, v)]
  | (k', v') :: r => if bytes_eqb k k' then (k, v) :: r else (k', v') :: kdict_set r k v
  end.

Definition type_layout (infer : bool) (leaves : list (path * aty))
  : option (list (path * name) * list (name * path)) * list path :=
  let paths := map fst leaves in
  (match layout_names infer (map snd leaves) with
   | None => None
   | Some names =>
       let p2k := combine paths names in
       Some (p2k, fold_left (fun d pk => kdict_set d (snd pk) (fst pk)) p2k [])
   end, paths).

(* ---- Python dicts ------------------------------------------------------------------------------------------ *)
Fixpoint pydict_set (d : list (pyobj * pyobj)) (k v : pyobj) : list (pyobj * pyobj) :=
  match d with
  | [] => [(k, v)]
  | (k', v') :: r => if pyobj_eqb k k' then (k', v) :: r else (k', v') :: pydict_set r k v
  end.

Definition pydict_of (items : list (pyobj * pyobj)) : list (pyobj * pyobj) :=
  fold_left (fun d kv => pydict_set d (fst kv) (snd kv)) items [].

Fixpoint pydict_get (d : list (pyobj * pyobj)) (k : pyobj) : option pyobj :=
  match d with
  | [] => None
  | (k', v) :: r => if pyobj_eqb k k' then Some v else pydict_get r k
  end.

(* ---- generic helpers ---------------------------------------------------------------------------------------- *)
Fixpoint map_result {A B} (f : A -> result B) (l : list A) : result (list B) :=
  match l with
  | [] => Ok []
  | x :: r => let* y := f x in let* ys := map_result f r in Ok (y :: ys)
  end.

Definition one (r : result (nat * list pyobj)) : result pyobj :=
  let* x := r in match snd x with [o] => Ok o | _ => Reject end.

Definition single (o : pyobj) : result (nat * list pyobj) := Ok (0, [o]).

Inductive ctxk := CNone | CPair | COr.
Definition is_cpair (c : ctxk) : bool := match c with CPair => true | _ => false end.
Definition is_cor (c : ctxk) : bool := match c with COr => true | _ => false end.

(* OrType.create_type: is_enum = every leaf of the nested unions is `unit` *)
Fixpoint all_units (t : aty) : bool :=
  match t with
  | TOr _ _ a b => all_units a && all_units b
  | TScalar _ _ KUnit => true
  | _ => false
  end.

(* ---- scalars ------------------------------------------------------------------------------------------------ *)
Definition scalar_to (k : scalar) (v : mval) : result pyobj :=
  match k, v with
  | KNat, VInt z | KInt, VInt z => Ok (PInt z)
  | KString, VStr s => Ok (PStr s)
  | KBytes, VBytes b => Ok (PBytes b)
  | KBool, VBool b => Ok (PBool b)
  | KUnit, VUnit => Ok PUnit
  | _, _ => Reject
  end.

Definition is_ascii (s : bytes) : bool := forallb (fun b => N.ltb (Byte.to_N b) 128) s.

Definition scalar_from (k : scalar) (o : pyobj) : result mval :=
  match k, o with
  | KNat, PInt z => if (0 <=? z)%Z then Ok (VInt z) else Reject
  | KInt, PInt z => Ok (VInt z)
  | KString, PStr s => if is_ascii s then Ok (VStr s) else Reject
  | KBytes, PBytes b => Ok (VBytes b)
  | KBool, PBool b => Ok (VBool b)
  | KUnit, PNone | KUnit, PUnit => Ok VUnit
  | _, _ => Reject
  end.

(* ---- to_python_object ------------------------------------------------------------------------------------------ *)
(* PairType.to_python_object once the flat values are converted: a dict keyed by the layout names, or a tuple
   (always a tuple when comparable=True: force_tuple) *)
Definition pair_obj (cmp : bool) (names : option (list name)) (items : list pyobj) : pyobj :=
  match names, cmp with
  | Some ns, false => PDict (pydict_of (combine (map PStr ns) items))
  | _, _ => PTuple items
  end.

Definition or_obj (cmp enum : bool) (key : name) (o : pyobj) : pyobj :=
  if enum then PStr key
  else if cmp then PTuple [PStr key; o] else PDict [(PStr key, o)].

(* [conv c cmp t v] = (index of the union leaf taken (only under COr), converted flat items).
   c = CPair: [t] is an argument of a pair (merged into it when unnamed);
   c = COr : [t] is an argument of a union (merged into it when it is a union);  otherwise one item. *)
Fixpoint conv (c : ctxk) (cmp : bool) (t : aty) (v : mval) {struct t} : result (nat * list pyobj) :=
  match t with
  | TScalar _ _ k => let* o := scalar_to k v in single o
  | TPair fn tn a b =>
      match v with
      | VPair x y =>
          let* ra := conv CPair cmp a x in
          let* rb := conv CPair cmp b y in
          let items := snd ra ++ snd rb in
          if is_cpair c && unnamed fn tn then Ok (0, items)
          else single (pair_obj cmp (layout_names false (map snd (pair_leaves a b))) items)
      | _ => Reject
      end
  | TOr fn tn a b =>
      let* r := match v with
                | VLeft x => conv COr cmp a x
                | VRight y => let* r := conv COr cmp b y in Ok (or_count a + fst r, snd r)
                | _ => Reject
                end in
      if is_cor c then Ok r
      else
        match snd r, nth_error (all_names (map snd (or_leaves a b))) (fst r) with
        | [o], Some key => single (or_obj cmp (all_units a && all_units b) key o)
        | _, _ => Reject
        end
  | TOption _ _ a =>
      match v with
      | VNone => single PNone
      | VSome x => let* o := one (conv CNone cmp a x) in single o
      | _ => Reject
      end
  | TList _ _ a =>
      if cmp then Reject else
      match v with
      | VSeq l => let* os := map_result (fun x => one (conv CNone false a x)) l in single (PList os)
      | _ => Reject
      end
  | TSet _ _ a =>
      if cmp then Reject else
      match v with
      | VSeq l => let* os := map_result (fun x => one (conv CNone true a x)) l in single (PList os)
      | _ => Reject
      end
  | TMap _ _ k e =>
      if cmp then Reject else
      match v with
      | VMap l =>
          let* d := map_result (fun kv => let* ko := one (conv CNone true k (fst kv)) in
                                          let* vo := one (conv CNone false e (snd kv)) in Ok (ko, vo)) l in
          single (PDict (pydict_of d))
      | _ => Reject
      end
  | TBigMap _ _ k e =>
      match v with
      | VBigPtr p => single (PInt p)
      | VMap l =>
          if cmp then Reject else
          let* d := map_result (fun kv => let* ko := one (conv CNone true k (fst kv)) in
                                          let* vo := one (conv CNone false e (snd kv)) in Ok (ko, vo)) l in
          single (PDict (pydict_of d))
      | _ => Reject
      end
  end.

(* value.to_python_object(lazy_diff=None, comparable=cmp) *)
Definition to_py_cmp (cmp : bool) (t : aty) (v : mval) : result pyobj := one (conv CNone cmp t v).
Definition to_py (t : aty) (v : mval) : result pyobj := to_py_cmp false t v.

(* ---- Michelson order (the __lt__ methods; total on comparable values of one type: C03) -------------------------- *)
Fixpoint bytes_ltb (a b : bytes) : bool :=
  match a, b with
  | [], [] => false
  | [], _ :: _ => true
  | _ :: _, [] => false
  | x :: r, y :: s => if N.ltb (Byte.to_N x) (Byte.to_N y) then true
                      else if N.ltb (Byte.to_N y) (Byte.to_N x) then false else bytes_ltb r s
  end.

Fixpoint mlt (a b : mval) {struct a} : bool :=
  match a, b with
  | VInt x, VInt y => Z.ltb x y
  | VStr x, VStr y | VBytes x, VBytes y => bytes_ltb x y
  | VBool x, VBool y => negb x && y
  | VPair a1 b1, VPair a2 b2 => if mval_eqb a1 a2 then mlt b1 b2 else mlt a1 a2
  | VLeft x, VLeft y | VRight x, VRight y => mlt x y
  | VLeft _, VRight _ => true
  | VNone, VSome _ => true
  | VSome x, VSome y => mlt x y
  | _, _ => false
  end.

Section Sort.
  Variable A : Type.
  Variable key : A -> mval.
  Fixpoint insert_by (x : A) (l : list A) : list A :=
    match l with
    | [] => [x]
    | y :: r => if mlt (key x) (key y) then x :: y :: r else y :: insert_by x r
    end.
  Fixpoint sort_by (l : list A) : list A :=
    match l with [] => [] | x :: r => insert_by x (sort_by r) end.
End Sort.
Arguments insert_by {A} key x l.
Arguments sort_by {A} key l.

(* ---- from_python_object ------------------------------------------------------------------------------------------ *)
Fixpoint hashable (o : pyobj) : bool :=
  match o with
  | PList _ | PDict _ => false
  | PTuple l => (fix go (l : list pyobj) : bool := match l with [] => true | x :: r => hashable x && go r end) l
  | _ => true
  end.

Fixpoint has_dup (l : list pyobj) : bool :=
  match l with [] => false | x :: r => existsb (pyobj_eqb x) r || has_dup r end.

(* PairType.from_python_object: dict {name: value} -> {path: value} -> wrap_pair; in flat-index terms:
   every key must be a layout name; the item of leaf i is found under its name provided the name's LAST
   occurrence is i (key_to_path keeps the last path of a repeated name), otherwise the leaf is "missing" *)
Fixpoint dict_items (names_after : list name) (d : list (pyobj * pyobj)) : result (list pyobj) :=
  match names_after with
  | [] => Ok []
  | n :: rest =>
      if mem_name n rest then Reject
      else match pydict_get d (PStr n) with
           | Some o => let* os := dict_items rest d in Ok (o :: os)
           | None => Reject
           end
  end.

Definition key_known (names : list name) (k : pyobj) : bool :=
  match k with PStr s => mem_name s names | _ => false end.

Definition pair_items (names : option (list name)) (n : nat) (o : pyobj) : result (list pyobj) :=
  match o with
  | PTuple l | PList l => if Nat.eqb (List.length l) n then Ok l else Reject
  | PDict d =>
      match names with
      | Some ns => if forallb (fun kv => key_known ns (fst kv)) d then dict_items ns d else Reject
      | None => Reject
      end
  | _ => Reject
  end.

(* index of the last occurrence (key_to_path of a repeated name is the last path) *)
Fixpoint last_index (k : name) (i : nat) (names : list name) (found : option nat) : option nat :=
  match names with
  | [] => found
  | n :: r => last_index k (S i) r (if bytes_eqb k n then Some i else found)
  end.

(* OrType.from_python_object: which leaf, and the object for it *)
Definition or_select (enum : bool) (names : list name) (o : pyobj) : result (nat * pyobj) :=
  let* ka := match o with
             | PStr s => if enum then Ok (PStr s, PUnit) else Reject
             | PTuple [k; a] => Ok (k, a)
             | PDict [(k, a)] => Ok (k, a)
             | _ => Reject
             end in
  match fst ka with
  | PStr s => match last_index s 0 names None with Some i => Ok (i, snd ka) | None => Reject end
  | _ => Reject
  end.

(* [unconv c t idx items] consumes the objects of [t] from the front of [items]; under COr [idx] is the index
   of the chosen leaf among the leaves of [t] and [items] holds that leaf's object *)
Fixpoint unconv (c : ctxk) (t : aty) (idx : nat) (items : list pyobj) {struct t} : result (mval * list pyobj) :=
  match t with
  | TScalar _ _ k =>
      match items with o :: rest => let* v := scalar_from k o in Ok (v, rest) | [] => Reject end
  | TPair fn tn a b =>
      let flat := is_cpair c && unnamed fn tn in
      let* st := if flat then Ok (items, [])
                 else match items with
                      | o :: rest =>
                          let* its := pair_items (layout_names false (map snd (pair_leaves a b)))
                                                 (pair_count a + pair_count b) o in Ok (its, rest)
                      | [] => Reject
                      end in
      let* ra := unconv CPair a 0 (fst st) in
      let* rb := unconv CPair b 0 (snd ra) in
      if flat then Ok (VPair (fst ra) (fst rb), snd rb)
      else match snd rb with [] => Ok (VPair (fst ra) (fst rb), snd st) | _ :: _ => Reject end
  | TOr fn tn a b =>
      let flat := is_cor c in
      let* st := if flat then Ok (idx, items, [])
                 else match items with
                      | o :: rest =>
                          let* ia := or_select (all_units a && all_units b) (all_names (map snd (or_leaves a b))) o in
                          Ok (fst ia, [snd ia], rest)
                      | [] => Reject
                      end in
      let i := fst (fst st) in
      let* r := if i <? or_count a
                then let* r := unconv COr a i (snd (fst st)) in Ok (VLeft (fst r), snd r)
                else let* r := unconv COr b (i - or_count a) (snd (fst st)) in Ok (VRight (fst r), snd r) in
      if flat then Ok r
      else match snd r with [] => Ok (fst r, snd st) | _ :: _ => Reject end
  | TOption _ _ a =>
      match items with
      | PNone :: rest => Ok (VNone, rest)
      | o :: rest => let* r := unconv CNone a 0 [o] in
                     match snd r with [] => Ok (VSome (fst r), rest) | _ :: _ => Reject end
      | [] => Reject
      end
  | TList _ _ a =>
      match items with
      | PList l :: rest =>
          let* vs := map_result (fun o => let* r := unconv CNone a 0 [o] in
                                          match snd r with [] => Ok (fst r) | _ :: _ => Reject end) l in
          Ok (VSeq vs, rest)
      | _ => Reject
      end
  | TSet _ _ a =>
      match items with
      | PList l :: rest =>
          if negb (forallb hashable l) || has_dup l then Reject else
          let* vs := map_result (fun o => let* r := unconv CNone a 0 [o] in
                                          match snd r with [] => Ok (fst r) | _ :: _ => Reject end) l in
          Ok (VSeq (sort_by (fun x => x) vs), rest)
      | _ => Reject
      end
  | TMap _ _ k e =>
      match items with
      | PDict d :: rest =>
          let* kvs := map_result (fun kv =>
                        let* rk := unconv CNone k 0 [fst kv] in
                        let* rv := unconv CNone e 0 [snd kv] in
                        match snd rk, snd rv with [], [] => Ok (fst rk, fst rv) | _, _ => Reject end) d in
          Ok (VMap (sort_by fst kvs), rest)
      | _ => Reject
      end
  | TBigMap _ _ k e =>
      match items with
      | PInt p :: rest => Ok (VBigPtr p, rest)
      | PDict d :: rest =>
          let* kvs := map_result (fun kv =>
                        let* rk := unconv CNone k 0 [fst kv] in
                        let* rv := unconv CNone e 0 [snd kv] in
                        match snd rk, snd rv with [], [] => Ok (fst rk, fst rv) | _, _ => Reject end) d in
          Ok (VMap (sort_by fst kvs), rest)
      | _ => Reject
      end
  end.

Definition from_py (t : aty) (o : pyobj) : result mval :=
  let* r := unconv CNone t 0 [o] in
  match snd r with [] => Ok (fst r) | _ :: _ => Reject end.

(* ---- types accepted by MichelsonType.create_type: keys of sets / maps / big_maps are comparable ------------------- *)
Fixpoint comparable (t : aty) : bool :=
  match t with
  | TScalar _ _ _ => true
  | TPair _ _ a b | TOr _ _ a b => comparable a && comparable b
  | TOption _ _ a => comparable a
  | _ => false
  end.

Fixpoint valid_ty (t : aty) : bool :=
  match t with
  | TScalar _ _ _ => true
  | TPair _ _ a b | TOr _ _ a b => valid_ty a && valid_ty b
  | TOption _ _ a | TList _ _ a => valid_ty a
  | TSet _ _ a => comparable a && valid_ty a
  | TMap _ _ k e | TBigMap _ _ k e => comparable k && valid_ty k && valid_ty e
  end.

(* ---- well-typed values (what from_micheline_value can produce: check_constraints = no duplicates, sorted) --------------------------------------------------- *)
Fixpoint sorted_by {A} (key : A -> mval) (l : list A) : bool :=
  match l with
  | [] => true
  | x :: r => match r with [] => true | y :: _ => mlt (key x) (key y) && sorted_by key r end
  end.

Fixpoint has_type (t : aty) (v : mval) {struct t} : Prop :=
  match t, v with
  | TScalar _ _ KNat, VInt z => (0 <= z)%Z
  | TScalar _ _ KInt, VInt _ => True
  | TScalar _ _ KString, VStr s => is_ascii s = true
  | TScalar _ _ KBytes, VBytes _ => True
  | TScalar _ _ KBool, VBool _ => True
  | TScalar _ _ KUnit, VUnit => True
  | TPair _ _ a b, VPair x y => has_type a x /\ has_type b y
  | TOr _ _ a _, VLeft x => has_type a x
  | TOr _ _ _ b, VRight y => has_type b y
  | TOption _ _ a, VSome x => has_type a x
  | TOption _ _ _, VNone => True
  | TList _ _ a, VSeq l => Forall (has_type a) l
  | TSet _ _ a, VSeq l => Forall (has_type a) l /\ NoDup l /\ sorted_by (fun x => x) l = true
  | TMap _ _ k e, VMap l | TBigMap _ _ k e, VMap l =>
      Forall (fun kv => has_type k (fst kv) /\ has_type e (snd kv)) l /\ NoDup (map fst l) /\ sorted_by fst l = true
  | TBigMap _ _ _ _, VBigPtr _ => True
  | _, _ => False
  end.

(* ---- the known-finding classes ------------------------------------------------------------------------------------ *)
(* "nested-option": the value contains Some None *)
Fixpoint has_some_none (v : mval) : bool :=
  match v with
  | VSome VNone => true
  | VSome x | VLeft x | VRight x => has_some_none x
  | VPair a b => has_some_none a || has_some_none b
  | VSeq l => (fix go (l : list mval) : bool := match l with [] => false | x :: r => has_some_none x || go r end) l
  | VMap l => (fix go (l : list (mval * mval)) : bool :=
                 match l with [] => false | (k, e) :: r => has_some_none k || has_some_none e || go r end) l
  | _ => false
  end.

(* "generated-name-collision": somewhere in the type a pair / union layout contains the same key twice
   (an explicit annotation equal to a generated <prim>_<index> name) *)
Fixpoint nodup_names (l : list name) : bool :=
  match l with [] => true | x :: r => negb (mem_name x r) && nodup_names r end.

Fixpoint names_ok (c : ctxk) (t : aty) : bool :=
  match t with
  | TScalar _ _ _ => true
  | TPair fn tn a b =>
      names_ok CPair a && names_ok CPair b &&
      (if is_cpair c && unnamed fn tn then true else nodup_names (all_names (map snd (pair_leaves a b))))
  | TOr _ _ a b =>
      names_ok COr a && names_ok COr b &&
      (if is_cor c then true else nodup_names (all_names (map snd (or_leaves a b))))
  | TOption _ _ a | TList _ _ a | TSet _ _ a => names_ok CNone a
  | TMap _ _ k e | TBigMap _ _ k e => names_ok CNone k && names_ok CNone e
  end.

(* ---- what the harness observes -------------------------------------------------------------------------------------- *)
Inductive query :=
| QTo (v : mval)          (* T.from_micheline_value(m).to_python_object(lazy_diff=None)  == ContractData.decode *)
| QToCmp (v : mval)       (* … to_python_object(comparable=True) *)
| QFrom (o : pyobj)       (* T.from_python_object(o) (rendered by to_micheline_value)   == ContractData.encode *)
| QLayout (infer : bool). (* T.get_type_layout(infer_names=infer) for pair / or types *)

Inductive answer :=
| ATo (r : result pyobj)
| AFrom (r : result mval)
| ALayout (r : result (option (list (path * name) * list (name * path)) * list path)).

Definition run_query (t : aty) (q : query) : answer :=
  match q with
  | QTo v => ATo (to_py t v)
  | QToCmp v => ATo (to_py_cmp true t v)
  | QFrom o => AFrom (from_py t o)
  | QLayout infer =>
      ALayout (match t with
               | TPair _ _ a b => Ok (type_layout infer (pair_leaves a b))
               | TOr _ _ a b => Ok (type_layout infer (or_leaves a b))
               | _ => Reject
               end)
  end.

Definition path_eqb : path -> path -> bool := list_eqb Bool.eqb.

Definition layout_eqb (a b : option (list (path * name) * list (name * path)) * list path) : bool :=
  prod_eqb (option_eqb (prod_eqb (list_eqb (prod_eqb path_eqb bytes_eqb)) (list_eqb (prod_eqb bytes_eqb path_eqb))))
           (list_eqb path_eqb) a b.

Definition answer_eqb (a b : answer) : bool :=
  match a, b with
  | ATo x, ATo y => result_eqb pyobj_eqb x y
  | AFrom x, AFrom y => result_eqb mval_eqb x y
  | ALayout x, ALayout y => result_eqb layout_eqb x y
  | _, _ => false
  end.
