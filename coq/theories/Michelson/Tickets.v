(* Michelson/Tickets.v — model of the ticket instructions of pytezos
   (src/pytezos/michelson/instructions/ticket.py, types/ticket.py, is_duplicable in types/base.py)
   together with the stack / pair / option / list instructions a program needs to move tickets
   around (instructions/stack.py, adt.py, struct.py, control.py IF_NONE / IF_CONS / ITER / MAP over lists).

   Domain: ticket contents are nat, string, and options / pairs of them (comparable types);
   TICKET on any other content is outside the model (Reject).  The state carries a ghost ledger
   [minted] of the tickets created by TICKET; it is not observable and never read by [step].
   No proofs here (Proofs/Tickets_proofs.v). *)
From Coq Require Import List ZArith Bool.
From Coq.Strings Require Import Byte.
From PV Require Import Base.Bytes Base.Result.
Import ListNotations.
Local Open Scope Z_scope.

(* comparable content types / values of the modelled domain: nat, string, options and pairs of them *)
Inductive cty := CNat | CString | COption (c : cty) | CPair (a b : cty) | COr (a b : cty).

Inductive ty :=
| TNat | TString | TAddress
| TTicket (c : cty)
| TPair (a b : ty) | TOption (a : ty) | TList (a : ty)
| TBool
| TMap (big : bool) (v : ty)
| TLambda (a r : ty)
| TOr (a b : ty).      (* map nat v / big_map nat v: keys are nat in this model *)

Inductive cval := CN (z : Z) | CS (s : bytes) | CNone (t : cty) | CSome (c : cval) | CPairV (a b : cval)
                | CLeft (c : cval) (tr : cty) | CRight (tl : cty) (c : cval).

Inductive instr :=
| TICKET | READ_TICKET | SPLIT_TICKET | JOIN_TICKETS
| DUP | DUPN (n : nat) | SWAP | DROP | DIG (n : nat) | DUG (n : nat)
| PAIR | UNPAIR | CAR | CDR
| SOME | NONE (t : ty) | IF_NONE (bt bf : list instr)
| NIL (t : ty) | CONS | IF_CONS (bt bf : list instr) | ITER (body : list instr) | MAP (body : list instr)
| EMPTY_MAP (big : bool) (vt : ty) | UPDATE | GET_AND_UPDATE | MEM | GET
| LEFT (t : ty) | RIGHT (t : ty) | IF_LEFT (bt bf : list instr)
| LAMBDA (a r : ty) (body : list instr) | EXEC | APPLY | LOOP (body : list instr) | PUSH_BOOL (b : bool)
| PUSH_NAT (z : Z) | PUSH_STR (s : bytes)
| SELF_IS (a : bytes).       (* harness pseudo-instruction: context.address := a *)

Inductive val :=
| VNat (z : Z) | VStr (s : bytes) | VAddr (a : bytes)
| VTicket (ticketer : bytes) (content : cval) (amount : Z)
| VPair (a b : val)
| VSome (v : val) | VNone (t : ty)
| VList (t : ty) (l : list val)
| VBool (b : bool)
| VMap (big : bool) (vt : ty) (m : list (Z * val))
| VLam (a r : ty) (caps : list val) (body : list instr)
| VLeft (v : val) (tr : ty) | VRight (tl : ty) (v : val).   (* closure: values captured by APPLY, in capture order *)

(* ---- equality tests ---- *)
Fixpoint cty_eqb (a b : cty) : bool :=
  match a, b with
  | CNat, CNat | CString, CString => true
  | COption x, COption y => cty_eqb x y
  | CPair a1 a2, CPair b1 b2 | COr a1 a2, COr b1 b2 => cty_eqb a1 b1 && cty_eqb a2 b2
  | _, _ => false
  end.

Fixpoint ty_eqb (a b : ty) : bool :=
  match a, b with
  | TNat, TNat | TString, TString | TAddress, TAddress => true
  | TTicket x, TTicket y => cty_eqb x y
  | TPair a1 a2, TPair b1 b2 => ty_eqb a1 b1 && ty_eqb a2 b2
  | TOption x, TOption y | TList x, TList y => ty_eqb x y
  | TBool, TBool => true
  | TMap b1 x, TMap b2 y => Bool.eqb b1 b2 && ty_eqb x y
  | TLambda a1 r1, TLambda a2 r2 | TOr a1 r1, TOr a2 r2 => ty_eqb a1 a2 && ty_eqb r1 r2
  | _, _ => false
  end.

(* structural (Michelson) equality of contents *)
Fixpoint cval_eqb (a b : cval) : bool :=
  match a, b with
  | CN x, CN y => x =? y
  | CS x, CS y => bytes_eqb x y
  | CNone x, CNone y => cty_eqb x y
  | CSome x, CSome y => cval_eqb x y
  | CPairV a1 a2, CPairV b1 b2 => cval_eqb a1 b1 && cval_eqb a2 b2
  | CLeft x t1, CLeft y t2 | CRight t1 x, CRight t2 y => cval_eqb x y && cty_eqb t1 t2
  | _, _ => false
  end.

Fixpoint val_eqb (a b : val) : bool :=
  match a, b with
  | VNat x, VNat y => x =? y
  | VStr x, VStr y | VAddr x, VAddr y => bytes_eqb x y
  | VTicket t1 c1 a1, VTicket t2 c2 a2 => bytes_eqb t1 t2 && cval_eqb c1 c2 && (a1 =? a2)
  | VPair a1 a2, VPair b1 b2 => val_eqb a1 b1 && val_eqb a2 b2
  | VSome x, VSome y => val_eqb x y
  | VNone x, VNone y => ty_eqb x y
  | VList t1 l1, VList t2 l2 =>
      ty_eqb t1 t2 &&
      (fix go (l1 l2 : list val) : bool :=
         match l1, l2 with
         | [], [] => true
         | x :: r1, y :: r2 => val_eqb x y && go r1 r2
         | _, _ => false
         end) l1 l2
  | VBool x, VBool y => Bool.eqb x y
  | VMap b1 t1 m1, VMap b2 t2 m2 =>
      Bool.eqb b1 b2 && ty_eqb t1 t2 &&
      (fix go (m1 m2 : list (Z * val)) : bool :=
         match m1, m2 with
         | [], [] => true
         | (k1, x) :: r1, (k2, y) :: r2 => (k1 =? k2) && val_eqb x y && go r1 r2
         | _, _ => false
         end) m1 m2
  (* closures are compared up to their code (types, captured values, code length) *)
  | VLam a1 r1 c1 b1, VLam a2 r2 c2 b2 =>
      ty_eqb a1 a2 && ty_eqb r1 r2 && Nat.eqb (length b1) (length b2) &&
      (fix go (l1 l2 : list val) : bool :=
         match l1, l2 with
         | [], [] => true
         | x :: r1, y :: r2 => val_eqb x y && go r1 r2
         | _, _ => false
         end) c1 c2
  | VLeft x t1, VLeft y t2 | VRight t1 x, VRight t2 y => val_eqb x y && ty_eqb t1 t2
  | _, _ => false
  end.

(* ---- types of values ---- *)
Fixpoint cty_of (c : cval) : cty :=
  match c with
  | CN _ => CNat | CS _ => CString
  | CNone t => COption t
  | CSome x => COption (cty_of x)
  | CPairV a b => CPair (cty_of a) (cty_of b)
  | CLeft x tr => COr (cty_of x) tr
  | CRight tl x => COr tl (cty_of x)
  end.
Fixpoint ty_of_cty (c : cty) : ty :=
  match c with
  | CNat => TNat | CString => TString
  | COption x => TOption (ty_of_cty x)
  | CPair a b => TPair (ty_of_cty a) (ty_of_cty b)
  | COr a b => TOr (ty_of_cty a) (ty_of_cty b)
  end.
Fixpoint cty_of_ty (t : ty) : option cty :=
  match t with
  | TNat => Some CNat | TString => Some CString
  | TOption x => match cty_of_ty x with Some c => Some (COption c) | None => None end
  | TPair a b => match cty_of_ty a, cty_of_ty b with Some x, Some y => Some (CPair x y) | _, _ => None end
  | TOr a b => match cty_of_ty a, cty_of_ty b with Some x, Some y => Some (COr x y) | _, _ => None end
  | _ => None
  end.
Fixpoint val_of_cval (c : cval) : val :=
  match c with
  | CN z => VNat z | CS s => VStr s
  | CNone t => VNone (ty_of_cty t)
  | CSome x => VSome (val_of_cval x)
  | CPairV a b => VPair (val_of_cval a) (val_of_cval b)
  | CLeft x tr => VLeft (val_of_cval x) (ty_of_cty tr)
  | CRight tl x => VRight (ty_of_cty tl) (val_of_cval x)
  end.

Fixpoint type_of (v : val) : ty :=
  match v with
  | VNat _ => TNat | VStr _ => TString | VAddr _ => TAddress
  | VTicket _ c _ => TTicket (cty_of c)
  | VPair a b => TPair (type_of a) (type_of b)
  | VSome x => TOption (type_of x)
  | VNone t => TOption t
  | VList t _ => TList t
  | VBool _ => TBool
  | VMap big vt _ => TMap big vt
  | VLam a r _ _ => TLambda a r
  | VLeft x tr => TOr (type_of x) tr
  | VRight tl x => TOr tl (type_of x)
  end.

(* MichelsonType.is_duplicable: false for ticket, otherwise all type arguments duplicable *)
Fixpoint duplicable (t : ty) : bool :=
  match t with
  | TTicket _ => false
  | TPair a b | TOr a b => duplicable a && duplicable b
  | TOption a | TList a | TMap _ a => duplicable a
  | _ => true
  end.

(* MichelsonType.is_pushable: false for big_map and ticket (operation, sapling_state are not modelled), lambda true *)
Fixpoint pushable (t : ty) : bool :=
  match t with
  | TTicket _ => false
  | TMap true _ => false
  | TMap false a | TOption a | TList a => pushable a
  | TPair a b | TOr a b => pushable a && pushable b
  | _ => true
  end.

(* ---- TicketType.split / join (after the fix 224b890) ---- *)
Definition ticket_split (tk : bytes) (c : cval) (amt l r : Z) : option (val * val) :=
  if negb (l + r =? amt) || (l =? 0) || (r =? 0) then None
  else Some (VTicket tk c l, VTicket tk c r).

Definition ticket_join (t1 : bytes) (c1 : cval) (a1 : Z) (t2 : bytes) (c2 : cval) (a2 : Z) : option val :=
  if negb (bytes_eqb t1 t2) || negb (cval_eqb c1 c2) then None
  else Some (VTicket t1 c1 (a1 + a2)).

(* ---- machine state ---- *)
Definition key := (bytes * cval)%type.
Record state := { self : bytes; stk : list val; minted : list (key * Z) }.

Definition with_stk (st : state) (s : list val) : state :=
  {| self := self st; stk := s; minted := minted st |}.

Definition run_with (step : instr -> state -> result state) : list instr -> state -> result state :=
  fix go (p : list instr) (st : state) : result state :=
    match p with
    | [] => Ok st
    | i :: r => match step i st with Ok st' => go r st' | Reject => Reject end
    end.

(* ITER: for elt in src: stack.push(elt); body.execute(...) *)
Definition iter_with (stp : instr -> state -> result state) (body : list instr) : list val -> state -> result state :=
  fix go (l : list val) (st : state) : result state :=
    match l with
    | [] => Ok st
    | x :: r => match run_with stp body (with_stk st (x :: stk st)) with Ok st' => go r st' | Reject => Reject end
    end.

(* MAP over a list: for elt in src: push(elt); body.execute(...); new_elt = pop1(); items.append(new_elt) *)
Definition map_with (stp : instr -> state -> result state) (body : list instr)
  : list val -> state -> list val -> result (state * list val) :=
  fix go (l : list val) (st : state) (acc : list val) : result (state * list val) :=
    match l with
    | [] => Ok (st, acc)
    | x :: r =>
        match run_with stp body (with_stk st (x :: stk st)) with
        | Ok st' =>
            match stk st' with
            | y :: s' => go r (with_stk st' s') (acc ++ [y])
            | [] => Reject
            end
        | Reject => Reject
        end
    end.

(* ListType.from_items: the type of the first item, all others must have it; an empty result
   keeps the source list ("res = src") *)
Definition list_from_items (src_ty : ty) (items : list val) : result val :=
  match items with
  | [] => Ok (VList src_ty [])
  | x :: r => if forallb (fun y => ty_eqb (type_of x) (type_of y)) r then Ok (VList (type_of x) items) else Reject
  end.

(* stack.protect(n); pop1; restore(n); push  — and the converse for DUG *)
Fixpoint dig (n : nat) (s : list val) : option (val * list val) :=
  match n, s with
  | O, x :: r => Some (x, r)
  | S k, x :: r => match dig k r with Some (y, r') => Some (y, x :: r') | None => None end
  | _, [] => None
  end.

Fixpoint dug (n : nat) (x : val) (s : list val) : option (list val) :=
  match n, s with
  | O, _ => Some (x :: s)
  | S k, y :: r => match dug k x r with Some r' => Some (y :: r') | None => None end
  | S _, [] => None
  end.

(* finite maps with nat keys, kept sorted by key (MapType.update / BigMapType.update without chain content) *)
Fixpoint map_get (k : Z) (m : list (Z * val)) : option val :=
  match m with
  | [] => None
  | (k', v) :: r => if k =? k' then Some v else map_get k r
  end.
Fixpoint map_remove (k : Z) (m : list (Z * val)) : list (Z * val) :=
  match m with
  | [] => []
  | (k', v) :: r => if k =? k' then map_remove k r else (k', v) :: map_remove k r
  end.
Fixpoint map_insert (k : Z) (v : val) (m : list (Z * val)) : list (Z * val) :=
  match m with
  | [] => [(k, v)]
  | (k', v') :: r => if k <? k' then (k, v) :: (k', v') :: r else (k', v') :: map_insert k v r
  end.
Definition map_put (k : Z) (v : val) (m : list (Z * val)) : list (Z * val) := map_insert k v (map_remove k m).
Definition opt_of (vt : ty) (o : option val) : val := match o with Some v => VSome v | None => VNone vt end.
Definition is_some (o : option val) : bool := match o with Some _ => true | None => false end.

(* ticket contents of the modelled domain *)
Fixpoint content_of (v : val) : option cval :=
  match v with
  | VNat z => Some (CN z)
  | VStr x => Some (CS x)
  | VNone t => match cty_of_ty t with Some c => Some (CNone c) | None => None end
  | VSome x => match content_of x with Some c => Some (CSome c) | None => None end
  | VPair a b => match content_of a, content_of b with Some x, Some y => Some (CPairV x y) | _, _ => None end
  | VLeft x tr => match content_of x, cty_of_ty tr with Some c, Some t => Some (CLeft c t) | _, _ => None end
  | VRight tl x => match cty_of_ty tl, content_of x with Some t, Some c => Some (CRight t c) | _, _ => None end
  | _ => None
  end.

(* [fuel] bounds the nesting of control structures, EXEC depth and LOOP iterations; a sequence runs at constant fuel.
   Running out of fuel gives Reject: every theorem is about runs that end in Ok. *)
Fixpoint step (fuel : nat) (i : instr) (st : state) {struct fuel} : result state :=
  match fuel with
  | O => Reject
  | S f =>
  match i, stk st with
  | TICKET, item :: VNat amount :: s =>
      match content_of item with
      | Some c =>
          if amount >? 0
          then Ok {| self := self st; stk := VSome (VTicket (self st) c amount) :: s;
                     minted := ((self st, c), amount) :: minted st |}
          else Ok (with_stk st (VNone (TTicket (cty_of c)) :: s))
      | None => Reject
      end
  | READ_TICKET, VTicket tk c a :: s =>
      Ok (with_stk st (VPair (VAddr tk) (VPair (val_of_cval c) (VNat a)) :: VTicket tk c a :: s))
  | SPLIT_TICKET, VTicket tk c a :: VPair (VNat l) (VNat r) :: s =>
      match ticket_split tk c a l r with
      | Some (x, y) => Ok (with_stk st (VSome (VPair x y) :: s))
      | None => Ok (with_stk st (VNone (TPair (TTicket (cty_of c)) (TTicket (cty_of c))) :: s))
      end
  | JOIN_TICKETS, VPair (VTicket t1 c1 a1) (VTicket t2 c2 a2) :: s =>
      if cty_eqb (cty_of c1) (cty_of c2)                       (* left.assert_type_equal(type(right)) *)
      then match ticket_join t1 c1 a1 t2 c2 a2 with
           | Some t => Ok (with_stk st (VSome t :: s))
           | None => Ok (with_stk st (VNone (TTicket (cty_of c1)) :: s))
           end
      else Reject
  | DUP, x :: s => if duplicable (type_of x) then Ok (with_stk st (x :: x :: s)) else Reject
  | DUPN n, s =>
      match n with
      | O => Reject
      | S k => match nth_error s k with
               | Some x => if duplicable (type_of x) then Ok (with_stk st (x :: s)) else Reject
               | None => Reject
               end
      end
  | SWAP, a :: b :: s => Ok (with_stk st (b :: a :: s))
  | DROP, _ :: s => Ok (with_stk st s)
  | DIG n, s => match dig n s with Some (x, r) => Ok (with_stk st (x :: r)) | None => Reject end
  | DUG n, x :: s => match dug n x s with Some r => Ok (with_stk st r) | None => Reject end
  | PAIR, a :: b :: s => Ok (with_stk st (VPair a b :: s))
  | UNPAIR, VPair a b :: s => Ok (with_stk st (a :: b :: s))
  | CAR, VPair a _ :: s => Ok (with_stk st (a :: s))
  | CDR, VPair _ b :: s => Ok (with_stk st (b :: s))
  | SOME, x :: s => Ok (with_stk st (VSome x :: s))
  | NONE t, s => Ok (with_stk st (VNone t :: s))
  | IF_NONE bt bf, VNone _ :: s => run_with (step f) bt (with_stk st s)
  | IF_NONE bt bf, VSome x :: s => run_with (step f) bf (with_stk st (x :: s))
  | NIL t, s => Ok (with_stk st (VList t [] :: s))
  | CONS, x :: VList t l :: s =>
      if ty_eqb t (type_of x) then Ok (with_stk st (VList t (x :: l) :: s)) else Reject
  | IF_CONS bt bf, VList t (x :: l) :: s => run_with (step f) bt (with_stk st (x :: VList t l :: s))
  | IF_CONS bt bf, VList t [] :: s => run_with (step f) bf (with_stk st s)
  | ITER body, VList _ l :: s => iter_with (step f) body l (with_stk st s)
  (* IterInstruction has no type assertion and PairType is iterable (its two items): mirrored *)
  | ITER body, VPair a b :: s => iter_with (step f) body [a; b] (with_stk st s)
  | MAP body, VList t l :: s =>
      match map_with (step f) body l (with_stk st s) [] with
      | Ok (st', items) =>
          match list_from_items t items with
          | Ok v => Ok (with_stk st' (v :: stk st'))
          | Reject => Reject
          end
      | Reject => Reject
      end
  | ITER body, VMap false _ m :: s => iter_with (step f) body (map (fun kv => VPair (VNat (fst kv)) (snd kv)) m) (with_stk st s)
  | EMPTY_MAP big vt, s => Ok (with_stk st (VMap big vt [] :: s))
  (* UPDATE / GET_AND_UPDATE: key nat, new value Some v (of the declared value type) or None *)
  | UPDATE, VNat k :: VSome v :: VMap big vt m :: s =>
      if ty_eqb vt (type_of v) then Ok (with_stk st (VMap big vt (map_put k v m) :: s)) else Reject
  | UPDATE, VNat k :: VNone _ :: VMap big vt m :: s => Ok (with_stk st (VMap big vt (map_remove k m) :: s))
  | GET_AND_UPDATE, VNat k :: VSome v :: VMap big vt m :: s =>
      if ty_eqb vt (type_of v)
      then Ok (with_stk st (opt_of vt (map_get k m) :: VMap big vt (map_put k v m) :: s)) else Reject
  | GET_AND_UPDATE, VNat k :: VNone _ :: VMap big vt m :: s =>
      Ok (with_stk st (opt_of vt (map_get k m) :: VMap big vt (map_remove k m) :: s))
  | MEM, VNat k :: VMap _ _ m :: s => Ok (with_stk st (VBool (is_some (map_get k m)) :: s))
  (* MapType.get / BigMapType.get (after fix 797a986): "use GET_AND_UPDATE instead" unless the values are duplicable *)
  | GET, VNat k :: VMap _ vt m :: s =>
      if duplicable vt then Ok (with_stk st (opt_of vt (map_get k m) :: s)) else Reject
  | LEFT t, x :: s => Ok (with_stk st (VLeft x t :: s))
  | RIGHT t, x :: s => Ok (with_stk st (VRight t x :: s))
  | IF_LEFT bt bf, VLeft x _ :: s => run_with (step f) bt (with_stk st (x :: s))
  | IF_LEFT bt bf, VRight _ x :: s => run_with (step f) bf (with_stk st (x :: s))
  | LAMBDA a r body, s => Ok (with_stk st (VLam a r [] body :: s))
  (* APPLY: the lambda's argument type is a pair, the captured value has its left type; the new code is
     { PUSH ty v ; PAIR ; old code } - the PUSH runs (and is_pushable is asserted) at EXEC time *)
  | APPLY, x :: VLam (TPair a1 a2) r caps body :: s =>
      if ty_eqb a1 (type_of x) then Ok (with_stk st (VLam a2 r (caps ++ [x]) body :: s)) else Reject
  | EXEC, x :: VLam a r caps body :: s =>
      if ty_eqb a (type_of x) && forallb (fun c => pushable (type_of c)) caps
      then match run_with (step f) body {| self := self st; stk := [fold_right VPair x caps]; minted := minted st |} with
           | Ok st' =>
               match stk st' with
               | [y] => if ty_eqb r (type_of y) then Ok {| self := self st'; stk := y :: s; minted := minted st' |} else Reject
               | _ => Reject
               end
           | Reject => Reject
           end
      else Reject
  | LOOP body, VBool true :: s =>
      match run_with (step f) body (with_stk st s) with
      | Ok st' => step f (LOOP body) st'
      | Reject => Reject
      end
  | LOOP body, VBool false :: s => Ok (with_stk st s)
  | PUSH_BOOL b, s => Ok (with_stk st (VBool b :: s))
  | PUSH_NAT z, s => if z <? 0 then Reject else Ok (with_stk st (VNat z :: s))
  | PUSH_STR x, s => Ok (with_stk st (VStr x :: s))
  | SELF_IS a, s => Ok {| self := a; stk := s; minted := minted st |}
  | _, _ => Reject
  end
  end.

Definition run (fuel : nat) : list instr -> state -> result state := run_with (step fuel).

(* ---- what the property talks about ---- *)

(* total amount of the tickets with key k inside a value / a stack *)
Definition key_eqb (a b : key) : bool := bytes_eqb (fst a) (fst b) && cval_eqb (snd a) (snd b).

Fixpoint mass (k : key) (v : val) : Z :=
  match v with
  | VTicket tk c a => if key_eqb k (tk, c) then a else 0
  | VPair a b => mass k a + mass k b
  | VSome x | VLeft x _ | VRight _ x => mass k x
  | VList _ l => (fix go (l : list val) : Z := match l with [] => 0 | x :: r => mass k x + go r end) l
  | VMap _ _ m => (fix go (m : list (Z * val)) : Z := match m with [] => 0 | (_, x) :: r => mass k x + go r end) m
  | _ => 0
  end.

Fixpoint stack_mass (k : key) (s : list val) : Z :=
  match s with [] => 0 | x :: r => mass k x + stack_mass k r end.

Fixpoint ledger_sum (k : key) (l : list (key * Z)) : Z :=
  match l with
  | [] => 0
  | (k', a) :: r => (if key_eqb k k' then a else 0) + ledger_sum k r
  end.

(* every ticket inside the value has a positive amount *)
Fixpoint tickets_pos (v : val) : bool :=
  match v with
  | VTicket _ _ a => 0 <? a
  | VPair a b => tickets_pos a && tickets_pos b
  | VSome x | VLeft x _ | VRight _ x => tickets_pos x
  | VList _ l => (fix go (l : list val) : bool := match l with [] => true | x :: r => tickets_pos x && go r end) l
  | VMap _ _ m => (fix go (m : list (Z * val)) : bool := match m with [] => true | (_, x) :: r => tickets_pos x && go r end) m
  | _ => true
  end.

Definition stack_pos (s : list val) : bool := forallb tickets_pos s.

Fixpoint has_ticket_instr (i : instr) : bool :=
  match i with
  | TICKET => true
  | IF_NONE a b | IF_CONS a b | IF_LEFT a b =>
      (fix go (l : list instr) : bool := match l with [] => false | x :: r => has_ticket_instr x || go r end) a ||
      (fix go (l : list instr) : bool := match l with [] => false | x :: r => has_ticket_instr x || go r end) b
  | EXEC => true       (* the code of a closure is not inspected: conservatively "may mint" *)
  | ITER a | MAP a | LOOP a | LAMBDA _ _ a =>
      (fix go (l : list instr) : bool := match l with [] => false | x :: r => has_ticket_instr x || go r end) a
  | _ => false
  end.

Definition prog_has_ticket (p : list instr) : bool := existsb has_ticket_instr p.

(* ---- observation for the correspondence check: (self, stack) or Reject ---- *)
Definition init (a : bytes) : state := {| self := a; stk := []; minted := [] |}.

Definition observe (r : result state) : result (list val) :=
  match r with Ok st => Ok (stk st) | Reject => Reject end.

Definition FUEL : nat := 400.
Definition exec_from (a : bytes) (p : list instr) : result (list val) := observe (run FUEL p (init a)).

Definition stack_eqb : list val -> list val -> bool := list_eqb val_eqb.
Definition obs_eqb : result (list val) -> result (list val) -> bool := result_eqb stack_eqb.
