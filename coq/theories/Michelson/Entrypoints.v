(* Michelson/Entrypoints.v — model of entrypoint resolution in
     src/pytezos/michelson/sections/parameter.py  (ParameterSection.create_type / list_entrypoints /
                                                   from_parameters / to_parameters)
     src/pytezos/michelson/types/sum.py           (OrType.iter_type_args, from_micheline_value, to_micheline_value)
     src/pytezos/michelson/types/adt.py           (get_type_layout with entrypoints=True, wrap_parameters)

   A parameter type is a tree of [or] nodes; everything that is not an [or] reached through [or]s only
   is a leaf.  A leaf is described by an opaque descriptor [L] and its values by an opaque payload [P];
   the leaf codec ([leaf_dec] = from_micheline_value, [leaf_enc] = to_micheline_value) is a parameter of
   the model (Section variables), so the theorems hold for every leaf type and every leaf codec.
   Only the field annotation ("%name") of a node matters here; type annotations (":name") are ignored by
   the code paths modelled (get_type_layout(entrypoints=True) never looks at type_name).

   No proofs in this file. *)
From Coq Require Import List ZArith NArith Bool.
From Coq.Strings Require Import Byte String.
From PV Require Import Base.Bytes Base.Result Codec.Micheline.
Import ListNotations.
Local Open Scope list_scope.

Definition name := bytes.
(* binary path below the root: false = '0' (Left), true = '1' (Right) *)
Definition path := list bool.

Definition n_default : name := Eval cbv in tx "default".
Definition n_root : name := Eval cbv in tx "root".

(* Micheline primitive tags used by the value syntax (compared with pytezos.michelson.tags on every run) *)
Definition tag_Left : byte := x05.
Definition tag_Right : byte := x08.
Definition tag_Unit : byte := x0b.

Fixpoint mem_name (k : name) (l : list name) : bool :=
  match l with [] => false | x :: r => bytes_eqb k x || mem_name k r end.

Fixpoint nodup_names (l : list name) : bool :=
  match l with [] => true | x :: r => negb (mem_name x r) && nodup_names r end.

Definition path_eqb : path -> path -> bool := list_eqb Bool.eqb.

Section Model.
  Variable L : Type.                       (* description of a leaf (non-union) type *)
  Variable P : Type.                       (* decoded value of a leaf *)
  Variable leaf_dec : L -> node -> result P.   (* <leaf type>.from_micheline_value *)
  Variable leaf_enc : L -> P -> node.          (* <leaf value>.to_micheline_value(mode) *)

  (* [fn] is the field annotation of the node: None = no "%…" annotation, Some s = "%s"
     (Some [] is the bare "%", which Python treats as falsy wherever it tests `if field_name`) *)
  Inductive uty : Type :=
  | ULeaf (fn : option name) (lf : L)
  | UOr (fn : option name) (l r : uty).

  Inductive uval : Type :=
  | VLeaf (p : P)
  | VL (v : uval)
  | VR (v : uval).

  Definition fname (t : uty) : option name :=
    match t with ULeaf fn _ => fn | UOr fn _ _ => fn end.

  (* the entrypoint name carried by a node: `arg.field_name` when truthy *)
  Definition ename (t : uty) : option name :=
    match fname t with Some (c :: s) => Some (c :: s) | _ => None end.

  (* MichelsonType.get_anon_type: same type without its own annotations *)
  Definition anon (t : uty) : uty :=
    match t with ULeaf _ lf => ULeaf None lf | UOr _ l r => UOr None l r end.

  (* ---- values <-> Micheline (OrType.from_micheline_value / to_micheline_value) ------------------ *)

  Fixpoint dec (t : uty) (n : node) : result uval :=
    match t with
    | ULeaf _ lf => let* p := leaf_dec lf n in Ok (VLeaf p)
    | UOr _ l r =>
        match n with
        | NPrim tag [x] _ =>          (* annotations on value nodes are ignored by parse_micheline_value *)
            if byte_eqb tag tag_Left then let* v := dec l x in Ok (VL v)
            else if byte_eqb tag tag_Right then let* v := dec r x in Ok (VR v)
            else Reject
        | _ => Reject
        end
    end.

  (* Reject: a value object that does not fit its class (cannot be produced by [dec]) *)
  Fixpoint enc (t : uty) (v : uval) : result node :=
    match t, v with
    | ULeaf _ lf, VLeaf p => Ok (leaf_enc lf p)
    | UOr _ l _, VL x => let* n := enc l x in Ok (NPrim tag_Left [n] [])
    | UOr _ _ r, VR x => let* n := enc r x in Ok (NPrim tag_Right [n] [])
    | _, _ => Reject
    end.

  (* adt.wrap_parameters *)
  Fixpoint wrap (n : node) (p : path) : node :=
    match p with
    | [] => n
    | false :: q => NPrim tag_Left [wrap n q] []
    | true :: q => NPrim tag_Right [wrap n q] []
    end.

  (* ---- OrType.iter_type_args(entrypoints=True) ---------------------------------------------------- *)

  (* what the generator yields for the node [t] sitting at path [p]: the node itself when it is named,
     then (for a union) whatever its two arguments yield *)
  Fixpoint iter_node (p : path) (t : uty) : list (path * uty) :=
    (match ename t with Some _ => [(p, t)] | None => [] end) ++
    match t with
    | UOr _ l r => iter_node (p ++ [false]) l ++ iter_node (p ++ [true]) r
    | ULeaf _ _ => []
    end.

  Definition iter_type_args (t : uty) : list (path * uty) :=
    match t with
    | UOr _ l r => iter_node [false] l ++ iter_node [true] r
    | ULeaf _ _ => []
    end.

  (* ---- adt.get_type_layout(flat_args, entrypoints=True): path_to_key ------------------------------ *)
  (* A repeated key (or an argument without key) hits `assert entrypoints is False`. *)
  Fixpoint layout_ep (reserved : list name) (args : list (path * uty)) : result (list (path * name)) :=
    match args with
    | [] => Ok []
    | (p, t) :: rest =>
        match fname t with
        | Some k =>
            if mem_name k reserved then Reject
            else let* r := layout_ep (k :: reserved) rest in Ok ((p, k) :: r)
        | None => Reject
        end
    end.

  Definition layout (t : uty) : result (list (path * name)) := layout_ep [] (iter_type_args t).

  Fixpoint key_of_path (p : path) (l : list (path * name)) : option name :=
    match l with
    | [] => None
    | (q, k) :: r => if path_eqb p q then Some k else key_of_path p r
    end.

  Fixpoint path_of_key (k : name) (l : list (path * name)) : option path :=
    match l with
    | [] => None
    | (q, k') :: r => if bytes_eqb k k' then Some q else path_of_key k r
    end.

  (* ---- ParameterSection.create_type: the root name (Reject = the type is refused by match()) ------- *)
  Definition root_name (t : uty) : result name :=
    match t with
    | UOr _ _ _ =>
        match ename t with
        | Some k => Ok k
        | None =>
            let* l := layout t in
            Ok (if mem_name n_default (map snd l) then n_root else n_default)
        end
    | ULeaf _ _ => Ok (match ename t with Some k => k | None => n_default end)
    end.

  (* ---- ParameterSection.list_entrypoints ---------------------------------------------------------- *)
  (* Python dict assignment: replace in place when the key exists, else append *)
  Fixpoint dict_set {V} (d : list (name * V)) (k : name) (v : V) : list (name * V) :=
    match d with
    | [] => [(k, v)]
    | (k', v') :: r => if bytes_eqb k k' then (k, v) :: r else (k', v') :: dict_set r k v
    end.

  Definition list_entrypoints (t : uty) : result (list (name * uty)) :=
    let* rn := root_name t in
    let* branches :=
      match t with
      | UOr _ _ _ =>
          let* l := layout t in     (* names are distinct here, so the dict comprehension is this list *)
          Ok (map (fun pa => (match key_of_path (fst pa) l with Some k => k | None => [] end, anon (snd pa)))
                  (iter_type_args t))
      | ULeaf _ _ => Ok []
      end in
    Ok (dict_set branches rn t).

  (* ---- ParameterSection.from_parameters ----------------------------------------------------------- *)
  Definition from_parameters (t : uty) (e : name) (n : node) : result uval :=
    let* rn := root_name t in
    if bytes_eqb e rn then dec t n
    else
      match t with
      | UOr _ _ _ =>
          let* l := layout t in
          match path_of_key e l with
          | Some p => dec t (wrap n p)
          | None => Reject
          end
      | ULeaf _ _ => Reject
      end.

  (* from_parameters({}) *)
  Definition from_parameters_empty (t : uty) : result uval :=
    from_parameters t n_default (NPrim tag_Unit [] []).

  (* ---- ParameterSection.to_parameters ------------------------------------------------------------- *)
  (* the while loop: [p] is the path walked so far, [cur] the deepest named node met so far *)
  Fixpoint deepest (l : list (path * name)) (p : path) (t : uty) (v : uval) (cur : name * (uty * uval))
    : name * (uty * uval) :=
    match t, v with
    | UOr _ tl _, VL x =>
        let p' := p ++ [false] in
        deepest l p' tl x (match key_of_path p' l with Some k => (k, (tl, x)) | None => cur end)
    | UOr _ _ tr, VR x =>
        let p' := p ++ [true] in
        deepest l p' tr x (match key_of_path p' l with Some k => (k, (tr, x)) | None => cur end)
    | _, _ => cur
    end.

  Definition to_parameters (t : uty) (v : uval) : result (name * node) :=
    let* rn := root_name t in
    let* ei :=
      match t with
      | UOr _ _ _ => let* l := layout t in Ok (deepest l [] t v (rn, (t, v)))
      | ULeaf _ _ => Ok (rn, (t, v))
      end in
    let* n := enc (fst (snd ei)) (snd (snd ei)) in
    Ok (fst ei, n).

  (* ---- what the harness observes ------------------------------------------------------------------- *)
  Definition from_parameters_node (t : uty) (e : name) (n : node) : result node :=
    let* v := from_parameters t e n in enc t v.

  Definition to_parameters_node (t : uty) (n : node) : result (name * node) :=
    let* _ := root_name t in       (* ParameterSection.match must have succeeded *)
    let* v := dec t n in to_parameters t v.

  (* ---- specification: Tezos entrypoint rules -------------------------------------------------------- *)
  (* [reach t q s]: following [q] from [t] through union nodes only arrives at the node [s] *)
  Inductive reach : uty -> path -> uty -> Prop :=
  | reach_here t : reach t [] t
  | reach_left fn l r q s : reach l q s -> reach (UOr fn l r) (false :: q) s
  | reach_right fn l r q s : reach r q s -> reach (UOr fn l r) (true :: q) s.

  (* an annotated union branch: a named node strictly below the root *)
  Definition branch (t : uty) (q : path) (s : uty) (k : name) : Prop :=
    q <> [] /\ reach t q s /\ ename s = Some k.

  (* the name under which the whole parameter is addressed: its own field annotation; otherwise
     "default", unless a branch already bears that name (then pytezos calls it "root") *)
  Definition spec_root_name (t : uty) (rn : name) : Prop :=
    match ename t with
    | Some k => rn = k
    | None =>
        ((exists q s, branch t q s n_default) /\ rn = n_root) \/
        (~ (exists q s, branch t q s n_default) /\ rn = n_default)
    end.

  (* the same walk on a value: [vreach t v q s sv] — the variant actually taken by [v] passes through the
     node [s] at path [q], where it carries [sv] *)
  Inductive vreach : uty -> uval -> path -> uty -> uval -> Prop :=
  | vreach_here t v : vreach t v [] t v
  | vreach_left fn l r x q s sv : vreach l x q s sv -> vreach (UOr fn l r) (VL x) (false :: q) s sv
  | vreach_right fn l r x q s sv : vreach r x q s sv -> vreach (UOr fn l r) (VR x) (true :: q) s sv.

  (* a value object of the class [t] whose leaf payload survives the leaf codec (that the leaf codec
     round-trips is property C11's business; here it is a hypothesis about the one leaf involved) *)
  Fixpoint shape (t : uty) (v : uval) : Prop :=
    match t, v with
    | ULeaf _ lf, VLeaf p => leaf_dec lf (leaf_enc lf p) = Ok p
    | UOr _ l _, VL x => shape l x
    | UOr _ _ r, VR x => shape r x
    | _, _ => False
    end.

  (* ---- decidable classes ---------------------------------------------------------------------------- *)
  Definition branch_names (t : uty) : list name :=
    flat_map (fun pa => match ename (snd pa) with Some k => [k] | None => [] end) (iter_type_args t).

  (* Tezos well-formedness (Script_ir_translator.well_formed_entrypoints): the entrypoint names of the
     union tree, the root's own annotation included, are pairwise distinct *)
  Definition wf_b (t : uty) : bool :=
    nodup_names ((match ename t with Some k => [k] | None => [] end) ++ branch_names t).

  (* known finding "root-name-collision": the root has no annotation of its own and both a %default and
     a %root branch exist, so the generated root name "root" shadows the %root branch *)
  Definition collide_b (t : uty) : bool :=
    match ename t with
    | Some _ => false
    | None => mem_name n_default (branch_names t) && mem_name n_root (branch_names t)
    end.

  (* ---- boolean equalities for the harness ----------------------------------------------------------- *)
  Variable L_eqb : L -> L -> bool.

  Fixpoint uty_eqb (a b : uty) : bool :=
    match a, b with
    | ULeaf f1 l1, ULeaf f2 l2 => option_eqb bytes_eqb f1 f2 && L_eqb l1 l2
    | UOr f1 a1 b1, UOr f2 a2 b2 => option_eqb bytes_eqb f1 f2 && uty_eqb a1 a2 && uty_eqb b1 b2
    | _, _ => false
    end.

  (* a dict has no observable order: compare as sets of items (keys of a dict are distinct) *)
  Definition entry_eqb (a b : name * uty) : bool := bytes_eqb (fst a) (fst b) && uty_eqb (snd a) (snd b).
  Definition entries_eqb (a b : list (name * uty)) : bool :=
    Nat.eqb (List.length a) (List.length b) &&
    forallb (fun x => existsb (entry_eqb x) b) a && forallb (fun y => existsb (entry_eqb y) a) b.

  Inductive query :=
  | QRoot                       (* ParameterSection.match(t).root_name *)
  | QList                       (* list_entrypoints() *)
  | QTo (n : node)              (* from_micheline_value(n).to_parameters() *)
  | QFrom (e : name) (n : node) (* from_parameters({entrypoint, value}).to_micheline_value() *)
  | QEmpty.                     (* from_parameters({}).to_micheline_value() *)

  Inductive answer :=
  | ARoot (r : result name)
  | AList (r : result (list (name * uty)))
  | ATo (r : result (name * node))
  | AFrom (r : result node).

  Definition run_query (t : uty) (q : query) : answer :=
    match q with
    | QRoot => ARoot (root_name t)
    | QList => AList (list_entrypoints t)
    | QTo n => ATo (to_parameters_node t n)
    | QFrom e n => AFrom (from_parameters_node t e n)
    | QEmpty => AFrom (let* v := from_parameters_empty t in enc t v)
    end.

  Definition answer_eqb (a b : answer) : bool :=
    match a, b with
    | ARoot x, ARoot y => result_eqb bytes_eqb x y
    | AList x, AList y => result_eqb entries_eqb x y
    | ATo x, ATo y => result_eqb (prod_eqb bytes_eqb node_eqb) x y
    | AFrom x, AFrom y => result_eqb node_eqb x y
    | _, _ => false
    end.
End Model.

Arguments ULeaf {L} fn lf.
Arguments UOr {L} fn l r.
Arguments VLeaf {P} p.
Arguments VL {P} v.
Arguments VR {P} v.

(* ---- a concrete leaf codec for the correspondence run (and for the non-vacuity examples) --------------
   Leaf types drawn by the harness; payloads are Micheline in the canonical readable form that
   to_micheline_value produces (binary Pair whose right component is not a pair, no annotations), on
   which from_micheline_value followed by to_micheline_value is the identity. *)
Inductive sty :=
| SNat | SInt | SStr | SByt | SUnit | SBool
| SPair (a b : sty)
| SOpt (a : sty)
| SOrIn (a b : sty)     (* an `or` that is not reached through unions only (below pair/option/list) *)
| SList (a : sty).

Definition tag_Pair : byte := x07.
Definition tag_Some : byte := x09.
Definition tag_None : byte := x06.
Definition tag_True : byte := x0a.
Definition tag_False : byte := x03.

Fixpoint sty_ok (s : sty) (n : node) {struct s} : bool :=
  match s, n with
  | SNat, NInt z => (0 <=? z)%Z
  | SInt, NInt _ => true
  | SStr, NStr _ => true
  | SByt, NByt _ => true
  | SUnit, NPrim tag [] _ => byte_eqb tag tag_Unit
  | SBool, NPrim tag [] _ => byte_eqb tag tag_True || byte_eqb tag tag_False
  | SPair a b, NPrim tag [x; y] _ => byte_eqb tag tag_Pair && sty_ok a x && sty_ok b y
  | SOpt a, NPrim tag [] _ => byte_eqb tag tag_None
  | SOpt a, NPrim tag [x] _ => byte_eqb tag tag_Some && sty_ok a x
  | SOrIn a b, NPrim tag [x] _ =>
      (byte_eqb tag tag_Left && sty_ok a x) || (byte_eqb tag tag_Right && sty_ok b x)
  | SList a, NSeq items => forallb (sty_ok a) items
  | _, _ => false
  end.

Definition std_dec (s : sty) (n : node) : result node := if sty_ok s n then Ok n else Reject.
Definition std_enc (s : sty) (n : node) : node := n.

Fixpoint sty_eqb (a b : sty) : bool :=
  match a, b with
  | SNat, SNat | SInt, SInt | SStr, SStr | SByt, SByt | SUnit, SUnit | SBool, SBool => true
  | SPair a1 b1, SPair a2 b2 => sty_eqb a1 a2 && sty_eqb b1 b2
  | SOpt a1, SOpt a2 => sty_eqb a1 a2
  | SOrIn a1 b1, SOrIn a2 b2 => sty_eqb a1 a2 && sty_eqb b1 b2
  | SList a1, SList a2 => sty_eqb a1 a2
  | _, _ => false
  end.

Definition std_run (t : uty sty) (q : query) : answer sty :=
  run_query sty node std_dec std_enc t q.
Definition std_answer_eqb : answer sty -> answer sty -> bool := answer_eqb sty sty_eqb.
