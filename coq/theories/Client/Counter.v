(* Client/Counter.v — the counter bookkeeping of pytezos as a state machine (C25).

   Mirrors
     src/pytezos/context/impl.py   ExecutionContext.get_counter / set_counter / reset / get_counter_offset
     src/pytezos/operation/group.py OperationGroup.fill / autofill / sign / inject
   against a simulated node (account counter [nc], number of the account's operations pending in the
   mempool [pend]).

   Client state.  Every root group made by the client (client.transaction(..), client.operation_group(),
   client.bulk(..)) gets its own ExecutionContext; groups derived from it (.transaction(..), .fill(),
   .autofill(), .sign()) share it.  Such a family is a *lineage* [l : nat]; its context caches the last
   counter handed out ([caches], absent = None).

     get_counter():   if cache is None: cache := node counter;  cache += 1;  return cache
     fill()           of an n-content group: n calls of get_counter (mempool NOT consulted)
     autofill()       fill(); run_operation (may fail -> exception, the cache stays advanced);
                      offset := number of the account's contents in the mempool; counters += offset
     inject()         context.reset() (cache := None) FIRST, then POST /injection/operation (may fail)

   Definitions only. *)
From Coq Require Import List NArith Bool Arith.
Import ListNotations.
Local Open Scope N_scope.

Record grp := { g_lin : nat; g_start : N; g_len : N }.          (* counters g_start .. g_start+g_len-1 *)

(* one injection attempt: what the payload carried, what the node expected at that moment *)
Record inj := { i_start : N; i_len : N; i_expect : N; i_ok : bool }.

Record state := {
  nc : N;                         (* account counter on the node (last included operation) *)
  pend : N;                       (* account's contents pending in the mempool *)
  caches : list (nat * N);        (* lineage -> cached counter; first binding wins; absent = None *)
  groups : list grp;              (* filled groups, in creation order (index = group id) *)
  log : list inj                  (* injection attempts, most recent first *)
}.

Inductive call :=
| Fill (l : nat) (n : N)                     (* .fill() of an unfilled n-content group of lineage l *)
| FillAt (l : nat) (n : N) (c : N)           (* .fill(counter=c): set_counter(c - 1), then n x get_counter();
                                                send_async(counter=c, ..) = FillAt; Sign; Inject *)
| Autofill (l : nat) (n : N) (sim_ok : bool) (* .autofill(); sim_ok = run_operation reports "applied" *)
| Sign (g : nat)                             (* .sign() of filled group g *)
| Inject (g : nat) (ok : bool)               (* .inject() of filled group g; ok = node accepts *)
| Bake.                                      (* environment: pending operations get included *)

Inductive obs :=
| ONone
| ORejected                                  (* the client call raised before touching anything *)
| OFilled (start n : N)
| OSimFailed
| OInjected (start n : N) (ok : bool).

Fixpoint lookup (l : nat) (cs : list (nat * N)) : option N :=
  match cs with
  | [] => None
  | (k, v) :: r => if Nat.eqb k l then Some v else lookup l r
  end.

Definition clear (l : nat) (cs : list (nat * N)) : list (nat * N) :=
  filter (fun kv => negb (Nat.eqb (fst kv) l)) cs.

Definition update (l : nat) (v : N) (cs : list (nat * N)) : list (nat * N) := (l, v) :: clear l cs.

(* the value the first get_counter() of a fill returns, minus one *)
Definition base (s : state) (l : nat) : N :=
  match lookup l (caches s) with Some c => c | None => nc s end.

Definition with_cache (s : state) (cs : list (nat * N)) : state :=
  {| nc := nc s; pend := pend s; caches := cs; groups := groups s; log := log s |}.

Definition add_group (s : state) (g : grp) : state :=
  {| nc := nc s; pend := pend s; caches := caches s; groups := groups s ++ [g]; log := log s |}.

Definition step (s : state) (c : call) : state * obs :=
  match c with
  | Fill l n =>
      if n =? 0 then (s, ORejected)            (* ZeroDivisionError on an empty group *)
      else
        let b := base s l in
        let s1 := with_cache s (update l (b + n) (caches s)) in
        (add_group s1 {| g_lin := l; g_start := b + 1; g_len := n |}, OFilled (b + 1) n)
  | FillAt l n c =>
      if n =? 0 then (s, ORejected)
      else
        let s1 := with_cache s (update l (c - 1 + n) (caches s)) in
        (add_group s1 {| g_lin := l; g_start := c - 1 + 1; g_len := n |}, OFilled (c - 1 + 1) n)
  | Autofill l n sim_ok =>
      if n =? 0 then (s, ORejected)
      else
        let b := base s l in
        let s1 := with_cache s (update l (b + n) (caches s)) in
        if sim_ok then
          (add_group s1 {| g_lin := l; g_start := b + 1 + pend s; g_len := n |}, OFilled (b + 1 + pend s) n)
        else (s1, OSimFailed)
  | Sign g => (s, match nth_error (groups s) g with Some _ => ONone | None => ORejected end)
  | Inject g ok =>
      match nth_error (groups s) g with
      | None => (s, ORejected)
      | Some gr =>
          let e := {| i_start := g_start gr; i_len := g_len gr; i_expect := nc s + pend s + 1; i_ok := ok |} in
          ({| nc := nc s; pend := if ok then pend s + g_len gr else pend s;
              caches := clear (g_lin gr) (caches s); groups := groups s; log := e :: log s |},
           OInjected (g_start gr) (g_len gr) ok)
      end
  | Bake =>
      ({| nc := nc s + pend s; pend := 0; caches := caches s; groups := groups s; log := log s |}, ONone)
  end.

Fixpoint run_from (s : state) (h : list call) : state * list obs :=
  match h with
  | [] => (s, [])
  | c :: r => let '(s1, o) := step s c in
              let '(s2, os) := run_from s1 r in (s2, o :: os)
  end.

Definition init (nc0 pend0 : N) : state :=
  {| nc := nc0; pend := pend0; caches := []; groups := []; log := [] |}.

Definition run (nc0 pend0 : N) (h : list call) : state := fst (run_from (init nc0 pend0) h).
Definition run_obs (nc0 pend0 : N) (h : list call) : list obs := snd (run_from (init nc0 pend0) h).

(* ---------------------------------------------------------------- the property *)

(* an injected (accepted) group carries the counters the node expects next *)
Definition inj_right (e : inj) : Prop := i_ok e = true -> i_start e = i_expect e.
Definition inj_rightb (e : inj) : bool := negb (i_ok e) || (i_start e =? i_expect e).
Definition all_right (s : state) : bool := forallb inj_rightb (log s).

(* ---------------------------------------------------------------- well-behaved histories
   (the complement of the known-finding classes and of stale groups), tracked by a ghost state that
   is computed from the calls alone, except for "the mempool is empty at a fill()" which is the
   environment's state:
     dirty  : lineages with a fill/autofill since their last inject()
     stamps : per group, the number of accepted injections when it was filled
     ninj   : accepted injections so far *)
Record ghost := { dirty : list nat; stamps : list N; ninj : N }.

Definition memb (l : nat) (d : list nat) : bool := existsb (Nat.eqb l) d.
Definition remove_lin (l : nat) (d : list nat) : list nat := filter (fun k => negb (Nat.eqb k l)) d.

Definition wb_call (s : state) (gh : ghost) (c : call) : bool :=
  match c with
  | Fill l n => negb (n =? 0) && negb (memb l (dirty gh)) && (pend s =? 0)
  | Autofill l n _ => negb (n =? 0) && negb (memb l (dirty gh))
  | FillAt l n c => negb (n =? 0) && (c =? nc s + pend s + 1)      (* the caller chose the right counter *)
  | Sign _ => true
  | Inject g _ => match nth_error (stamps gh) g with Some st => st =? ninj gh | None => false end
  | Bake => true
  end.

Definition ghost_step (s : state) (gh : ghost) (c : call) : ghost :=
  match c with
  | Fill l n =>
      if n =? 0 then gh
      else {| dirty := l :: dirty gh; stamps := stamps gh ++ [ninj gh]; ninj := ninj gh |}
  | FillAt l n _ =>
      if n =? 0 then gh
      else {| dirty := l :: dirty gh; stamps := stamps gh ++ [ninj gh]; ninj := ninj gh |}
  | Autofill l n sim_ok =>
      if n =? 0 then gh
      else {| dirty := l :: dirty gh; stamps := if sim_ok then stamps gh ++ [ninj gh] else stamps gh; ninj := ninj gh |}
  | Inject g ok =>
      match nth_error (groups s) g with
      | None => gh
      | Some gr => {| dirty := remove_lin (g_lin gr) (dirty gh); stamps := stamps gh;
                      ninj := if ok then ninj gh + 1 else ninj gh |}
      end
  | _ => gh
  end.

Fixpoint wb_from (s : state) (gh : ghost) (h : list call) : bool :=
  match h with
  | [] => true
  | c :: r => wb_call s gh c && wb_from (fst (step s c)) (ghost_step s gh c) r
  end.

Definition ghost0 : ghost := {| dirty := []; stamps := []; ninj := 0 |}.
Definition well_behaved (nc0 pend0 : N) (h : list call) : bool := wb_from (init nc0 pend0) ghost0 h.

(* ---------------------------------------------------------------- equality for the harness *)
Definition obs_eqb (a b : obs) : bool :=
  match a, b with
  | ONone, ONone => true
  | ORejected, ORejected => true
  | OFilled s1 n1, OFilled s2 n2 => (s1 =? s2) && (n1 =? n2)
  | OSimFailed, OSimFailed => true
  | OInjected s1 n1 k1, OInjected s2 n2 k2 => (s1 =? s2) && (n1 =? n2) && Bool.eqb k1 k2
  | _, _ => false
  end.

Fixpoint obs_list_eqb (a b : list obs) : bool :=
  match a, b with
  | [], [] => true
  | x :: a', y :: b' => obs_eqb x y && obs_list_eqb a' b'
  | _, _ => false
  end.

(* what the harness compares: observations, property verdict, well-behavedness *)
Definition report (x : N * N * list call) : list obs * bool * bool :=
  let '(nc0, pend0, h) := x in
  (run_obs nc0 pend0 h, all_right (run nc0 pend0 h), well_behaved nc0 pend0 h).

Definition report_eqb (a b : list obs * bool * bool) : bool :=
  let '(o1, r1, w1) := a in let '(o2, r2, w2) := b in
  obs_list_eqb o1 o2 && Bool.eqb r1 r2 && Bool.eqb w1 w2.
