(* Client/Fees.v — model of the fee selection of pytezos
     src/pytezos/operation/fees.py   calculate_fee, default_fee, default_gas_limit, default_storage_limit
     src/pytezos/operation/group.py  OperationGroup.fill (fee on content 0 only), OperationGroup.autofill
     src/pytezos/operation/result.py OperationResult.consumed_gas / paid_storage_size_diff / burned
   and of the node's default mempool minimum (the spec):
     min_fee = 100 mutez + 1 mutez per byte of the signed operation + 0.1 mutez per gas unit, rounded up.

   A manager content is abstracted to what decides its fee: kind, "destination starts with KT",
   the four zarith fields fee/counter/gas_limit/storage_limit, and [rest] = number of the other
   bytes of its forged form (tag, source, kind-specific payload).  Its forged size is
   [rest + zlen fee + zlen counter + zlen gas_limit + zlen storage_limit] where [zlen] is the byte
   length of the zarith (LEB128) natural.  (Proofs/Fees_proofs.v shows [zlen n = length (enc_nat n)],
   and Proofs/Ops_proofs.v that the size of an [Ops.enc_content] has this form.)

   Definitions only. *)
From Coq Require Import List NArith Bool.
Import ListNotations.
Local Open Scope N_scope.

(* ---------------------------------------------------------------- constants (fees.py, operation/__init__.py);
   compared with /repo on every run *)
Definition MINIMAL_FEES : N := 100.
Definition MINIMAL_MUTEZ_PER_BYTE : N := 1.
Definition MINIMAL_NANOTEZ_PER_GAS_UNIT : N := 100.     (* int(MINIMAL_MUTEZ_PER_GAS_UNIT * 1000) *)
Definition DEFAULT_RESERVE : N := 10.                   (* calculate_fee(reserve=10) *)
Definition DEFAULT_HARD_GAS : N := 1040000.             (* DEFAULT_CONSTANTS *)
Definition DEFAULT_HARD_STORAGE : N := 60000.
Definition DEFAULT_TRANSACTION_GAS_LIMIT : N := 3040.
Definition DEFAULT_TRANSACTION_STORAGE_LIMIT : N := 257.
Definition DEFAULT_GAS_RESERVE : N := 100.
Definition DEFAULT_BURN_RESERVE : N := 100.
Definition FILL_EXTRA_SIZE : N := 32 + 64 + 3 * 3.      (* default_fee: branch, signature, +3 bytes for each of fee/gas/storage *)
Definition AUTOFILL_EXTRA_SIZE : N := 32 + 64.          (* autofill: branch and signature *)
Definition ALLOCATION_BURN : N := 257.                  (* OperationResult.burned *)

Inductive curve := Ed | Sp | P2 | BL.                   (* tz1 tz2 tz3 tz4 *)

Inductive mkind :=
| KReveal | KTransaction | KOrigination | KDelegation | KRegisterGlobalConstant
| KTransferTicket | KSrAddMessages | KSrExecuteOutbox.

Record mcontent := {
  mk : mkind;
  to_kt : bool;             (* content.get('destination', '').startswith('KT') *)
  fee : N; counter : N; gas_limit : N; storage_limit : N;
  rest : N                  (* forged bytes other than the four zarith fields *)
}.

Definition set_fee (c : mcontent) (v : N) : mcontent :=
  {| mk := mk c; to_kt := to_kt c; fee := v; counter := counter c; gas_limit := gas_limit c;
     storage_limit := storage_limit c; rest := rest c |}.
Definition set_counter (c : mcontent) (v : N) : mcontent :=
  {| mk := mk c; to_kt := to_kt c; fee := fee c; counter := v; gas_limit := gas_limit c;
     storage_limit := storage_limit c; rest := rest c |}.
Definition set_limits (c : mcontent) (g s : N) : mcontent :=
  {| mk := mk c; to_kt := to_kt c; fee := fee c; counter := counter c; gas_limit := g;
     storage_limit := s; rest := rest c |}.

(* byte length of forge_nat n *)
Definition zlen (n : N) : N := if n =? 0 then 1 else N.log2 n / 7 + 1.

(* len(forge_operation(content)) *)
Definition size (c : mcontent) : N :=
  rest c + zlen (fee c) + zlen (counter c) + zlen (gas_limit c) + zlen (storage_limit c).

(* signature bytes appended by binary_payload: 64, BLS 96 *)
Definition sig_len (cv : curve) : N := match cv with BL => 96 | _ => 64 end.

(* ---------------------------------------------------------------- fees.py *)

Definition default_gas_limit (cv : curve) (hard_gas : N) (c : mcontent) : N :=
  match mk c with
  | KReveal => match cv with Ed => 176 | Sp => 162 | P2 => 1101 | BL => 1681 end
  | KDelegation => 1000
  | KTransaction => if to_kt c then hard_gas else DEFAULT_TRANSACTION_GAS_LIMIT
  | _ => hard_gas
  end.

Definition default_storage_limit (hard_storage : N) (c : mcontent) : N :=
  match mk c with
  | KReveal => 0
  | KDelegation => 0
  | KTransaction => if to_kt c then hard_storage else DEFAULT_TRANSACTION_STORAGE_LIMIT
  | _ => hard_storage
  end.

(* calculate_fee(content, consumed_gas, extra_size, reserve, minimal_nanotez_per_gas_unit):
   int(nanotez * gas / 1000) is a truncated float division; it equals the integer quotient as
   long as nanotez * gas < 2^53 (the harness stays far below) *)
Definition calculate_fee (c : mcontent) (consumed_gas extra_size reserve nanotez : N) : N :=
  MINIMAL_FEES + MINIMAL_MUTEZ_PER_BYTE * (size c + extra_size) + nanotez * consumed_gas / 1000 + reserve.

(* default_fee(content) with gas_limit=None, minimal_nanotez_per_gas_unit=None: the gas figure is the
   kind's default under the *built-in* constants, not the node's *)
Definition default_fee (cv : curve) (c : mcontent) : N :=
  calculate_fee c (default_gas_limit cv DEFAULT_HARD_GAS c) FILL_EXTRA_SIZE DEFAULT_RESERVE
                MINIMAL_NANOTEZ_PER_GAS_UNIT.

(* ---------------------------------------------------------------- OperationGroup.fill
   (counter=None, gas_limit=None, storage_limit=None, minimal_nanotez_per_gas_unit=None)
   A field is replaced iff it is still "0".  replace_map order: counter, gas_limit, storage_limit, fee —
   so the fee of content 0 is computed on the content whose other three fields are already final. *)

Definition nlen {A} (l : list A) : N := N.of_nat (length l).

Definition fill_content (cv : curve) (hard_gas hard_storage n : N) (first : bool) (ctr : N) (c : mcontent) : mcontent :=
  let c1 := if counter c =? 0 then set_counter c ctr else c in
  let g := if gas_limit c1 =? 0 then N.min (hard_gas / n) (default_gas_limit cv hard_gas c1) else gas_limit c1 in
  let c2 := set_limits c1 g (storage_limit c1) in
  let s := if storage_limit c2 =? 0 then N.min (hard_storage / n) (default_storage_limit hard_storage c2)
           else storage_limit c2 in
  let c3 := set_limits c2 g s in
  if fee c3 =? 0 then set_fee c3 (if first then default_fee cv c3 else 0) else c3.

Fixpoint fill_from (cv : curve) (hard_gas hard_storage n : N) (first : bool) (ctr : N) (cs : list mcontent)
  : list mcontent :=
  match cs with
  | [] => []
  | c :: r => fill_content cv hard_gas hard_storage n first ctr c
              :: fill_from cv hard_gas hard_storage n false (ctr + 1) r
  end.

(* [ctr] = the first counter handed out by context.get_counter() *)
Definition fill (cv : curve) (hard_gas hard_storage ctr : N) (cs : list mcontent) : list mcontent :=
  fill_from cv hard_gas hard_storage (nlen cs) true ctr cs.

(* ---------------------------------------------------------------- OperationGroup.autofill
   (fee=None, gas_limit=None, storage_limit=None, default reserves)
   Per content the simulation returns the operation_result and the internal results; of each
   result the code reads consumed_milligas, paid_storage_size_diff and whether it allocated/originated. *)

Record sim_result := { milligas : N; paid_diff : N; allocates : bool }.

Definition ceil_div (a b : N) : N := (a + (b - 1)) / b.

Definition consumed_gas (rs : list sim_result) : N :=
  fold_right (fun r acc => ceil_div (milligas r) 1000 + acc) 0 rs.
Definition paid_storage_size_diff (rs : list sim_result) : N :=
  fold_right (fun r acc => paid_diff r + acc) 0 rs.
Definition burned (rs : list sim_result) : N :=
  fold_right (fun r acc => (if allocates r then ALLOCATION_BURN else 0) + acc) 0 rs.

Definition has_reserve (k : mkind) : bool :=
  match k with KOrigination | KTransaction => true | _ => false end.

(* the content as it is passed to calculate_fee: counter shifted, limits from the simulation, fee 0 *)
Definition autofill_content (offset : N) (c : mcontent) (rs : list sim_result) : mcontent :=
  let g := consumed_gas rs + (if has_reserve (mk c) then DEFAULT_GAS_RESERVE else 0) in
  let s := paid_storage_size_diff rs + burned rs + (if has_reserve (mk c) then DEFAULT_BURN_RESERVE else 0) in
  set_fee (set_limits (set_counter c (counter c + offset)) g s) 0.

Definition autofill_fee (n : N) (c' : mcontent) : N :=
  calculate_fee c' (gas_limit c') (1 + AUTOFILL_EXTRA_SIZE / n) DEFAULT_RESERVE MINIMAL_NANOTEZ_PER_GAS_UNIT.

Fixpoint map2 {A B C} (f : A -> B -> C) (l1 : list A) (l2 : list B) : list C :=
  match l1, l2 with
  | a :: r1, b :: r2 => f a b :: map2 f r1 r2
  | _, _ => []
  end.

Definition sumN (l : list N) : N := fold_right N.add 0 l.

Definition put_fee_first (cs : list mcontent) (f : N) : list mcontent :=
  match cs with
  | [] => []
  | c :: r => (if f =? 0 then c else set_fee c f) :: r
  end.

(* [filled] is the result of [fill]; [sims] has one entry per content *)
Definition autofill_of_filled (offset : N) (filled : list mcontent) (sims : list (list sim_result)) : list mcontent :=
  let n := nlen filled in
  let cs' := map2 (autofill_content offset) filled sims in
  put_fee_first cs' (sumN (map (autofill_fee n) cs')).

Definition autofill (cv : curve) (hard_gas hard_storage ctr offset : N) (cs : list mcontent)
           (sims : list (list sim_result)) : list mcontent :=
  autofill_of_filled offset (fill cv hard_gas hard_storage ctr cs) sims.

(* ---------------------------------------------------------------- the node's rule (spec) *)

Definition total_fee (cs : list mcontent) : N := sumN (map fee cs).
Definition total_gas (cs : list mcontent) : N := sumN (map gas_limit cs).
Definition total_size (cs : list mcontent) : N := sumN (map size cs).

(* branch (32) ++ contents ++ signature *)
Definition signed_size (cv : curve) (cs : list mcontent) : N := 32 + total_size cs + sig_len cv.

(* 100 mutez + 1 mutez/byte + 0.1 mutez/gas unit, rounded up to a whole mutez:
   ceil((100000 + 1000*size + 100*gas) nanotez / 1000) *)
Definition min_fee (size_bytes gas : N) : N := ceil_div (100000 + 1000 * size_bytes + 100 * gas) 1000.

Definition covers_min (cv : curve) (cs : list mcontent) : bool :=
  min_fee (signed_size cv cs) (total_gas cs) <=? total_fee cs.

(* ---------------------------------------------------------------- interface for the correspondence cases *)

Definition mkc (k : mkind) (kt : bool) (f c g s r : N) : mcontent :=
  {| mk := k; to_kt := kt; fee := f; counter := c; gas_limit := g; storage_limit := s; rest := r |}.
Definition mks (m p : N) (a : bool) : sim_result := {| milligas := m; paid_diff := p; allocates := a |}.

(* observation of a filled group: per content (fee, counter, gas_limit, storage_limit) *)
Definition obs (cs : list mcontent) : list (N * N * N * N) :=
  map (fun c => (fee c, counter c, gas_limit c, storage_limit c)) cs.

Definition quad_eqb (a b : N * N * N * N) : bool :=
  let '(a1, a2, a3, a4) := a in let '(b1, b2, b3, b4) := b in
  (a1 =? b1) && (a2 =? b2) && (a3 =? b3) && (a4 =? b4).

Fixpoint obs_eqb (a b : list (N * N * N * N)) : bool :=
  match a, b with
  | [], [] => true
  | x :: a', y :: b' => quad_eqb x y && obs_eqb a' b'
  | _, _ => false
  end.

(* full observation compared by the harness: the four fields per content, the forged sizes,
   the signed size, the node minimum, and the verdict *)
Definition report (cv : curve) (cs : list mcontent) : list (N * N * N * N) * list N * N * bool :=
  (obs cs, map size cs, min_fee (signed_size cv cs) (total_gas cs), covers_min cv cs).

Fixpoint nlist_eqb (a b : list N) : bool :=
  match a, b with
  | [], [] => true
  | x :: a', y :: b' => (x =? y) && nlist_eqb a' b'
  | _, _ => false
  end.

Definition report_eqb (a b : list (N * N * N * N) * list N * N * bool) : bool :=
  let '(o1, s1, m1, v1) := a in let '(o2, s2, m2, v2) := b in
  obs_eqb o1 o2 && nlist_eqb s1 s2 && (m1 =? m2) && Bool.eqb v1 v2.
