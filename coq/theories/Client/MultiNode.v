(* Client/MultiNode.v — model of RpcMultiNode.request (src/pytezos/rpc/node.py).

     def request(self, method, path, **kwargs):
         assert self._next_i < len(self.nodes)
         try:
             return self.nodes[self._next_i].request(method, path, **kwargs)
         finally:
             self._next_i = (self._next_i + 1) % len(self.nodes)

   The per-node request is abstracted to its outcome (what the stubbed RpcNode.request does).
   State: the integer _next_i.  One step sends the request to node _next_i, hands the
   outcome of that node to the caller unchanged and advances the index whatever happened. *)
From Coq Require Import List Arith Bool.
Import ListNotations.

(* outcome of the selected node's RpcNode.request *)
Inductive outcome :=
| Success      (* a response is returned *)
| RpcErr       (* pytezos.rpc.node.RpcError *)
| ConnErr      (* requests.exceptions.ConnectionError / Timeout: transport failures *)
| OtherErr.    (* any other Exception (ValueError, KeyError, ...) *)

(* what the caller of RpcMultiNode.request can observe of one call *)
Inductive event :=
| Sent (node : nat) (o : outcome)   (* node [node] received the request; its outcome was propagated *)
| AssertFailed.                     (* the assert fired, no node was contacted *)

(* [advance_on o] says whether the index moves after outcome [o]; the code as implemented
   (try/finally) moves it always.  The parameter exists so that the necessity of advancing on
   every outcome can be stated (Properties/C28.v). *)
Definition step_with (advance_on : outcome -> bool) (n : nat) (next_i : nat) (o : outcome) : nat * event :=
  if next_i <? n then
    ((if advance_on o then (next_i + 1) mod n else next_i), Sent next_i o)
  else (next_i, AssertFailed).

Fixpoint run_from_with (advance_on : outcome -> bool) (n : nat) (next_i : nat) (os : list outcome)
  : list event * nat :=
  match os with
  | [] => ([], next_i)
  | o :: r =>
      let '(s', e) := step_with advance_on n next_i o in
      let '(es, fin) := run_from_with advance_on n s' r in
      (e :: es, fin)
  end.

Definition always (_ : outcome) : bool := true.
Definition on_success_only (o : outcome) : bool := match o with Success => true | _ => false end.

(* the implementation *)
Definition step := step_with always.
Definition run_from := run_from_with always.
(* a fresh RpcMultiNode over n nodes starts at _next_i = 0 *)
Definition run (n : nat) (os : list outcome) : list event * nat := run_from n 0 os.

Definition events (r : list event * nat) : list event := fst r.
Definition final (r : list event * nat) : nat := snd r.

(* the node index each request went to (None when the assert fired) *)
Definition target (e : event) : option nat :=
  match e with Sent i _ => Some i | AssertFailed => None end.
Definition targets (r : list event * nat) : list (option nat) := map target (events r).
Definition propagated (e : event) : option outcome :=
  match e with Sent _ o => Some o | AssertFailed => None end.

(* ---- executable interface for the correspondence cases ---- *)
Definition outcome_eqb (a b : outcome) : bool :=
  match a, b with
  | Success, Success | RpcErr, RpcErr | ConnErr, ConnErr | OtherErr, OtherErr => true
  | _, _ => false
  end.

Definition event_eqb (a b : event) : bool :=
  match a, b with
  | Sent i o, Sent j p => Nat.eqb i j && outcome_eqb o p
  | AssertFailed, AssertFailed => true
  | _, _ => false
  end.

Fixpoint events_eqb (a b : list event) : bool :=
  match a, b with
  | [], [] => true
  | x :: a', y :: b' => event_eqb x y && events_eqb a' b'
  | _, _ => false
  end.

Definition obs_eqb (a b : list event * nat) : bool :=
  events_eqb (fst a) (fst b) && Nat.eqb (snd a) (snd b).

(* case input: (number of nodes, outcome script) *)
Definition run_case (c : nat * list outcome) : list event * nat := run (fst c) (snd c).
