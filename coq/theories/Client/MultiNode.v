(* Client/MultiNode.v — model of RpcMultiNode.request (src/pytezos/rpc/node.py).

     def request(self, method, path, **kwargs):
         assert self._next_i < len(self.nodes)
         try:
             return self.nodes[self._next_i].request(method, path, **kwargs)
         finally:
             self._next_i = (self._next_i + 1) % len(self.nodes)

   The per-node request is abstracted to its outcome (what the stubbed RpcNode.request does).
   State: the integer _next_i.  One step sends the request to node _next_i, hands the
   outcome of that node to the caller unchanged and advances the index whatever happened. *)
From Coq Require Import List Arith Bool ZArith.
Import ListNotations.

(* outcome of the selected node's RpcNode.request *)
Inductive outcome :=
| Success      (* a response is returned *)
| RpcErr       (* pytezos.rpc.node.RpcError *)
| ConnErr      (* requests.exceptions.ConnectionError / Timeout: transport failures *)
| OtherErr.    (* any other Exception (ValueError, KeyError, ...) *)

(* what the caller of RpcMultiNode.request can observe of one call *)
Inductive event :=
| Sent (node : nat) (o : outcome)   (* node [node] received the request; its outcome was propagated *)
| AssertFailed.                     (* the assert fired, no node was contacted *)

(* [advance_on o] says whether the index moves after outcome [o]; the code as implemented
   (try/finally) moves it always.  The parameter exists so that the necessity of advancing on
   every outcome can be stated (Properties/C28.v). *)
Definition step_with (advance_on : outcome -> bool) (n : nat) (next_i : nat) (o : outcome) : nat * event :=
  if next_i <? n then
    ((if advance_on o then (next_i + 1) mod n else next_i), Sent next_i o)
  else (next_i, AssertFailed).

Fixpoint run_from_with (advance_on : outcome -> bool) (n : nat) (next_i : nat) (os : list outcome)
  : list event * nat :=
  match os with
  | [] => ([], next_i)
  | o :: r =>
      let '(s', e) := step_with advance_on n next_i o in
      let '(es, fin) := run_from_with advance_on n s' r in
      (e :: es, fin)
  end.

Definition always (_ : outcome) : bool := true.
Definition on_success_only (o : outcome) : bool := match o with Success => true | _ => false end.

(* the implementation *)
Definition step := step_with always.
Definition run_from := run_from_with always.
(* a fresh RpcMultiNode over n nodes starts at _next_i = 0 *)
Definition run (n : nat) (os : list outcome) : list event * nat := run_from n 0 os.

Definition events (r : list event * nat) : list event := fst r.
Definition final (r : list event * nat) : nat := snd r.

(* the node index each request went to (None when the assert fired) *)
Definition target (e : event) : option nat :=
  match e with Sent i _ => Some i | AssertFailed => None end.
Definition targets (r : list event * nat) : list (option nat) := map target (events r).
Definition propagated (e : event) : option outcome :=
  match e with Sent _ o => Some o | AssertFailed => None end.

(* ---- executable interface for the correspondence cases ---- *)
Definition outcome_eqb (a b : outcome) : bool :=
  match a, b with
  | Success, Success | RpcErr, RpcErr | ConnErr, ConnErr | OtherErr, OtherErr => true
  | _, _ => false
  end.

Definition event_eqb (a b : event) : bool :=
  match a, b with
  | Sent i o, Sent j p => Nat.eqb i j && outcome_eqb o p
  | AssertFailed, AssertFailed => true
  | _, _ => false
  end.

Fixpoint events_eqb (a b : list event) : bool :=
  match a, b with
  | [], [] => true
  | x :: a', y :: b' => event_eqb x y && events_eqb a' b'
  | _, _ => false
  end.

Definition obs_eqb (a b : list event * nat) : bool :=
  events_eqb (fst a) (fst b) && Nat.eqb (snd a) (snd b).

(* case input: (number of nodes, outcome script) *)
Definition run_case (c : nat * list outcome) : list event * nat := run (fst c) (snd c).

(* ---- the public entry points --------------------------------------------------------------
   RpcNode.get/post/put/delete are `self.request('GET' | 'POST' | 'PUT' | 'DELETE', path, ...)`
   and RpcMultiNode overrides only `request`: every call of a multi-node client, whatever the
   entry point, is one step of the rotation and reaches the selected node with that HTTP method. *)
Inductive method := GET | POST | PUT | DELETE.
Inductive call :=
| CRequest (m : method)   (* client.request(m, path, ...) *)
| CGet | CPost | CPut | CDelete.

Definition call_method (c : call) : method :=
  match c with CRequest m => m | CGet => GET | CPost => POST | CPut => PUT | CDelete => DELETE end.

Inductive wire_event :=
| Wire (node : nat) (m : method) (o : outcome)   (* what the selected node receives / answers *)
| WAssert.

Definition on_wire (c : call) (e : event) : wire_event :=
  match e with Sent i o => Wire i (call_method c) o | AssertFailed => WAssert end.

Fixpoint run_calls_from (n : nat) (next_i : nat) (cs : list (call * outcome)) : list wire_event * nat :=
  match cs with
  | [] => ([], next_i)
  | (c, o) :: r =>
      let '(s', e) := step n next_i o in
      let '(es, fin) := run_calls_from n s' r in
      (on_wire c e :: es, fin)
  end.

Definition run_calls (n : nat) (cs : list (call * outcome)) : list wire_event * nat := run_calls_from n 0 cs.

Definition wire_target (e : wire_event) : option nat :=
  match e with Wire i _ _ => Some i | WAssert => None end.
Definition wire_method (e : wire_event) : option method :=
  match e with Wire _ m _ => Some m | WAssert => None end.

(* a session with the time that passes before each call (seconds): the implementation never looks at a
   clock, so the pauses are dropped before anything is computed *)
Definition run_timed (n : nat) (tcs : list (Z * (call * outcome))) : list wire_event * nat :=
  run_calls n (map snd tcs).

Definition method_eqb (a b : method) : bool :=
  match a, b with GET, GET | POST, POST | PUT, PUT | DELETE, DELETE => true | _, _ => false end.
Definition wire_event_eqb (a b : wire_event) : bool :=
  match a, b with
  | Wire i m o, Wire j m' o' => Nat.eqb i j && method_eqb m m' && outcome_eqb o o'
  | WAssert, WAssert => true
  | _, _ => false
  end.
Fixpoint wire_events_eqb (a b : list wire_event) : bool :=
  match a, b with
  | [], [] => true
  | x :: a', y :: b' => wire_event_eqb x y && wire_events_eqb a' b'
  | _, _ => false
  end.
Definition wire_obs_eqb (a b : list wire_event * nat) : bool :=
  wire_events_eqb (fst a) (fst b) && Nat.eqb (snd a) (snd b).
Definition run_timed_case (c : nat * list (Z * (call * outcome))) : list wire_event * nat :=
  run_timed (fst c) (snd c).
