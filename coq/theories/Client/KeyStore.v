(* Client/KeyStore.v — model of the glue of key creation, import, export and address derivation in
   pytezos.crypto.key (Key.from_secret_exponent, Key.from_encoded_key incl. decryption, Key.secret_key
   incl. encryption, Key.public_key, Key.public_key_hash, validate_mnemonic, Key.from_mnemonic) and of
   the Michelson instructions CHECK_SIGNATURE / HASH_KEY (michelson/instructions/crypto.py), which are
   glue on top of Key.from_encoded_key / Key.verify / Key.public_key_hash.

   Native primitives are the oracles of KeyGlue.v ([prims]).  No proofs in this file. *)
From Coq Require Import String.
From Coq Require Import List NArith ZArith Bool Arith.
From Coq.Strings Require Import Byte.
From PV Require Import Base.Bytes Base.Result Client.KeyGlue.
Import ListNotations.
Local Open Scope list_scope.

(* ------------------------------------------------------------------------------------------- *)
(* str.encode() (UTF-8); None = UnicodeEncodeError (lone surrogate)                            *)
(* ------------------------------------------------------------------------------------------- *)

Definition utf8_char (c : N) : option bytes :=
  (if c <? 128 then Some [b8 c]
   else if c <? 2048 then Some [b8 (192 + c / 64); b8 (128 + c mod 64)]
   else if c <? 65536 then
     if (55296 <=? c) && (c <=? 57343) then None
     else Some [b8 (224 + c / 4096); b8 (128 + (c / 64) mod 64); b8 (128 + c mod 64)]
   else if c <? 1114112 then
     Some [b8 (240 + c / 262144); b8 (128 + (c / 4096) mod 64); b8 (128 + (c / 64) mod 64); b8 (128 + c mod 64)]
   else None)%N.

Fixpoint utf8_encode (s : pystr) : option bytes :=
  match s with
  | [] => Some []
  | c :: r => match utf8_char c, utf8_encode r with
              | Some a, Some b => Some (a ++ b)
              | _, _ => None
              end
  end.

(* a passphrase given as str is encoded, bytes are taken as they are (get_passphrase / secret_key) *)
Definition pw_bytes (p : pyin) : option bytes :=
  match p with PB b => Some b | PS s => utf8_encode s end.

(* Python truthiness of [passphrase] *)
Definition truthy (p : option pyin) : bool :=
  match p with
  | Some (PB (_ :: _)) => true
  | Some (PS (_ :: _)) => true
  | _ => false
  end.

Definition nonce24 : bytes := repeat x00 24.

(* ------------------------------------------------------------------------------------------- *)
(* Positional numerals as Python writes them: int(s, b), bin(n)[2:], hex(n)[2:], zfill          *)
(* ------------------------------------------------------------------------------------------- *)

(* a digit string, most significant digit first *)
Definition digs := list N.

(* int(s, b) *)
Definition val (b : N) (l : digs) : N := fold_left (fun acc d => acc * b + d)%N l 0%N.

Fixpoint digits_le (b : N) (fuel : nat) (n : N) : digs :=
  match fuel with
  | O => []
  | S f => if (n =? 0)%N then [] else (n mod b)%N :: digits_le b f (n / b)%N
  end.

(* the minimal numeral of n in base b ("0" for zero): bin(n)[2:], hex(n)[2:] *)
Definition digits (b : N) (n : N) : digs :=
  if (n =? 0)%N then [0%N] else rev (digits_le b (N.to_nat (N.size n)) n).

(* str.zfill(w) on a numeral without sign *)
Definition zfill (w : nat) (l : digs) : digs := repeat 0%N (w - length l) ++ l.

(* binascii.unhexlify on a string of hex digits; None = odd length *)
Fixpoint unhexlify (l : digs) : option bytes :=
  match l with
  | [] => Some []
  | a :: b :: r => match unhexlify r with Some t => Some (b8 (16 * a + b) :: t) | None => None end
  | [_] => None
  end.

(* ------------------------------------------------------------------------------------------- *)
(* BIP-39, as the standard states it (the specification side of C08_mnemonic_iff_bip39)        *)
(* ------------------------------------------------------------------------------------------- *)

(* the w-digit numeral of n mod b^w *)
Fixpoint fixed (b : N) (w : nat) (n : N) : digs :=
  match w with
  | O => []
  | S w' => fixed b w' (n / b)%N ++ [(n mod b)%N]
  end.

Definition bytes_bits (e : bytes) : digs := flat_map (fun x => fixed 2 8 (Byte.to_N x)) e.

Definition valid_word_counts : list nat := [12; 15; 18; 21; 24].
Definition valid_entropy_lengths : list nat := [16; 20; 24; 28; 32].

Section WithPrims.
Variable P : prims.

(* entropy followed by the first ENT/32 bits of its SHA-256 *)
Definition bip39_bits (e : bytes) : digs :=
  bytes_bits e ++ firstn (length e / 4) (bytes_bits (sha256 P e)).

(* the word indices spell, 11 bits each, entropy ++ checksum for an entropy of 128..256 bits *)
Definition bip39_valid (idx : list N) : Prop :=
  exists e, In (length e) valid_entropy_lengths /\ flat_map (fixed 2 11) idx = bip39_bits e.

(* ------------------------------------------------------------------------------------------- *)
(* validate_mnemonic, as written                                                               *)
(* ------------------------------------------------------------------------------------------- *)

(* bin(i)[2:].zfill(11) *)
Definition bits11 (i : N) : digs := zfill 11 (digits 2 i).

(* the checksum comparison on the bit string b (everything after ''.join(idx)) *)
Definition check_bits (b : digs) : bool :=
  let l := length b in
  let d := firstn (l / 33 * 32) b in
  let h := skipn (l - (l + 32) / 33) b in             (* b[-l // 33:]  ( -l // 33 = -ceil(l/33) ) *)
  match d with
  | [] => false                                        (* int('', 2) raises ValueError *)
  | _ =>
      match unhexlify (zfill (l / 33 * 8) (digits 16 (val 2 d))) with
      | None => false                                  (* binascii.Error (odd length) *)
      | Some nd =>
          let nh := firstn (l / 33) (zfill 256 (digits 2 (be_to_N (sha256 P nd)))) in
          list_eqb N.eqb h nh
      end
  end.

(* the checksum comparison on word indices (everything after the word-count test) *)
Definition mnemonic_check (idx : list N) : bool := check_bits (flat_map bits11 idx).

Fixpoint all_some {A} (l : list (option A)) : option (list A) :=
  match l with
  | [] => Some []
  | Some a :: r => match all_some r with Some t => Some (a :: t) | None => None end
  | None :: _ => None
  end.

(* validate_mnemonic(mnemonic): Ok tt = returned, Reject = ValueError *)
Definition validate_mnemonic (mn : pystr) : result unit :=
  let words := nf_split P mn in
  if negb (existsb (Nat.eqb (length words)) valid_word_counts) then Reject
  else match all_some (map (word_index P) words) with
       | None => Reject
       | Some idx => if mnemonic_check idx then Ok tt else Reject
       end.

(* ------------------------------------------------------------------------------------------- *)
(* Key.from_secret_exponent                                                                    *)
(* ------------------------------------------------------------------------------------------- *)

Definition from_secret_exponent (tag se : bytes) : result key :=
  match curve_of_tag tag with
  | Some Ed =>
      if Nat.eqb (length se) 64 then
        match ed_sk_to_pk P se with
        | Some pk => Ok {| pub := pk; sec := Some se; ktag := tag |}
        | None => Reject
        end
      else
        match ed_seed_keypair P se with
        | Some (pk, sk) => Ok {| pub := pk; sec := Some sk; ktag := tag |}
        | None => Reject
        end
  | Some Sp => match sp_pk P se with
               | Some pk => Ok {| pub := pk; sec := Some se; ktag := tag |}
               | None => Reject
               end
  | Some P2 => match p2_pk P (be_to_N se) with
               | Some pk => Ok {| pub := pk; sec := Some se; ktag := tag |}
               | None => Reject
               end
  | Some BL => match bl_pk P (le_to_N se) with
               | Some pk => Ok {| pub := pk; sec := Some se; ktag := tag |}
               | None => Reject
               end
  | None => Reject
  end.

(* ------------------------------------------------------------------------------------------- *)
(* Key.public_key / Key.public_key_hash / Key.secret_key                                       *)
(* ------------------------------------------------------------------------------------------- *)

Definition public_key (k : key) : result pystr :=
  let* e := base58_encode P (pub k) (ktag k ++ tx "pk") in Ok (str_of e).

(* {b'ed': b'tz1', b'sp': b'tz2', b'p2': b'tz3', b'BL': b'tz4'}[curve]; None = KeyError *)
Definition pkh_prefix (tag : bytes) : option bytes :=
  match curve_of_tag tag with
  | Some Ed => Some (tx "tz1")
  | Some Sp => Some (tx "tz2")
  | Some P2 => Some (tx "tz3")
  | Some BL => Some (tx "tz4")
  | None => None
  end.

Definition public_key_hash (k : key) : result pystr :=
  let pkh := blake2b P 20 (pub k) in
  let* prefix := of_option (pkh_prefix (ktag k)) in
  let* e := base58_encode P pkh prefix in Ok (str_of e).

(* secret_key(passphrase, ed25519_seed); [salt] is the value pysodium.randombytes(8) returns *)
Definition secret_key (k : key) (pass : option pyin) (ed_seed : bool) (salt : bytes) : result pystr :=
  match secret_of k with
  | None => Reject
  | Some sk =>
      let* raw := (if bytes_eqb (ktag k) (tx "ed") && ed_seed then of_option (ed_sk_to_seed P sk) else Ok sk) in
      if truthy pass then
        if negb ed_seed then Reject                     (* NotImplementedError *)
        else match pass with
             | None => Reject
             | Some p =>
                 let* pw := of_option (pw_bytes p) in
                 let ek := pbkdf2 P pw salt in
                 let* enc := of_option (secretbox P raw nonce24 ek) in
                 let* e := base58_encode P (salt ++ enc) (ktag k ++ tx "esk") in
                 Ok (str_of e)
             end
      else
        let* e := base58_encode P raw (ktag k ++ tx "sk") in Ok (str_of e)
  end.

(* ------------------------------------------------------------------------------------------- *)
(* Key.from_encoded_key                                                                        *)
(* ------------------------------------------------------------------------------------------- *)

Definition mem_bytes (x : bytes) (l : list bytes) : bool := existsb (bytes_eqb x) l.

(* [pass = None]: no passphrase argument; the real code then consults the environment / prompts,
   which is outside the model (Reject).  The harness never does that. *)
Definition from_encoded_key (ks : pyin) (pass : option pyin) : result key :=
  let* ek := scrub_input ks in
  let curve := firstn 2 ek in
  if negb (mem_bytes curve [tx "sp"; tx "p2"; tx "ed"; tx "BL"]) then Reject
  else if negb (existsb (Nat.eqb (length ek)) [54; 55; 76; 88; 98]) then Reject
  else
    let encrypted := bytes_eqb (firstn 1 (skipn 2 ek)) (tx "e") in
    let pos := if encrypted then firstn 2 (skipn 3 ek) else firstn 2 (skipn 2 ek) in
    if negb (mem_bytes pos [tx "pk"; tx "sk"]) then Reject
    else
      let* dk := base58_decode P ek in
      if negb (bytes_eqb pos (tx "sk")) then Ok {| pub := dk; sec := None; ktag := curve |}
      else if encrypted then
        match pass with
        | None => Reject
        | Some p =>
            let* pw := of_option (pw_bytes p) in
            let salt := firstn 8 dk in
            let esk := skipn 8 dk in
            let ekey := pbkdf2 P pw salt in
            let* sk := of_option (secretbox_open P esk nonce24 ekey) in
            from_secret_exponent curve sk
        end
      else from_secret_exponent curve dk.

(* ------------------------------------------------------------------------------------------- *)
(* Key.from_mnemonic                                                                           *)
(* ------------------------------------------------------------------------------------------- *)

(* ' '.join(words) *)
Fixpoint join_sp (ws : list pystr) : pystr :=
  match ws with
  | [] => []
  | [w] => w
  | w :: r => w ++ 32%N :: join_sp r
  end.

(* the mnemonic argument: a list of words or one string *)
Definition mn_string (mn : list pystr + pystr) : pystr :=
  match mn with inl ws => join_sp ws | inr s => s end.

Definition from_mnemonic (mn : list pystr + pystr) (passphrase email : pystr) (validate : bool) (tag : bytes)
  : result key :=
  let m := mn_string mn in
  let* _ := (if validate then validate_mnemonic m else Ok tt) in
  let* seed := of_option (to_seed P m (email ++ passphrase)) in
  let* se :=
    match curve_of_tag tag with
    | Some Ed => match ed_seed_keypair P (firstn 32 seed) with Some (_, sk) => Ok sk | None => Reject end
    | Some _ => Ok (firstn 32 seed)
    | None => Reject
    end in
  from_secret_exponent tag se.

(* ------------------------------------------------------------------------------------------- *)
(* CHECK_SIGNATURE and HASH_KEY                                                                *)
(* ------------------------------------------------------------------------------------------- *)

(* operands: key (as its base58 text), signature (base58 text), bytes.
   Ok b = pushes b; Reject = the instruction fails (an exception other than ValueError escaped verify,
   or the key text could not be imported). *)
Definition check_signature (pk sg : pystr) (msg : bytes) : result bool :=
  let* k := from_encoded_key (PS pk) None in
  match key_verify P k (PS sg) (PB msg) with
  | Valid => Ok true
  | Invalid => Ok false
  | Crashed => Reject
  end.

Definition hash_key (pk : pystr) : result pystr :=
  let* k := from_encoded_key (PS pk) None in public_key_hash k.

End WithPrims.

(* ------------------------------------------------------------------------------------------- *)
(* Laws assumed of the oracles for the import/export theorems                                   *)
(* ------------------------------------------------------------------------------------------- *)

Record store_laws (P : prims) : Prop := {
  st_b58 : b58_laws P;
  (* libsodium key format: the secret key determines its seed and public key *)
  st_ed : forall seed pk sk, ed_seed_keypair P seed = Some (pk, sk) ->
      ed_sk_to_pk P sk = Some pk /\ ed_sk_to_seed P sk = Some seed /\
      length seed = 32 /\ length sk = 64 /\ length pk = 32;
  st_sp : forall sk pk, sp_pk P sk = Some pk -> length pk = 33;
  st_p2 : forall d pk, p2_pk P d = Some pk -> length pk = 33;
  st_bl : forall d pk, bl_pk P d = Some pk -> length pk = 48;
  (* secretbox: 16 bytes of authenticator; opening with the same key and nonce returns the message *)
  st_box : forall m n k, exists c, secretbox P m n k = Some c /\ length c = length m + 16 /\
      secretbox_open P c n k = Some m;
  st_blake_len : forall n d, length (blake2b P n d) = n
}.

(* the secret exponents / seeds the export theorem speaks about: 32 bytes accepted by the native
   derivation; for Ed25519 also a 64-byte libsodium secret key that is the expansion of a seed *)
Definition exportable (P : prims) (c : curve) (se : bytes) : Prop :=
  match c with
  | Ed => (length se = 32 /\ exists pk sk, ed_seed_keypair P se = Some (pk, sk)) \/
          (exists seed pk, ed_seed_keypair P seed = Some (pk, se))
  | Sp => length se = 32 /\ exists pk, sp_pk P se = Some pk
  | P2 => length se = 32 /\ exists pk, p2_pk P (be_to_N se) = Some pk
  | BL => length se = 32 /\ exists pk, bl_pk P (le_to_N se) = Some pk
  end.

(* ------------------------------------------------------------------------------------------- *)
(* Operations and outcomes for the correspondence run                                          *)
(* ------------------------------------------------------------------------------------------- *)

Inductive op :=
| OpSign (k : key) (m : pyin) (generic : bool)
| OpVerify (k : key) (sg m : pyin)
| OpCheckSig (pk sg : pystr) (msg : bytes)
| OpFromSecret (tag se : bytes)
| OpPublicKey (k : key)
| OpPkh (k : key)
| OpSecretKey (k : key) (pass : option pyin) (ed_seed : bool) (salt : bytes)
| OpFromEncoded (ks : pyin) (pass : option pyin)
| OpHashKey (pk : pystr)
| OpValidate (mn : pystr)
| OpFromMnemonic (mn : list pystr + pystr) (passphrase email : pystr) (validate : bool) (tag : bytes)
| OpScrub (v : pyin)
| OpB58Enc (v prefix : bytes)
| OpB58Dec (v : bytes).

Inductive outcome :=
| OStr (r : result pystr)
| OKey (r : result key)
| OVer (v : verdict)
| OBool (r : result bool)
| OUnit (r : result unit)
| OBytes (r : result bytes).

Definition run_op (t : otable) (o : op) : outcome :=
  let P := prims_of t in
  match o with
  | OpSign k m g => OStr (key_sign P k m g)
  | OpVerify k sg m => OVer (key_verify P k sg m)
  | OpCheckSig pk sg msg => OBool (check_signature P pk sg msg)
  | OpFromSecret tag se => OKey (from_secret_exponent P tag se)
  | OpPublicKey k => OStr (public_key P k)
  | OpPkh k => OStr (public_key_hash P k)
  | OpSecretKey k pass es salt => OStr (secret_key P k pass es salt)
  | OpFromEncoded ks pass => OKey (from_encoded_key P ks pass)
  | OpHashKey pk => OStr (hash_key P pk)
  | OpValidate mn => OUnit (validate_mnemonic P mn)
  | OpFromMnemonic mn pw em v tag => OKey (from_mnemonic P mn pw em v tag)
  | OpScrub v => OBytes (scrub_input v)
  | OpB58Enc v p => OBytes (base58_encode P v p)
  | OpB58Dec v => OBytes (base58_decode P v)
  end.

Definition unit_eqb (a b : unit) : bool := true.

Definition outcome_eqb (a b : outcome) : bool :=
  match a, b with
  | OStr x, OStr y => result_eqb pystr_eqb x y
  | OKey x, OKey y => result_eqb key_eqb x y
  | OVer x, OVer y => verdict_eqb x y
  | OBool x, OBool y => result_eqb Bool.eqb x y
  | OUnit x, OUnit y => result_eqb unit_eqb x y
  | OBytes x, OBytes y => result_eqb bytes_eqb x y
  | _, _ => false
  end.

Definition run_case (c : otable * op) : outcome := run_op (fst c) (snd c).

Definition mkkey (p : bytes) (s : option bytes) (t : bytes) : key := {| pub := p; sec := s; ktag := t |}.
