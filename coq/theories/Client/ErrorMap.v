(* Client/ErrorMap.v — model of _gen_error_variants and RpcError.from_errors
   (src/pytezos/rpc/node.py) and of the registered error classes (src/pytezos/rpc/errors.py).

   An error identifier is the list of its dot-separated chunks (error_id.split('.'), never
   empty: ''.split('.') = ['']).  Registry keys are identifiers too; since chunks contain no
   dot, comparing '.'.join(chunks) with a key string is comparing chunk lists.

     def _gen_error_variants(error_id):
         chunks = error_id.split('.')
         variants = [error_id]
         if len(chunks) > 2:
             variants.append('.'.join(chunks[2:]))
         if len(chunks) > 1:
             variants.append(chunks[-1])
             variants.append(chunks[-2])
         return variants

     def from_errors(cls, errors):
         if not errors: return RpcError('Unspecified error')
         error = errors[-1]
         for key in _gen_error_variants(error['id']):
             if key in cls.__handlers__: return cls.__handlers__[key](error)
         return RpcError(error)                                                      *)
From Coq Require Import List Arith Bool String.
From PV Require Import Base.Bytes.
Import ListNotations.
Local Open Scope string_scope.

Definition chunk := string.
Definition ident := list chunk.
Definition ident_eqb : ident -> ident -> bool := list_eqb String.eqb.

(* chunks[2:] when there are more than two chunks *)
Definition strip2 (c : ident) : list ident :=
  match c with
  | _ :: _ :: x :: r => [x :: r]
  | _ => []
  end.

(* chunks[-1], chunks[-2] when there are at least two chunks *)
Definition tail2 (c : ident) : list ident :=
  match rev c with
  | l :: p :: _ => [[l]; [p]]
  | _ => []
  end.

Definition variants (c : ident) : list ident := [c] ++ strip2 c ++ tail2 c.

Section Registry.
  Context {C : Type}.

  (* __handlers__ : a dict, represented by its items; a key occurs once *)
  Definition registry := list (ident * C).

  Fixpoint lookup (reg : registry) (k : ident) : option C :=
    match reg with
    | [] => None
    | (k', c) :: r => if ident_eqb k' k then Some c else lookup r k
    end.

  (* __init_subclass__(error_id): cls.__handlers__[eid] = cls for the id, or for every id of a list;
     the key is the id exactly as given, a later registration of the same key replaces the earlier one *)
  Fixpoint set_key (reg : registry) (k : ident) (c : C) : registry :=
    match reg with
    | [] => [(k, c)]
    | (k', c') :: r => if ident_eqb k' k then (k, c) :: r else (k', c') :: set_key r k c
    end.

  Definition register (reg : registry) (ids : list ident) (c : C) : registry :=
    fold_left (fun r k => set_key r k c) ids reg.

  (* a module's class statements, in order: (ids, class) *)
  Definition build (decls : list (list ident * C)) : registry :=
    fold_left (fun r d => register r (fst d) (snd d)) decls [].

  (* the for loop: first variant that is a key *)
  Fixpoint first_match (reg : registry) (vs : list ident) : option C :=
    match vs with
    | [] => None
    | v :: r => match lookup reg v with Some c => Some c | None => first_match reg r end
    end.

  Definition resolve (reg : registry) (c : ident) : option C := first_match reg (variants c).

  Inductive raised :=
  | Unspecified                 (* RpcError('Unspecified error') *)
  | Generic (i : nat)           (* RpcError(errors[i]) *)
  | Handled (c : C) (i : nat).  (* c(errors[i]) *)

  Fixpoint last_index {A} (l : list A) : option (nat * A) :=
    match l with
    | [] => None
    | [x] => Some (0, x)
    | _ :: r => match last_index r with Some (i, x) => Some (S i, x) | None => None end
    end.

  Definition from_errors (reg : registry) (errs : list ident) : raised :=
    match last_index errs with
    | None => Unspecified
    | Some (i, e) => match resolve reg e with Some c => Handled c i | None => Generic i end
    end.
End Registry.
Arguments registry : clear implicits.
Arguments raised : clear implicits.

(* ---- the registered classes of pytezos.rpc.errors (compared with RpcError.__handlers__ on every run) ---- *)
Inductive cls :=
| MichelsonBadContractParameter | MichelsonBadReturn | MichelsonError | TezArithmeticError | MichelsonScriptRejected.

Definition cls_name (c : cls) : string :=
  match c with
  | MichelsonBadContractParameter => "MichelsonBadContractParameter"
  | MichelsonBadReturn => "MichelsonBadReturn"
  | MichelsonError => "MichelsonError"
  | TezArithmeticError => "TezArithmeticError"
  | MichelsonScriptRejected => "MichelsonScriptRejected"
  end.

Definition handlers : registry cls :=
  [ (["michelson_v1"; "bad_contract_parameter"], MichelsonBadContractParameter);
    (["michelson_v1"; "bad_return"], MichelsonBadReturn);
    (["michelson_v1"], MichelsonError);
    (["tez"], TezArithmeticError);
    (["script_rejected"], MichelsonScriptRejected) ].

Definition handlers_named : registry string := map (fun kc => (fst kc, cls_name (snd kc))) handlers.

(* ---- executable interface for the correspondence cases ---- *)
Definition raised_eqb (a b : raised string) : bool :=
  match a, b with
  | Unspecified, Unspecified => true
  | Generic i, Generic j => Nat.eqb i j
  | Handled c i, Handled d j => String.eqb c d && Nat.eqb i j
  | _, _ => false
  end.

(* same dict: same number of items and every item of one is an item of the other *)
Definition entry_in (reg : registry string) (e : ident * string) : bool :=
  match lookup reg (fst e) with Some c => String.eqb c (snd e) | None => false end.
Definition table_eqb (a b : registry string) : bool :=
  Nat.eqb (List.length a) (List.length b) && forallb (entry_in b) a && forallb (entry_in a) b.

(* registration case: (class statements, registry dumped from __handlers__ afterwards, error list) ->
   (dump equals the model's registry, exception raised under that registry) *)
Definition run_decl_case (c : list (list ident * string) * registry string * list ident) : bool * raised string :=
  let '(decls, dumped, errs) := c in
  (table_eqb dumped (build decls), from_errors (build decls) errs).
Definition decl_obs_eqb (a b : bool * raised string) : bool :=
  Bool.eqb (fst a) (fst b) && raised_eqb (snd a) (snd b).

(* case input: (index of a registry in [regs], error list) *)
Definition run_case (regs : list (registry string)) (c : nat * list ident) : raised string :=
  from_errors (nth (fst c) regs []) (snd c).
