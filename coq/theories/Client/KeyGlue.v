(* Client/KeyGlue.v — model of the *glue* of pytezos.crypto.key.Key.sign / Key.verify
   (src/pytezos/crypto/key.py), of scrub_input / base58_encode / base58_decode
   (src/pytezos/crypto/encoding.py).

   Native cryptography (pysodium, coincurve, fastecdsa, py_ecc, hashlib, base58, mnemonic) is NOT
   modelled: every native call is a field of the record [prims] (an oracle).  The laws assumed of the
   oracles are the records [b58_laws], [sig_laws] (here) and [store_laws] (KeyStore.v); they appear as
   hypotheses, universally quantified, in the closed theorems.  For the correspondence run the oracles
   are supplied as data: [prims_of t] answers from the finite table [t] of native calls which the
   harness recorded while the real code ran.

   No proofs in this file. *)
From Coq Require Import String.
From Coq Require Import List NArith ZArith Bool Arith Ascii.
From Coq.Strings Require Import Byte.
From PV Require Import Base.Bytes Base.Result.
Import ListNotations.
Local Open Scope list_scope.

(* ------------------------------------------------------------------------------------------- *)
(* Python values                                                                               *)
(* ------------------------------------------------------------------------------------------- *)

(* a Python [str]: its code points *)
Definition pystr := list N.

(* the argument type [Union[str, bytes]] *)
Inductive pyin := PB (b : bytes) | PS (s : pystr).

(* literals used by the generated correspondence cases: [ps "abc"] (printable ASCII text),
   [pu (hx "000061...")] (three big-endian bytes per code point), [nb (hx "..")] (big-endian number) *)
Fixpoint ps (s : string) : pystr :=
  match s with
  | EmptyString => []
  | String a r => N_of_ascii a :: ps r
  end.
Fixpoint pu (b : bytes) : pystr :=
  match b with
  | x :: y :: z :: r => (Byte.to_N x * 65536 + Byte.to_N y * 256 + Byte.to_N z)%N :: pu r
  | _ => []
  end.
Definition nb (b : bytes) : N := be_to_N b.

(* bytes.decode() of ASCII data (base58 text); str(b, 'latin-1') in general *)
Definition str_of (b : bytes) : pystr := map Byte.to_N b.

Definition is_ascii (c : N) : bool := (c <? 128)%N.

(* str.encode('ascii'); None = UnicodeEncodeError (a ValueError) *)
Definition ascii_encode (s : pystr) : option bytes :=
  if forallb is_ascii s then Some (map b8 s) else None.

(* Py_ISSPACE *)
Definition is_space (c : N) : bool := ((c =? 32) || ((9 <=? c) && (c <=? 13)))%N.

(* _PyLong_DigitValue restricted to base 16 *)
Definition hexdig (c : N) : option N :=
  if ((48 <=? c) && (c <=? 57))%N then Some (c - 48)%N
  else if ((97 <=? c) && (c <=? 102))%N then Some (c - 87)%N
  else if ((65 <=? c) && (c <=? 70))%N then Some (c - 55)%N
  else None.

(* bytes.fromhex: whitespace is skipped between bytes only; [top] is the pending high nibble.
   None = ValueError. *)
Fixpoint fromhex_aux (s : pystr) (top : option N) : option bytes :=
  match s with
  | [] => match top with None => Some [] | Some _ => None end
  | c :: r =>
      match top with
      | None =>
          if is_space c then fromhex_aux r None
          else match hexdig c with Some d => fromhex_aux r (Some d) | None => None end
      | Some t =>
          match hexdig c with
          | Some d => match fromhex_aux r None with Some l => Some (b8 (16 * t + d) :: l) | None => None end
          | None => None
          end
      end
  end.
Definition fromhex (s : pystr) : option bytes := fromhex_aux s None.

(* str.removeprefix('0x') *)
Definition rm0x (s : pystr) : pystr :=
  match s with 48%N :: 120%N :: r => r | _ => s end.

(* encoding.scrub_input (the TypeError branch for other Python types is outside the model) *)
Definition scrub_input (v : pyin) : result bytes :=
  match v with
  | PB b => Ok b
  | PS s => match fromhex (rm0x s) with
            | Some b => Ok b
            | None => of_option (ascii_encode s)
            end
  end.

(* lower-case hex notation of a byte string (bytes.hex()) — used to state that a hex string
   denotes its bytes *)
Definition hexchar (n : N) : N := if (n <? 10)%N then (48 + n)%N else (87 + n)%N.
Definition hex_of (b : bytes) : pystr :=
  flat_map (fun x => [hexchar (Byte.to_N x / 16); hexchar (Byte.to_N x mod 16)]) b.

(* ------------------------------------------------------------------------------------------- *)
(* Oracles                                                                                     *)
(* ------------------------------------------------------------------------------------------- *)

(* outcome of a native verification call *)
Inductive pres :=
| PTrue            (* returned a true value (pysodium: returned at all) *)
| PFalse           (* returned a false value *)
| PValueError      (* raised ValueError or a subclass *)
| POther.          (* raised any other exception *)

Record prims := {
  (* hashlib.blake2b(data, digest_size=n).digest(); pysodium.crypto_generichash is size 32 *)
  blake2b : nat -> bytes -> bytes;
  sha256 : bytes -> bytes;
  (* base58.b58encode_check / b58decode_check (None = ValueError) *)
  b58enc : bytes -> bytes;
  b58dec : bytes -> option bytes;
  (* pysodium *)
  ed_seed_keypair : bytes -> option (bytes * bytes);      (* seed -> (pk, sk) *)
  ed_sk_to_pk : bytes -> option bytes;
  ed_sk_to_seed : bytes -> option bytes;
  ed_sign : bytes -> bytes -> option bytes;               (* crypto_sign_detached digest sk *)
  ed_verify : bytes -> bytes -> bytes -> pres;            (* crypto_sign_verify_detached sig digest pk *)
  (* coincurve; signatures in compact form (serialize_compact . der_to_cdata / cdata_to_der . deserialize_compact) *)
  sp_pk : bytes -> option bytes;                          (* PrivateKey(sk).public_key.format() *)
  sp_sign : bytes -> bytes -> option bytes;               (* sk, digest -> 64 bytes *)
  sp_decode : bytes -> pres;                              (* coincurve.PublicKey(pk): PTrue = constructed *)
  sp_parse : bytes -> pres;                               (* ecdsa.deserialize_compact(sig): PTrue = parsed (r, s < n) *)
  sp_verify : bytes -> bytes -> bytes -> pres;            (* pk, sig, digest *)
  (* fastecdsa, P-256; the secret is the integer d *)
  p2_pk : N -> option bytes;                              (* SEC1 compressed d*G *)
  p2_sign : N -> bytes -> option (N * N);                 (* d, digest -> (r, s) *)
  p2_decode : bytes -> pres;                              (* SEC1Encoder.decode_public_key: PTrue = decoded *)
  p2_verify : bytes -> bytes -> N -> N -> pres;           (* pk, digest, r, s *)
  (* py_ecc G2MessageAugmentation; the secret is an integer *)
  bl_pk : N -> option bytes;                              (* SkToPk *)
  bl_sign : N -> bytes -> option bytes;                   (* Sign sk message *)
  bl_verify : bytes -> bytes -> bytes -> pres;            (* Verify pk message sig *)
  (* hashlib.pbkdf2_hmac('sha512', password, salt, 32768, 32) *)
  pbkdf2 : bytes -> bytes -> bytes;
  (* pysodium.crypto_secretbox(msg, nonce, k) / crypto_secretbox_open(c, nonce, k) *)
  secretbox : bytes -> bytes -> bytes -> option bytes;
  secretbox_open : bytes -> bytes -> bytes -> option bytes;
  (* mnemonic.Mnemonic *)
  to_seed : pystr -> pystr -> option bytes;               (* Mnemonic.to_seed(mnemonic, passphrase) *)
  nf_split : pystr -> list pystr;                         (* normalize_string(m).split(' ') *)
  word_index : pystr -> option N                          (* wordlist.index(w); None = ValueError *)
}.

(* ------------------------------------------------------------------------------------------- *)
(* Curves and keys                                                                             *)
(* ------------------------------------------------------------------------------------------- *)

Inductive curve := Ed | Sp | P2 | BL.

Definition all_curves : list curve := [Ed; Sp; P2; BL].

Definition curve_tag (c : curve) : bytes :=
  match c with Ed => tx "ed" | Sp => tx "sp" | P2 => tx "p2" | BL => tx "BL" end.

(* the if/elif chain [curve == b'ed' ... b'sp' ... b'p2' ... b'BL' ... else] *)
Definition curve_of_tag (t : bytes) : option curve :=
  if bytes_eqb t (tx "ed") then Some Ed
  else if bytes_eqb t (tx "sp") then Some Sp
  else if bytes_eqb t (tx "p2") then Some P2
  else if bytes_eqb t (tx "BL") then Some BL
  else None.

Definition curve_eqb (a b : curve) : bool :=
  match a, b with Ed, Ed | Sp, Sp | P2, P2 | BL, BL => true | _, _ => false end.

(* Key(public_point, secret_exponent, curve): the [curve] attribute is an arbitrary bytes object *)
Record key := { pub : bytes; sec : option bytes; ktag : bytes }.

(* [if not self.secret_exponent]: None and b'' are both falsy *)
Definition secret_of (k : key) : option bytes :=
  match sec k with Some (b :: r) => Some (b :: r) | _ => None end.

Definition nonempty (b : bytes) : bool := match b with [] => false | _ => true end.

Definition le_to_N (l : bytes) : N := be_to_N (rev l).       (* int.from_bytes(l, 'little') *)

(* int.to_bytes(width, 'big'); None = OverflowError *)
Definition to_bytes_be (width : nat) (n : N) : option bytes :=
  if (n <? 256 ^ N.of_nat width)%N then Some (N_to_be width n) else None.

(* ------------------------------------------------------------------------------------------- *)
(* The base58 table (encoding.base58_encodings) and base58_encode / base58_decode              *)
(* ------------------------------------------------------------------------------------------- *)

Record row := { r_txt : bytes; r_enclen : nat; r_bin : bytes; r_paylen : nat }.

Definition mkrow (t : string) (el : nat) (bin : string) (pl : nat) : row :=
  {| r_txt := tx t; r_enclen := el; r_bin := hx bin; r_paylen := pl |}.

(* All 43 rows of /repo's table in its order (rows [SSp]/[GSp] as repaired by the fix of defect #29). *)
Definition table : list row := [
  mkrow "B" 51 "0134" 32;
  mkrow "o" 51 "0574" 32;
  mkrow "Lo" 52 "85e9" 32;
  mkrow "LLo" 53 "1d9f6d" 32;
  mkrow "P" 51 "02aa" 32;
  mkrow "Co" 52 "4fc7" 32;
  mkrow "tz1" 36 "06a19f" 20;
  mkrow "tz2" 36 "06a1a1" 20;
  mkrow "tz3" 36 "06a1a4" 20;
  mkrow "tz4" 36 "06a1a6" 20;
  mkrow "KT1" 36 "025a79" 20;
  mkrow "txr1" 37 "0180781f" 20;
  mkrow "sr1" 36 "067c75" 20;
  mkrow "src1" 54 "11a5868a" 32;
  mkrow "srs1" 54 "11a5ebf0" 32;
  mkrow "srib1" 55 "03ff8a916e" 32;
  mkrow "srib2" 55 "03ff8a918c" 32;
  mkrow "id" 30 "9967" 16;
  mkrow "expr" 54 "0d2c401b" 32;
  mkrow "edsk" 54 "0d0f3a07" 32;
  mkrow "edpk" 54 "0d0f25d9" 32;
  mkrow "spsk" 54 "11a2e0c9" 32;
  mkrow "p2sk" 54 "1051eebd" 32;
  mkrow "edesk" 88 "075a3cb329" 56;
  mkrow "spesk" 88 "09edf1ae96" 56;
  mkrow "p2esk" 88 "09303973ab" 56;
  mkrow "sppk" 55 "03fee256" 33;
  mkrow "p2pk" 55 "03b28b7f" 33;
  mkrow "SSp" 53 "26f888" 32;
  mkrow "GSp" 54 "055c00" 33;
  mkrow "edsk" 98 "2bf64e07" 64;
  mkrow "edsig" 99 "09f5cd8612" 64;
  mkrow "spsig" 99 "0d7365133f" 64;
  mkrow "p2sig" 98 "36f02c34" 64;
  mkrow "sig" 96 "04822b" 64;
  mkrow "Net" 15 "575200" 4;
  mkrow "nce" 53 "45dca9" 32;
  mkrow "btz1" 37 "010231df" 20;
  mkrow "vh" 52 "016af2" 32;
  mkrow "BLsig" 142 "28ab40cf" 96;
  mkrow "BLpk" 76 "069587cc" 48;
  mkrow "BLsk" 54 "0396c028" 32;
  mkrow "BLesk" 88 "02051e3519" 56
].

Definition starts_with (p v : bytes) : bool := bytes_eqb (firstn (length p) v) p.

Definition dec_match (v : bytes) (r : row) : bool :=
  Nat.eqb (length v) (r_enclen r) && starts_with (r_txt r) v.

Definition enc_match (v prefix : bytes) (r : row) : bool :=
  Nat.eqb (length v) (r_paylen r) && bytes_eqb prefix (r_txt r).

Section WithPrims.
Variable P : prims.

(* base58_decode: first row with this length and textual prefix; checksum; the decoded bytes must
   carry the row's binary prefix (repair of defect #21), which is cut off *)
Definition base58_decode (v : bytes) : result bytes :=
  match find (dec_match v) table with
  | None => Reject
  | Some r =>
      match b58dec P v with
      | None => Reject
      | Some d => if starts_with (r_bin r) d then Ok (skipn (length (r_bin r)) d) else Reject
      end
  end.

(* base58_encode: first row with this payload length and exactly this textual prefix *)
Definition base58_encode (v prefix : bytes) : result bytes :=
  match find (enc_match v prefix) table with
  | None => Reject
  | Some r => Ok (b58enc P (r_bin r ++ v))
  end.

(* ------------------------------------------------------------------------------------------- *)
(* Key.sign                                                                                    *)
(* ------------------------------------------------------------------------------------------- *)

(* what is handed to the native primitive and what comes back, per curve *)
Definition raw_sign (c : curve) (sk em : bytes) : result bytes :=
  match c with
  | Ed => of_option (ed_sign P (blake2b P 32 em) sk)
  | Sp => of_option (sp_sign P sk (blake2b P 32 em))
  | P2 => match p2_sign P (be_to_N sk) (blake2b P 32 em) with
          | Some (r, s) =>
              match to_bytes_be 32 r, to_bytes_be 32 s with
              | Some rb, Some sb => Ok (rb ++ sb)
              | _, _ => Reject
              end
          | None => Reject
          end
  | BL => of_option (bl_sign P (le_to_N sk) em)
  end.

(* generic form [sig] except for BLS, whose 96-byte signatures have no generic form
   (repair of defect #20) *)
Definition sig_prefix (tag : bytes) (generic : bool) : bytes :=
  if generic && negb (bytes_eqb tag (tx "BL")) then tx "sig" else tag ++ tx "sig".

Definition key_sign (k : key) (m : pyin) (generic : bool) : result pystr :=
  let* em := scrub_input m in
  match secret_of k with
  | None => Reject
  | Some sk =>
      match curve_of_tag (ktag k) with
      | None => Reject
      | Some c =>
          let* signature := raw_sign c sk em in
          let* e := base58_encode signature (sig_prefix (ktag k) generic) in
          Ok (str_of e)
      end
  end.

(* ------------------------------------------------------------------------------------------- *)
(* Key.verify                                                                                  *)
(* ------------------------------------------------------------------------------------------- *)

Inductive verdict :=
| Valid      (* returned True *)
| Invalid    (* raised ValueError *)
| Crashed.   (* raised another exception (fastecdsa's EcdsaError / InvalidSEC1PublicKey) *)

Definition verdict_of (p : pres) : verdict :=
  match p with PTrue => Valid | PFalse => Invalid | PValueError => Invalid | POther => Crashed end.

Definition raw_verify (c : curve) (pk ds em : bytes) : verdict :=
  match c with
  | Ed => verdict_of (ed_verify P ds (blake2b P 32 em) pk)
  | Sp => match sp_decode P pk with
          | PTrue => match sp_parse P ds with
                     | PTrue => verdict_of (sp_verify P pk ds (blake2b P 32 em))
                     | PFalse => Crashed
                     | PValueError => Invalid
                     | POther => Crashed
                     end
          | PFalse => Crashed
          | PValueError => Invalid
          | POther => Crashed
          end
  | P2 => match p2_decode P pk with
          | PTrue => verdict_of (p2_verify P pk (blake2b P 32 em) (be_to_N (firstn 32 ds)) (be_to_N (skipn 32 ds)))
          | PFalse => Crashed      (* decode_public_key never returns a false value *)
          | PValueError => Invalid
          | POther => Crashed
          end
  | BL => verdict_of (bl_verify P pk em ds)
  end.

Definition key_verify (k : key) (sg m : pyin) : verdict :=
  match scrub_input sg, scrub_input m with
  | Ok es, Ok em =>
      if negb (nonempty (pub k)) then Invalid
      else if negb (bytes_eqb (firstn 3 es) (tx "sig")) && negb (bytes_eqb (ktag k) (firstn 2 es)) then Invalid
      else match base58_decode es with
           | Reject => Invalid
           | Ok ds =>
               match curve_of_tag (ktag k) with
               | None => Invalid
               | Some c => raw_verify c (pub k) ds em
               end
           end
  | _, _ => Invalid
  end.

End WithPrims.

(* ------------------------------------------------------------------------------------------- *)
(* Laws assumed of the oracles (hypotheses of the theorems)                                    *)
(* ------------------------------------------------------------------------------------------- *)

(* rows the key glue uses *)
Definition used_txt : list string :=
  ["tz1"; "tz2"; "tz3"; "tz4"; "edsk"; "edpk"; "spsk"; "p2sk"; "edesk"; "spesk"; "p2esk"; "sppk"; "p2pk";
   "edsig"; "spsig"; "p2sig"; "sig"; "BLsig"; "BLpk"; "BLsk"; "BLesk"]%string.
Definition used_row (r : row) : bool := existsb (fun t => bytes_eqb (tx t) (r_txt r)) used_txt.
Definition used_rows : list row := filter used_row table.

(* base58check: decoding inverts encoding, the text is ASCII, and for every used row the encoded
   length and textual prefix are the ones of the table for every payload of the row's length
   (the last is property C09's prefix-and-length theorem). *)
Record b58_laws (P : prims) : Prop := {
  b58_inv : forall x, b58dec P (b58enc P x) = Some x;
  b58_ascii : forall x, forallb (fun b => is_ascii (Byte.to_N b)) (b58enc P x) = true;
  b58_shape : forall r p, In r used_rows -> length p = r_paylen r ->
      length (b58enc P (r_bin r ++ p)) = r_enclen r /\ starts_with (r_txt r) (b58enc P (r_bin r ++ p)) = true
}.

(* [keypair P c se pk sk]: the native key derivation of curve [c] maps the secret exponent / seed [se]
   to the public point [pk] and the stored secret [sk] (what Key.from_secret_exponent keeps). *)
Definition keypair (P : prims) (c : curve) (se pk sk : bytes) : Prop :=
  match c with
  | Ed => (ed_seed_keypair P se = Some (pk, sk)) \/
          (length se = 64 /\ sk = se /\ exists seed, ed_seed_keypair P seed = Some (pk, se))
  | Sp => sp_pk P se = Some pk /\ sk = se
  | P2 => p2_pk P (be_to_N se) = Some pk /\ sk = se
  | BL => bl_pk P (le_to_N se) = Some pk /\ sk = se
  end.

(* the native payload a signature is computed over *)
Definition payload (P : prims) (c : curve) (em : bytes) : bytes :=
  match c with BL => em | _ => blake2b P 32 em end.

Definition siglen (c : curve) : nat := match c with BL => 96 | _ => 64 end.
Definition pklen (c : curve) : nat := match c with Ed => 32 | Sp => 33 | P2 => 33 | BL => 48 end.

(* Per curve: for a key pair produced by the native derivation, native signing succeeds on every
   payload, yields a signature of the curve's length, and native verification accepts it. *)
Record sig_laws (P : prims) : Prop := {
  sl_b58 : b58_laws P;
  sl_ed : forall seed pk sk d, ed_seed_keypair P seed = Some (pk, sk) ->
      ed_sk_to_pk P sk = Some pk /\ length seed = 32 /\ length sk = 64 /\ length pk = 32 /\
      exists s, ed_sign P d sk = Some s /\ length s = 64 /\ ed_verify P s d pk = PTrue;
  sl_sp : forall sk pk d, sp_pk P sk = Some pk ->
      length pk = 33 /\ sp_decode P pk = PTrue /\
      exists s, sp_sign P sk d = Some s /\ length s = 64 /\ sp_parse P s = PTrue /\ sp_verify P pk s d = PTrue;
  sl_p2 : forall sk pk d, p2_pk P (be_to_N sk) = Some pk ->
      length pk = 33 /\ p2_decode P pk = PTrue /\
      exists r s, p2_sign P (be_to_N sk) d = Some (r, s) /\ (r < 2 ^ 256)%N /\ (s < 2 ^ 256)%N /\
                  p2_verify P pk d r s = PTrue;
  sl_bl : forall sk pk m, bl_pk P (le_to_N sk) = Some pk ->
      length pk = 48 /\
      exists s, bl_sign P (le_to_N sk) m = Some s /\ length s = 96 /\ bl_verify P pk m s = PTrue
}.

(* ------------------------------------------------------------------------------------------- *)
(* Oracles as finite tables (correspondence run)                                               *)
(* ------------------------------------------------------------------------------------------- *)

Inductive arg := AB (b : bytes) | AN (n : N) | AS (s : pystr).

Inductive ret :=
| Ret (l : list arg)    (* returned; a tuple is a list, True = [AN 1], False = [AN 0], None = [] *)
| RaiseV                (* raised ValueError (or a subclass) *)
| RaiseO.               (* raised another exception *)

Definition otable := list (string * list arg * ret).

Definition arg_eqb (a b : arg) : bool :=
  match a, b with
  | AB x, AB y => bytes_eqb x y
  | AN x, AN y => N.eqb x y
  | AS x, AS y => list_eqb N.eqb x y
  | _, _ => false
  end.

Definition lookup (t : otable) (f : string) (args : list arg) : option ret :=
  match find (fun e => String.eqb (fst (fst e)) f && list_eqb arg_eqb (snd (fst e)) args) t with
  | Some e => Some (snd e)
  | None => None
  end.

Definition get_b (o : option ret) : option bytes :=
  match o with Some (Ret [AB b]) => Some b | _ => None end.
Definition get_bb (o : option ret) : option (bytes * bytes) :=
  match o with Some (Ret [AB a; AB b]) => Some (a, b) | _ => None end.
Definition get_nn (o : option ret) : option (N * N) :=
  match o with Some (Ret [AN a; AN b]) => Some (a, b) | _ => None end.
Definition get_n (o : option ret) : option N :=
  match o with Some (Ret [AN a]) => Some a | _ => None end.
Definition get_total (o : option ret) : bytes :=
  match o with Some (Ret [AB b]) => b | _ => [] end.
(* a call that was not recorded counts as "raised another exception" *)
Definition get_pres (o : option ret) : pres :=
  match o with
  | Some (Ret [AN 0%N]) => PFalse
  | Some (Ret _) => PTrue
  | Some RaiseV => PValueError
  | Some RaiseO => POther
  | None => POther
  end.
Definition get_strs (o : option ret) : list pystr :=
  match o with
  | Some (Ret l) => flat_map (fun a => match a with AS s => [s] | _ => [] end) l
  | _ => []
  end.

Definition prims_of (t : otable) : prims := {|
  blake2b := fun n d => get_total (lookup t "blake2b" [AN (N.of_nat n); AB d]);
  sha256 := fun d => get_total (lookup t "sha256" [AB d]);
  b58enc := fun d => get_total (lookup t "b58enc" [AB d]);
  b58dec := fun d => get_b (lookup t "b58dec" [AB d]);
  ed_seed_keypair := fun s => get_bb (lookup t "ed_seed_keypair" [AB s]);
  ed_sk_to_pk := fun s => get_b (lookup t "ed_sk_to_pk" [AB s]);
  ed_sk_to_seed := fun s => get_b (lookup t "ed_sk_to_seed" [AB s]);
  ed_sign := fun d sk => get_b (lookup t "ed_sign" [AB d; AB sk]);
  ed_verify := fun s d pk => get_pres (lookup t "ed_verify" [AB s; AB d; AB pk]);
  sp_pk := fun sk => get_b (lookup t "sp_pk" [AB sk]);
  sp_sign := fun sk d => get_b (lookup t "sp_sign" [AB sk; AB d]);
  sp_decode := fun pk => get_pres (lookup t "sp_decode" [AB pk]);
  sp_parse := fun s => get_pres (lookup t "sp_parse" [AB s]);
  sp_verify := fun pk s d => get_pres (lookup t "sp_verify" [AB pk; AB s; AB d]);
  p2_pk := fun d => get_b (lookup t "p2_pk" [AN d]);
  p2_sign := fun d h => get_nn (lookup t "p2_sign" [AN d; AB h]);
  p2_decode := fun pk => get_pres (lookup t "p2_decode" [AB pk]);
  p2_verify := fun pk h r s => get_pres (lookup t "p2_verify" [AB pk; AB h; AN r; AN s]);
  bl_pk := fun d => get_b (lookup t "bl_pk" [AN d]);
  bl_sign := fun d m => get_b (lookup t "bl_sign" [AN d; AB m]);
  bl_verify := fun pk m s => get_pres (lookup t "bl_verify" [AB pk; AB m; AB s]);
  pbkdf2 := fun pw salt => get_total (lookup t "pbkdf2" [AB pw; AB salt]);
  secretbox := fun m n k => get_b (lookup t "secretbox" [AB m; AB n; AB k]);
  secretbox_open := fun c n k => get_b (lookup t "secretbox_open" [AB c; AB n; AB k]);
  to_seed := fun m p => get_b (lookup t "to_seed" [AS m; AS p]);
  nf_split := fun m => get_strs (lookup t "nf_split" [AS m]);
  word_index := fun w => get_n (lookup t "word_index" [AS w])
|}.

(* ------------------------------------------------------------------------------------------- *)
(* Boolean equalities used by the harness                                                      *)
(* ------------------------------------------------------------------------------------------- *)

Definition pystr_eqb : pystr -> pystr -> bool := list_eqb N.eqb.

Definition verdict_eqb (a b : verdict) : bool :=
  match a, b with Valid, Valid | Invalid, Invalid | Crashed, Crashed => true | _, _ => false end.

Definition key_eqb (a b : key) : bool :=
  bytes_eqb (pub a) (pub b) && option_eqb bytes_eqb (sec a) (sec b) && bytes_eqb (ktag a) (ktag b).

Definition row_eqb (a b : row) : bool :=
  bytes_eqb (r_txt a) (r_txt b) && Nat.eqb (r_enclen a) (r_enclen b) && bytes_eqb (r_bin a) (r_bin b)
  && Nat.eqb (r_paylen a) (r_paylen b).
