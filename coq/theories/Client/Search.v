(* Client/Search.v — model of the chain-history search helpers of src/pytezos/rpc/search.py:
   find_state_change_intervals, find_state_change (bisection), walk_state_change_interval,
   find_state_changes.  The node is the oracle [get : Z -> V] (value at a block level), the
   user-supplied [equals] is [eqb].  Generators are modelled by the list they yield.

     def find_state_change_intervals(head, last, get, equals, step=60):
         succ_level = head
         succ_value = get(head)
         levels = list(range(head - step, last, -step))
         if head > last:
             levels.append(last)          # the lowest step can be partial
         for level in levels:
             value = get(level)
             if not equals(value, succ_value):
                 yield succ_level, succ_value, level, value
                 succ_value = value
             succ_level = level

     def find_state_change(head, last, get, equals, pred_value):
         def bisect(start, end):
             if end == start + 1: return end, get(end)
             level = (end + start) // 2
             value = get(level)
             if equals(value, pred_value): return bisect(level, end)
             else:                         return bisect(start, level)
         return bisect(last, head)

     def walk_state_change_interval(head, last, get, equals, head_value, last_value):
         level = last; value = last_value
         while not equals(value, head_value):
             level, value = find_state_change(head, level, get, equals, pred_value=value)
             yield level, value

     def find_state_changes(head, last, get, equals, step=60):
         for int_head, int_head_value, int_tail, int_last_value in reversed(list(find_state_change_intervals(...))):
             yield from walk_state_change_interval(int_head, int_tail, get, equals, int_head_value, int_last_value)

   Fuel: Python's bisect recursion and while loop are not structurally decreasing; the model
   uses explicit fuel [Z.to_nat (head - last)] and returns [None] (OutOfFuel, Python: RecursionError /
   non-termination) when it runs out.  Proofs/Search_proofs.v shows this fuel always suffices
   on the domain of the theorems. *)
From Coq Require Import List ZArith Bool.
Import ListNotations.
Local Open Scope Z_scope.

Section Search.
  Context {V : Type}.
  Variable eqb : V -> V -> bool.
  Variable get : Z -> V.

  (* range(level, stop, -step): level, level-step, ... as long as > stop (step >= 1) *)
  Fixpoint range_down (fuel : nat) (level stop step : Z) : list Z :=
    match fuel with
    | O => []
    | S f => if level >? stop then level :: range_down f (level - step) stop step else []
    end.

  Definition sample_levels (head last step : Z) : list Z :=
    range_down (Z.to_nat (head - last)) (head - step) last step ++ (if head >? last then [last] else []).

  Definition interval := (Z * V * Z * V)%type.   (* int_head, head_value, int_tail, last_value *)

  Fixpoint intervals_loop (levels : list Z) (succ_level : Z) (succ_value : V) : list interval :=
    match levels with
    | [] => []
    | level :: rest =>
        let value := get level in
        if eqb value succ_value then intervals_loop rest level succ_value
        else (succ_level, succ_value, level, value) :: intervals_loop rest level value
    end.

  Definition find_state_change_intervals (head last step : Z) : list interval :=
    intervals_loop (sample_levels head last step) head (get head).

  Fixpoint bisect (fuel : nat) (pred : V) (start end_ : Z) : option (Z * V) :=
    match fuel with
    | O => None
    | S f =>
        if end_ =? start + 1 then Some (end_, get end_)
        else
          let level := (end_ + start) / 2 in
          if eqb (get level) pred then bisect f pred level end_ else bisect f pred start level
    end.

  Definition find_state_change (head last : Z) (pred : V) : option (Z * V) :=
    bisect (Z.to_nat (head - last)) pred last head.

  Fixpoint walk (fuel : nat) (head : Z) (head_value : V) (level : Z) (value : V) : option (list (Z * V)) :=
    if eqb value head_value then Some []
    else
      match fuel with
      | O => None
      | S f =>
          match find_state_change head level value with
          | None => None
          | Some (l, v) =>
              match walk f head head_value l v with
              | Some r => Some ((l, v) :: r)
              | None => None
              end
          end
      end.

  Definition walk_state_change_interval (head last : Z) (head_value last_value : V) : option (list (Z * V)) :=
    walk (Z.to_nat (head - last)) head head_value last last_value.

  Fixpoint walk_all (ivs : list interval) : option (list (Z * V)) :=
    match ivs with
    | [] => Some []
    | (h, hv, t, tv) :: r =>
        match walk_state_change_interval h t hv tv, walk_all r with
        | Some a, Some b => Some (a ++ b)
        | _, _ => None
        end
    end.

  Definition find_state_changes (head last step : Z) : option (list (Z * V)) :=
    walk_all (rev (find_state_change_intervals head last step)).
End Search.

(* ---- executable interface for the correspondence cases: histories over Z ---- *)

(* piecewise-constant history: value d below the first breakpoint, then the value of the last
   breakpoint (s, v) with s <= x; breakpoints ascending *)
Definition pw (d : Z) (segs : list (Z * Z)) (x : Z) : Z :=
  fold_left (fun acc sv => if fst sv <=? x then snd sv else acc) segs d.

Record case := { c_head : Z; c_last : Z; c_step : Z; c_default : Z; c_segs : list (Z * Z); c_pred : Z }.

Record observation := {
  o_changes : option (list (Z * Z));           (* list(find_state_changes(head, last, get, ==, step)) *)
  o_intervals : list (Z * Z * Z * Z);          (* list(find_state_change_intervals(...)) *)
  o_single : option (Z * Z)                    (* find_state_change(head, last, get, ==, pred_value) *)
}.

Definition run_case (c : case) : observation :=
  let g := pw (c_default c) (c_segs c) in
  {| o_changes := find_state_changes Z.eqb g (c_head c) (c_last c) (c_step c);
     o_intervals := find_state_change_intervals Z.eqb g (c_head c) (c_last c) (c_step c);
     o_single := find_state_change Z.eqb g (c_head c) (c_last c) (c_pred c) |}.

Definition zz_eqb (a b : Z * Z) : bool := (fst a =? fst b) && (snd a =? snd b).
Fixpoint zzlist_eqb (a b : list (Z * Z)) : bool :=
  match a, b with
  | [], [] => true
  | x :: a', y :: b' => zz_eqb x y && zzlist_eqb a' b'
  | _, _ => false
  end.
Definition iv_eqb (a b : Z * Z * Z * Z) : bool :=
  let '(a1, a2, a3, a4) := a in let '(b1, b2, b3, b4) := b in
  (a1 =? b1) && (a2 =? b2) && (a3 =? b3) && (a4 =? b4).
Fixpoint ivlist_eqb (a b : list (Z * Z * Z * Z)) : bool :=
  match a, b with
  | [], [] => true
  | x :: a', y :: b' => iv_eqb x y && ivlist_eqb a' b'
  | _, _ => false
  end.
Definition opt_eqb {A} (e : A -> A -> bool) (a b : option A) : bool :=
  match a, b with Some x, Some y => e x y | None, None => true | _, _ => false end.
Definition obs_eqb (a b : observation) : bool :=
  opt_eqb zzlist_eqb (o_changes a) (o_changes b) && ivlist_eqb (o_intervals a) (o_intervals b)
  && opt_eqb zz_eqb (o_single a) (o_single b).

(* ---- histories whose values carry a field the caller's `equals` ignores ----
   value at level x = (pw d segs x, x mod m): the second field drifts with the level;
   `equals` compares the first field only (coarser than ==). *)
Definition pw2 (d : Z) (segs : list (Z * Z)) (m : Z) (x : Z) : Z * Z := (pw d segs x, x mod m).
Definition fst_eqb (a b : Z * Z) : bool := fst a =? fst b.

Record observation2 := {
  o2_changes : option (list (Z * (Z * Z)));
  o2_single : option (Z * (Z * Z))
}.

(* case: (case, m); pred_value = (c_pred, 0) *)
Definition run_case2 (cm : case * Z) : observation2 :=
  let c := fst cm in
  let g := pw2 (c_default c) (c_segs c) (snd cm) in
  {| o2_changes := find_state_changes fst_eqb g (c_head c) (c_last c) (c_step c);
     o2_single := find_state_change fst_eqb g (c_head c) (c_last c) (c_pred c, 0) |}.

Definition zzz_eqb (a b : Z * (Z * Z)) : bool := (fst a =? fst b) && zz_eqb (snd a) (snd b).
Fixpoint zzzlist_eqb (a b : list (Z * (Z * Z))) : bool :=
  match a, b with
  | [], [] => true
  | x :: a', y :: b' => zzz_eqb x y && zzzlist_eqb a' b'
  | _, _ => false
  end.
Definition obs2_eqb (a b : observation2) : bool :=
  opt_eqb zzzlist_eqb (o2_changes a) (o2_changes b) && opt_eqb zzz_eqb (o2_single a) (o2_single b).
