(* Client/OpSign.v — signing and hashing of operation groups (C23).

   Mirrors  src/pytezos/operation/group.py  OperationGroup.sign / binary_payload / hash
            src/pytezos/rpc/kind.py         validation_passes
            src/pytezos/crypto/key.py       Key.sign(message, generic=True): which base58 prefix is used,
                                            and that base58_encode insists on the prefix's payload length.
   Cryptography is not computed here: the per-curve signature scheme (for tz1/tz2/tz3 including its
   Blake2b pre-hash), Blake2b-256 and base58check are Section variables; the laws the theorems need
   of them are hypotheses of Proofs/OpSign_proofs.v and appear, universally quantified, in the
   closed theorems.  Definitions only. *)
From Coq.Strings Require Import Byte.
From Coq Require Import List NArith ZArith Bool.
From PV Require Import Base.Bytes Base.Result Codec.Ops.
Import ListNotations.

(* rpc/kind.py validation_passes, for the forgeable kinds; compared with /repo on every run *)
Definition validation_pass (c : content) : Z :=
  match c with
  | CFailingNoop _ => (-1)%Z
  | CEndorsement _ => 0%Z
  | CActivate _ _ => 2%Z
  | CManager _ _ => 3%Z
  end.

(* base58 kinds involved *)
Inductive b58kind := KSig | KBLsig | KOpHash.              (* "sig" (64 bytes), "BLsig" (96), "o" (32) *)
Definition b58_len (k : b58kind) : nat := match k with KSig => 64 | KBLsig => 96 | KOpHash => 32 end.

(* Key.sign(generic=True): generic prefix, except BLS which has no generic form *)
Definition sig_kind (c : kcurve) : b58kind := match c with KBl => KBLsig | _ => KSig end.

(* the watermark the protocol prescribes: 0x03 for everything but consensus operations, which are
   signed under 0x02 ++ chain id *)
Definition is_consensus (c : content) : bool := Z.eqb (validation_pass c) 0.

Section Sign.
  Variables sk : Type.
  Variable sign_raw : kcurve -> sk -> bytes -> bytes.       (* signature scheme of the curve, on the message *)
  Variable blake2b32 : bytes -> bytes.
  Variable b58 : b58kind -> bytes -> bytes.                 (* base58check text of a payload under a prefix *)
  Variable unb58 : bytes -> option bytes.                   (* forge_base58: text -> payload without prefix *)

  (* OperationGroup.sign: watermark selection *)
  Definition watermark (g : group) (chain_id : option bytes) : result bytes :=
    match contents g with
    | [] => Reject                                           (* self.contents[0]: IndexError *)
    | c0 :: _ =>
        let p := validation_pass c0 in
        if existsb (fun c => negb (Z.eqb (validation_pass c) p)) (contents g) then Reject   (* Mixed validation passes *)
        else if Z.eqb p 0 then
               match chain_id with
               | None => Reject                              (* Chain ID is undefined *)
               | Some ch => Ok (x02 :: ch)
               end
             else Ok [x03]
    end.

  Record signed := { s_msg : bytes; s_kind : b58kind; s_sig : bytes; s_text : bytes }.

  Definition sign_group (cv : kcurve) (key : sk) (g : group) (chain_id : option bytes) : result signed :=
    match watermark g chain_id with
    | Reject => Reject
    | Ok w =>
        let msg := w ++ forge_operation_group g in
        let raw := sign_raw cv key msg in
        (* base58_encode(signature, prefix) raises unless the payload has the prefix's length *)
        if Nat.eqb (length raw) (b58_len (sig_kind cv))
        then Ok {| s_msg := msg; s_kind := sig_kind cv; s_sig := raw; s_text := b58 (sig_kind cv) raw |}
        else Reject
    end.

  (* binary_payload = forged bytes ++ forge_base58(signature) *)
  Definition binary_payload (g : group) (s : signed) : result bytes :=
    match unb58 (s_text s) with
    | Some raw => Ok (forge_operation_group g ++ raw)
    | None => Reject
    end.

  (* hash = base58 "o" of Blake2b-256 of the binary payload *)
  Definition op_hash (g : group) (s : signed) : result bytes :=
    match binary_payload g s with
    | Ok p => Ok (b58 KOpHash (blake2b32 p))
    | Reject => Reject
    end.
End Sign.

(* ---------------------------------------------------------------- spec side *)

Definition uniform_pass (g : group) : Prop :=
  match contents g with
  | [] => False
  | c0 :: _ => Forall (fun c => validation_pass c = validation_pass c0) (contents g)
  end.

Definition consensus_group (g : group) : bool :=
  match contents g with [] => false | c0 :: _ => is_consensus c0 end.

(* protocol rule *)
Definition spec_watermark (g : group) (chain_id : bytes) : bytes :=
  if consensus_group g then x02 :: chain_id else [x03].

(* ---------------------------------------------------------------- interface for the correspondence cases:
   the implementation's signature is supplied as the answer of the signing oracle; base58 and
   Blake2b are replaced by the identity (they are checked outside, by the harness' oracle (B)) *)
Definition run_case (x : kcurve * group * option bytes * bytes) : result (bytes * N * bytes) :=
  let '(cv, g, chain, sig) := x in
  match sign_group unit (fun _ _ _ => sig) (fun _ b => b) cv tt g chain with
  | Reject => Reject
  | Ok s =>
      match binary_payload Some g s with
      | Ok p => Ok (s_msg s, match s_kind s with KSig => 0 | KBLsig => 1 | KOpHash => 2 end, p)%N
      | Reject => Reject
      end
  end.

Definition case_eqb (a b : result (bytes * N * bytes)) : bool :=
  result_eqb (fun u v => let '(m1, k1, p1) := u in let '(m2, k2, p2) := v in
                         bytes_eqb m1 m2 && N.eqb k1 k2 && bytes_eqb p1 p2) a b.

Definition pass_table : list (N * Z) :=
  [(0, validation_pass (CEndorsement 0)); (4, validation_pass (CActivate [] []));
   (17, validation_pass (CFailingNoop []));
   (107, validation_pass (CManager (mkh (KEd, []) 0 0 0 0) (MDelegation None)))]%N.
