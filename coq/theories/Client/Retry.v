(* Client/Retry.v — model of RpcNode.request's retry loop and of _is_transient_response
   (src/pytezos/rpc/node.py).  Responses are abstracted to what the code inspects. *)
From Coq Require Import List ZArith Bool Arith Lia.
Import ListNotations.

(* status classes: 200, 401, 404, any other status below 500, any status >= 500 *)
Inductive status := S200 | S401 | S404 | SOther | S5xx.

(* What _is_transient_response can see of a body:
   json_list : content-type is exactly application/json and the body parses to a JSON list
   has_proto : some element is an object whose "id" starts with "proto."
   has_temp  : some element is an object whose "kind" is "temporary"
   has_marker: the raw text contains "prevalidator.ml" *)
Record body := { json_list : bool; has_proto : bool; has_temp : bool; has_marker : bool }.

Record resp := { st : status; bd : body }.

Definition transient_body (b : body) : bool :=
  if json_list b then
    if has_proto b then false
    else if has_temp b then true
    else has_marker b
  else has_marker b.

Definition retriable (r : resp) : bool :=
  match st r with S5xx => transient_body (bd r) | _ => false end.

(* constants of the module; compared with /repo on every run *)
Definition ATTEMPTS : nat := 6.
Definition INITIAL_DELAY_Q : Z := 1.   (* quarter seconds: 0.25 s *)
Definition MAX_DELAY_Q : Z := 8.       (* 2.0 s *)

Inductive outcome :=
| Returned (i : nat)            (* the i-th response object is returned *)
| Unauthorized                  (* RpcError('Unauthorized: path') *)
| NotFound                      (* RpcError('Not found: path') *)
| FromResponse (i : nat).       (* RpcError.from_response(i-th response) *)

Definition classify (i : nat) (r : resp) : outcome :=
  match st r with
  | S401 => Unauthorized
  | S404 => NotFound
  | S200 => Returned i
  | _ => FromResponse i
  end.

Record trace := { requests : nat; delays : list Z; result : outcome }.

(* [loop left i delay rs]: about to send request number [i] (0-based), [left] further
   attempts are allowed after this one. *)
Fixpoint loop (left : nat) (i : nat) (delay : Z) (rs : nat -> resp) : trace :=
  let r := rs i in
  match left with
  | S left' =>
      if retriable r then
        let t := loop left' (S i) (Z.min (delay * 2) MAX_DELAY_Q) rs in
        {| requests := requests t; delays := delay :: delays t; result := result t |}
      else {| requests := S i; delays := []; result := classify i r |}
  | O => {| requests := S i; delays := []; result := classify i r |}
  end.

Definition run (rs : nat -> resp) : trace := loop (ATTEMPTS - 1) 0 INITIAL_DELAY_Q rs.

(* ---- executable interface for the correspondence cases ---- *)
Definition dflt_resp : resp := {| st := S200; bd := {| json_list := false; has_proto := false; has_temp := false; has_marker := false |} |}.
Definition run_list (l : list resp) : trace := run (fun i => nth i l dflt_resp).

Definition outcome_eqb (a b : outcome) : bool :=
  match a, b with
  | Returned i, Returned j => Nat.eqb i j
  | Unauthorized, Unauthorized => true
  | NotFound, NotFound => true
  | FromResponse i, FromResponse j => Nat.eqb i j
  | _, _ => false
  end.

Fixpoint zlist_eqb (a b : list Z) : bool :=
  match a, b with
  | [], [] => true
  | x :: a', y :: b' => Z.eqb x y && zlist_eqb a' b'
  | _, _ => false
  end.

(* observation: (requests, delays, outcome) *)
Definition obs (t : trace) : nat * list Z * outcome := (requests t, delays t, result t).
Definition obs_eqb (a b : nat * list Z * outcome) : bool :=
  let '(n1, d1, o1) := a in let '(n2, d2, o2) := b in
  Nat.eqb n1 n2 && zlist_eqb d1 d2 && outcome_eqb o1 o2.

Definition mk (s : status) (j p t m : bool) : resp :=
  {| st := s; bd := {| json_list := j; has_proto := p; has_temp := t; has_marker := m |} |}.
