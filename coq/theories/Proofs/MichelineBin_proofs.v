(* Proofs/MichelineBin_proofs.v — lemmas about Codec/MichelineBin.v.
   Generic in [known] (which primitive tags exist) and [str_ok] (acceptable text, with
   [str_ok [] = true]); instantiated for pytezos at the end (known_prim, utf8_valid). *)
From Coq Require Import List NArith ZArith Bool Lia ZifyBool ZifyN Arith.
From Coq.Strings Require Import Byte.
From PV Require Import Base.Bytes Codec.Micheline Codec.Zarith Codec.Prims Codec.MichelineBin
  Proofs.Zarith_proofs.
Import ListNotations.

Ltac Zify.zify_post_hook ::= Z.to_euclidean_division_equations.

(* ================================================================ 4-byte lengths *)

Lemma N_to_be_4 m :
  N_to_be 4 m = [b8 (m / 256 / 256 / 256); b8 (m / 256 / 256); b8 (m / 256); b8 m]%N.
Proof. reflexivity. Qed.

Lemma be_to_N_4 a b c d :
  be_to_N [a; b; c; d] =
  (((Byte.to_N a * 256 + Byte.to_N b) * 256 + Byte.to_N c) * 256 + Byte.to_N d)%N.
Proof. unfold be_to_N. cbn [be_to_N_acc]. rewrite N.mul_0_l, N.add_0_l. reflexivity. Qed.

Lemma b8_eq_of_mod n a : (n mod 256 = Byte.to_N a)%N -> b8 n = a.
Proof. intro H. apply to_N_inj. rewrite to_N_b8. exact H. Qed.

Lemma be32_length n : length (be32 n) = 4.
Proof. reflexivity. Qed.

Lemma be_to_N_N_to_be m : (m < two32)%N -> be_to_N (N_to_be 4 m) = m.
Proof.
  unfold two32. intro H. rewrite N_to_be_4, be_to_N_4, !to_N_b8. lia.
Qed.

Lemma N_to_be_be_to_N a b c d : N_to_be 4 (be_to_N [a; b; c; d]) = [a; b; c; d].
Proof.
  rewrite N_to_be_4, be_to_N_4.
  pose proof (to_N_lt_256 a). pose proof (to_N_lt_256 b).
  pose proof (to_N_lt_256 c). pose proof (to_N_lt_256 d).
  f_equal; [|f_equal; [|f_equal; [|f_equal]]]; apply b8_eq_of_mod; lia.
Qed.

Lemma be_to_N_4_lt a b c d : (be_to_N [a; b; c; d] < two32)%N.
Proof.
  rewrite be_to_N_4. unfold two32.
  pose proof (to_N_lt_256 a). pose proof (to_N_lt_256 b).
  pose proof (to_N_lt_256 c). pose proof (to_N_lt_256 d). lia.
Qed.

Lemma arr_length b : length (arr b) = 4 + length b.
Proof. unfold arr. rewrite app_length. reflexivity. Qed.

Lemma take_arr_arr b r : fits b = true -> take_arr (arr b ++ r) = Some (b, r).
Proof.
  unfold fits, arr, be32. intro H. rewrite N_to_be_4. cbn [app]. unfold take_arr.
  rewrite <- N_to_be_4, be_to_N_N_to_be by lia.
  rewrite app_length, Nat2N.id.
  destruct (N.of_nat (length b) <=? N.of_nat (length b + length r))%N eqn:E; [|lia].
  rewrite firstn_app, Nat.sub_diag, firstn_all, firstn_O, app_nil_r.
  rewrite skipn_app, Nat.sub_diag, skipn_all, skipn_O. reflexivity.
Qed.

Lemma take_arr_sound bs b r :
  take_arr bs = Some (b, r) -> bs = arr b ++ r /\ fits b = true.
Proof.
  destruct bs as [|a0 [|a1 [|a2 [|a3 r0]]]]; try discriminate. unfold take_arr.
  pose proof (be_to_N_4_lt a0 a1 a2 a3) as Hlt.
  set (len := be_to_N [a0; a1; a2; a3]) in *.
  destruct (len <=? N.of_nat (length r0))%N eqn:E; [|discriminate].
  intro H. apply some_pair_inj in H. destruct H as [<- <-].
  assert (Hl : length (firstn (N.to_nat len) r0) = N.to_nat len) by (apply firstn_length_le; lia).
  split.
  - unfold arr, be32. rewrite Hl, N2Nat.id. unfold len. rewrite N_to_be_be_to_N.
    cbn [app]. rewrite firstn_skipn. reflexivity.
  - unfold fits. rewrite Hl, N2Nat.id. lia.
Qed.

Lemma take_arr_short l4 r (len : N) :
  length l4 = 4 -> be_to_N l4 = len -> (N.of_nat (length r) < len)%N -> take_arr (l4 ++ r) = None.
Proof.
  destruct l4 as [|a0 [|a1 [|a2 [|a3 [|x l]]]]]; try discriminate. intros _ Hlen Hlt.
  cbn [app]. unfold take_arr. rewrite Hlen.
  destruct (len <=? N.of_nat (length r))%N eqn:E; [lia|reflexivity].
Qed.

(* ================================================================ annotations *)

Lemma split_sp_nospace a : no_space a = true -> split_sp a = [a].
Proof.
  unfold no_space. induction a as [|b a IH]; [reflexivity|]. cbn [existsb split_sp].
  rewrite negb_orb, andb_true_iff. intros [Hb Ha]. apply negb_true_iff in Hb. rewrite Hb.
  rewrite IH by exact Ha. reflexivity.
Qed.

Lemma split_sp_app_space a rest :
  no_space a = true -> split_sp (a ++ x20 :: rest) = a :: split_sp rest.
Proof.
  unfold no_space. induction a as [|b a IH]; [reflexivity|]. cbn [existsb split_sp app].
  rewrite negb_orb, andb_true_iff. intros [Hb Ha]. apply negb_true_iff in Hb. rewrite Hb.
  rewrite IH by exact Ha. reflexivity.
Qed.

Lemma split_join l :
  l <> [] -> forallb no_space l = true -> split_sp (join_sp l) = l.
Proof.
  induction l as [|a l IH]; [congruence|]. intros _ H. cbn [forallb] in H.
  apply andb_true_iff in H. destruct H as [Ha Hl]. destruct l as [|b l].
  - cbn [join_sp]. apply split_sp_nospace, Ha.
  - change (join_sp (a :: b :: l)) with (a ++ x20 :: join_sp (b :: l)).
    rewrite split_sp_app_space by exact Ha. rewrite IH; [reflexivity|discriminate|exact Hl].
Qed.

Lemma annots_of_join str_ok annots :
  wf_annots str_ok annots = true -> annots_of (join_sp annots) = annots.
Proof.
  unfold wf_annots. rewrite !andb_true_iff. intros [[[Hsp Hne] _] _].
  destruct annots as [|a [|b l]].
  - reflexivity.
  - cbn [join_sp]. destruct a as [|c a]; [discriminate|].
    unfold annots_of. cbn [forallb] in Hsp. apply andb_true_iff in Hsp.
    apply split_sp_nospace, Hsp.
  - assert (E : exists c x, join_sp (a :: b :: l) = c :: x).
    { change (join_sp (a :: b :: l)) with (a ++ x20 :: join_sp (b :: l)).
      destruct a; cbn [app]; eauto. }
    destruct E as (c & x & E). unfold annots_of. rewrite E, <- E.
    apply split_join; [discriminate|exact Hsp].
Qed.

(* ================================================================ encoder equations *)

Lemma fix_enc_list l :
  (fix go (l : list node) : bytes := match l with [] => [] | x :: r => enc x ++ go r end) l
  = enc_list l.
Proof. induction l as [|x l IH]; [reflexivity|]. cbn [enc_list flat_map]. rewrite IH. reflexivity. Qed.

Lemma enc_seq items : enc (NSeq items) = x02 :: arr (enc_list items).
Proof. cbn [enc]. rewrite fix_enc_list. reflexivity. Qed.

Lemma enc_prim t args annots :
  enc (NPrim t args annots) =
  let has := negb (is_nil annots) in
  let an := if has then arr (join_sp annots) else [] in
  match args with
  | [] => (if has then x04 else x03) :: t :: an
  | [_] => (if has then x06 else x05) :: t :: enc_list args ++ an
  | [_; _] => (if has then x08 else x07) :: t :: enc_list args ++ an
  | _ => x09 :: t :: arr (enc_list args) ++ (if has then an else be32 0)
  end.
Proof. cbn [enc]. rewrite fix_enc_list. reflexivity. Qed.

Lemma enc_nonempty n : enc n <> [].
Proof.
  destruct n as [z|s|b|t args annots|items]; try discriminate.
  rewrite enc_prim. cbv zeta. destruct args as [|a [|b [|c r]]]; discriminate.
Qed.

Lemma fix_wf_list known str_ok l :
  (fix go (l : list node) : bool :=
     match l with [] => true | x :: r => wf_nodeb known str_ok x && go r end) l
  = forallb (wf_nodeb known str_ok) l.
Proof. induction l as [|x l IH]; [reflexivity|]. cbn [forallb]. rewrite IH. reflexivity. Qed.

Lemma wf_seq known str_ok items :
  wf_nodeb known str_ok (NSeq items) =
  forallb (wf_nodeb known str_ok) items && fits (enc_list items).
Proof. cbn [wf_nodeb]. rewrite fix_wf_list. reflexivity. Qed.

Lemma wf_prim known str_ok t args annots :
  wf_nodeb known str_ok (NPrim t args annots) =
  known t && forallb (wf_nodeb known str_ok) args && wf_annots str_ok annots && fits (enc_list args).
Proof. cbn [wf_nodeb]. rewrite fix_wf_list. reflexivity. Qed.

(* ================================================================ decoder equations *)

Scheme Enc_mind := Minimality for MichelineBin.Enc Sort Prop
  with EncList_mind := Minimality for MichelineBin.EncList Sort Prop.
Combined Scheme Enc_EncList_mind from Enc_mind, EncList_mind.

Lemma tag_cases tag :
  tag = x00 \/ tag = x01 \/ tag = x02 \/ tag = x0a \/
  (exists k has, prim_shape tag = Some (k, has)) \/
  (tag <> x00 /\ tag <> x01 /\ tag <> x02 /\ tag <> x0a /\ prim_shape tag = None).
Proof.
  destruct tag; auto 6;
    try (do 4 right; left; eexists; eexists; reflexivity);
    (do 5 right; repeat split; try discriminate; reflexivity).
Qed.

Lemma prim_shape_range tag :
  prim_shape tag <> None <-> (3 <= Byte.to_N tag <= 9)%N.
Proof. destruct tag; cbn; split; intro H; try congruence; try lia; discriminate. Qed.

Section Generic.
  Variable known : byte -> bool.
  Variable str_ok : bytes -> bool.
  Hypothesis str_ok_nil : str_ok [] = true.

  Notation dec := (dec known str_ok).
  Notation dec_list := (dec_list known str_ok).
  Notation dec_annots := (dec_annots str_ok).
  Notation dec_full_gen := (dec_full_gen known str_ok).
  Notation Enc := (Enc known str_ok).
  Notation EncList := (EncList known str_ok).
  Notation AnnPart := (AnnPart str_ok).
  Notation wf := (wf_nodeb known str_ok).

  Lemma dec_S_int f r :
    dec (S f) (x00 :: r) =
    match dec_int r with Some (z, rest) => DOk (NInt z, rest) | None => DReject end.
  Proof. reflexivity. Qed.

  Lemma dec_S_str f r :
    dec (S f) (x01 :: r) =
    match take_arr r with
    | Some (s, rest) => if str_ok s then DOk (NStr s, rest) else DReject
    | None => DReject
    end.
  Proof. reflexivity. Qed.

  Lemma dec_S_byt f r :
    dec (S f) (x0a :: r) =
    match take_arr r with Some (b, rest) => DOk (NByt b, rest) | None => DReject end.
  Proof. reflexivity. Qed.

  Lemma dec_S_seq f r :
    dec (S f) (x02 :: r) =
    match take_arr r with
    | Some (body, rest) => dbind (dec_list f body) (fun items => DOk (NSeq items, rest))
    | None => DReject
    end.
  Proof. reflexivity. Qed.

  Definition dec_args (f : nat) (k : nat) (r1 : bytes) : dres (list node * bytes) :=
    match k with
    | 0 => DOk ([], r1)
    | 1 => dbind (dec f r1) (fun '(a, r2) => DOk ([a], r2))
    | 2 => dbind (dec f r1) (fun '(a, r2) =>
           dbind (dec f r2) (fun '(b, r3) => DOk ([a; b], r3)))
    | _ => match take_arr r1 with
           | Some (body, r2) => dbind (dec_list f body) (fun args => DOk (args, r2))
           | None => DReject
           end
    end.

  Lemma dec_S_prim f tag t r1 k has :
    prim_shape tag = Some (k, has) ->
    dec (S f) (tag :: t :: r1) =
    if known t then
      dbind (dec_args f k r1) (fun '(args, r2) =>
      dbind (dec_annots has r2) (fun '(annots, r3) => DOk (NPrim t args annots, r3)))
    else DReject.
  Proof.
    destruct tag; try discriminate; intro H; injection H as <- <-; reflexivity.
  Qed.

  Lemma dec_S_prim_short f tag : prim_shape tag <> None -> dec (S f) [tag] = DReject.
  Proof. destruct tag; try congruence; reflexivity. Qed.

  Lemma dec_S_other f tag r :
    tag <> x00 -> tag <> x01 -> tag <> x02 -> tag <> x0a -> prim_shape tag = None ->
    dec (S f) (tag :: r) = DReject.
  Proof. destruct tag; try congruence; try discriminate; reflexivity. Qed.

  Lemma dec_list_nil f : dec_list f [] = DOk [].
  Proof. destruct f; reflexivity. Qed.

  Lemma dec_list_S f b buf :
    dec_list (S f) (b :: buf) =
    dbind (dec f (b :: buf)) (fun '(x, rest) =>
    dbind (dec_list f rest) (fun xs => DOk (x :: xs))).
  Proof. reflexivity. Qed.

  Lemma prim_shape_inv tag k has :
    prim_shape tag = Some (k, has) ->
    (k = 0 /\ tag = if has then x04 else x03) \/
    (k = 1 /\ tag = if has then x06 else x05) \/
    (k = 2 /\ tag = if has then x08 else x07) \/
    (k = 3 /\ has = true /\ tag = x09).
  Proof.
    destruct tag; try discriminate; intro H; injection H as <- <-; auto 10.
  Qed.


  (* ================================================================ grammar facts *)

  Lemma Enc_nonempty n e : Enc n e -> e <> [].
  Proof. intro H. destruct H; discriminate. Qed.

  Lemma AnnPart_dec has annots ea r :
    AnnPart has annots ea -> dec_annots has (ea ++ r) = DOk (annots, r).
  Proof.
    destruct has; unfold MichelineBin.AnnPart, MichelineBin.dec_annots.
    - intros (a & -> & Hf & Hs & ->). rewrite take_arr_arr by exact Hf. rewrite Hs. reflexivity.
    - intros [-> ->]. reflexivity.
  Qed.

  Lemma dec_annots_sound has bs annots r :
    dec_annots has bs = DOk (annots, r) -> exists ea, bs = ea ++ r /\ AnnPart has annots ea.
  Proof.
    destruct has; unfold MichelineBin.AnnPart, MichelineBin.dec_annots.
    - destruct (take_arr bs) as [[a rest]|] eqn:T; [|discriminate].
      destruct (str_ok a) eqn:S; [|discriminate]. intro H. injection H as <- <-.
      apply take_arr_sound in T. destruct T as [-> Hf].
      exists (arr a). split; [reflexivity|]. exists a. auto.
    - intro H. injection H as <- <-. exists []. split; [reflexivity|]. split; reflexivity.
  Qed.

  Lemma dec_annots_no_fuel has bs : dec_annots has bs <> DFuel.
  Proof.
    destruct has; unfold MichelineBin.dec_annots; [|discriminate].
    destruct (take_arr bs) as [[a rest]|]; [|discriminate]. destruct (str_ok a); discriminate.
  Qed.

  (* ================================================================ completeness *)

  Lemma dec_complete :
    (forall n e, Enc n e ->
       forall f r, 2 * length e + 1 <= f -> dec f (e ++ r) = DOk (n, r)) /\
    (forall l e, EncList l e ->
       forall f, 2 * length e + 2 <= f -> dec_list f e = DOk l).
  Proof.
    apply (Enc_EncList_mind known str_ok
             (fun n e => forall f r, 2 * length e + 1 <= f -> dec f (e ++ r) = DOk (n, r))
             (fun l e => forall f, 2 * length e + 2 <= f -> dec_list f e = DOk l)).
    - (* int *) intros z e HZ f r Hf. destruct f as [|f]; [lia|]. cbn [app]. rewrite dec_S_int.
      assert (D : dec_int (e ++ r) = Some (z, r)) by (apply dec_int_iff; eauto).
      rewrite D. reflexivity.
    - (* string *) intros s Hfit Hs f r Hf. destruct f as [|f]; [lia|]. cbn [app].
      rewrite dec_S_str, take_arr_arr by exact Hfit. rewrite Hs. reflexivity.
    - (* bytes *) intros b Hfit f r Hf. destruct f as [|f]; [lia|]. cbn [app].
      rewrite dec_S_byt, take_arr_arr by exact Hfit. reflexivity.
    - (* sequence *) intros items body _ IH Hfit f r Hf. destruct f as [|f]; [lia|]. cbn [app].
      cbn [length] in Hf. rewrite arr_length in Hf.
      rewrite dec_S_seq, take_arr_arr by exact Hfit. rewrite IH by lia. reflexivity.
    - (* prim 0 *) intros t has annots ea Hk HA f r Hf. destruct f as [|f]; [lia|]. cbn [app].
      rewrite (dec_S_prim f _ t _ 0 has) by (destruct has; reflexivity).
      rewrite Hk. cbn [dec_args dbind]. rewrite (AnnPart_dec _ _ _ _ HA). reflexivity.
    - (* prim 1 *) intros t has annots ea a e1 Hk _ IHa HA f r Hf. destruct f as [|f]; [lia|].
      cbn [app]. cbn [length] in Hf. rewrite app_length in Hf.
      rewrite (dec_S_prim f _ t _ 1 has) by (destruct has; reflexivity).
      rewrite Hk. cbn [dec_args]. rewrite <- app_assoc. rewrite IHa by lia. cbn [dbind].
      rewrite (AnnPart_dec _ _ _ _ HA). reflexivity.
    - (* prim 2 *) intros t has annots ea a e1 b e2 Hk _ IHa _ IHb HA f r Hf.
      destruct f as [|f]; [lia|]. cbn [app]. cbn [length] in Hf. rewrite !app_length in Hf.
      rewrite (dec_S_prim f _ t _ 2 has) by (destruct has; reflexivity).
      rewrite Hk. cbn [dec_args]. rewrite <- !app_assoc. rewrite IHa by lia. cbn [dbind].
      rewrite IHb by lia. cbn [dbind]. rewrite (AnnPart_dec _ _ _ _ HA). reflexivity.
    - (* prim n *) intros t annots ea args body Hk _ IH Hfit HA f r Hf.
      destruct f as [|f]; [lia|]. cbn [app]. cbn [length] in Hf.
      rewrite app_length, arr_length in Hf.
      rewrite (dec_S_prim f _ t _ 3 true) by reflexivity.
      rewrite Hk. cbn [dec_args]. rewrite <- app_assoc, take_arr_arr by exact Hfit.
      rewrite IH by lia. cbn [dbind]. rewrite (AnnPart_dec _ _ _ _ HA). reflexivity.
    - (* nil *) intros f _. apply dec_list_nil.
    - (* cons *) intros x e xs es Hx IHx _ IHxs f Hf. destruct f as [|f]; [lia|].
      rewrite app_length in Hf. pose proof (Enc_nonempty _ _ Hx) as Hne.
      destruct e as [|b e']; [congruence|]. cbn [app]. rewrite dec_list_S.
      change (b :: e' ++ es) with ((b :: e') ++ es). rewrite IHx by lia. cbn [dbind].
      cbn [length] in Hf. rewrite IHxs by lia. reflexivity.
  Qed.

  (* ================================================================ soundness *)

  Lemma dec_sound : forall f,
    (forall bs n r, dec f bs = DOk (n, r) -> exists e, bs = e ++ r /\ Enc n e) /\
    (forall buf l, dec_list f buf = DOk l -> EncList l buf).
  Proof.
    induction f as [|f [IHd IHl]]; split.
    - intros bs n r H. discriminate H.
    - intros buf l H. destruct buf; [|discriminate H]. injection H as <-. constructor.
    - intros bs n r H. destruct bs as [|tag r0]; [discriminate H|].
      destruct (tag_cases tag) as [->|[->|[->|[->|[(k & has & Hsh)|(N0 & N1 & N2 & Na & Hsh)]]]]].
      + rewrite dec_S_int in H. destruct (dec_int r0) as [[z rest]|] eqn:D; [|discriminate].
        injection H as <- <-. apply dec_int_iff in D. destruct D as (e & -> & HZ).
        exists (x00 :: e). split; [reflexivity|]. constructor. exact HZ.
      + rewrite dec_S_str in H. destruct (take_arr r0) as [[s rest]|] eqn:T; [|discriminate].
        destruct (str_ok s) eqn:S; [|discriminate]. injection H as <- <-.
        apply take_arr_sound in T. destruct T as [-> Hf].
        exists (x01 :: arr s). split; [reflexivity|]. constructor; assumption.
      + rewrite dec_S_seq in H. destruct (take_arr r0) as [[body rest]|] eqn:T; [|discriminate].
        destruct (dec_list f body) as [items| |] eqn:DL; cbn [dbind] in H; try discriminate.
        injection H as <- <-. apply take_arr_sound in T. destruct T as [-> Hf].
        exists (x02 :: arr body). split; [reflexivity|]. constructor; [apply IHl, DL|exact Hf].
      + rewrite dec_S_byt in H. destruct (take_arr r0) as [[b rest]|] eqn:T; [|discriminate].
        injection H as <- <-. apply take_arr_sound in T. destruct T as [-> Hf].
        exists (x0a :: arr b). split; [reflexivity|]. constructor; assumption.
      + destruct r0 as [|t r1].
        { rewrite dec_S_prim_short in H by congruence. discriminate. }
        rewrite (dec_S_prim f tag t r1 k has Hsh) in H.
        destruct (known t) eqn:K; [|discriminate].
        destruct (dec_args f k r1) as [[args r2]| |] eqn:DA; cbn [dbind] in H; try discriminate.
        destruct (dec_annots has r2) as [[annots r3]| |] eqn:DN; cbn [dbind] in H; try discriminate.
        injection H as <- <-. apply dec_annots_sound in DN. destruct DN as (ea & -> & HA).
        apply prim_shape_inv in Hsh.
        destruct Hsh as [[-> ->]|[[-> ->]|[[-> ->]|(-> & -> & ->)]]]; cbn [dec_args] in DA.
        * injection DA as <- ->. exists ((if has then x04 else x03) :: t :: ea).
          split; [reflexivity|]. constructor; assumption.
        * destruct (dec f r1) as [[a r2']| |] eqn:D1; cbn [dbind] in DA; try discriminate.
          injection DA as <- ->. apply IHd in D1. destruct D1 as (e1 & -> & H1).
          exists ((if has then x06 else x05) :: t :: e1 ++ ea).
          split; [cbn [app]; rewrite <- app_assoc; reflexivity|]. constructor; assumption.
        * destruct (dec f r1) as [[a r2']| |] eqn:D1; cbn [dbind] in DA; try discriminate.
          destruct (dec f r2') as [[b r3']| |] eqn:D2; cbn [dbind] in DA; try discriminate.
          injection DA as <- ->. apply IHd in D1. destruct D1 as (e1 & -> & H1).
          apply IHd in D2. destruct D2 as (e2 & -> & H2).
          exists ((if has then x08 else x07) :: t :: e1 ++ e2 ++ ea).
          split; [cbn [app]; rewrite <- !app_assoc; reflexivity|]. constructor; assumption.
        * destruct (take_arr r1) as [[body r2']|] eqn:T; [|discriminate].
          destruct (dec_list f body) as [args'| |] eqn:DL; cbn [dbind] in DA; try discriminate.
          injection DA as <- ->. apply take_arr_sound in T. destruct T as [-> Hf].
          exists (x09 :: t :: arr body ++ ea).
          split; [cbn [app]; rewrite <- app_assoc; reflexivity|].
          constructor; try assumption. apply IHl, DL.
      + rewrite dec_S_other in H by assumption. discriminate.
    - intros buf l H. destruct buf as [|b buf]; [injection H as <-; constructor|].
      rewrite dec_list_S in H.
      destruct (dec f (b :: buf)) as [[x rest]| |] eqn:D; cbn [dbind] in H; try discriminate.
      destruct (dec_list f rest) as [xs| |] eqn:DL; cbn [dbind] in H; try discriminate.
      injection H as <-. apply IHd in D. destruct D as (e & -> & Hx).
      constructor; [exact Hx|apply IHl, DL].
  Qed.

  Lemma dec_shorter f bs n r : dec f bs = DOk (n, r) -> length r < length bs.
  Proof.
    intro H. apply (proj1 (dec_sound f)) in H. destruct H as (e & -> & He).
    apply Enc_nonempty in He. rewrite app_length. destruct e; [congruence|cbn [length]; lia].
  Qed.

  (* ================================================================ fuel suffices *)

  Lemma dec_fuel_ok : forall f,
    (forall bs, 2 * length bs + 1 <= f -> dec f bs <> DFuel) /\
    (forall buf, 2 * length buf + 2 <= f -> dec_list f buf <> DFuel).
  Proof.
    induction f as [|f [IHd IHl]]; split.
    - intros bs H. lia.
    - intros buf H. lia.
    - intros bs Hf. destruct bs as [|tag r0]; [discriminate|]. cbn [length] in Hf.
      destruct (tag_cases tag) as [->|[->|[->|[->|[(k & has & Hsh)|(N0 & N1 & N2 & Na & Hsh)]]]]].
      + rewrite dec_S_int. destruct (dec_int r0) as [[z rest]|]; discriminate.
      + rewrite dec_S_str. destruct (take_arr r0) as [[s rest]|]; [|discriminate].
        destruct (str_ok s); discriminate.
      + rewrite dec_S_seq. destruct (take_arr r0) as [[body rest]|] eqn:T; [|discriminate].
        apply take_arr_sound in T. destruct T as [-> _].
        rewrite app_length, arr_length in Hf.
        destruct (dec_list f body) as [items| |] eqn:DL; cbn [dbind]; try discriminate.
        exfalso. apply (IHl body); [lia|exact DL].
      + rewrite dec_S_byt. destruct (take_arr r0) as [[b rest]|]; discriminate.
      + destruct r0 as [|t r1].
        { rewrite dec_S_prim_short by congruence. discriminate. }
        cbn [length] in Hf.
        rewrite (dec_S_prim f tag t r1 k has Hsh).
        destruct (known t); [|discriminate].
        assert (HA : dec_args f k r1 <> DFuel /\
                     forall args r2, dec_args f k r1 = DOk (args, r2) -> True).
        { split; [|trivial].
          apply prim_shape_inv in Hsh.
          destruct Hsh as [[-> _]|[[-> _]|[[-> _]|(-> & _ & _)]]]; cbn [dec_args].
          - discriminate.
          - destruct (dec f r1) as [[a r2]| |] eqn:D1; cbn [dbind]; try discriminate.
            exfalso. apply (IHd r1); [lia|exact D1].
          - destruct (dec f r1) as [[a r2]| |] eqn:D1; cbn [dbind]; try discriminate.
            + pose proof (dec_shorter _ _ _ _ D1) as Hs.
              destruct (dec f r2) as [[b r3]| |] eqn:D2; cbn [dbind]; try discriminate.
              exfalso. apply (IHd r2); [lia|exact D2].
            + exfalso. apply (IHd r1); [lia|exact D1].
          - destruct (take_arr r1) as [[body r2]|] eqn:T; [|discriminate].
            apply take_arr_sound in T. destruct T as [-> _].
            rewrite app_length, arr_length in Hf.
            destruct (dec_list f body) as [args| |] eqn:DL; cbn [dbind]; try discriminate.
            exfalso. apply (IHl body); [lia|exact DL]. }
        destruct HA as [HA _].
        destruct (dec_args f k r1) as [[args r2]| |]; cbn [dbind]; try discriminate; [|congruence].
        pose proof (dec_annots_no_fuel has r2) as HN.
        destruct (dec_annots has r2) as [[annots r3]| |]; cbn [dbind]; try discriminate. congruence.
      + rewrite dec_S_other by assumption. discriminate.
    - intros buf Hf. destruct buf as [|b buf]; [rewrite dec_list_nil; discriminate|].
      rewrite dec_list_S.
      destruct (dec f (b :: buf)) as [[x rest]| |] eqn:D; cbn [dbind]; try discriminate.
      + pose proof (dec_shorter _ _ _ _ D) as Hs.
        destruct (dec_list f rest) as [xs| |] eqn:DL; cbn [dbind]; try discriminate.
        exfalso. apply (IHl rest); [lia|exact DL].
      + exfalso. apply (IHd (b :: buf)); [lia|exact D].
  Qed.

End Generic.

(* ================================================================ main results (generic) *)

Fixpoint node_tags (n : node) : list byte :=
  match n with
  | NPrim t args _ =>
      t :: (fix go (l : list node) : list byte :=
              match l with [] => [] | x :: r => node_tags x ++ go r end) args
  | NSeq items =>
      (fix go (l : list node) : list byte :=
         match l with [] => [] | x :: r => node_tags x ++ go r end) items
  | _ => []
  end.

Lemma fix_node_tags l :
  (fix go (l : list node) : list byte :=
     match l with [] => [] | x :: r => node_tags x ++ go r end) l = flat_map node_tags l.
Proof. induction l as [|x l IH]; [reflexivity|]. cbn [flat_map]. rewrite IH. reflexivity. Qed.

Lemma app_eq_length {A} (a b c d : list A) :
  length a = length c -> a ++ b = c ++ d -> a = c /\ b = d.
Proof.
  revert c. induction a as [|x a IH]; intros [|y c] Hl H; try discriminate.
  - split; [reflexivity|exact H].
  - cbn [app] in H. injection H as -> H. injection Hl as Hl.
    destruct (IH c Hl H) as [-> ->]. split; reflexivity.
Qed.

Section Main.
  Variable known : byte -> bool.
  Variable str_ok : bytes -> bool.
  Hypothesis str_ok_nil : str_ok [] = true.

  Notation dec := (dec known str_ok).
  Notation dec_full_gen := (dec_full_gen known str_ok).
  Notation Enc := (Enc known str_ok).
  Notation EncList := (EncList known str_ok).
  Notation AnnPart := (AnnPart str_ok).
  Notation wf := (wf_nodeb known str_ok).

  (* the decoder accepts exactly the grammar *)
  Lemma dec_full_iff bs n : dec_full_gen bs = DOk n <-> Enc n bs.
  Proof.
    unfold MichelineBin.dec_full_gen. split.
    - destruct (dec (fuel_for bs) bs) as [[m r]| |] eqn:D; try discriminate.
      destruct r as [|x r]; [|discriminate]. intro H. injection H as ->.
      apply (proj1 (dec_sound known str_ok _)) in D. destruct D as (e & -> & He).
      rewrite app_nil_r. exact He.
    - intro H.
      pose proof (proj1 (dec_complete known str_ok) _ _ H (fuel_for bs) []) as D.
      rewrite app_nil_r in D. rewrite D; [reflexivity|]. unfold fuel_for. lia.
  Qed.

  (* the fuel supplied by dec_full is always enough *)
  Lemma dec_full_fuel_ok bs : dec_full_gen bs <> DFuel.
  Proof.
    unfold MichelineBin.dec_full_gen.
    pose proof (proj1 (dec_fuel_ok known str_ok (fuel_for bs)) bs) as H.
    destruct (dec (fuel_for bs) bs) as [[m [|x r]]| |]; try discriminate.
    exfalso. apply H; [unfold fuel_for; lia|reflexivity].
  Qed.

  Lemma dec_full_reject_iff bs : dec_full_gen bs = DReject <-> ~ exists n, Enc n bs.
  Proof.
    split.
    - intros H (n & Hn). apply dec_full_iff in Hn. congruence.
    - intro H. destruct (dec_full_gen bs) as [n| |] eqn:D; [|reflexivity|].
      + exfalso. apply H. exists n. apply dec_full_iff, D.
      + exfalso. exact (dec_full_fuel_ok bs D).
  Qed.

  (* ---------------------------------------------------------------- encoder is in the grammar *)

  Lemma AnnPart_enc annots :
    wf_annots str_ok annots = true ->
    AnnPart (negb (is_nil annots)) annots
            (if negb (is_nil annots) then arr (join_sp annots) else []).
  Proof.
    intro H. destruct annots as [|a l]; cbn [is_nil negb].
    - split; reflexivity.
    - pose proof (annots_of_join _ _ H) as E. unfold wf_annots in H.
      rewrite !andb_true_iff in H. destruct H as [[[_ _] Hs] Hf].
      exists (join_sp (a :: l)). auto.
  Qed.

  Lemma AnnPart_enc_generic annots :
    wf_annots str_ok annots = true ->
    AnnPart true annots
            (if negb (is_nil annots) then
               (if negb (is_nil annots) then arr (join_sp annots) else [])
             else be32 0).
  Proof.
    intro H. destruct annots as [|a l]; cbn [is_nil negb].
    - exists []. repeat split; try reflexivity. exact str_ok_nil.
    - exact (AnnPart_enc (a :: l) H).
  Qed.

  Lemma EncList_enc_list l :
    Forall (fun x => wf x = true -> Enc x (enc x)) l ->
    forallb wf l = true -> EncList l (enc_list l).
  Proof.
    induction 1 as [|x l Hx _ IH]; intro H; cbn [enc_list flat_map].
    - constructor.
    - cbn [forallb] in H. apply andb_true_iff in H. destruct H as [H1 H2].
      constructor; [apply Hx, H1|apply IH, H2].
  Qed.

  Lemma enc_Enc : forall n, wf n = true -> Enc n (enc n).
  Proof.
    induction n as [z|s|b|t args annots IH|items IH] using node_ind'; intro H.
    - cbn [enc]. constructor. apply ZarithInt_enc.
    - cbn [enc]. cbn [wf_nodeb] in H. apply andb_true_iff in H. destruct H. constructor; assumption.
    - cbn [enc]. cbn [wf_nodeb] in H. constructor; assumption.
    - rewrite wf_prim in H. rewrite !andb_true_iff in H. destruct H as [[[Hk Ha] Hn] Hf].
      rewrite enc_prim. cbv zeta. pose proof (EncList_enc_list _ IH Ha) as HL.
      destruct args as [|a [|b [|c r]]].
      + constructor; [exact Hk|apply AnnPart_enc, Hn].
      + cbn [enc_list flat_map]. rewrite app_nil_r.
        inversion IH as [|? ? Hx _]; subst. cbn [forallb] in Ha. rewrite andb_true_r in Ha.
        constructor; [exact Hk|apply Hx, Ha|apply AnnPart_enc, Hn].
      + cbn [enc_list flat_map]. rewrite app_nil_r, <- app_assoc.
        inversion IH as [|? ? Hx IH']; subst. inversion IH' as [|? ? Hy _]; subst.
        cbn [forallb] in Ha. rewrite andb_true_r in Ha. apply andb_true_iff in Ha.
        destruct Ha as [Ha Hb].
        constructor; [exact Hk|apply Hx, Ha|apply Hy, Hb|apply AnnPart_enc, Hn].
      + constructor; [exact Hk|exact HL|exact Hf|apply AnnPart_enc_generic, Hn].
    - rewrite wf_seq in H. apply andb_true_iff in H. destruct H as [Ha Hf].
      rewrite enc_seq. constructor; [apply EncList_enc_list; assumption|exact Hf].
  Qed.

  (* ---------------------------------------------------------------- round trip, injectivity *)

  Theorem dec_enc n : wf n = true -> dec_full_gen (enc n) = DOk n.
  Proof. intro H. apply dec_full_iff, enc_Enc, H. Qed.

  Theorem enc_injective a b : wf a = true -> wf b = true -> enc a = enc b -> a = b.
  Proof.
    intros Ha Hb E. pose proof (dec_enc a Ha) as Da. rewrite E, (dec_enc b Hb) in Da.
    injection Da as ->. reflexivity.
  Qed.

  Theorem Enc_functional n n' bs : Enc n bs -> Enc n' bs -> n = n'.
  Proof.
    intros H H'. apply dec_full_iff in H, H'. rewrite H in H'. injection H' as ->. reflexivity.
  Qed.

  (* ---------------------------------------------------------------- prefix-freeness *)

  Theorem Enc_prefix_free n n' e x : Enc n e -> Enc n' (e ++ x) -> x = [] /\ n = n'.
  Proof.
    intros H H'. set (f := fuel_for (e ++ x)).
    pose proof (proj1 (dec_complete known str_ok) _ _ H f x) as D1.
    pose proof (proj1 (dec_complete known str_ok) _ _ H' f []) as D2.
    rewrite app_nil_r in D2.
    rewrite D1 in D2 by (unfold f, fuel_for; rewrite app_length; lia).
    assert (E : DOk (n, x) = DOk (n', @nil byte)) by (apply D2; unfold f, fuel_for; lia).
    injection E as -> ->. split; reflexivity.
  Qed.

  Theorem truncation_rejected n bs p x :
    Enc n bs -> bs = p ++ x -> x <> [] -> dec_full_gen p = DReject.
  Proof.
    intros H -> Hx. apply dec_full_reject_iff. intros (m & Hm).
    destruct (Enc_prefix_free _ _ _ _ Hm H) as [E _]. contradiction.
  Qed.

  Theorem trailing_rejected n bs x :
    Enc n bs -> x <> [] -> dec_full_gen (bs ++ x) = DReject.
  Proof.
    intros H Hx. apply dec_full_reject_iff. intros (m & Hm).
    destruct (Enc_prefix_free _ _ _ _ H Hm) as [E _]. contradiction.
  Qed.

  (* ---------------------------------------------------------------- unknown tags *)

  Theorem unknown_tag_rejected tag r : (10 < Byte.to_N tag)%N -> dec_full_gen (tag :: r) = DReject.
  Proof.
    intro H. unfold MichelineBin.dec_full_gen, fuel_for.
    assert (Hp : prim_shape tag = None).
    { destruct (prim_shape tag) eqn:E; [|reflexivity].
      assert (prim_shape tag <> None) as Hr by congruence. apply prim_shape_range in Hr. exfalso. lia. }
    rewrite dec_S_other; [reflexivity| | | | |exact Hp]; intros ->; vm_compute in H; discriminate H.
  Qed.

  Theorem unknown_prim_rejected tag t r :
    prim_shape tag <> None -> known t = false -> dec_full_gen (tag :: t :: r) = DReject.
  Proof.
    intros Hs Hk. unfold MichelineBin.dec_full_gen, fuel_for.
    destruct (prim_shape tag) as [[k has]|] eqn:E; [|congruence].
    rewrite (dec_S_prim known str_ok _ tag t r k has E), Hk. reflexivity.
  Qed.

  (* whatever decodes contains only known primitives, at every depth *)
  Lemma Enc_tags_known :
    (forall n e, Enc n e -> Forall (fun t => known t = true) (node_tags n)) /\
    (forall l e, EncList l e -> Forall (fun t => known t = true) (flat_map node_tags l)).
  Proof.
    apply (Enc_EncList_mind known str_ok
             (fun n e => Forall (fun t => known t = true) (node_tags n))
             (fun l e => Forall (fun t => known t = true) (flat_map node_tags l))).
    - intros z e _. constructor.
    - intros s _ _. constructor.
    - intros b _. constructor.
    - intros items body _ IH _. cbn [node_tags]. rewrite fix_node_tags. exact IH.
    - intros t has annots ea Hk _. cbn [node_tags]. constructor; [exact Hk|constructor].
    - intros t has annots ea a e1 Hk _ IHa _. cbn [node_tags]. rewrite ?fix_node_tags.
      cbn [flat_map]. rewrite ?app_nil_r. constructor; assumption.
    - intros t has annots ea a e1 b e2 Hk _ IHa _ IHb _. cbn [node_tags]. rewrite ?fix_node_tags.
      cbn [flat_map]. rewrite ?app_nil_r. constructor; [exact Hk|]. apply Forall_app. split; assumption.
    - intros t annots ea args body Hk _ IH _ _. cbn [node_tags]. rewrite fix_node_tags.
      constructor; assumption.
    - constructor.
    - intros x e xs es _ IHx _ IHxs. cbn [flat_map]. apply Forall_app. split; assumption.
  Qed.

  Theorem decoded_prims_known bs n t :
    dec_full_gen bs = DOk n -> In t (node_tags n) -> known t = true.
  Proof.
    intros H Hin. apply dec_full_iff in H. apply (proj1 Enc_tags_known) in H.
    rewrite Forall_forall in H. apply H, Hin.
  Qed.

  (* ---------------------------------------------------------------- non-minimal integers *)

  Theorem nonminimal_int_rejected b0 mid :
    cont b0 = true -> Forall (fun b => cont b = true) mid ->
    dec_full_gen (x00 :: b0 :: mid ++ [x00]) = DReject.
  Proof.
    intros H0 HF. unfold MichelineBin.dec_full_gen, fuel_for.
    rewrite dec_S_int, dec_int_nonminimal by assumption. reflexivity.
  Qed.

  (* ... also as the head of a longer buffer, with any fuel *)
  Theorem nonminimal_int_rejected_anywhere f b0 mid r :
    cont b0 = true -> Forall (fun b => cont b = true) mid ->
    dec (S f) (x00 :: b0 :: mid ++ x00 :: r) = DReject.
  Proof. intros H0 HF. rewrite dec_S_int, dec_int_nonminimal by assumption. reflexivity. Qed.

  (* ---------------------------------------------------------------- length fields *)

  (* a string / bytes / sequence length that exceeds the buffer *)
  Theorem length_overrun_rejected tag l4 r :
    tag = x01 \/ tag = x02 \/ tag = x0a ->
    length l4 = 4 -> (N.of_nat (length r) < be_to_N l4)%N ->
    dec_full_gen (tag :: l4 ++ r) = DReject.
  Proof.
    intros Ht Hl Hlen. unfold MichelineBin.dec_full_gen, fuel_for.
    pose proof (take_arr_short l4 r _ Hl eq_refl Hlen) as T.
    destruct Ht as [-> | [-> | ->]].
    - rewrite dec_S_str, T. reflexivity.
    - rewrite dec_S_seq, T. reflexivity.
    - rewrite dec_S_byt, T. reflexivity.
  Qed.

  (* a sequence is accepted only if its length field is exactly the rest of the buffer and
     that body is a concatenation of complete element encodings *)
  Theorem seq_length_exact l4 body n :
    length l4 = 4 -> dec_full_gen (x02 :: l4 ++ body) = DOk n ->
    be_to_N l4 = N.of_nat (length body) /\ exists items, n = NSeq items /\ EncList items body.
  Proof.
    intros Hl H. apply dec_full_iff in H.
    inversion H as [| | |items body' HL Hf E1 E2| t has ? ? ? ? E1 E2
                    | t has ? ? ? ? ? ? ? E1 E2 | t has ? ? ? ? ? ? ? ? ? ? E1 E2| ];
      try (destruct has; discriminate).
    subst. unfold arr in E2. apply app_eq_length in E2; [|rewrite Hl; reflexivity].
    destruct E2 as [<- <-]. split.
    - unfold be32. apply be_to_N_N_to_be. unfold fits in Hf. lia.
    - exists items. split; [reflexivity|exact HL].
  Qed.

End Main.

(* ================================================================ monotonicity in str_ok *)

Lemma Enc_mono known ok1 ok2 :
  (forall s, ok1 s = true -> ok2 s = true) ->
  (forall n e, Enc known ok1 n e -> Enc known ok2 n e) /\
  (forall l e, EncList known ok1 l e -> EncList known ok2 l e).
Proof.
  intro Hok.
  assert (HA : forall has annots ea, AnnPart ok1 has annots ea -> AnnPart ok2 has annots ea).
  { intros [|] annots ea; unfold AnnPart; [|auto].
    intros (a & E1 & E2 & E3 & E4). exists a. auto. }
  apply (Enc_EncList_mind known ok1 (fun n e => Enc known ok2 n e) (fun l e => EncList known ok2 l e));
    intros; econstructor; eauto.
Qed.

(* ================================================================ pytezos instance *)

Lemma utf8_valid_nil : utf8_valid [] = true.
Proof. reflexivity. Qed.

Lemma known_prim_range t : known_prim t = true <-> (Byte.to_N t <= 158)%N.
Proof. destruct t; vm_compute; split; intro H; try reflexivity; try discriminate; congruence. Qed.

(* pytezos rejects whatever Tezos rejects (it is stricter only about text that is not UTF-8) *)
Lemma rejects_what_tezos_rejects bs : dec_full_tezos bs = DReject -> dec_full bs = DReject.
Proof.
  unfold dec_full_tezos, dec_full. intro H.
  apply (dec_full_reject_iff known_prim utf8_valid). intros (n & Hn).
  apply (dec_full_reject_iff known_prim any_text) in H. apply H. exists n.
  apply (proj1 (Enc_mono known_prim utf8_valid any_text (fun _ _ => eq_refl))), Hn.
Qed.

(* on text that is valid UTF-8 everywhere pytezos and Tezos agree: what Tezos accepts and
   pytezos rejects has a non-UTF-8 string or annotation string somewhere *)
Lemma accepted_by_tezos_only bs n :
  dec_full_tezos bs = DOk n -> dec_full bs = DReject \/ dec_full bs = DOk n.
Proof.
  unfold dec_full_tezos, dec_full. intro H.
  pose proof (dec_full_fuel_ok known_prim utf8_valid bs) as HF.
  destruct (dec_full_gen known_prim utf8_valid bs) as [m| |] eqn:D.
  - right. apply dec_full_iff in D.
    apply (proj1 (Enc_mono known_prim utf8_valid any_text (fun _ _ => eq_refl))) in D.
    apply dec_full_iff in H.
    rewrite (Enc_functional known_prim any_text _ _ _ D H). reflexivity.
  - left. reflexivity.
  - congruence.
Qed.

Lemma unknown_prim_rejected_py tag t r :
  (3 <= Byte.to_N tag <= 9)%N -> (158 < Byte.to_N t)%N -> dec_full (tag :: t :: r) = DReject.
Proof.
  intros Htag Ht. unfold dec_full. apply unknown_prim_rejected.
  - apply prim_shape_range, Htag.
  - destruct (known_prim t) eqn:E; [|reflexivity]. apply known_prim_range in E. lia.
Qed.

Lemma decoded_prims_known_py bs n t :
  dec_full bs = DOk n -> In t (node_tags n) -> (Byte.to_N t <= 158)%N.
Proof.
  unfold dec_full. intros H Hin. apply known_prim_range.
  exact (decoded_prims_known _ _ bs n t H Hin).
Qed.

(* the only integer encodings accepted: the canonical one, and "-0" = 40 *)
Lemma int_encodings_py e n :
  dec_full (x00 :: e) = DOk n ->
  exists z, n = NInt z /\ (e = enc_int z \/ (z = 0%Z /\ e = [x40])).
Proof.
  unfold dec_full. intro H. apply dec_full_iff in H.
  inversion H as [z e' HZ| | | |t has ? ? ? ? E1|t has ? ? ? ? ? ? ? E1
                  |t has ? ? ? ? ? ? ? ? ? ? E1| ]; try (destruct has; discriminate).
  subst. exists z. split; [reflexivity|]. apply ZarithInt_canonical, HZ.
Qed.

(* ================================================================ the index-style decoder *)

Lemma seq_len_arr body r : fits body = true -> seq_len (arr body ++ r) = Some (length body, body ++ r).
Proof.
  unfold fits, arr, be32. intro H. rewrite N_to_be_4. cbn [app]. unfold seq_len.
  rewrite <- N_to_be_4, be_to_N_N_to_be by lia. rewrite app_length, Nat2N.id.
  destruct (N.of_nat (length body) <=? N.of_nat (length body + length r))%N eqn:E; [reflexivity|lia].
Qed.

Lemma seq_len_sound bs n r1 :
  seq_len bs = Some (n, r1) -> bs = be32 n ++ r1 /\ n <= length r1 /\ (N.of_nat n < two32)%N.
Proof.
  destruct bs as [|a0 [|a1 [|a2 [|a3 r0]]]]; try discriminate. unfold seq_len.
  pose proof (be_to_N_4_lt a0 a1 a2 a3) as Hlt.
  set (len := be_to_N [a0; a1; a2; a3]) in *.
  destruct (len <=? N.of_nat (length r0))%N eqn:E; [|discriminate].
  intro H. apply some_pair_inj in H. destruct H as [<- <-]. split; [|split; lia].
  unfold be32. rewrite N2Nat.id. unfold len. rewrite N_to_be_be_to_N. reflexivity.
Qed.

Section Index.
  Variable known : byte -> bool.
  Variable str_ok : bytes -> bool.

  Notation pdec := (pdec known str_ok).
  Notation pseq := (pseq known str_ok).
  Notation dec_annots := (dec_annots str_ok).
  Notation Enc := (Enc known str_ok).
  Notation EncList := (EncList known str_ok).
  Notation AnnPart := (AnnPart str_ok).

  Lemma pdec_S_int f r :
    pdec (S f) (x00 :: r) =
    match dec_int r with Some (z, rest) => DOk (NInt z, rest) | None => DReject end.
  Proof. reflexivity. Qed.

  Lemma pdec_S_str f r :
    pdec (S f) (x01 :: r) =
    match take_arr r with
    | Some (s, rest) => if str_ok s then DOk (NStr s, rest) else DReject
    | None => DReject
    end.
  Proof. reflexivity. Qed.

  Lemma pdec_S_byt f r :
    pdec (S f) (x0a :: r) =
    match take_arr r with Some (b, rest) => DOk (NByt b, rest) | None => DReject end.
  Proof. reflexivity. Qed.

  Lemma pdec_S_seq f r :
    pdec (S f) (x02 :: r) =
    match seq_len r with
    | Some (n, r1) => dbind (pseq f n r1) (fun '(items, rest) => DOk (NSeq items, rest))
    | None => DReject
    end.
  Proof. reflexivity. Qed.

  Definition pdec_args (f : nat) (k : nat) (r1 : bytes) : dres (list node * bytes) :=
    match k with
    | 0 => DOk ([], r1)
    | 1 => dbind (pdec f r1) (fun '(a, r2) => DOk ([a], r2))
    | 2 => dbind (pdec f r1) (fun '(a, r2) =>
           dbind (pdec f r2) (fun '(b, r3) => DOk ([a; b], r3)))
    | _ => match seq_len r1 with
           | Some (n, r2) => pseq f n r2
           | None => DReject
           end
    end.

  Lemma pdec_S_prim f tag t r1 k has :
    prim_shape tag = Some (k, has) ->
    pdec (S f) (tag :: t :: r1) =
    if known t then
      dbind (pdec_args f k r1) (fun '(args, r2) =>
      dbind (dec_annots has r2) (fun '(annots, r3) => DOk (NPrim t args annots, r3)))
    else DReject.
  Proof.
    destruct tag; try discriminate; intro H; injection H as <- <-; reflexivity.
  Qed.

  Lemma pdec_S_prim_short f tag : prim_shape tag <> None -> pdec (S f) [tag] = DReject.
  Proof. destruct tag; try congruence; reflexivity. Qed.

  Lemma pdec_S_other f tag r :
    tag <> x00 -> tag <> x01 -> tag <> x02 -> tag <> x0a -> prim_shape tag = None ->
    pdec (S f) (tag :: r) = DReject.
  Proof. destruct tag; try congruence; try discriminate; reflexivity. Qed.

  Lemma pseq_0 f bs : pseq f 0 bs = DOk ([], bs).
  Proof. destruct f; reflexivity. Qed.

  Lemma pseq_S f k bs :
    pseq (S f) (S k) bs =
    dbind (pdec f bs) (fun '(x, rest) =>
      if Nat.leb (length bs - length rest) (S k)
      then dbind (pseq f (S k - (length bs - length rest)) rest) (fun '(xs, rest') => DOk (x :: xs, rest'))
      else DReject).
  Proof. reflexivity. Qed.

  Lemma pseq_fuel0 k bs : pseq 0 (S k) bs = DFuel.
  Proof. reflexivity. Qed.

  (* ---------------------------------------------------------------- completeness *)

  Lemma pdec_complete :
    (forall n e, Enc n e ->
       forall f r, 2 * length e + 1 <= f -> pdec f (e ++ r) = DOk (n, r)) /\
    (forall l e, EncList l e ->
       forall f r, 2 * length e + 2 <= f -> pseq f (length e) (e ++ r) = DOk (l, r)).
  Proof.
    apply (Enc_EncList_mind known str_ok
             (fun n e => forall f r, 2 * length e + 1 <= f -> pdec f (e ++ r) = DOk (n, r))
             (fun l e => forall f r, 2 * length e + 2 <= f -> pseq f (length e) (e ++ r) = DOk (l, r))).
    - intros z e HZ f r Hf. destruct f as [|f]; [lia|]. cbn [app]. rewrite pdec_S_int.
      assert (D : dec_int (e ++ r) = Some (z, r)) by (apply dec_int_iff; eauto).
      rewrite D. reflexivity.
    - intros s Hfit Hs f r Hf. destruct f as [|f]; [lia|]. cbn [app].
      rewrite pdec_S_str, take_arr_arr by exact Hfit. rewrite Hs. reflexivity.
    - intros b Hfit f r Hf. destruct f as [|f]; [lia|]. cbn [app].
      rewrite pdec_S_byt, take_arr_arr by exact Hfit. reflexivity.
    - intros items body _ IH Hfit f r Hf. destruct f as [|f]; [lia|]. cbn [app].
      cbn [length] in Hf. rewrite arr_length in Hf.
      rewrite pdec_S_seq, seq_len_arr by exact Hfit. rewrite IH by lia. reflexivity.
    - intros t has annots ea Hk HA f r Hf. destruct f as [|f]; [lia|]. cbn [app].
      rewrite (pdec_S_prim f _ t _ 0 has) by (destruct has; reflexivity).
      rewrite Hk. cbn [pdec_args dbind]. rewrite (AnnPart_dec str_ok _ _ _ _ HA). reflexivity.
    - intros t has annots ea a e1 Hk _ IHa HA f r Hf. destruct f as [|f]; [lia|].
      cbn [app]. cbn [length] in Hf. rewrite app_length in Hf.
      rewrite (pdec_S_prim f _ t _ 1 has) by (destruct has; reflexivity).
      rewrite Hk. cbn [pdec_args]. rewrite <- app_assoc. rewrite IHa by lia. cbn [dbind].
      rewrite (AnnPart_dec str_ok _ _ _ _ HA). reflexivity.
    - intros t has annots ea a e1 b e2 Hk _ IHa _ IHb HA f r Hf.
      destruct f as [|f]; [lia|]. cbn [app]. cbn [length] in Hf. rewrite !app_length in Hf.
      rewrite (pdec_S_prim f _ t _ 2 has) by (destruct has; reflexivity).
      rewrite Hk. cbn [pdec_args]. rewrite <- !app_assoc. rewrite IHa by lia. cbn [dbind].
      rewrite IHb by lia. cbn [dbind]. rewrite (AnnPart_dec str_ok _ _ _ _ HA). reflexivity.
    - intros t annots ea args body Hk _ IH Hfit HA f r Hf.
      destruct f as [|f]; [lia|]. cbn [app]. cbn [length] in Hf.
      rewrite app_length, arr_length in Hf.
      rewrite (pdec_S_prim f _ t _ 3 true) by reflexivity.
      rewrite Hk. cbn [pdec_args]. rewrite <- app_assoc, seq_len_arr by exact Hfit.
      rewrite IH by lia. cbn [dbind]. rewrite (AnnPart_dec str_ok _ _ _ _ HA). reflexivity.
    - intros f r _. apply pseq_0.
    - intros x e xs es Hx IHx _ IHxs f r Hf. destruct f as [|f]; [lia|].
      rewrite app_length in Hf |- *. pose proof (Enc_nonempty known str_ok _ _ Hx) as Hne.
      destruct e as [|b e']; [congruence|]. cbn [length plus] in *.
      rewrite pseq_S. rewrite <- app_assoc. rewrite IHx by (cbn [length]; lia). cbn [dbind].
      rewrite !app_length. cbn [length].
      replace (S (length e') + (length es + length r) - (length es + length r)) with (S (length e')) by lia.
      destruct (Nat.leb (S (length e')) (S (length e' + length es))) eqn:E;
        [|apply Nat.leb_gt in E; lia].
      replace (S (length e' + length es) - S (length e')) with (length es) by lia.
      rewrite IHxs by lia. reflexivity.
  Qed.

  (* ---------------------------------------------------------------- soundness *)

  Lemma pdec_sound : forall f,
    (forall bs n r, pdec f bs = DOk (n, r) -> exists e, bs = e ++ r /\ Enc n e) /\
    (forall k bs l r, pseq f k bs = DOk (l, r) ->
       exists e, bs = e ++ r /\ length e = k /\ EncList l e).
  Proof.
    assert (Hseq : forall n r1 items rest,
              (N.of_nat n < two32)%N ->
              (exists e, r1 = e ++ rest /\ length e = n /\ EncList items e) ->
              exists body, be32 n ++ r1 = arr body ++ rest /\ fits body = true /\ EncList items body).
    { intros n r1 items rest Hn (e & -> & <- & HL). exists e. split; [|split; [|exact HL]].
      - unfold arr. rewrite <- app_assoc. reflexivity.
      - unfold fits. lia. }
    induction f as [|f [IHd IHl]]; split.
    - intros bs n r H. discriminate H.
    - intros k bs l r H. destruct k; [|discriminate H]. injection H as <- <-.
      exists []. repeat split. constructor.
    - intros bs n r H. destruct bs as [|tag r0]; [discriminate H|].
      destruct (tag_cases tag) as [->|[->|[->|[->|[(k & has & Hsh)|(N0 & N1 & N2 & Na & Hsh)]]]]].
      + rewrite pdec_S_int in H. destruct (dec_int r0) as [[z rest]|] eqn:D; [|discriminate].
        injection H as <- <-. apply dec_int_iff in D. destruct D as (e & -> & HZ).
        exists (x00 :: e). split; [reflexivity|]. constructor. exact HZ.
      + rewrite pdec_S_str in H. destruct (take_arr r0) as [[s rest]|] eqn:T; [|discriminate].
        destruct (str_ok s) eqn:S; [|discriminate]. injection H as <- <-.
        apply take_arr_sound in T. destruct T as [-> Hf].
        exists (x01 :: arr s). split; [reflexivity|]. constructor; assumption.
      + rewrite pdec_S_seq in H. destruct (seq_len r0) as [[n0 r1]|] eqn:T; [|discriminate].
        destruct (pseq f n0 r1) as [[items rest]| |] eqn:DL; cbn [dbind] in H; try discriminate.
        injection H as <- <-. apply seq_len_sound in T. destruct T as (-> & _ & Hn).
        destruct (Hseq _ _ _ _ Hn (IHl _ _ _ _ DL)) as (body & E & Hf & HL).
        exists (x02 :: arr body). split; [cbn [app]; rewrite E; reflexivity|]. constructor; assumption.
      + rewrite pdec_S_byt in H. destruct (take_arr r0) as [[b rest]|] eqn:T; [|discriminate].
        injection H as <- <-. apply take_arr_sound in T. destruct T as [-> Hf].
        exists (x0a :: arr b). split; [reflexivity|]. constructor; assumption.
      + destruct r0 as [|t r1].
        { rewrite pdec_S_prim_short in H by congruence. discriminate. }
        rewrite (pdec_S_prim f tag t r1 k has Hsh) in H.
        destruct (known t) eqn:K; [|discriminate].
        destruct (pdec_args f k r1) as [[args r2]| |] eqn:DA; cbn [dbind] in H; try discriminate.
        destruct (dec_annots has r2) as [[annots r3]| |] eqn:DN; cbn [dbind] in H; try discriminate.
        injection H as <- <-. apply (dec_annots_sound str_ok) in DN. destruct DN as (ea & -> & HA).
        apply prim_shape_inv in Hsh.
        destruct Hsh as [[-> ->]|[[-> ->]|[[-> ->]|(-> & -> & ->)]]]; cbn [pdec_args] in DA.
        * injection DA as <- ->. exists ((if has then x04 else x03) :: t :: ea).
          split; [reflexivity|]. constructor; assumption.
        * destruct (pdec f r1) as [[a r2']| |] eqn:D1; cbn [dbind] in DA; try discriminate.
          injection DA as <- ->. apply IHd in D1. destruct D1 as (e1 & -> & H1).
          exists ((if has then x06 else x05) :: t :: e1 ++ ea).
          split; [cbn [app]; rewrite <- app_assoc; reflexivity|]. constructor; assumption.
        * destruct (pdec f r1) as [[a r2']| |] eqn:D1; cbn [dbind] in DA; try discriminate.
          destruct (pdec f r2') as [[b r3']| |] eqn:D2; cbn [dbind] in DA; try discriminate.
          injection DA as <- ->. apply IHd in D1. destruct D1 as (e1 & -> & H1).
          apply IHd in D2. destruct D2 as (e2 & -> & H2).
          exists ((if has then x08 else x07) :: t :: e1 ++ e2 ++ ea).
          split; [cbn [app]; rewrite <- !app_assoc; reflexivity|]. constructor; assumption.
        * destruct (seq_len r1) as [[n0 r2']|] eqn:T; [|discriminate].
          apply seq_len_sound in T. destruct T as (-> & _ & Hn).
          destruct (Hseq _ _ _ _ Hn (IHl _ _ _ _ DA)) as (body & E & Hf & HL).
          exists (x09 :: t :: arr body ++ ea).
          split; [cbn [app]; rewrite E, <- app_assoc; reflexivity|].
          constructor; assumption.
      + rewrite pdec_S_other in H by assumption. discriminate.
    - intros k bs l r H. destruct k as [|k].
      { rewrite pseq_0 in H. injection H as <- <-. exists []. repeat split. constructor. }
      rewrite pseq_S in H.
      destruct (pdec f bs) as [[x rest]| |] eqn:D; cbn [dbind] in H; try discriminate.
      apply IHd in D. destruct D as (e1 & -> & Hx).
      rewrite app_length in H.
      replace (length e1 + length rest - length rest) with (length e1) in H by lia.
      destruct (Nat.leb (length e1) (S k)) eqn:E; [|discriminate]. apply Nat.leb_le in E.
      destruct (pseq f (S k - length e1) rest) as [[xs rest']| |] eqn:DL; cbn [dbind] in H; try discriminate.
      injection H as <- <-. apply IHl in DL. destruct DL as (es & -> & Hlen & HL).
      exists (e1 ++ es). split; [rewrite app_assoc; reflexivity|]. split.
      + rewrite app_length. lia.
      + constructor; assumption.
  Qed.

  Lemma pdec_shorter f bs n r : pdec f bs = DOk (n, r) -> length r < length bs.
  Proof.
    intro H. apply (proj1 (pdec_sound f)) in H. destruct H as (e & -> & He).
    apply (Enc_nonempty known str_ok) in He. rewrite app_length. destruct e; [congruence|cbn [length]; lia].
  Qed.

  Lemma pseq_shorter f k bs l r : pseq f k bs = DOk (l, r) -> length r <= length bs.
  Proof.
    intro H. apply (proj2 (pdec_sound f)) in H. destruct H as (e & -> & _ & _).
    rewrite app_length. lia.
  Qed.

  (* ---------------------------------------------------------------- fuel *)

  Lemma pdec_fuel_ok : forall f,
    (forall bs, 2 * length bs + 1 <= f -> pdec f bs <> DFuel) /\
    (forall k bs, 2 * length bs + 2 <= f -> pseq f k bs <> DFuel).
  Proof.
    induction f as [|f [IHd IHl]]; split.
    - intros bs H. lia.
    - intros k bs H. lia.
    - intros bs Hf. destruct bs as [|tag r0]; [discriminate|]. cbn [length] in Hf.
      destruct (tag_cases tag) as [->|[->|[->|[->|[(k & has & Hsh)|(N0 & N1 & N2 & Na & Hsh)]]]]].
      + rewrite pdec_S_int. destruct (dec_int r0) as [[z rest]|]; discriminate.
      + rewrite pdec_S_str. destruct (take_arr r0) as [[s rest]|]; [|discriminate].
        destruct (str_ok s); discriminate.
      + rewrite pdec_S_seq. destruct (seq_len r0) as [[n0 r1]|] eqn:T; [|discriminate].
        apply seq_len_sound in T. destruct T as (-> & _ & _).
        rewrite app_length, be32_length in Hf.
        destruct (pseq f n0 r1) as [[items rest]| |] eqn:DL; cbn [dbind]; try discriminate.
        exfalso. apply (IHl n0 r1); [lia|exact DL].
      + rewrite pdec_S_byt. destruct (take_arr r0) as [[b rest]|]; discriminate.
      + destruct r0 as [|t r1].
        { rewrite pdec_S_prim_short by congruence. discriminate. }
        cbn [length] in Hf.
        rewrite (pdec_S_prim f tag t r1 k has Hsh).
        destruct (known t); [|discriminate].
        assert (HA : pdec_args f k r1 <> DFuel).
        { apply prim_shape_inv in Hsh.
          destruct Hsh as [[-> _]|[[-> _]|[[-> _]|(-> & _ & _)]]]; cbn [pdec_args].
          - discriminate.
          - destruct (pdec f r1) as [[a r2]| |] eqn:D1; cbn [dbind]; try discriminate.
            exfalso. apply (IHd r1); [lia|exact D1].
          - destruct (pdec f r1) as [[a r2]| |] eqn:D1; cbn [dbind]; try discriminate.
            + pose proof (pdec_shorter _ _ _ _ D1) as Hs.
              destruct (pdec f r2) as [[b r3]| |] eqn:D2; cbn [dbind]; try discriminate.
              exfalso. apply (IHd r2); [lia|exact D2].
            + exfalso. apply (IHd r1); [lia|exact D1].
          - destruct (seq_len r1) as [[n0 r2]|] eqn:T; [|discriminate].
            apply seq_len_sound in T. destruct T as (-> & _ & _).
            rewrite app_length, be32_length in Hf.
            apply IHl. lia. }
        destruct (pdec_args f k r1) as [[args r2]| |]; cbn [dbind]; try discriminate; [|congruence].
        pose proof (dec_annots_no_fuel str_ok has r2) as HN.
        destruct (dec_annots has r2) as [[annots r3]| |]; cbn [dbind]; try discriminate. congruence.
      + rewrite pdec_S_other by assumption. discriminate.
    - intros k bs Hf. destruct k as [|k]; [rewrite pseq_0; discriminate|].
      rewrite pseq_S.
      destruct (pdec f bs) as [[x rest]| |] eqn:D; cbn [dbind]; try discriminate.
      + pose proof (pdec_shorter _ _ _ _ D) as Hs.
        destruct (Nat.leb (length bs - length rest) (S k)); [|discriminate].
        destruct (pseq f (S k - (length bs - length rest)) rest) as [[xs rest']| |] eqn:DL;
          cbn [dbind]; try discriminate.
        exfalso. refine (IHl _ rest _ DL). lia.
      + exfalso. apply (IHd bs); [lia|exact D].
  Qed.

  (* ---------------------------------------------------------------- the two decoders agree *)

  Lemma pdec_full_iff bs n : pdec_full_gen known str_ok bs = DOk n <-> Enc n bs.
  Proof.
    unfold pdec_full_gen. split.
    - destruct (pdec (fuel_for bs) bs) as [[m r]| |] eqn:D; try discriminate.
      destruct r as [|x r]; [|discriminate]. intro H. injection H as ->.
      apply (proj1 (pdec_sound _)) in D. destruct D as (e & -> & He).
      rewrite app_nil_r. exact He.
    - intro H. pose proof (proj1 pdec_complete _ _ H (fuel_for bs) []) as D.
      rewrite app_nil_r in D. rewrite D; [reflexivity|]. unfold fuel_for. lia.
  Qed.

  Lemma pdec_full_fuel_ok bs : pdec_full_gen known str_ok bs <> DFuel.
  Proof.
    unfold pdec_full_gen.
    pose proof (proj1 (pdec_fuel_ok (fuel_for bs)) bs) as H.
    destruct (pdec (fuel_for bs) bs) as [[m [|x r]]| |]; try discriminate.
    exfalso. apply H; [unfold fuel_for; lia|reflexivity].
  Qed.

  Theorem pdec_full_eq bs : pdec_full_gen known str_ok bs = dec_full_gen known str_ok bs.
  Proof.
    pose proof (pdec_full_fuel_ok bs) as HP. pose proof (dec_full_fuel_ok known str_ok bs) as HD.
    destruct (dec_full_gen known str_ok bs) as [n| |] eqn:D.
    - apply dec_full_iff in D. apply pdec_full_iff, D.
    - destruct (pdec_full_gen known str_ok bs) as [m| |] eqn:P; [|reflexivity|congruence].
      apply pdec_full_iff in P. apply (dec_full_iff known str_ok) in P. congruence.
    - congruence.
  Qed.
End Index.

Lemma pdec_full_eq_py bs : pdec_full bs = dec_full bs.
Proof. unfold pdec_full, dec_full. apply pdec_full_eq. Qed.
