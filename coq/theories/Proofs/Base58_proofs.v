(* Proofs/Base58_proofs.v — lemmas about Codec/Base58.v (property C09). *)
From Coq Require Import String List NArith Bool Arith Lia.
From Coq.Strings Require Import Byte.
From PV Require Import Base.Bytes Base.Result Codec.Base58.
Import ListNotations.
Local Open Scope list_scope.

(* ========================================================================================== *)
(* positional notation in base B                                                               *)

Section Radix.
  Variable B : N.
  Hypothesis HB : (1 < B)%N.

  Definition digits_ok (l : list N) : Prop := Forall (fun d => (d < B)%N) l.
  (* canonical: digits in range and the most significant one (the last) is not zero *)
  Definition canon (l : list N) : Prop := digits_ok l /\ last l 1%N <> 0%N.

  Lemma pow_pos_B k : (0 < B ^ k)%N.
  Proof. apply N.neq_0_lt_0, N.pow_nonzero. lia. Qed.

  Lemma lsf_digits_ok f n : digits_ok (lsf_digits B f n).
  Proof.
    revert n. induction f as [|f IH]; intro n; simpl.
    - constructor.
    - destruct (n =? 0)%N; [constructor|].
      constructor; [apply N.mod_lt; lia | apply IH].
  Qed.

  Lemma lsf_value_digits f n : (n < B ^ N.of_nat f)%N -> lsf_value B (lsf_digits B f n) = n.
  Proof.
    revert n. induction f as [|f IH]; intros n Hn.
    - simpl in *. change (B ^ 0)%N with 1%N in Hn. lia.
    - cbn [lsf_digits]. destruct (n =? 0)%N eqn:E.
      + apply N.eqb_eq in E. subst. reflexivity.
      + cbn [lsf_value]. rewrite IH.
        * rewrite N.add_comm. symmetry. apply N.div_mod. lia.
        * rewrite Nat2N.inj_succ, N.pow_succ_r' in Hn.
          apply N.div_lt_upper_bound; lia.
  Qed.

  Lemma lsf_digits_last f n : (n < B ^ N.of_nat f)%N -> last (lsf_digits B f n) 1%N <> 0%N.
  Proof.
    revert n. induction f as [|f IH]; intros n Hn.
    - simpl. discriminate.
    - cbn [lsf_digits]. destruct (n =? 0)%N eqn:E; [simpl; discriminate|].
      apply N.eqb_neq in E.
      assert (Hq : (n / B < B ^ N.of_nat f)%N).
      { rewrite Nat2N.inj_succ, N.pow_succ_r' in Hn. apply N.div_lt_upper_bound; lia. }
      specialize (IH _ Hq).
      destruct (lsf_digits B f (n / B)) as [|d r] eqn:Er.
      + (* n / B has no digits: it is 0 *)
        assert (Hz : (n / B = 0)%N).
        { pose proof (lsf_value_digits f (n / B) Hq) as Hv. rewrite Er in Hv. simpl in Hv. lia. }
        simpl. pose proof (N.div_mod n B ltac:(lia)) as Hdm. rewrite Hz in Hdm. lia.
      + change (last (n mod B :: d :: r) 1)%N with (last (d :: r) 1%N). exact IH.
  Qed.

  Lemma lsf_digits_canon f n : (n < B ^ N.of_nat f)%N -> canon (lsf_digits B f n).
  Proof. intro H. split; [apply lsf_digits_ok | apply lsf_digits_last, H]. Qed.

  Lemma canon_tail d r : canon (d :: r) -> r <> [] -> canon r.
  Proof.
    intros [Hok Hl] Hr. split.
    - inversion Hok; assumption.
    - destruct r as [|d' r']; [contradiction|]. exact Hl.
  Qed.

  Lemma canon_pos l : canon l -> l <> [] -> (0 < lsf_value B l)%N.
  Proof.
    induction l as [|d r IH]; intros Hc Hne; [contradiction|].
    cbn [lsf_value]. destruct r as [|d' r'].
    - destruct Hc as [_ Hl]. simpl in Hl. simpl. lia.
    - assert (Hr : (0 < lsf_value B (d' :: r'))%N).
      { apply IH; [eapply canon_tail; eauto|]; discriminate. }
      nia.
  Qed.

  Lemma canon_unique l1 l2 :
    canon l1 -> canon l2 -> lsf_value B l1 = lsf_value B l2 -> l1 = l2.
  Proof.
    revert l2. induction l1 as [|d1 r1 IH]; intros l2 H1 H2 Hv.
    - destruct l2 as [|d2 r2]; [reflexivity|].
      pose proof (canon_pos _ H2 ltac:(discriminate)) as Hp. cbn [lsf_value] in *. lia.
    - destruct l2 as [|d2 r2].
      + pose proof (canon_pos _ H1 ltac:(discriminate)) as Hp. cbn [lsf_value] in *. lia.
      + cbn [lsf_value] in Hv.
        assert (Hd1 : (d1 < B)%N) by (destruct H1 as [Hok _]; inversion Hok; assumption).
        assert (Hd2 : (d2 < B)%N) by (destruct H2 as [Hok _]; inversion Hok; assumption).
        assert (Hdd : d1 = d2 /\ lsf_value B r1 = lsf_value B r2).
        { assert (E1 : ((d1 + B * lsf_value B r1) mod B = d1)%N).
          { rewrite N.mul_comm, N.mod_add by lia. apply N.mod_small, Hd1. }
          assert (E2 : ((d2 + B * lsf_value B r2) mod B = d2)%N).
          { rewrite N.mul_comm, N.mod_add by lia. apply N.mod_small, Hd2. }
          assert (Hd : d1 = d2) by (rewrite <- E1, <- E2, Hv; reflexivity).
          split; [exact Hd|]. subst d2.
          assert (HBr : (B * lsf_value B r1 = B * lsf_value B r2)%N) by lia.
          apply N.mul_cancel_l in HBr; [exact HBr | lia]. }
        destruct Hdd as [-> Hvr]. f_equal.
        destruct r1 as [|a1 s1], r2 as [|a2 s2]; try reflexivity.
        * pose proof (canon_pos (a2 :: s2) (canon_tail _ _ H2 ltac:(discriminate)) ltac:(discriminate)).
          cbn [lsf_value] in *. lia.
        * pose proof (canon_pos (a1 :: s1) (canon_tail _ _ H1 ltac:(discriminate)) ltac:(discriminate)).
          cbn [lsf_value] in *. lia.
        * apply IH; [eapply canon_tail; eauto; discriminate | eapply canon_tail; eauto; discriminate | exact Hvr].
  Qed.

  Lemma lsf_value_app l1 l2 :
    lsf_value B (l1 ++ l2) = (lsf_value B l1 + B ^ N.of_nat (length l1) * lsf_value B l2)%N.
  Proof.
    induction l1 as [|d r IH].
    - cbn [app lsf_value length]. change (N.of_nat 0) with 0%N. rewrite N.pow_0_r. lia.
    - cbn [app lsf_value length]. rewrite IH, Nat2N.inj_succ, N.pow_succ_r'. lia.
  Qed.

  Lemma lsf_value_lt l : digits_ok l -> (lsf_value B l < B ^ N.of_nat (length l))%N.
  Proof.
    induction 1 as [|d r Hd Hr IH].
    - cbn [lsf_value length]. change (N.of_nat 0) with 0%N. rewrite N.pow_0_r. lia.
    - cbn [lsf_value length]. rewrite Nat2N.inj_succ, N.pow_succ_r'. nia.
  Qed.

  (* a canonical list of L digits is at least B^(L-1) *)
  Lemma canon_lower l : canon l -> l <> [] -> (B ^ N.of_nat (length l - 1) <= lsf_value B l)%N.
  Proof.
    induction l as [|d r IH]; intros Hc Hne; [contradiction|].
    destruct r as [|d' r'].
    - destruct Hc as [_ Hl]. simpl in *. change (B ^ 0)%N with 1%N. lia.
    - assert (Hr : canon (d' :: r')) by (eapply canon_tail; eauto; discriminate).
      specialize (IH Hr ltac:(discriminate)).
      cbn [lsf_value length] in *.
      replace (S (S (length r')) - 1)%nat with (S (length r')) by lia.
      replace (S (length r') - 1)%nat with (length r') in IH by lia.
      rewrite Nat2N.inj_succ, N.pow_succ_r'. nia.
  Qed.

  Lemma lsf_fixed_length j n : length (lsf_fixed B j n) = j.
  Proof. revert n. induction j as [|j IH]; intro n; simpl; [reflexivity | rewrite IH; reflexivity]. Qed.

  Lemma lsf_fixed_ok j n : digits_ok (lsf_fixed B j n).
  Proof.
    revert n. induction j as [|j IH]; intro n; simpl; constructor; [apply N.mod_lt; lia | apply IH].
  Qed.

  Lemma lsf_fixed_value j n : (n < B ^ N.of_nat j)%N -> lsf_value B (lsf_fixed B j n) = n.
  Proof.
    revert n. induction j as [|j IH]; intros n Hn.
    - simpl in *. change (B ^ 0)%N with 1%N in Hn. lia.
    - cbn [lsf_fixed lsf_value]. rewrite IH.
      + rewrite N.add_comm. symmetry. apply N.div_mod. lia.
      + rewrite Nat2N.inj_succ, N.pow_succ_r' in Hn. apply N.div_lt_upper_bound; lia.
  Qed.

  Lemma last_app_ne (a b : list N) d : b <> [] -> last (a ++ b) d = last b d.
  Proof.
    intro Hb. induction a as [|x a IH]; [reflexivity|].
    simpl. destruct (a ++ b) eqn:E; [|exact IH].
    apply app_eq_nil in E. destruct E; contradiction.
  Qed.

  (* the digits of  T·B^j + b  are the j digits of b followed by the digits of T *)
  Lemma lsf_digits_split f k j T b :
    (0 < T)%N -> (T < B ^ N.of_nat k)%N -> (b < B ^ N.of_nat j)%N ->
    (T * B ^ N.of_nat j + b < B ^ N.of_nat f)%N ->
    lsf_digits B f (T * B ^ N.of_nat j + b) = lsf_fixed B j b ++ lsf_digits B k T.
  Proof.
    intros HT HTk Hb Hf.
    assert (HdT : lsf_digits B k T <> []).
    { intro E. pose proof (lsf_value_digits k T HTk) as Hv. rewrite E in Hv. simpl in Hv. lia. }
    apply canon_unique.
    - apply lsf_digits_canon, Hf.
    - split.
      + apply Forall_app. split; [apply lsf_fixed_ok | apply lsf_digits_ok].
      + rewrite last_app_ne by exact HdT. apply lsf_digits_last, HTk.
    - rewrite lsf_value_digits by exact Hf.
      rewrite lsf_value_app, lsf_fixed_length, lsf_fixed_value by exact Hb.
      rewrite lsf_value_digits by exact HTk. lia.
  Qed.
End Radix.

(* ========================================================================================== *)
(* bytes as base-256 numbers                                                                   *)

Lemma be_to_N_acc_app acc a b : be_to_N_acc acc (a ++ b) = be_to_N_acc (be_to_N_acc acc a) b.
Proof. revert acc. induction a as [|x a IH]; intro acc; simpl; [reflexivity | apply IH]. Qed.

Lemma be_to_N_acc_shift acc l :
  be_to_N_acc acc l = (acc * 256 ^ N.of_nat (length l) + be_to_N l)%N.
Proof.
  unfold be_to_N. revert acc. induction l as [|x l IH]; intro acc.
  - simpl. change (256 ^ 0)%N with 1%N. lia.
  - cbn [be_to_N_acc length]. rewrite IH, (IH (0 * 256 + Byte.to_N x)%N).
    rewrite Nat2N.inj_succ, N.pow_succ_r'. lia.
Qed.

Lemma be_to_N_app a b : be_to_N (a ++ b) = (be_to_N a * 256 ^ N.of_nat (length b) + be_to_N b)%N.
Proof. unfold be_to_N at 1. rewrite be_to_N_acc_app, be_to_N_acc_shift. reflexivity. Qed.

Lemma be_to_N_lsf l : be_to_N l = lsf_value 256 (rev (map Byte.to_N l)).
Proof.
  induction l as [|x l IH]; [reflexivity|].
  change (x :: l) with ([x] ++ l). rewrite be_to_N_app, map_app, rev_app_distr.
  rewrite (lsf_value_app 256), rev_length, map_length, <- IH by lia.
  assert (E1 : be_to_N [x] = Byte.to_N x) by (unfold be_to_N; cbn [be_to_N_acc]; lia).
  assert (E2 : lsf_value 256 (rev (map Byte.to_N [x])) = Byte.to_N x) by (cbn [map rev app lsf_value]; lia).
  rewrite E1, E2. lia.
Qed.

Lemma bytes_digits_ok l : digits_ok 256 (rev (map Byte.to_N l)).
Proof.
  apply Forall_rev, Forall_forall. intros d Hd. apply in_map_iff in Hd.
  destruct Hd as [b [<- _]]. apply to_N_lt_256.
Qed.

Lemma be_to_N_lt l : (be_to_N l < 256 ^ N.of_nat (length l))%N.
Proof.
  rewrite be_to_N_lsf.
  pose proof (lsf_value_lt 256 ltac:(lia) _ (bytes_digits_ok l)) as H.
  rewrite rev_length, map_length in H. exact H.
Qed.

Lemma map_b8_to_N l : map b8 (map Byte.to_N l) = l.
Proof. induction l as [|x l IH]; simpl; [reflexivity | rewrite b8_to_N, IH; reflexivity]. Qed.

(* a byte string without leading zero byte is the minimal big-endian form of its number *)
Lemma min_be_be_to_N f l :
  (match l with x00 :: _ => False | _ => True end) ->
  (be_to_N l < 256 ^ N.of_nat f)%N ->
  min_be f (be_to_N l) = l.
Proof.
  intros Hhd Hf. unfold min_be.
  assert (E : lsf_digits 256 f (be_to_N l) = rev (map Byte.to_N l)).
  { apply (canon_unique 256 ltac:(lia)).
    - apply lsf_digits_canon; [lia | exact Hf].
    - split; [apply bytes_digits_ok|].
      destruct l as [|x l]; [simpl; discriminate|].
      cbn [map rev]. rewrite last_last.
      intro Hz. destruct x; simpl in Hz; try discriminate. exact Hhd.
    - rewrite lsf_value_digits by (try lia; exact Hf). apply be_to_N_lsf. }
  rewrite E, rev_involutive. apply map_b8_to_N.
Qed.

(* ========================================================================================== *)
(* the alphabet                                                                                *)

Lemma digit_char_roundtrip d : (d < 58)%N -> digit_of_char (char_of_digit d) = Some d.
Proof.
  intro Hd.
  assert (H : forallb (fun d => match digit_of_char (char_of_digit d) with Some d' => N.eqb d' d | None => false end)
                      (map N.of_nat (seq 0 58)) = true) by (vm_compute; reflexivity).
  rewrite forallb_forall in H.
  specialize (H d).
  assert (Hin : In d (map N.of_nat (seq 0 58))).
  { apply in_map_iff. exists (N.to_nat d). split; [lia|]. apply in_seq. lia. }
  specialize (H Hin). destruct (digit_of_char (char_of_digit d)) as [d'|]; [|discriminate].
  apply N.eqb_eq in H. subst. reflexivity.
Qed.

Lemma index_of_some c l i d : index_of c l i = Some d ->
  (i <= d)%N /\ nth_error l (N.to_nat (d - i)) = Some c.
Proof.
  revert i. induction l as [|x l IH]; intros i H; simpl in H; [discriminate|].
  destruct (byte_eqb c x) eqn:E.
  - injection H as <-. apply byte_eqb_spec in E. subst. split; [lia|].
    replace (i - i)%N with 0%N by lia. reflexivity.
  - apply IH in H. destruct H as [Hle Hn]. split; [lia|].
    replace (N.to_nat (d - i)) with (S (N.to_nat (d - (i + 1)))) by lia. exact Hn.
Qed.

Lemma char_digit_roundtrip c d : digit_of_char c = Some d -> (d < 58)%N /\ char_of_digit d = c.
Proof.
  intro H. unfold digit_of_char in H. apply index_of_some in H. destruct H as [_ Hn].
  rewrite N.sub_0_r in Hn.
  assert (Hlt : (N.to_nat d < length alphabet)%nat) by (apply nth_error_Some; rewrite Hn; discriminate).
  change (length alphabet) with 58%nat in Hlt. split; [lia|].
  unfold char_of_digit. apply nth_error_nth. exact Hn.
Qed.

Lemma char_not_ws d : (d < 58)%N -> ws_byte (char_of_digit d) = false.
Proof.
  intro Hd.
  assert (H : forallb (fun d => negb (ws_byte (char_of_digit d))) (map N.of_nat (seq 0 58)) = true)
    by (vm_compute; reflexivity).
  rewrite forallb_forall in H. specialize (H d).
  assert (Hin : In d (map N.of_nat (seq 0 58))).
  { apply in_map_iff. exists (N.to_nat d). split; [lia|]. apply in_seq. lia. }
  apply H in Hin. apply negb_true_iff in Hin. exact Hin.
Qed.

Lemma char_of_digit_one d : (d < 58)%N -> char_of_digit d = one_char -> d = 0%N.
Proof.
  intros Hd E. pose proof (digit_char_roundtrip d Hd) as H. rewrite E in H.
  vm_compute in H. injection H as <-. reflexivity.
Qed.

(* chars_value over most-significant-first text = lsf_value of the reversed digit list *)
Lemma chars_value_app acc a b :
  chars_value acc (a ++ b) = match chars_value acc a with Some x => chars_value x b | None => None end.
Proof.
  revert acc. induction a as [|c a IH]; intro acc; simpl; [reflexivity|].
  destruct (digit_of_char c); [apply IH | reflexivity].
Qed.

Lemma chars_value_digits acc l :
  digits_ok 58 l ->
  chars_value acc (map char_of_digit (rev l)) = Some (acc * 58 ^ N.of_nat (length l) + lsf_value 58 l)%N.
Proof.
  intro H. revert acc. induction H as [|d r Hd Hr IH]; intro acc.
  - simpl. change (58 ^ 0)%N with 1%N. f_equal. lia.
  - cbn [rev]. rewrite map_app, chars_value_app, IH. cbn [map chars_value].
    rewrite digit_char_roundtrip by exact Hd. cbn [length lsf_value].
    rewrite Nat2N.inj_succ, N.pow_succ_r'. f_equal. lia.
Qed.

(* ========================================================================================== *)
(* stripping                                                                                   *)

Lemma rstrip_no_ws s : Forall (fun c => ws_byte c = false) s -> rstrip_ws s = s.
Proof.
  induction 1 as [|c r Hc Hr IH]; [reflexivity|].
  cbn [rstrip_ws]. rewrite IH. destruct r; [rewrite Hc|]; reflexivity.
Qed.

Lemma lstrip_repeat c n s :
  (match s with x :: _ => x <> c | [] => True end) -> lstrip c (repeat c n ++ s) = s.
Proof.
  intro Hs. induction n as [|n IH]; simpl.
  - destruct s as [|x s]; [reflexivity|]. simpl.
    destruct (byte_eqb x c) eqn:E; [apply byte_eqb_spec in E; contradiction | reflexivity].
  - assert (E : byte_eqb c c = true) by (apply byte_eqb_spec; reflexivity). rewrite E. exact IH.
Qed.

Lemma lstrip_decompose c v : v = repeat c (length v - length (lstrip c v)) ++ lstrip c v.
Proof.
  induction v as [|x v IH]; [reflexivity|].
  cbn [lstrip]. destruct (byte_eqb x c) eqn:E.
  - apply byte_eqb_spec in E. subst x.
    assert (Hle : (length (lstrip c v) <= length v)%nat).
    { clear IH. induction v as [|y v IHv]; simpl; [lia|]. destruct (byte_eqb y c); simpl; lia. }
    replace (length (c :: v) - length (lstrip c v))%nat with (S (length v - length (lstrip c v))).
    + cbn [repeat app]. f_equal. exact IH.
    + cbn [length]. lia.
  - replace (length (x :: v) - length (x :: v))%nat with 0%nat by lia. reflexivity.
Qed.

Lemma lstrip_head c v : match lstrip c v with x :: _ => x <> c | [] => True end.
Proof.
  induction v as [|x v IH]; simpl; [exact I|].
  destruct (byte_eqb x c) eqn:E; [exact IH|].
  intro H. subst. assert (byte_eqb c c = true) by (apply byte_eqb_spec; reflexivity). congruence.
Qed.

(* ========================================================================================== *)
(* b58_enc / b58_dec                                                                           *)

Lemma pow256_le_pow58 n : (256 ^ N.of_nat n <= 58 ^ N.of_nat (2 * n))%N.
Proof.
  induction n as [|n IH].
  - simpl. change (256 ^ 0)%N with 1%N. change (58 ^ 0)%N with 1%N. lia.
  - replace (2 * S n)%nat with (S (S (2 * n))) by lia.
    rewrite !Nat2N.inj_succ, !N.pow_succ_r'. nia.
Qed.

Lemma pow58_le_pow256 n : (58 ^ N.of_nat n <= 256 ^ N.of_nat n)%N.
Proof. apply N.pow_le_mono_l. lia. Qed.

Lemma b58_of_N_chars f n : Forall (fun c => ws_byte c = false) (b58_of_N f n).
Proof.
  unfold b58_of_N. apply Forall_forall. intros c Hc. apply in_map_iff in Hc.
  destruct Hc as [d [<- Hd]]. apply in_rev in Hd.
  pose proof (lsf_digits_ok 58 ltac:(lia) f n) as Hok. unfold digits_ok in Hok.
  rewrite Forall_forall in Hok. apply char_not_ws, Hok, Hd.
Qed.

(* the first character of the expansion of a number is not "1" *)
Lemma b58_of_N_head f n : (n < 58 ^ N.of_nat f)%N ->
  match b58_of_N f n with x :: _ => x <> one_char | [] => True end.
Proof.
  intro Hf. unfold b58_of_N.
  pose proof (lsf_digits_canon 58 ltac:(lia) f n Hf) as [Hok Hl].
  remember (lsf_digits 58 f n) as l eqn:El. clear El.
  induction l as [|d r _] using rev_ind; [exact I|].
  rewrite rev_app_distr. cbn [rev app map].
  rewrite last_last in Hl. intro Hc.
  unfold digits_ok in Hok. apply Forall_app in Hok. destruct Hok as [_ Hd]. inversion Hd as [|? ? Hd' _]; subst.
  apply char_of_digit_one in Hc; [contradiction | exact Hd'].
Qed.

Theorem b58_dec_enc v : b58_dec (b58_enc v) = Some v.
Proof.
  unfold b58_enc, b58_dec.
  set (body := lstrip x00 v). set (z := (length v - length body)%nat).
  set (n := be_to_N body).
  assert (Hn : (n < 58 ^ N.of_nat (2 * length body))%N).
  { eapply N.lt_le_trans; [apply be_to_N_lt | apply pow256_le_pow58]. }
  set (digs := b58_of_N (2 * length body) n).
  assert (Hws : rstrip_ws (repeat one_char z ++ digs) = repeat one_char z ++ digs).
  { apply rstrip_no_ws, Forall_app. split; [|apply b58_of_N_chars].
    apply Forall_forall. intros c Hc. apply repeat_spec in Hc. subst. reflexivity. }
  rewrite Hws.
  assert (Hls : lstrip one_char (repeat one_char z ++ digs) = digs).
  { apply lstrip_repeat. apply b58_of_N_head, Hn. }
  rewrite Hls.
  assert (Hlen : (length (repeat one_char z ++ digs) - length digs = z)%nat).
  { rewrite app_length, repeat_length. lia. }
  rewrite Hlen.
  unfold digs at 1. unfold b58_of_N.
  rewrite chars_value_digits by (apply lsf_digits_ok; lia).
  rewrite lsf_value_digits by (try lia; exact Hn).
  rewrite N.mul_0_l, N.add_0_l. f_equal.
  unfold n at 1. rewrite min_be_be_to_N.
  - unfold z, body. symmetry. apply lstrip_decompose.
  - pose proof (lstrip_head x00 v) as Hh. fold body in Hh. destruct body as [|x b]; [exact I|].
    destruct x; try exact I. apply Hh. reflexivity.
  - (* fuel: the number is below 58^(#digits) <= 256^(#digits) *)
    fold n. unfold digs, b58_of_N. rewrite map_length, rev_length.
    eapply N.lt_le_trans; [|apply pow58_le_pow256].
    pose proof (lsf_value_lt 58 ltac:(lia) _ (lsf_digits_ok 58 ltac:(lia) (2 * length body) n)) as Hv.
    rewrite lsf_value_digits in Hv by (try lia; exact Hn). exact Hv.
Qed.

(* ========================================================================================== *)
(* prefixes                                                                                    *)

Lemma is_prefix_app p s : is_prefix p (p ++ s) = true.
Proof.
  induction p as [|x p IH]; [reflexivity|]. cbn [app is_prefix].
  rewrite IH. replace (byte_eqb x x) with true; [reflexivity|].
  symmetry. apply byte_eqb_spec. reflexivity.
Qed.

Lemma is_prefix_spec p s : is_prefix p s = true <-> exists r, s = p ++ r.
Proof.
  split.
  - revert s. induction p as [|x p IH]; intros s H.
    + exists s. reflexivity.
    + destruct s as [|y s]; [discriminate|]. cbn [is_prefix] in H.
      apply andb_true_iff in H. destruct H as [Hxy Hp]. apply byte_eqb_spec in Hxy. subst y.
      destruct (IH _ Hp) as [r ->]. exists r. reflexivity.
  - intros [r ->]. apply is_prefix_app.
Qed.

(* two prefixes of the same string are comparable *)
Lemma is_prefix_comparable a b s :
  is_prefix a s = true -> is_prefix b s = true -> is_prefix a b = true \/ is_prefix b a = true.
Proof.
  revert b s. induction a as [|x a IH]; intros b s Ha Hb; [left; reflexivity|].
  destruct b as [|y b]; [right; reflexivity|].
  destruct s as [|z s]; [discriminate|].
  cbn [is_prefix] in *. apply andb_true_iff in Ha, Hb. destruct Ha as [Hxz Ha], Hb as [Hyz Hb].
  apply byte_eqb_spec in Hxz, Hyz. subst.
  assert (E : byte_eqb z z = true) by (apply byte_eqb_spec; reflexivity). rewrite E.
  destruct (IH _ _ Ha Hb) as [H|H]; [left | right]; exact H.
Qed.

Lemma skipn_app_exact {A} (a b : list A) : skipn (length a) (a ++ b) = b.
Proof. induction a as [|x a IH]; [reflexivity | exact IH]. Qed.

Lemma firstn_app_exact {A} (a b : list A) : firstn (length a) (a ++ b) = a.
Proof. induction a as [|x a IH]; [reflexivity | simpl; rewrite IH; reflexivity]. Qed.

Lemma row_eqb_spec a b : row_eqb a b = true <-> a = b.
Proof.
  unfold row_eqb. destruct a as [t1 e1 b1 p1], b as [t2 e2 b2 p2]. cbn [tpre elen bpre plen].
  rewrite !andb_true_iff, !bytes_eqb_spec, !Nat.eqb_eq. split.
  - intros [[[-> ->] ->] ->]. reflexivity.
  - intro H. injection H as -> -> -> ->. auto.
Qed.

(* ========================================================================================== *)
(* the interval argument: every payload of a row gets the row's length and textual prefix     *)

Lemma row_ok_enc r p c :
  row_ok r = true -> length p = plen r -> length c = 4%nat ->
  length (b58_enc (bpre r ++ p ++ c)) = elen r /\ is_prefix (tpre r) (b58_enc (bpre r ++ p ++ c)) = true.
Proof.
  intros Hok Hp Hc. unfold row_ok in Hok.
  destruct (tpre_value r) as [T|] eqn:ET; [|discriminate].
  repeat (apply andb_true_iff in Hok; destruct Hok as [Hok ?]).
  rename H into Hhi, H0 into Hlo, H1 into Hb0, H2 into Htp, H3 into HTk, H4 into HT0, Hok into Hk.
  apply Nat.leb_le in Hk. apply N.ltb_lt in HT0, HTk. apply N.leb_le in Hlo, Hhi.
  apply bytes_eqb_spec in Htp.
  set (k := length (tpre r)) in *. set (j := (elen r - k)%nat) in *.
  set (b := be_to_N (bpre r)) in *.
  set (v := bpre r ++ p ++ c).
  (* no leading zero byte: nothing is stripped *)
  assert (Hstrip : lstrip x00 v = v).
  { unfold v. destruct (bpre r) as [|b0 bs]; [discriminate|].
    cbn [app lstrip]. destruct b0; try reflexivity. discriminate. }
  unfold b58_enc. rewrite Hstrip, Nat.sub_diag. cbn [repeat app].
  set (f := (2 * length v)%nat).
  set (n := be_to_N v).
  assert (Hlen_pc : length (p ++ c) = (plen r + 4)%nat) by (rewrite app_length; lia).
  assert (En : n = (b * 256 ^ N.of_nat (plen r + 4) + be_to_N (p ++ c))%N).
  { unfold n, v. rewrite be_to_N_app, Hlen_pc. reflexivity. }
  assert (Hx : (be_to_N (p ++ c) < 256 ^ N.of_nat (plen r + 4))%N).
  { rewrite <- Hlen_pc. apply be_to_N_lt. }
  assert (Hf : (n < 58 ^ N.of_nat f)%N).
  { unfold n, f. eapply N.lt_le_trans; [apply be_to_N_lt | apply pow256_le_pow58]. }
  set (P := (58 ^ N.of_nat j)%N) in *.
  assert (Hn1 : (T * P <= n)%N) by lia.
  assert (Hn2 : (n < (T + 1) * P)%N) by lia.
  set (y := (n - T * P)%N).
  assert (Ey : n = (T * P + y)%N) by (unfold y; lia).
  assert (Hy : (y < P)%N) by (unfold y; lia).
  assert (Hd : lsf_digits 58 f n = lsf_fixed 58 j y ++ lsf_digits 58 k T).
  { rewrite Ey. apply lsf_digits_split; lia. }
  assert (Es : b58_of_N f n = tpre r ++ map char_of_digit (rev (lsf_fixed 58 j y))).
  { unfold b58_of_N at 1. rewrite Hd, rev_app_distr, map_app.
    fold (b58_of_N k T). rewrite Htp. reflexivity. }
  rewrite Es. split.
  - rewrite app_length, map_length, rev_length, lsf_fixed_length. fold k. unfold j. lia.
  - apply is_prefix_app.
Qed.

(* ========================================================================================== *)
(* checksummed encoding and the typed functions                                                *)

Section Table.
  Variable sha256 : bytes -> bytes.
  Hypothesis sha256_len : forall x, length (sha256 x) = 32%nat.

  Lemma checksum_length x : length (checksum sha256 x) = 4%nat.
  Proof. unfold checksum. rewrite firstn_length, sha256_len. reflexivity. Qed.

  Lemma b58check_dec_enc v : b58check_dec sha256 (b58check_enc sha256 v) = Some v.
  Proof.
    unfold b58check_dec, b58check_enc. rewrite b58_dec_enc.
    rewrite app_length, checksum_length.
    replace (length v + 4 - 4)%nat with (length v) by lia.
    rewrite firstn_app_exact, skipn_app_exact.
    replace (bytes_eqb (checksum sha256 v) (checksum sha256 v)) with true; [reflexivity|].
    symmetry. apply bytes_eqb_spec. reflexivity.
  Qed.

  Variable t : list row.

  (* what a successful base58_encode returns *)
  Lemma encode_ok_inv p tp s :
    base58_encode sha256 t p tp = Ok s ->
    exists r, In r t /\ tpre r = tp /\ plen r = length p /\ s = b58check_enc sha256 (bpre r ++ p).
  Proof.
    unfold base58_encode, find_enc. intro H.
    destruct (find _ t) as [r|] eqn:E; [|discriminate]. injection H as <-.
    apply find_some in E. destruct E as [Hin Hpred].
    apply andb_true_iff in Hpred. destruct Hpred as [Hl Ht].
    apply Nat.eqb_eq in Hl. apply bytes_eqb_spec in Ht.
    exists r. repeat split; auto.
  Qed.

  (* it succeeds whenever the table has a row for (prefix, length) *)
  Lemma encode_total r p :
    In r t -> length p = plen r -> exists s, base58_encode sha256 t p (tpre r) = Ok s.
  Proof.
    intros Hin Hp. unfold base58_encode, find_enc.
    destruct (find _ t) as [r'|] eqn:E; [eexists; reflexivity|].
    exfalso. eapply find_none in E; [|exact Hin]. cbn beta in E.
    rewrite Hp, Nat.eqb_refl in E.
    replace (bytes_eqb (tpre r) (tpre r)) with true in E; [discriminate|].
    symmetry. apply bytes_eqb_spec. reflexivity.
  Qed.

  Hypothesis Hrows : forallb row_ok t = true.
  Hypothesis Hunamb : table_unamb t = true.

  Lemma row_ok_in r : In r t -> row_ok r = true.
  Proof. intro H. rewrite forallb_forall in Hrows. apply Hrows, H. Qed.

  (* a string matches at most one row *)
  Lemma find_dec_unique r s :
    In r t -> length s = elen r -> is_prefix (tpre r) s = true -> find_dec t s = Some r.
  Proof.
    intros Hin Hl Hp. unfold find_dec.
    destruct (find _ t) as [r'|] eqn:E.
    - apply find_some in E. destruct E as [Hin' Hpred].
      apply andb_true_iff in Hpred. destruct Hpred as [Hl' Hp']. apply Nat.eqb_eq in Hl'.
      unfold table_unamb in Hunamb. rewrite forallb_forall in Hunamb.
      specialize (Hunamb r' Hin'). rewrite forallb_forall in Hunamb. specialize (Hunamb r Hin).
      assert (Hc : rows_compatible r' r = true).
      { unfold rows_compatible. apply andb_true_iff. split.
        - apply Nat.eqb_eq. lia.
        - apply orb_true_iff. eapply is_prefix_comparable; eauto. }
      rewrite Hc in Hunamb. cbn [negb orb] in Hunamb. apply row_eqb_spec in Hunamb. subst. reflexivity.
    - exfalso. eapply find_none in E; [|exact Hin]. cbn beta in E.
      rewrite Hl, Nat.eqb_refl, Hp in E. discriminate.
  Qed.

  Lemma encode_prefix_and_length p tp s :
    base58_encode sha256 t p tp = Ok s ->
    exists r, In r t /\ tpre r = tp /\ plen r = length p /\
              length s = elen r /\ is_prefix tp s = true.
  Proof.
    intro H. apply encode_ok_inv in H. destruct H as [r [Hin [Ht [Hp ->]]]].
    exists r. repeat split; auto.
    - unfold b58check_enc. rewrite <- app_assoc.
      apply row_ok_enc; [apply row_ok_in, Hin | auto | apply checksum_length].
    - subst tp. unfold b58check_enc. rewrite <- app_assoc.
      apply row_ok_enc; [apply row_ok_in, Hin | auto | apply checksum_length].
  Qed.

  Lemma decode_encode p tp s :
    base58_encode sha256 t p tp = Ok s -> base58_decode sha256 t s = Ok p.
  Proof.
    intro H. pose proof (encode_prefix_and_length _ _ _ H) as [r0 [_ [_ [_ _]]]].
    apply encode_ok_inv in H. destruct H as [r [Hin [Ht [Hp Es]]]].
    assert (Hlp : length s = elen r /\ is_prefix (tpre r) s = true).
    { subst s. unfold b58check_enc. rewrite <- app_assoc.
      apply row_ok_enc; [apply row_ok_in, Hin | auto | apply checksum_length]. }
    destruct Hlp as [Hl Hpre].
    unfold base58_decode. rewrite (find_dec_unique r s Hin Hl Hpre).
    subst s. rewrite b58check_dec_enc, is_prefix_app, skipn_app_exact. reflexivity.
  Qed.

  (* ---- rejections ---- *)

  Lemma decode_reject_no_row s :
    (forall r, In r t -> length s <> elen r \/ is_prefix (tpre r) s = false) ->
    base58_decode sha256 t s = Reject.
  Proof.
    intro H. unfold base58_decode, find_dec.
    destruct (find _ t) as [r|] eqn:E; [|reflexivity].
    apply find_some in E. destruct E as [Hin Hpred].
    apply andb_true_iff in Hpred. destruct Hpred as [Hl Hp]. apply Nat.eqb_eq in Hl.
    destruct (H r Hin) as [Hn|Hn]; [contradiction | congruence].
  Qed.

  Lemma decode_reject_checksum s body chk :
    b58_dec s = Some (body ++ chk) -> length chk = 4%nat -> chk <> checksum sha256 body ->
    base58_decode sha256 t s = Reject.
  Proof.
    intros Hd Hc Hne. unfold base58_decode.
    destruct (find_dec t s) as [r|]; [|reflexivity].
    unfold b58check_dec. rewrite Hd, app_length, Hc.
    replace (length body + 4 - 4)%nat with (length body) by lia.
    rewrite firstn_app_exact, skipn_app_exact.
    destruct (bytes_eqb chk (checksum sha256 body)) eqn:E; [|reflexivity].
    apply bytes_eqb_spec in E. contradiction.
  Qed.

  Lemma decode_reject_bad_char s : b58_dec s = None -> base58_decode sha256 t s = Reject.
  Proof.
    intro H. unfold base58_decode, b58check_dec. rewrite H.
    destruct (find_dec t s); reflexivity.
  Qed.

  Lemma decode_reject_binary_prefix s r d :
    find_dec t s = Some r -> b58check_dec sha256 s = Some d -> is_prefix (bpre r) d = false ->
    base58_decode sha256 t s = Reject.
  Proof. intros Hf Hd Hp. unfold base58_decode. rewrite Hf, Hd, Hp. reflexivity. Qed.

  (* what an accepted string looks like *)
  Lemma decode_ok_inv s p :
    base58_decode sha256 t s = Ok p ->
    exists r, In r t /\ length s = elen r /\ is_prefix (tpre r) s = true /\
              b58check_dec sha256 s = Some (bpre r ++ p).
  Proof.
    unfold base58_decode. intro H.
    destruct (find_dec t s) as [r|] eqn:E; [|discriminate].
    destruct (b58check_dec sha256 s) as [d|] eqn:Ed; [|discriminate].
    destruct (is_prefix (bpre r) d) eqn:Ep; [|discriminate]. injection H as <-.
    unfold find_dec in E. apply find_some in E. destruct E as [Hin Hpred].
    apply andb_true_iff in Hpred. destruct Hpred as [Hl Hp]. apply Nat.eqb_eq in Hl.
    exists r. repeat split; auto.
    apply is_prefix_spec in Ep. destruct Ep as [q ->]. rewrite skipn_app_exact. reflexivity.
  Qed.

  (* unambiguity: a string valid for two rows of the table — the rows are the same *)
  Definition valid_for (r : row) (s : bytes) : Prop :=
    length s = elen r /\ is_prefix (tpre r) s = true /\
    exists d, b58check_dec sha256 s = Some d /\ is_prefix (bpre r) d = true.

  Lemma valid_unambiguous r1 r2 s :
    In r1 t -> In r2 t -> valid_for r1 s -> valid_for r2 s -> r1 = r2.
  Proof.
    intros H1 H2 [Hl1 [Hp1 _]] [Hl2 [Hp2 _]].
    pose proof (find_dec_unique r1 s H1 Hl1 Hp1) as E1.
    pose proof (find_dec_unique r2 s H2 Hl2 Hp2) as E2. congruence.
  Qed.

  Lemma decode_valid_iff s :
    (exists p, base58_decode sha256 t s = Ok p) <-> (exists r, In r t /\ valid_for r s).
  Proof.
    split.
    - intros [p H]. apply decode_ok_inv in H. destruct H as [r [Hin [Hl [Hp Hd]]]].
      exists r. split; [exact Hin|]. repeat split; auto.
      exists (bpre r ++ p). split; [exact Hd | apply is_prefix_app].
    - intros [r [Hin [Hl [Hp [d [Hd Hb]]]]]].
      unfold base58_decode. rewrite (find_dec_unique r s Hin Hl Hp), Hd, Hb. eexists. reflexivity.
  Qed.
End Table.

(* ========================================================================================== *)
(* closed forms used by Properties/C09.v and by the file generated from /repo's table          *)

Definition sha_ok (sha256 : bytes -> bytes) : Prop := forall x, length (sha256 x) = 32%nat.

Lemma table_ok_split t : table_ok t = true -> forallb row_ok t = true /\ table_unamb t = true.
Proof. unfold table_ok. intro H. apply andb_true_iff in H. exact H. Qed.

Lemma table43_ok : table_ok table43 = true.
Proof. vm_compute. reflexivity. Qed.

Lemma any_prefix_and_length sha256 t : sha_ok sha256 -> table_ok t = true ->
  forall p tp s, base58_encode sha256 t p tp = Ok s ->
  exists r, In r t /\ tpre r = tp /\ plen r = length p /\ length s = elen r /\ is_prefix tp s = true.
Proof.
  intros Hs Ht. apply table_ok_split in Ht. destruct Ht as [Hr Hu].
  intros p tp s. apply encode_prefix_and_length; assumption.
Qed.

Lemma any_roundtrip sha256 t : sha_ok sha256 -> table_ok t = true ->
  forall p tp s, base58_encode sha256 t p tp = Ok s -> base58_decode sha256 t s = Ok p.
Proof.
  intros Hs Ht. apply table_ok_split in Ht. destruct Ht as [Hr Hu].
  intros p tp s. apply decode_encode; assumption.
Qed.

Lemma any_rejects sha256 t :
  (forall s, (forall r, In r t -> length s <> elen r \/ is_prefix (tpre r) s = false) ->
             base58_decode sha256 t s = Reject) /\
  (forall s body chk, b58_dec s = Some (body ++ chk) -> length chk = 4%nat ->
             chk <> checksum sha256 body -> base58_decode sha256 t s = Reject) /\
  (forall s, b58_dec s = None -> base58_decode sha256 t s = Reject) /\
  (forall s r d, find_dec t s = Some r -> b58check_dec sha256 s = Some d ->
             is_prefix (bpre r) d = false -> base58_decode sha256 t s = Reject).
Proof.
  repeat split.
  - apply decode_reject_no_row.
  - apply decode_reject_checksum.
  - apply decode_reject_bad_char.
  - apply decode_reject_binary_prefix.
Qed.

Lemma any_unambiguous sha256 t : table_ok t = true ->
  forall r1 r2 s, In r1 t -> In r2 t -> valid_for sha256 r1 s -> valid_for sha256 r2 s -> r1 = r2.
Proof.
  intro Ht. apply table_ok_split in Ht. destruct Ht as [_ Hu].
  intros r1 r2 s. apply valid_unambiguous. exact Hu.
Qed.

Lemma any_decode_valid_iff sha256 t : table_ok t = true ->
  forall s, (exists p, base58_decode sha256 t s = Ok p) <-> (exists r, In r t /\ valid_for sha256 r s).
Proof.
  intro Ht. apply table_ok_split in Ht. destruct Ht as [_ Hu].
  intro s. apply decode_valid_iff. exact Hu.
Qed.

(* ========================================================================================== *)
(* the other direction: whatever b58_dec accepts is the encoding of what it returns            *)

Lemma chars_value_inv u : forall acc n, chars_value acc u = Some n ->
  exists L, u = map char_of_digit (rev L) /\ digits_ok 58 L /\ length L = length u /\
            n = (acc * 58 ^ N.of_nat (length L) + lsf_value 58 L)%N.
Proof.
  induction u as [|c u IH]; intros acc n H.
  - simpl in H. injection H as <-. exists []. repeat split; try constructor.
    cbn [length lsf_value]. change (N.of_nat 0) with 0%N. rewrite N.pow_0_r. lia.
  - cbn [chars_value] in H. destruct (digit_of_char c) as [d|] eqn:Ed; [|discriminate].
    destruct (IH _ _ H) as [L [Hu [Hok [Hlen Hn]]]].
    apply char_digit_roundtrip in Ed. destruct Ed as [Hd Hc].
    exists (L ++ [d]). repeat split.
    + rewrite rev_app_distr. cbn [rev app map]. rewrite Hc, Hu. reflexivity.
    + apply Forall_app. split; [exact Hok | constructor; [exact Hd | constructor]].
    + rewrite app_length. cbn [length]. lia.
    + rewrite Hn, (lsf_value_app 58), app_length by lia. cbn [length lsf_value].
      replace (length L + 1)%nat with (S (length L)) by lia.
      rewrite Nat2N.inj_succ, N.pow_succ_r'. lia.
Qed.

Lemma be_to_N_min_be f n : (n < 256 ^ N.of_nat f)%N -> be_to_N (min_be f n) = n.
Proof.
  intro Hf. unfold min_be. rewrite be_to_N_lsf, map_map.
  assert (E : map (fun x => Byte.to_N (b8 x)) (rev (lsf_digits 256 f n)) = rev (lsf_digits 256 f n)).
  { rewrite <- (map_id (rev (lsf_digits 256 f n))) at 2. apply map_ext_in.
    intros d Hd. apply in_rev in Hd. rewrite to_N_b8.
    pose proof (lsf_digits_ok 256 ltac:(lia) f n) as Hok. unfold digits_ok in Hok.
    rewrite Forall_forall in Hok. apply N.mod_small, Hok, Hd. }
  rewrite E, rev_involutive. apply lsf_value_digits; [lia | exact Hf].
Qed.

Lemma min_be_head f n : (n < 256 ^ N.of_nat f)%N ->
  match min_be f n with x00 :: _ => False | _ => True end.
Proof.
  intro Hf. unfold min_be.
  pose proof (lsf_digits_canon 256 ltac:(lia) f n Hf) as [Hok Hl].
  remember (lsf_digits 256 f n) as l eqn:El. clear El.
  induction l as [|d r _] using rev_ind; [exact I|].
  rewrite rev_app_distr. cbn [rev app map]. rewrite last_last in Hl.
  unfold digits_ok in Hok. apply Forall_app in Hok. destruct Hok as [_ Hd]. inversion Hd as [|? ? Hd' _]; subst.
  destruct (b8 d) eqn:E; try exact I.
  pose proof (to_N_b8 d) as Hb. rewrite E in Hb. rewrite N.mod_small in Hb by exact Hd'.
  simpl in Hb. congruence.
Qed.

Lemma lstrip_not_head c s : (match s with x :: _ => x <> c | [] => True end) -> lstrip c s = s.
Proof.
  destruct s as [|x s]; [reflexivity|]. intro H. simpl.
  destruct (byte_eqb x c) eqn:E; [apply byte_eqb_spec in E; contradiction | reflexivity].
Qed.

Lemma length_lstrip_le c v : (length (lstrip c v) <= length v)%nat.
Proof. induction v as [|y v IHv]; simpl; [lia|]. destruct (byte_eqb y c); simpl; lia. Qed.

Theorem b58_enc_dec s d : b58_dec s = Some d -> b58_enc d = rstrip_ws s.
Proof.
  unfold b58_dec. set (v := rstrip_ws s). set (u := lstrip one_char v).
  destruct (chars_value 0 u) as [n|] eqn:En; [|discriminate]. intro H. injection H as <-.
  destruct (chars_value_inv u 0 n En) as [L [Hu [Hok [Hlen Hn]]]].
  rewrite N.mul_0_l, N.add_0_l in Hn.
  assert (Hn58 : (n < 58 ^ N.of_nat (length u))%N).
  { rewrite Hn, <- Hlen. apply lsf_value_lt; [lia | exact Hok]. }
  assert (Hn256 : (n < 256 ^ N.of_nat (length u))%N).
  { eapply N.lt_le_trans; [exact Hn58 | apply pow58_le_pow256]. }
  set (z := (length v - length u)%nat).
  unfold b58_enc.
  assert (Hbody : lstrip x00 (repeat x00 z ++ min_be (length u) n) = min_be (length u) n).
  { apply lstrip_repeat. pose proof (min_be_head (length u) n Hn256) as Hh.
    destruct (min_be (length u) n) as [|x b]; [exact I|]. intro E. subst x. exact Hh. }
  rewrite Hbody, app_length, repeat_length.
  replace (z + length (min_be (length u) n) - length (min_be (length u) n))%nat with z by lia.
  rewrite be_to_N_min_be by exact Hn256.
  (* the digits of n are the characters of u *)
  assert (Hcanon : canon 58 L).
  { split; [exact Hok|].
    destruct L as [|d0 L0] using rev_ind; [simpl; discriminate|]. clear IHL0.
    rewrite last_last. intro Hz. subst d0.
    rewrite rev_app_distr in Hu. cbn [rev app map] in Hu.
    pose proof (lstrip_head one_char v) as Hh. fold u in Hh. rewrite Hu in Hh.
    apply Hh. vm_compute. reflexivity. }
  set (f := (2 * length (min_be (length u) n))%nat).
  assert (Hf : (n < 58 ^ N.of_nat f)%N).
  { unfold f. eapply N.lt_le_trans; [|apply pow256_le_pow58].
    rewrite <- (be_to_N_min_be (length u) n Hn256) at 1. apply be_to_N_lt. }
  assert (Hd : lsf_digits 58 f n = L).
  { apply (canon_unique 58 ltac:(lia)).
    - apply lsf_digits_canon; [lia | exact Hf].
    - exact Hcanon.
    - rewrite lsf_value_digits by (try lia; exact Hf). exact Hn. }
  unfold b58_of_N. fold f. rewrite Hd, <- Hu.
  unfold z, u. symmetry. apply lstrip_decompose.
Qed.

(* ========================================================================================== *)
(* exactness: base58_decode accepts only the canonical encodings of right-length payloads      *)

Lemma b58check_dec_inv sha256 s body :
  b58check_dec sha256 s = Some body -> rstrip_ws s = b58check_enc sha256 body.
Proof.
  unfold b58check_dec. destruct (b58_dec s) as [d|] eqn:Ed; [|discriminate].
  destruct (bytes_eqb (skipn (length d - 4) d) (checksum sha256 (firstn (length d - 4) d))) eqn:E; [|discriminate].
  intro H. injection H as <-. apply bytes_eqb_spec in E.
  unfold b58check_enc. rewrite <- E, firstn_skipn. symmetry. apply b58_enc_dec, Ed.
Qed.

Lemma length_b58_of_N_bounds f n : (n < 58 ^ N.of_nat f)%N -> (0 < n)%N ->
  (58 ^ N.of_nat (length (b58_of_N f n) - 1) <= n < 58 ^ N.of_nat (length (b58_of_N f n)))%N.
Proof.
  intros Hf Hn. unfold b58_of_N. rewrite map_length, rev_length.
  pose proof (lsf_digits_canon 58 ltac:(lia) f n Hf) as Hc.
  pose proof (lsf_value_digits 58 ltac:(lia) f n Hf) as Hv.
  split.
  - rewrite <- Hv at 2. apply canon_lower; [lia | exact Hc |].
    intro E. rewrite E in Hv. simpl in Hv. lia.
  - rewrite <- Hv at 1. apply lsf_value_lt; [lia | apply Hc].
Qed.

(* the byte length of anything that encodes to [elen r] characters under [bpre r] is [plen r + 4] *)
Lemma row_ok_length_inv r q :
  row_ok r = true -> length (b58_enc (bpre r ++ q)) = elen r -> length q = (plen r + 4)%nat.
Proof.
  intros Hok HL. unfold row_ok in Hok.
  destruct (tpre_value r) as [T|] eqn:ET; [|discriminate].
  repeat (apply andb_true_iff in Hok; destruct Hok as [Hok ?]).
  rename H into Hhi, H0 into Hlo, H1 into Hb0, H2 into Htp, H3 into HTk, H4 into HT0, Hok into Hk.
  apply Nat.leb_le in Hk. apply N.ltb_lt in HT0, HTk. apply N.leb_le in Hlo, Hhi.
  apply bytes_eqb_spec in Htp.
  set (k := length (tpre r)) in *. set (j := (elen r - k)%nat) in *.
  set (b := be_to_N (bpre r)) in *.
  set (m0 := (plen r + 4)%nat) in *.
  (* T has exactly k digits *)
  assert (HTlow : (58 ^ N.of_nat (k - 1) <= T)%N).
  { pose proof (length_b58_of_N_bounds k T HTk HT0) as [Hl _]. rewrite Htp in Hl. exact Hl. }
  assert (Hk1 : (1 <= k)%nat).
  { destruct (tpre r) eqn:E; [|simpl in k; subst k; simpl; lia].
    unfold b58_of_N in Htp. simpl in k. subst k. simpl in HTk. lia. }
  set (Lc := elen r) in *.
  assert (HLkj : Lc = (k + j)%nat) by (unfold j; lia).
  (* 58^(L-1) <= b 256^m0  and  (b+1) 256^m0 <= 58^L *)
  assert (Hlow : (58 ^ N.of_nat (Lc - 1) <= b * 256 ^ N.of_nat m0)%N).
  { eapply N.le_trans; [|exact Hlo].
    replace (Lc - 1)%nat with ((k - 1) + j)%nat by lia.
    rewrite Nat2N.inj_add, N.pow_add_r. apply N.mul_le_mono_r. exact HTlow. }
  assert (Hhigh : ((b + 1) * 256 ^ N.of_nat m0 <= 58 ^ N.of_nat Lc)%N).
  { eapply N.le_trans; [exact Hhi|].
    rewrite HLkj, Nat2N.inj_add, N.pow_add_r. apply N.mul_le_mono_r. lia. }
  (* the number that was encoded *)
  set (v := bpre r ++ q) in *.
  assert (Hstrip : lstrip x00 v = v).
  { unfold v. destruct (bpre r) as [|b0 bs]; [discriminate|].
    cbn [app lstrip]. destruct b0; try reflexivity. discriminate. }
  unfold b58_enc in HL. rewrite Hstrip, Nat.sub_diag in HL. cbn [repeat app] in HL.
  set (n := be_to_N v) in *.
  assert (Hf : (n < 58 ^ N.of_nat (2 * length v))%N).
  { unfold n. eapply N.lt_le_trans; [apply be_to_N_lt | apply pow256_le_pow58]. }
  set (m := length q).
  assert (En : n = (b * 256 ^ N.of_nat m + be_to_N q)%N) by (unfold n, v; apply be_to_N_app).
  assert (Hq : (be_to_N q < 256 ^ N.of_nat m)%N) by apply be_to_N_lt.
  assert (Hb1 : (1 <= b)%N).
  { unfold b. destruct (bpre r) as [|b0 bs]; [discriminate|].
    change (b0 :: bs) with ([b0] ++ bs). rewrite be_to_N_app.
    assert (1 <= be_to_N [b0])%N.
    { unfold be_to_N. cbn [be_to_N_acc]. destruct b0; try (simpl; lia); try discriminate. }
    pose proof (pow_pos_B 256 ltac:(lia) (N.of_nat (length bs))). nia. }
  assert (Hnpos : (0 < n)%N).
  { rewrite En. pose proof (pow_pos_B 256 ltac:(lia) (N.of_nat m)). nia. }
  pose proof (length_b58_of_N_bounds _ n Hf Hnpos) as [Hn1 Hn2]. rewrite HL in Hn1, Hn2.
  destruct (Nat.lt_trichotomy m m0) as [Hlt | [Heq | Hgt]]; [|exact Heq|]; exfalso.
  - (* too short: n < (b+1) 256^m <= (b+1) 256^(m0-1) < 58^(L-1) *)
    assert (H1 : (256 ^ N.of_nat m * 256 <= 256 ^ N.of_nat m0)%N).
    { rewrite N.mul_comm, <- N.pow_succ_r', <- Nat2N.inj_succ. apply N.pow_le_mono_r; lia. }
    assert (HL1 : (1 <= Lc)%nat) by lia.
    assert (H58 : (58 ^ N.of_nat Lc = 58 * 58 ^ N.of_nat (Lc - 1))%N).
    { rewrite <- N.pow_succ_r', <- Nat2N.inj_succ. f_equal. lia. }
    nia.
  - (* too long: n >= b 256^m >= 256 b 256^m0 >= 256 58^(L-1) >= 58^L *)
    assert (H1 : (256 ^ N.of_nat m0 * 256 <= 256 ^ N.of_nat m)%N).
    { rewrite N.mul_comm, <- N.pow_succ_r', <- Nat2N.inj_succ. apply N.pow_le_mono_r; lia. }
    assert (HL1 : (1 <= Lc)%nat) by lia.
    assert (H58 : (58 ^ N.of_nat Lc = 58 * 58 ^ N.of_nat (Lc - 1))%N).
    { rewrite <- N.pow_succ_r', <- Nat2N.inj_succ. f_equal. lia. }
    nia.
Qed.

Section Exact.
  Variable sha256 : bytes -> bytes.
  Hypothesis sha256_len : forall x, length (sha256 x) = 32%nat.
  Variable t : list row.
  Hypothesis Hrows : forallb row_ok t = true.
  Hypothesis Hunamb : table_unamb t = true.

  Lemma decode_of_enc r p :
    In r t -> length p = plen r -> base58_decode sha256 t (b58check_enc sha256 (bpre r ++ p)) = Ok p.
  Proof.
    intros Hin Hp.
    assert (Hlp : length (b58check_enc sha256 (bpre r ++ p)) = elen r /\
                  is_prefix (tpre r) (b58check_enc sha256 (bpre r ++ p)) = true).
    { unfold b58check_enc. rewrite <- app_assoc.
      apply row_ok_enc; [apply (row_ok_in t Hrows), Hin | exact Hp | apply checksum_length, sha256_len]. }
    destruct Hlp as [Hl Hpre]. unfold base58_decode.
    rewrite (find_dec_unique t Hunamb r _ Hin Hl Hpre).
    rewrite (b58check_dec_enc sha256 sha256_len), is_prefix_app, skipn_app_exact. reflexivity.
  Qed.

  (* a string without trailing whitespace is accepted only if it is the encoding, under a row of
     the table, of a payload of that row's length — and then that payload is returned *)
  Lemma decode_exact s p :
    rstrip_ws s = s -> base58_decode sha256 t s = Ok p ->
    exists r, In r t /\ length p = plen r /\ s = b58check_enc sha256 (bpre r ++ p).
  Proof.
    intros Hws H. apply decode_ok_inv in H. destruct H as [r [Hin [Hl [Hpre Hd]]]].
    apply b58check_dec_inv in Hd. rewrite Hws in Hd.
    exists r. split; [exact Hin|]. split; [|exact Hd].
    rewrite Hd in Hl. unfold b58check_enc in Hl. rewrite <- app_assoc in Hl.
    apply row_ok_length_inv in Hl; [|apply (row_ok_in t Hrows), Hin].
    rewrite app_length, (checksum_length sha256 sha256_len) in Hl. lia.
  Qed.

  Lemma decode_iff s p :
    rstrip_ws s = s ->
    (base58_decode sha256 t s = Ok p <->
     exists r, In r t /\ length p = plen r /\ s = b58check_enc sha256 (bpre r ++ p)).
  Proof.
    intro Hws. split; [apply decode_exact, Hws|].
    intros [r [Hin [Hp ->]]]. apply decode_of_enc; assumption.
  Qed.

  (* consequently: two different strings never decode to the same (row, payload), and a changed
     string is either rejected or is itself the valid encoding of what it decodes to *)
  Lemma encodings_have_no_ws r p : rstrip_ws (b58check_enc sha256 (bpre r ++ p)) = b58check_enc sha256 (bpre r ++ p).
  Proof.
    unfold b58check_enc. pose proof (b58_dec_enc ((bpre r ++ p) ++ checksum sha256 (bpre r ++ p))) as H.
    apply b58_enc_dec in H. symmetry. exact H.
  Qed.
End Exact.

Lemma any_decode_iff sha256 t : sha_ok sha256 -> table_ok t = true ->
  forall s p, rstrip_ws s = s ->
  (base58_decode sha256 t s = Ok p <->
   exists r, In r t /\ length p = plen r /\ s = b58check_enc sha256 (bpre r ++ p)).
Proof.
  intros Hs Ht. apply table_ok_split in Ht. destruct Ht as [Hr Hu].
  intros s p. apply decode_iff; assumption.
Qed.

(* ========================================================================================== *)
(* trailing whitespace (stripped by the base58 package) never yields an accepted string        *)

Lemma in_pows B n : forall acc i, (i < n)%nat -> In (acc * B ^ N.of_nat i)%N (pows B n acc).
Proof.
  induction n as [|n IH]; intros acc i Hi; [lia|].
  cbn [pows]. destruct i as [|i].
  - left. change (N.of_nat 0) with 0%N. rewrite N.pow_0_r. lia.
  - right. specialize (IH (acc * B)%N i ltac:(lia)).
    rewrite Nat2N.inj_succ, N.pow_succ_r'.
    replace (acc * (B * B ^ N.of_nat i))%N with (acc * B * B ^ N.of_nat i)%N by lia. exact IH.
Qed.

Lemma rstrip_ws_decomp s : exists w, s = rstrip_ws s ++ w.
Proof.
  induction s as [|c s [w IH]].
  - exists []. reflexivity.
  - cbn [rstrip_ws]. destruct (rstrip_ws s) as [|x l] eqn:E.
    + destruct (ws_byte c).
      * exists (c :: s). reflexivity.
      * exists s. reflexivity.
    + exists w. rewrite IH at 1. reflexivity.
Qed.

Lemma rstrip_ws_app_nows a b :
  Forall (fun c => ws_byte c = false) a -> rstrip_ws (a ++ b) = a ++ rstrip_ws b.
Proof.
  induction 1 as [|c a Hc Ha IH]; [reflexivity|].
  cbn [app rstrip_ws]. rewrite IH.
  destruct (a ++ rstrip_ws b) as [|x l] eqn:E; [|reflexivity].
  rewrite Hc. reflexivity.
Qed.

Lemma row_ws_no_ws r s q :
  row_ok r = true -> row_ws_ok r = true ->
  length s = elen r -> is_prefix (tpre r) s = true ->
  rstrip_ws s = b58_enc (bpre r ++ q) -> rstrip_ws s = s.
Proof.
  intros Hok Hws HL Hpre Hv.
  destruct (rstrip_ws_decomp s) as [w Hs].
  destruct w as [|w0 w]; [rewrite app_nil_r in Hs; symmetry; exact Hs|]. exfalso.
  unfold row_ok in Hok. unfold row_ws_ok in Hws.
  destruct (tpre_value r) as [T|] eqn:ET; [|discriminate].
  repeat (apply andb_true_iff in Hok; destruct Hok as [Hok ?]).
  rename H into Hhi, H0 into Hlo, H1 into Hb0, H2 into Htp, H3 into HTk, H4 into HT0, Hok into Hk.
  apply Nat.leb_le in Hk. apply N.ltb_lt in HT0, HTk. apply N.leb_le in Hlo, Hhi.
  apply bytes_eqb_spec in Htp.
  set (k := length (tpre r)) in *. set (j := (elen r - k)%nat) in *.
  set (b := be_to_N (bpre r)) in *. set (m0 := (plen r + 4)%nat) in *.
  (* shape of the stripped string *)
  apply is_prefix_spec in Hpre. destruct Hpre as [rest Hrest].
  assert (Hnows : Forall (fun c => ws_byte c = false) (tpre r)) by (rewrite <- Htp; apply b58_of_N_chars).
  assert (Ev : rstrip_ws s = tpre r ++ rstrip_ws rest) by (rewrite Hrest; apply rstrip_ws_app_nows, Hnows).
  set (w' := rstrip_ws rest) in *.
  assert (Hj' : (length w' < j)%nat).
  { pose proof (f_equal (@length byte) Hs) as E1. rewrite app_length, Ev, app_length in E1.
    cbn [length] in E1. fold k in E1. unfold j. lia. }
  (* the number *)
  set (v := bpre r ++ q) in *.
  assert (Hstrip : lstrip x00 v = v).
  { unfold v. destruct (bpre r) as [|b0 bs]; [discriminate|].
    cbn [app lstrip]. destruct b0; try reflexivity. discriminate. }
  unfold b58_enc in Hv. rewrite Hstrip, Nat.sub_diag in Hv. cbn [repeat app] in Hv.
  set (n := be_to_N v) in *.
  assert (Hf : (n < 58 ^ N.of_nat (2 * length v))%N).
  { unfold n. eapply N.lt_le_trans; [apply be_to_N_lt | apply pow256_le_pow58]. }
  assert (Hval : chars_value 0 (rstrip_ws s) = Some n).
  { rewrite Hv. unfold b58_of_N. rewrite chars_value_digits by (apply lsf_digits_ok; lia).
    rewrite lsf_value_digits by (try lia; exact Hf). f_equal; lia. }
  rewrite Ev, chars_value_app in Hval. unfold tpre_value in ET. rewrite ET in Hval.
  destruct (chars_value_inv w' T n Hval) as [L [_ [HLok [HLlen Hn]]]].
  pose proof (lsf_value_lt 58 ltac:(lia) L HLok) as HLv.
  rewrite HLlen in Hn, HLv.
  set (j' := length w') in *.
  set (m := length q).
  assert (En : n = (b * 256 ^ N.of_nat m + be_to_N q)%N) by (unfold n, v; apply be_to_N_app).
  assert (Hq : (be_to_N q < 256 ^ N.of_nat m)%N) by apply be_to_N_lt.
  pose proof (pow_pos_B 58 ltac:(lia) (N.of_nat j')) as HP.
  destruct (Nat.lt_ge_cases m m0) as [Hlt | Hge].
  - (* shorter body: excluded by the computed disjointness *)
    rewrite forallb_forall in Hws.
    specialize (Hws ((b * (1 * 256 ^ N.of_nat m))%N, ((b + 1) * (1 * 256 ^ N.of_nat m))%N)).
    assert (Hin1 : In ((b * (1 * 256 ^ N.of_nat m))%N, ((b + 1) * (1 * 256 ^ N.of_nat m))%N)
                      (map (fun P => ((b * P)%N, ((b + 1) * P)%N)) (pows 256 m0 1))).
    { apply in_map_iff. exists (1 * 256 ^ N.of_nat m)%N. split; [reflexivity | apply in_pows, Hlt]. }
    specialize (Hws Hin1). rewrite forallb_forall in Hws.
    specialize (Hws ((T * (1 * 58 ^ N.of_nat j'))%N, ((T + 1) * (1 * 58 ^ N.of_nat j'))%N)).
    assert (Hin2 : In ((T * (1 * 58 ^ N.of_nat j'))%N, ((T + 1) * (1 * 58 ^ N.of_nat j'))%N)
                      (map (fun P => ((T * P)%N, ((T + 1) * P)%N)) (pows 58 j 1))).
    { apply in_map_iff. exists (1 * 58 ^ N.of_nat j')%N. split; [reflexivity | apply in_pows, Hj']. }
    specialize (Hws Hin2). cbn [fst snd] in Hws. rewrite !N.mul_1_l in Hws.
    apply negb_true_iff, andb_false_iff in Hws.
    destruct Hws as [Hc | Hc]; apply N.ltb_ge in Hc; nia.
  - (* body at least as long as the row's: the number is too big for fewer digits *)
    assert (H1 : (256 ^ N.of_nat m0 <= 256 ^ N.of_nat m)%N) by (apply N.pow_le_mono_r; lia).
    assert (H2 : (58 * 58 ^ N.of_nat j' <= 58 ^ N.of_nat j)%N).
    { rewrite <- N.pow_succ_r', <- Nat2N.inj_succ. apply N.pow_le_mono_r; lia. }
    nia.
Qed.

Section ExactAll.
  Variable sha256 : bytes -> bytes.
  Hypothesis sha256_len : forall x, length (sha256 x) = 32%nat.
  Variable t : list row.
  Hypothesis Hrows : forallb row_ok t = true.
  Hypothesis Hunamb : table_unamb t = true.
  Hypothesis Hws : table_ws_ok t = true.

  (* "s is the encoding of payload p under row r of the table" *)
  Definition encodes (r : row) (p s : bytes) : Prop :=
    In r t /\ length p = plen r /\ s = b58check_enc sha256 (bpre r ++ p).

  Lemma decode_exact_all s p :
    base58_decode sha256 t s = Ok p -> exists r, encodes r p s.
  Proof.
    intro H. pose proof H as H0. apply decode_ok_inv in H0. destruct H0 as [r [Hin [Hl [Hpre Hd]]]].
    apply b58check_dec_inv in Hd.
    assert (Hnows : rstrip_ws s = s).
    { unfold b58check_enc in Hd. rewrite <- app_assoc in Hd.
      eapply row_ws_no_ws; [apply (row_ok_in t Hrows), Hin | | exact Hl | exact Hpre | exact Hd].
      unfold table_ws_ok in Hws. rewrite forallb_forall in Hws. apply Hws, Hin. }
    apply (decode_exact sha256 sha256_len t Hrows s p Hnows H).
  Qed.

  Lemma decode_iff_all s p : base58_decode sha256 t s = Ok p <-> exists r, encodes r p s.
  Proof.
    split; [apply decode_exact_all|].
    intros [r [Hin [Hp ->]]]. apply decode_of_enc; assumption.
  Qed.

  Lemma encodes_shape r p s : encodes r p s -> length s = elen r /\ is_prefix (tpre r) s = true.
  Proof.
    intros [Hin [Hp ->]]. unfold b58check_enc. rewrite <- app_assoc.
    apply row_ok_enc; [apply (row_ok_in t Hrows), Hin | exact Hp | apply checksum_length, sha256_len].
  Qed.

  (* one string, one kind, one payload *)
  Lemma encodes_unique r1 p1 r2 p2 s : encodes r1 p1 s -> encodes r2 p2 s -> r1 = r2 /\ p1 = p2.
  Proof.
    intros H1 H2.
    destruct (encodes_shape _ _ _ H1) as [Hl1 Hp1]. destruct (encodes_shape _ _ _ H2) as [Hl2 Hp2].
    assert (Hr : r1 = r2).
    { pose proof (find_dec_unique t Hunamb r1 s (proj1 H1) Hl1 Hp1) as E1.
      pose proof (find_dec_unique t Hunamb r2 s (proj1 H2) Hl2 Hp2) as E2. congruence. }
    split; [exact Hr|].
    assert (D1 : base58_decode sha256 t s = Ok p1) by (apply decode_iff_all; exists r1; exact H1).
    assert (D2 : base58_decode sha256 t s = Ok p2) by (apply decode_iff_all; exists r2; exact H2).
    congruence.
  Qed.

  (* the validators: true exactly on the valid encodings of the listed kinds *)
  Lemma validate_iff prefixes s :
    validate sha256 t prefixes s = true <-> exists r p, encodes r p s /\ In (tpre r) prefixes.
  Proof.
    unfold validate. split.
    - destruct (find_dec t s) as [r'|] eqn:Ef; [|discriminate].
      destruct (existsb (bytes_eqb (tpre r')) prefixes) eqn:Ee; [|discriminate].
      destruct (base58_decode sha256 t s) as [p|] eqn:Ed; [|discriminate]. intros _.
      destruct (decode_exact_all s p Ed) as [r Hr].
      destruct (encodes_shape _ _ _ Hr) as [Hl Hp].
      pose proof (find_dec_unique t Hunamb r s (proj1 Hr) Hl Hp) as E. rewrite Ef in E. injection E as ->.
      exists r, p. split; [exact Hr|].
      apply existsb_exists in Ee. destruct Ee as [x [Hx Hxe]]. apply bytes_eqb_spec in Hxe. subst. exact Hx.
    - intros [r [p [Hr Hin]]].
      destruct (encodes_shape _ _ _ Hr) as [Hl Hp].
      rewrite (find_dec_unique t Hunamb r s (proj1 Hr) Hl Hp).
      assert (Ee : existsb (bytes_eqb (tpre r)) prefixes = true).
      { apply existsb_exists. exists (tpre r). split; [exact Hin | apply bytes_eqb_spec; reflexivity]. }
      rewrite Ee. assert (D : base58_decode sha256 t s = Ok p) by (apply decode_iff_all; exists r; exact Hr).
      rewrite D. reflexivity.
  Qed.
End ExactAll.

Definition table_full_ok (t : list row) : bool := table_ok t && table_ws_ok t.

Lemma table43_full_ok : table_full_ok table43 = true.
Proof. vm_compute. reflexivity. Qed.

Lemma table_full_split t : table_full_ok t = true ->
  forallb row_ok t = true /\ table_unamb t = true /\ table_ws_ok t = true.
Proof.
  unfold table_full_ok. intro H. apply andb_true_iff in H. destruct H as [H1 H2].
  apply table_ok_split in H1. tauto.
Qed.

Lemma any_decode_iff_all sha256 t : sha_ok sha256 -> table_full_ok t = true ->
  forall s p, base58_decode sha256 t s = Ok p <-> exists r, encodes sha256 t r p s.
Proof.
  intros Hs Ht. apply table_full_split in Ht. destruct Ht as [Hr [Hu Hw]].
  intros s p. apply decode_iff_all; assumption.
Qed.

Lemma any_encodes_unique sha256 t : sha_ok sha256 -> table_full_ok t = true ->
  forall r1 p1 r2 p2 s, encodes sha256 t r1 p1 s -> encodes sha256 t r2 p2 s -> r1 = r2 /\ p1 = p2.
Proof.
  intros Hs Ht. apply table_full_split in Ht. destruct Ht as [Hr [Hu Hw]].
  intros r1 p1 r2 p2 s. apply encodes_unique; assumption.
Qed.

Lemma any_validate_iff sha256 t : sha_ok sha256 -> table_full_ok t = true ->
  forall prefixes s,
  validate sha256 t prefixes s = true <-> exists r p, encodes sha256 t r p s /\ In (tpre r) prefixes.
Proof.
  intros Hs Ht. apply table_full_split in Ht. destruct Ht as [Hr [Hu Hw]].
  intros prefixes s. apply validate_iff; assumption.
Qed.
